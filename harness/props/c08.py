"""C08 — a fixed-weight backtest reproduces the documented trading rules exactly."""
from fractions import Fraction

from ..engine import Prop, Judgement
from ..numcmp import close, fr
from .. import sesslib as sl

DAY = 86400


class C08(Prop):
    pid = 'C08'
    worker = 'sessworker'
    cross_limit = 8
    rule = ('real BacktestTradingSession runs with FixedSignalsAlphaModel on fully quoted synthetic markets (1-4 assets, dyadic random '
            'walks and float walks), non-negative weights with the long-only sizer and signed weights with the long/short sizer, '
            'weekly on any weekday / daily / end-of-month / buy-and-hold, buffers, leverages, zero and percentage fees, initial cash, '
            'start/end dates, optional burn-in; compared with the independent Spec simulator (the property) and with the session model; '
            'non-trivial = at least one fill; distinct = hash of the configuration')

    def gen(self, rng, tier):
        n = 160 if tier == 'quick' else 2500
        return [sl.gen_session(rng, tier, fixed_only=True, all_quoted=True, allow_dynamic=False,
                               max_days=(45 if tier == 'quick' else 400)) for _ in range(n)]

    def model_case(self, c):
        s = sl.session_model_case(c)
        p = sl.spec_model_case(c)
        return ('multi', [[s[0], s[1]], [p[0], p[1]]])

    def judge(self, c, impl, mod):
        j = Judgement()
        j.key = hash(repr(c['cfg']))
        msess, mspec = mod
        sl.compare_session(c, impl, msess, j)
        F = j.failures
        if impl['init'][0] != 'ok':
            return j
        if j.knife:
            return j
        tol = Fraction(1, 10**9) * Fraction(sl.sess_scale(c))
        if mspec[0] != 'ok':
            if impl['error'] is None:
                F.append('the documented rules cannot be applied (a needed price is missing / a weight is negative) but the session ran')
            return j
        if impl['error'] is not None:
            F.append('session failed with %s at %s although the documented rules apply' % tuple(impl['error']))
            return j
        _, cash, hold, pending, days = mspec
        sf = [f for d in days for f in d[0]]
        if len(sf) != len(impl['fills']):
            # a sizing knife edge can only have been detected through the session-model comparison
            F.append('session made %d fills, the documented rules give %d' % (len(impl['fills']), len(sf)))
        else:
            for k, (a, b) in enumerate(zip(sf, impl['fills'])):
                # spec: [t, asset, q, price, comm]; impl: [t, asset, qty, price, comm]
                if a[0] != b[0] or a[1] != b[1] or a[2] != fr(b[2]) or not close(a[3], b[3], tol) or not close(a[4], b[4], tol):
                    F.append('fill #%d is %s, the documented rules give %s' % (k, b, [a[0], a[1], a[2], float(a[3]), float(a[4])]))
                    break
            if sf:
                j.nontrivial = True
        se = [d[1][0] for d in days if d[1]]
        if [t for t, _ in se] != [t for t, _ in impl['equity']]:
            F.append('equity dates %s..., documented rules %s...' % ([t for t, _ in impl['equity']][:3], [t for t, _ in se][:3]))
        else:
            for (t, x), (_, y) in zip(se, impl['equity']):
                if not close(x, y, tol):
                    F.append('equity at %d is %s, cash + holdings at the close per the rules = %s' % (t, y, float(x)))
                    break
        if not close(cash, impl['cash'], tol):
            F.append('final cash %s, documented rules give %s' % (impl['cash'], float(cash)))
        if sorted((a, q) for a, q in hold) != sorted((a, int(q)) for a, q in impl['holdings']):
            F.append('final holdings %s, documented rules give %s' % (impl['holdings'], hold))
        return j

    def shrink_candidates(self, c):
        cfg = c['cfg']
        for cut in (100, 30, 10, 3, 1):
            if cfg['end'] - cut * DAY > cfg['start']:
                d = dict(c); d['cfg'] = dict(cfg, end=cfg['end'] - cut * DAY)
                yield d
        if cfg.get('burn') is not None:
            d = dict(c); d['cfg'] = dict(cfg, burn=None)
            yield d
        if cfg['fee'][0] != 'zero':
            d = dict(c); d['cfg'] = dict(cfg, fee=['zero'])
            yield d
        w = cfg['alpha'][1]
        for i in range(len(w)):
            if len(w) > 1:
                d = dict(c); d['cfg'] = dict(cfg, alpha=['fixed', w[:i] + w[i + 1:]])
                yield d

    def neighbours(self, c, rng):
        return [sl.gen_session(rng, 'quick', fixed_only=True, allow_dynamic=False) for _ in range(24)]

    def matches_known(self, k, case, text):
        return False


PROP = C08()
