"""C08 — a fixed-weight backtest reproduces the documented trading rules exactly."""
from fractions import Fraction

from ..engine import Prop, Judgement
from ..numcmp import close, fr
from .. import sesslib as sl
from .c07 import csv_market, table_of_csv

DAY = 86400


class C08(Prop):
    pid = 'C08'
    worker = 'sessworker'
    cross_limit = 8
    rule = ('real BacktestTradingSession runs with FixedSignalsAlphaModel on fully quoted synthetic markets (1-4 assets, dyadic random '
            'walks and float walks), non-negative weights with the long-only sizer and signed weights with the long/short sizer, '
            'weekly on any weekday / daily / end-of-month / buy-and-hold, buffers, leverages, zero and percentage fees, initial cash, '
            'start/end dates, optional burn-in; compared with the independent Spec simulator (the property) and with the session model; '
            'plus sessions with every alpha model (fixed, universe-driven, top-N momentum, SMA trend; static and dynamic universes) '
            'compared with the rules simulator driven by the allocation rows the session itself recorded; '
            'non-trivial = at least one fill; distinct = hash of the configuration')

    def gen(self, rng, tier):
        n = 260 if tier == 'quick' else 1500
        out = [sl.gen_session(rng, tier, fixed_only=True, all_quoted=True, allow_dynamic=False,
                              max_days=(45 if tier == 'quick' else 400)) for _ in range(n)]
        # every alpha model, static and dynamic universes: the rules driven by the recorded allocation rows
        for _ in range(n // 2):
            if rng.random() < 0.2:
                c = sl.gen_timed_session(rng, tier, max_days=(35 if tier == 'quick' else 200))     # weights (and their key set) changing with time
            else:
                c = sl.gen_session(rng, tier, all_quoted=True, max_days=(35 if tier == 'quick' else 200))
            c['stream'] += ':rows'
            c['any_alpha'] = True
            out.append(c)
        # a third of all sessions read their prices from (possibly back-adjusted) CSV files through the real data source
        for c in out:
            if rng.random() < 0.33:
                cfg = c['cfg']
                holes = None
                inner = sl.bdays_between(cfg['start'] // DAY + 1, cfg['end'] // DAY - 1)
                if len(inner) > 12 and rng.random() < 0.35:
                    # one asset is suspended for more than a week (its last close stays its price)
                    k0 = rng.randint(0, len(inner) - 9)
                    holes = {rng.choice(c['assets']): set(inner[k0:k0 + rng.randint(7, 9)])}
                c['market'] = csv_market(rng, c['assets'], cfg['start'] // DAY, cfg['end'] // DAY, c['exact'], None, holes)
                c['stream'] += ':csv' + (':adjusted' if c['market']['adjust'] else '') + (':suspension' if holes else '')
                if c['market']['adjust'] and c['cfg'].get('lookbacks') is None and rng.random() < 0.6:
                    c['default_handler'] = True         # data_handler=None: built by the session from QSTRADER_CSV_DATA_DIR
                    c['stream'] += ':default-handler'
                    if rng.random() < 0.4:
                        c['default_handler'] = 'cwd'    # ... or, with the variable unset, from the current directory
                        c['stream'] += ':cwd'
                elif rng.random() < 0.3:
                    # a second vendor quoting every asset 50 % higher is listed AFTER the first one: sizing (ask), fills and marks
                    # (bid) all use the first vendor's figures
                    c['market'] = dict(c['market'], backup=dict((n_, [[r_[0]] + [None if v_ is None else v_ * 1.5 for v_ in r_[1:]] for r_ in rows_])
                                                                for n_, rows_ in c['market']['assets'].items()))
                    c['stream'] += ':second-vendor-listed-after'
        return out

    @staticmethod
    def tabled(c):
        if c['market']['kind'] == 'csv':
            c2 = dict(c)
            c2['market'] = {'kind': 'table', 'rows': table_of_csv(c)}
            return c2
        return c

    NOP = ['num', ['floor', Fraction(0)]]

    def rows_case(self, c, impl):
        cfg = c['cfg']
        r = cfg['rebal']
        rows = [[[k, Fraction(v)] for k, v in row] for _, row in impl['allocs']]
        return ['spec_rows', [int(cfg['start']), int(cfg['end']), Fraction(cfg['cash']),
                              (['weekly', r[1]] if r[0] == 'weekly' else [r[0]]), bool(cfg['long_only']), Fraction(cfg['param']),
                              sl.bl.fee_val(cfg['fee']), ([] if cfg.get('burn') is None else [int(cfg['burn'])]),
                              rows, sl.market_val(c['market'])]]

    def model_case2(self, c, impl):
        c = self.tabled(c)
        s = sl.session_model_case(c)
        parts = [[s[0], s[1]]]
        if c.get('any_alpha'):
            parts.append(self.NOP)
        else:
            p = sl.spec_model_case(c)
            parts.append([p[0], p[1]])
        ok_rows = (isinstance(impl, dict) and impl.get('init', [''])[0] == 'ok' and impl.get('error') is None
                   and all(fr(v) is not None for _, row in impl['allocs'] for _, v in row))
        parts.append(self.rows_case(c, impl) if ok_rows else self.NOP)
        return ('multi', parts)

    def model_case(self, c):
        c = self.tabled(c)
        s = sl.session_model_case(c)
        p = sl.spec_model_case(c)
        return ('multi', [[s[0], s[1]], [p[0], p[1]], self.NOP])

    def against_rules(self, label, mspec, impl, F, tol, j):
        _, cash, hold, pending, days = mspec[:5]
        sf = [f for d in days for f in d[0]]
        if len(sf) != len(impl['fills']):
            F.append('session made %d fills, %s give %d' % (len(impl['fills']), label, len(sf)))
        else:
            for k, (a, b) in enumerate(zip(sf, impl['fills'])):
                if a[0] != b[0] or a[1] != b[1] or a[2] != fr(b[2]) or not close(a[3], b[3], tol) or not close(a[4], b[4], tol):
                    F.append('fill #%d is %s, %s give %s' % (k, b, label, [a[0], a[1], a[2], float(a[3]), float(a[4])]))
                    break
            if sf:
                j.nontrivial = True
        se = [d[1][0] for d in days if d[1]]
        if [t for t, _ in se] != [t for t, _ in impl['equity']]:
            F.append('equity dates %s..., %s %s...' % ([t for t, _ in impl['equity']][:3], label, [t for t, _ in se][:3]))
        else:
            for (t, x), (_, y) in zip(se, impl['equity']):
                if not close(x, y, tol):
                    F.append('equity at %d is %s, cash + holdings at the close per %s = %s' % (t, y, label, float(x)))
                    break
        if not close(cash, impl['cash'], tol):
            F.append('final cash %s, %s give %s' % (impl['cash'], label, float(cash)))
        if sorted((a, q) for a, q in hold) != sorted((a, int(q)) for a, q in impl['holdings']):
            F.append('final holdings %s, %s give %s' % (impl['holdings'], label, hold))

    def judge(self, c, impl, mod):
        j = Judgement()
        j.key = hash(repr(c['cfg']))
        msess, mspec, mrows = mod
        c = self.tabled(c)
        sl.compare_session(c, impl, msess, j)
        F = j.failures
        if impl['init'][0] != 'ok':
            return j
        if j.knife:
            return j
        tol = Fraction(1, 10**9) * Fraction(sl.sess_scale(c))
        if not c.get('any_alpha'):
            if mspec[0] != 'ok':
                if impl['error'] is None:
                    F.append('the documented rules cannot be applied (a needed price is missing / a weight is negative) but the session ran')
                return j
            if impl['error'] is not None:
                F.append('session failed with %s at %s although the documented rules apply' % tuple(impl['error']))
                return j
            self.against_rules('the documented rules', mspec, impl, F, tol, j)
        # the rules driven by the allocation rows the session recorded (any alpha model)
        if impl['error'] is None and isinstance(mrows, list) and mrows and mrows[0] in ('ok', 'none'):
            if mrows[0] == 'none':
                F.append('the session ran, but the documented rules cannot be applied to its recorded target allocations')
            else:
                if mrows[5] != 0:
                    F.append('%d recorded allocation rows were never used by a scheduled rebalance' % mrows[5])
                self.against_rules('the rules applied to the recorded allocations', mrows, impl, F, tol, j)
        return j

    def shrink_candidates(self, c):
        cfg = c['cfg']
        for cut in (100, 30, 10, 3, 1):
            if cfg['end'] - cut * DAY > cfg['start']:
                d = dict(c); d['cfg'] = dict(cfg, end=cfg['end'] - cut * DAY)
                yield d
        if cfg.get('burn') is not None:
            d = dict(c); d['cfg'] = dict(cfg, burn=None)
            yield d
        if cfg['fee'][0] != 'zero':
            d = dict(c); d['cfg'] = dict(cfg, fee=['zero'])
            yield d
        w = cfg['alpha'][1]
        for i in range(len(w)):
            if len(w) > 1:
                d = dict(c); d['cfg'] = dict(cfg, alpha=['fixed', w[:i] + w[i + 1:]])
                yield d

    def neighbours(self, c, rng):
        return [sl.gen_session(rng, 'quick', fixed_only=True, allow_dynamic=False) for _ in range(24)]

    def matches_known(self, k, case, text):
        return False


PROP = C08()
