"""C16 — signals equal their definitions over the trailing window of supplied closes."""
from fractions import Fraction
import math

from ..engine import Prop, Judgement
from ..numcmp import fr
from .. import brokerlib as bl
from .. import sesslib as sl

ASSETS = ['AAA', 'BBB', 'CCC']
LBS = [1, 2, 3, 5, 21, 126]


def gen_case(rng, tier):
    """tie cases (small lookbacks, short streams: compared with the Coq model, whose exact rationals grow
    with the window) and definition cases (any lookback, long streams: compared with the definitions)"""
    tie = rng.random() < 0.5
    exact = rng.random() < (0.5 if tie else 0.2)
    assets = ASSETS[:rng.randint(1, 3)]
    if tie:
        lbs = sorted(rng.sample([1, 2, 3, 5] if exact else [1, 2, 3], rng.randint(1, 2)))
        n = rng.randint(0, 30)
    else:
        lbs = sorted(rng.sample(LBS, rng.randint(1, 3)))
        n = rng.randint(0, 80 if tier == 'quick' else 400)
    price = {a: bl.dy(rng, 5, 300, 8) for a in ASSETS}
    apps = []
    for _ in range(n):
        a = rng.choice(assets)
        if exact:
            price[a] = max(0.125, price[a] + rng.randint(-16, 16) / 8)
        else:
            price[a] = max(0.01, price[a] * (1 + rng.uniform(-0.08, 0.08)))
        apps.append([a, price[a]])
    if rng.random() < 0.3 and apps:
        # an asset that joins later (dynamic universe): starts with an empty window
        late = 'LATE'
        k = rng.randrange(len(apps))
        for i in range(k, len(apps)):
            if rng.random() < 0.4:
                apps.insert(i, [late, bl.dy(rng, 5, 300, 8)])
        report = assets + [late]
    else:
        report = list(assets)
    return {'assets': assets, 'lookbacks': lbs, 'appends': apps, 'report': report, 'tie': tie,
            'stream': ('tie' if tie else 'definition') + (':exact' if exact else '')}


def definitions(stream, n):
    """momentum / sma / annualised variance from the definition, in exact arithmetic"""
    w1 = stream[-(n + 1):]
    mom = (w1[-1] / w1[0] - 1) if len(w1) >= 2 else Fraction(0)
    w = stream[-n:]
    sma = (sum(w) / len(w)) if w else None
    if len(w1) > 12:
        # long windows: exact rationals of float ratios are enormous; correctly rounded ratios and a compensated
        # two-pass sum are accurate to ~1e-15, far inside the comparison tolerance
        fr_ = [float(b / a) - 1.0 for a, b in zip(w1, w1[1:])]
        m = math.fsum(fr_) / len(fr_)
        var = Fraction(math.fsum((r - m) ** 2 for r in fr_) / len(fr_) * 252)
        return mom, sma, var
    rets = [b / a - 1 for a, b in zip(w1, w1[1:])]
    if rets:
        m = sum(rets) / len(rets)
        var = sum((r - m) ** 2 for r in rets) / len(rets) * 252
    else:
        var = Fraction(0)
    return mom, sma, var


class C16(Prop):
    pid = 'C16'
    worker = 'sigworker'
    cross_limit = 30
    rule = ('real MomentumSignal / SMASignal / VolatilitySignal fed interleaved positive price streams for 1-3 assets (plus an asset that '
            'joins later), lookback sets drawn from {1,2,3,5,21,126}, compared after every append with the Coq model and with the '
            'definitions recomputed in exact arithmetic; non-trivial = at least lookback+1 prices seen for some window; '
            'distinct = hash of (assets, lookbacks, stream)')

    def gen(self, rng, tier):
        n = 300 if tier == 'quick' else 4000
        out = [gen_case(rng, tier) for _ in range(n)]
        # whole sessions: what the signals are fed during a backtest
        for _ in range(50 if tier == 'quick' else 600):
            c = sl.gen_session(rng, tier, alpha_kinds=('topn', 'smatrend'), allow_dynamic=True, all_quoted=True)
            c['_worker'] = 'sessworker'
            if rng.random() < 0.5:
                c['cfg']['extra_signal'] = True      # the collection also holds a signal over a different universe
                c['stream'] += ':mixed-universes'
            if c['cfg']['universe'][0] == 'static' and rng.random() < 0.4:
                c['cfg']['signal_start_shift'] = rng.choice([3, 14, 40])       # signals built with a later start_dt of their own
                c['stream'] += ':late-signal-start'
            c['session'] = True
            if rng.random() < 0.25:
                c['cfg']['signals_own_handler'] = True
                c['stream'] += ':signals-on-their-own-handler'
            if c['cfg']['universe'][0] == 'dynamic' and rng.random() < 0.5:
                c['mode'] = 'twice'
                c['share_universe'] = True
                c['stream'] += ':twice-on-one-universe-object'
            elif c['cfg']['universe'][0] == 'static' and not c['cfg'].get('signal_start_shift') and rng.random() < 0.4:
                # the second session (same dates: the clock goes back) is given the SignalsCollection object of the first
                c['mode'] = 'twice'
                c['share_signals'] = True
                c['stream'] += ':twice-on-one-signals-collection'
            out.append(c)
        # sessions in which some assets have no price yet on the first days (their files begin later): every priced asset is
        # still observed once per close, whatever the others have
        for _ in range(25 if tier == 'quick' else 300):
            c = sl.gen_session(rng, tier, alpha_kinds=('topn', 'smatrend'), allow_dynamic=True, all_quoted=False)
            c['_worker'] = 'sessworker'
            c['session'] = True
            c['stream'] += ':late-data'
            out.append(c)
        return out

    def model_case(self, c):
        if c.get('session'):
            return sl.session_model_case(c)
        lbs = [int(n) for n in c['lookbacks']] if c.get('tie') else []
        return ('signals', [list(c['report']), lbs, [[a, Fraction(x)] for a, x in c['appends']]])

    def judge_session(self, c, o, mod):
        j = Judgement()
        j.key = hash(repr(c['cfg']))
        second = None
        if 'first' in o:
            # the same session twice in one process, the second one on the universe OBJECT of the first
            o, second = o['first'], o['second']
        sl.compare_session(c, o, mod, j)
        if o['init'][0] != 'ok':
            return j
        self.observations(c, o, j, '')
        if second is not None and second['init'][0] == 'ok':
            self.observations(c, second, j, 'second session on the same universe object: ')
        return j

    def observations(self, c, o, j, label):
        cfg = c['cfg']
        closes = [t for t, k in sl.event_times(cfg['start'], cfg['end']) if k == 'market_close']
        cut = None
        if o['error'] is not None:
            cut = o['error'][1]
            closes = [t for t in closes if cut is None or t < cut]
        rows = dict((t, dict(sn)) for t, sn in c['market']['rows'])
        u = cfg['universe']
        entry = dict((a, cfg['start']) for a in u[1]) if u[0] == 'static' else dict((a, e) for a, e in u[1])
        for a, e in entry.items():
            got = [x for x in o['signal_obs'].get(a, []) if cut is None or (x[0] is not None and x[0] < cut)]
            got = [[x[0], (None if x[1] == 'nan' else x[1])] for x in got]
            if e is None:
                want = []
            else:
                k_ = 2.0 if cfg.get('signals_own_handler') else 1.0
                want = [[t, (None if rows[t].get(a) is None else rows[t].get(a) * k_)] for t in closes if e <= max(cfg['start'], t)]
            if [x[0] for x in got] != [x[0] for x in want]:
                j.failures.append(label + 'signal observations of %s at %s..., expected one per business-day close from its entry: %s...' % (
                    a, [x[0] for x in got][:4], [x[0] for x in want][:4]))
            elif any(x[1] != y[1] for x, y in zip(got, want)):
                j.failures.append(label + 'signal observations of %s are not that day\'s close prices' % a)
        # at the end of the session every window holds the most recent `maxlen` prices supplied for ITS asset (all of them if fewer)
        fw = o.get('final_windows')
        if fw and o['error'] is None and not label and not c.get('share_signals'):
            if fw[0] == 'err':
                j.failures.append('the windows of the tracked signal could not be read: %s' % fw[1])
            else:
                for key_, maxlen_, held_ in fw:
                    a_ = key_.rsplit('_', 1)[0]
                    supplied = [x[1] for x in o['signal_obs'].get(a_, [])]
                    if held_ != supplied[-maxlen_:] and maxlen_:
                        j.failures.append('window %s holds %s..., the last %d prices supplied for %s are %s...' % (key_, held_[:6], maxlen_, a_, supplied[-maxlen_:][:6]))
                        break
        if o['warmup'] is not None and o['error'] is None and o['warmup'] != len(closes) and not (label and c.get('share_signals')):
            j.failures.append(label + 'warmup counter %s after %d market closes' % (o['warmup'], len(closes)))
        if o['signal_obs']:
            j.nontrivial = True

    def judge(self, c, impl, mod):
        if c.get('session'):
            return self.judge_session(c, impl, mod)
        j = Judgement()
        j.key = hash(repr((c['assets'], c['lookbacks'], c['appends'])))
        streams = dict((a, []) for a in c['report'])
        for k, ((a, x), irep, mrep) in enumerate(zip(c['appends'], impl, mod)):
            w = 'after append #%d (%s, %s)' % (k, a, x)
            if isinstance(irep, list) and irep and irep[0] == 'err':
                j.failures.append('%s: a positive price was rejected with %s' % (w, irep[1]))
                return j
            streams[a].append(Fraction(x))
            for b, irow, mrow in zip(c['report'], irep, mrep):
                if not c.get('tie'):
                    mrow = [None] * len(c['lookbacks'])
                for n, iv, mv in zip(c['lookbacks'], irow, mrow):
                    ww = '%s %s lookback %d' % (w, b, n)
                    if iv is None:
                        if streams[b]:
                            j.failures.append('%s: no window exists although %d prices were supplied' % (ww, len(streams[b])))
                        continue
                    dm, ds, dv = definitions(streams[b], n)
                    if mv is None:
                        mm, ms, mvv = dm, (ds if ds is not None else None), dv
                        if ds is None:
                            ms = None
                    else:
                        mm, ms, mvv = mv[0], (mv[1][0] if mv[1] else None), mv[2]
                    # model vs implementation
                    for name, m_, i_ in ((('momentum', mm, iv[0]), ('sma', ms, iv[1])) if mv is not None else ()):
                        if m_ is None:
                            if i_ != 'nan':
                                j.disagreements.append('%s: %s model=NaN impl=%s' % (ww, name, i_))
                        elif i_ == 'nan' or abs(fr(i_) - m_) > Fraction(1, 10**9) * max(1, abs(m_)):
                            j.disagreements.append('%s: %s model=%s impl=%s' % (ww, name, float(m_), i_))
                    mvol = math.sqrt(float(mvv))
                    if mv is not None and (iv[2] == 'nan' or abs(iv[2] - mvol) > 1e-9 * max(1.0, mvol) + 1e-7 * (mvol < 1e-6)):
                        j.disagreements.append('%s: volatility model=sqrt(%s)=%s impl=%s' % (ww, float(mvv), mvol, iv[2]))
                    # the definitions (the property)
                    if abs(fr(iv[0]) - dm) > Fraction(1, 10**9) * max(1, abs(dm)):
                        j.failures.append('%s: momentum %s, last/first - 1 over the most recent %d prices is %s' % (ww, iv[0], n + 1, float(dm)))
                    if ds is not None and (iv[1] == 'nan' or abs(fr(iv[1]) - ds) > Fraction(1, 10**9) * max(1, abs(ds))):
                        j.failures.append('%s: moving average %s, mean of the most recent %d prices is %s' % (ww, iv[1], n, float(ds)))
                    dvol = math.sqrt(float(dv))
                    if iv[2] == 'nan' or abs(iv[2] - dvol) > 1e-9 * max(1.0, dvol) + 1e-7 * (dvol < 1e-6):
                        j.failures.append('%s: volatility %s, population std of the most recent %d returns x sqrt(252) is %s' % (ww, iv[2], n, dvol))
                    if len(streams[b]) > n:
                        j.nontrivial = True
            if len(j.failures) > 5 or len(j.disagreements) > 5:
                return j
        return j

    def shrink_candidates(self, c):
        if c.get('session'):
            cfg = c['cfg']
            for cut in (10, 3, 1):
                if cfg['end'] - cut * 86400 > cfg['start']:
                    d = dict(c); d['cfg'] = dict(cfg, end=cfg['end'] - cut * 86400)
                    yield d
            return
        apps = c['appends']
        step = max(1, len(apps) // 10)
        for i in range(0, len(apps), step):
            d = dict(c)
            d['appends'] = apps[:i] + apps[i + step:]
            yield d
        for lb in c['lookbacks']:
            if len(c['lookbacks']) > 1:
                d = dict(c)
                d['lookbacks'] = [x for x in c['lookbacks'] if x != lb]
                yield d

    def neighbours(self, c, rng):
        return [gen_case(rng, 'quick') for _ in range(48)]

    def matches_known(self, k, case, text):
        return False


PROP = C16()
