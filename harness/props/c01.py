"""C01 — cash conservation across master account, portfolios and fills."""
from fractions import Fraction

from ..engine import Prop, Judgement
from .. import brokerlib as bl
from ..numcmp import close, fr, near_half


def py_round2(x):
    """round-half-even to cents of an exact rational"""
    y = x * 100
    f = y.numerator // y.denominator
    r = y - f
    if r > Fraction(1, 2) or (r == Fraction(1, 2) and f % 2 == 1):
        f += 1
    return Fraction(f, 100)


def ledger_predicate(case, impl, j):
    """The C01 statement evaluated on the implementation's own records."""
    out = j.failures
    if impl['init'][0] != 'ok':
        return
    tol = Fraction(1, 10**9) * Fraction(max(1.0, bl.scale_of(case)))
    master = Fraction(case['cfg']['funds'])
    pf = {}        # pid -> exact cash
    led = {}       # pid -> list of (kind, amount, balance)
    prev = None
    owner = {}     # order number (n-th accepted submission) -> portfolio it was submitted to
    nsub = 0
    quoted = {}
    for q in case['quotes']:
        quoted.setdefault(q[0], set()).add(q[1])
    for n, st in enumerate(impl['steps']):
        op = case['ops'][n]
        ok = st['res'][0] == 'ok'
        w = 'step %d %s' % (n, op)
        money = False
        if op[0] == 'update' and quoted.get(op[1], set()) != set(case['assets']):
            return      # an asset without a quote at this instant (NaN mark / unpriceable order): out of model
        if ok and op[0] == 'subacct':
            master += Fraction(op[1]); money = True
        elif ok and op[0] == 'wdacct':
            master -= Fraction(op[1]); money = True
        elif ok and op[0] == 'create':
            pf[op[1]] = Fraction(0); led[op[1]] = []
        elif ok and op[0] == 'subpf':
            a = Fraction(op[2]); master -= a; pf[op[1]] += a; money = True
            led[op[1]].append(('subscription', a, pf[op[1]]))
        elif ok and op[0] == 'wdpf':
            a = Fraction(op[2]); master += a; pf[op[1]] -= a; money = True
            led[op[1]].append(('withdrawal', a, pf[op[1]]))
        if ok and op[0] == 'submit':
            owner[nsub] = op[1]; nsub += 1
        for pid, tx in st['fills']:
            if len(tx) > 5 and tx[5] in owner and owner[tx[5]] != pid:
                out.append('%s: the fill of order #%d (%s %s), submitted to portfolio %s, was charged to portfolio %s' % (
                    w, tx[5], tx[1], tx[0], owner[tx[5]], pid))
            cost = Fraction(tx[3]) * Fraction(tx[1]) + Fraction(tx[4])
            pf[pid] -= cost; money = True
            led[pid].append(('asset_transaction', cost, pf[pid]))
        snap = st['snap']
        cash_now = [snap[1]] + [a[1][1] for a in snap[2]]
        if not close(master, snap[1], tol):
            out.append('%s: master cash %s but ledger says %s' % (w, snap[1], float(master)))
        for a, pub in zip(snap[2], st['pub']):
            pid = a[0]
            if len(pub) == 2:
                out.append('%s: portfolio getters raised %s' % (w, pub[1]))
                continue
            if not close(pf[pid], pub[1], tol):
                out.append('%s: portfolio %s cash %s but transfers-minus-fills says %s' % (w, pid, pub[1], float(pf[pid])))
        if prev is not None and not money and len(prev) == len(cash_now) and prev != cash_now:
            out.append('%s: a cash balance changed without a transfer or fill: %s -> %s' % (w, prev, cash_now))
        prev = cash_now
        # account-level totals must be obtainable and equal the sums
        if op[0] in ('getaccttmv', 'getacctequity'):
            if not ok:
                out.append('%s: account total not obtainable: %s' % (w, st['res']))
            else:
                d = dict((k, v) for k, v in st['res'][1][0])
                pids = [a[0] for a in snap[2]]
                if sorted(d.keys()) != sorted(pids + ['master']):
                    out.append('%s: account total keys %s' % (w, sorted(d.keys())))
                else:
                    s = Fraction(0)
                    for pub in st['pub']:
                        want = pub[2] if op[0] == 'getaccttmv' else pub[3]
                        if fr(want) is None:
                            return
                        if not close(Fraction(want), d[pub[0]], tol):
                            out.append('%s: entry %s = %s but per-portfolio figure is %s' % (w, pub[0], d[pub[0]], want))
                        s += Fraction(want)
                    if not close(s, d['master'], tol):
                        out.append('%s: master total %s but sum of portfolios %s' % (w, d['master'], float(s)))
        if len(out) > 10:
            return
    # the event history lists exactly the ledger, in order, rounded to cents
    for pid, hist in impl['hist']:
        L = led.get(pid, [])
        if len(hist) != len(L):
            out.append('history of %s has %d events, ledger has %d cash movements' % (pid, len(hist), len(L)))
            continue
        for k, (ev, (kind, amt, bal)) in enumerate(zip(hist, L)):
            w = 'history %s #%d' % (pid, k)
            if ev[1] != kind:
                out.append('%s: type %s, ledger %s' % (w, ev[1], kind))
                continue
            if kind == 'subscription':
                want = (Fraction(0), py_round2(amt))
            elif kind == 'withdrawal':
                want = (py_round2(amt), Fraction(0))
            elif ev[2]:     # LONG: debit
                want = (py_round2(amt), Fraction(0))
            else:
                want = (Fraction(0), -py_round2(amt))
            for name, got, wv, raw in (('debit', ev[5], want[0], amt), ('credit', ev[6], want[1], amt), ('balance', ev[7], py_round2(bal), bal)):
                g = fr(got)
                if g is None or abs(g - wv) > tol:
                    if g is not None and abs(g - wv) <= Fraction(1, 100) + tol and near_half(raw * 100):
                        j.knife += 1
                    else:
                        out.append('%s: %s %s, true value rounded to cents %s' % (w, name, got, float(wv)))


class C01(Prop):
    pid = 'C01'
    worker = 'broker'
    rule = ('random SimulatedBroker operation sequences (valid / boundary / malformed streams, exact dyadic '
            'and float-valued) run on the real broker with a stub quote table and on the extracted Coq model; '
            'non-trivial = at least one transfer or fill succeeded; distinct = structural hash of the op kinds, '
            'results and fill signs')
    FIELDS = {'res', 'cash', 'hist', 'totals'}

    def gen(self, rng, tier):
        n = 400 if tier == 'quick' else 6000
        cases = []
        for i in range(n):
            r = rng.random()
            stream = 'valid' if r < 0.65 else ('boundary' if r < 0.88 else 'malformed')
            exact = stream == 'boundary' or rng.random() < 0.3
            cases.append(bl.gen_broker_case(rng, stream=stream, exact=exact,
                                            n_ops=rng.randint(5, 40 if tier == 'quick' else 120)))
        return cases

    def model_case(self, case):
        return bl.broker_model_case(case)

    def judge(self, case, impl, mod):
        j = Judgement()
        bl.compare_broker(case, impl, mod, self.FIELDS, j)
        ledger_predicate(case, impl, j)
        sig = []
        if impl['init'][0] == 'ok':
            for op, st in zip(case['ops'], impl['steps']):
                sig.append((op[0], st['res'][0], tuple((f[1][1] > 0) for f in st['fills'])))
                if st['res'][0] == 'ok' and (op[0] in ('subpf', 'wdpf', 'subacct', 'wdacct') or st['fills']):
                    j.nontrivial = True
                j.tags.append(op[0] + ':' + (st['res'][0] if st['res'][0] == 'ok' else st['res'][1]))
        j.key = hash(tuple(sig))
        return j

    def neighbours(self, case, rng):
        return [bl.gen_broker_case(rng, stream=rng.choice(['valid', 'boundary', 'malformed']),
                                   exact=rng.random() < 0.5) for _ in range(64)]

    def matches_known(self, k, case, text):
        return False


PROP = C01()
