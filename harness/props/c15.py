"""C15 — rejected operations change nothing."""
from fractions import Fraction

from ..engine import Prop, Judgement
from .. import brokerlib as bl

DOCUMENTED = ('ValueError', 'KeyError')


def is_open(t):
    d, tod = divmod(t, 86400)
    return (d + 3) % 7 <= 4 and 52200 <= tod < 75600


def pf_obs(pf):
    """everything C15 lists for one portfolio, clocks excluded"""
    pos = [[p[k] for k in (0, 1, 2, 4, 5, 6, 7, 8, 9)] for p in pf[2]]
    return [pf[1], pos, pf[3], pf[4], pf[10]]


def b_obs(snap):
    return [snap[1], snap[3], [[a[0], pf_obs(a[1]), a[2]] for a in snap[2]]]


def expected_refusal_broker(op, snap, quoted):
    k = op[0]
    if len(op) > 1 and isinstance(op[1], list):
        op = [op[0], '<an int, not a portfolio id>'] + list(op[2:])
    master = snap[1]
    pfs = dict((a[0], a) for a in snap[2])
    if k == 'subacct':
        return op[1] < 0
    if k == 'wdacct':
        return op[1] < 0 or op[1] > master
    if k == 'create':
        return op[1] in pfs
    if k == 'subpf':
        return op[2] < 0 or op[1] not in pfs or op[2] > master or snap[0] < pfs[op[1]][1][0]
    if k == 'wdpf':
        return op[2] < 0 or op[1] not in pfs or op[2] > pfs[op[1]][1][1] or snap[0] < pfs[op[1]][1][0]
    if k == 'submit':
        return op[1] not in pfs
    if k == 'getacctcash':
        return len(op) > 1 and op[1] not in ('USD', 'GBP', 'EUR')
    if k in ('getpfcash', 'getpftmv', 'getpfequity'):
        return op[1] not in pfs
    if k == 'update':
        t = op[1]
        for a in snap[2]:
            pf, q = a[1], a[2]
            if (pf[2] or (is_open(t) and q)) and t < pf[0]:
                return True
            if any(p[3] is not None and t < p[3] for p in pf[2]):
                return True
    return False


def noop_predicate_broker(case, impl, j):
    out = j.failures
    if impl['init'][0] != 'ok':
        return
    quoted = {}
    for q in case['quotes']:
        quoted.setdefault(q[0], set()).add(q[1])
    assets = set(case.get('assets') or [q[1] for q in case['quotes']]) | set(o[2] for o in case['ops'] if o[0] == 'submit')
    prev = impl['snap0']
    for n, st in enumerate(impl['steps']):
        op = case['ops'][n]
        w = 'step %d %s' % (n, op)
        snap = st['snap']
        out_of_scope = op[0] == 'update' and quoted.get(op[1], set()) != assets
        if st['res'][0] == 'err':
            j.tags.append('refused:' + op[0])
            if not out_of_scope:
                if st['res'][1] not in DOCUMENTED:
                    out.append('%s: refused with %s, not a documented error type' % (w, st['res'][1]))
                if b_obs(prev) != b_obs(snap):
                    out.append('%s: refused (%s) but state changed: before=%s after=%s' % (w, st['res'][1], b_obs(prev), b_obs(snap)))
        elif not out_of_scope and expected_refusal_broker(op, prev, quoted):
            out.append('%s: invalid request was silently accepted' % w)
        prev = snap
        if len(out) > 5:
            return


def expected_refusal_pf(op, pf):
    k = op[0]
    if k == 'sub':
        return op[1] < pf[0] or op[2] < 0
    if k == 'wd':
        return op[1] < pf[0] or op[2] < 0 or op[2] > pf[1]
    if k == 'txn':
        return op[3] < pf[0]
    if k == 'mark':
        held = [p for p in pf[2] if p[0] == op[1]]
        if not held:
            return False
        return op[2] <= 0 or op[3] < pf[0] or (held[0][3] is not None and op[3] < held[0][3])
    return False


def noop_predicate_pf(case, impl, j):
    out = j.failures
    prev = impl['snap0']
    for n, st in enumerate(impl['steps']):
        op = case['ops'][n]
        w = 'step %d %s' % (n, op)
        snap = st['snap']
        # a transaction stamped between the portfolio clock and the position clock is refused by
        # the position, not by any of the checks C15 lists: tied to the model, not judged here
        oos = False
        if op[0] == 'txn':
            held = [p for p in prev[2] if p[0] == op[1]]
            oos = bool(held) and held[0][3] is not None and prev[0] <= op[3] < held[0][3]
            oos = oos or op[4] <= 0
        if st['res'][0] == 'err':
            j.tags.append('refused:' + op[0])
            if not oos:
                if st['res'][1] not in DOCUMENTED:
                    out.append('%s: refused with %s, not a documented error type' % (w, st['res'][1]))
                if pf_obs(prev) != pf_obs(snap):
                    out.append('%s: refused (%s) but state changed: before=%s after=%s' % (w, st['res'][1], pf_obs(prev), pf_obs(snap)))
        elif not oos and expected_refusal_pf(op, prev):
            out.append('%s: invalid request was silently accepted' % w)
        prev = snap
        if len(out) > 5:
            return


class C15(Prop):
    pid = 'C15'
    worker = 'broker'
    rule = ('SimulatedBroker and Portfolio operation sequences in which 30-40% of requests are invalid '
            '(every refusal kind of the statement, placed after fills created positions and pending orders), '
            'full observable snapshot before/after every call; non-trivial = at least one refusal happened '
            'in a state with a position, pending order or history; distinct = hash of (op kind, result) sequence')
    FIELDS = {'res', 'cash', 'hist', 'holdings', 'queues', 'posfields', 'fills', 'pnl'}

    def gen(self, rng, tier):
        n = 400 if tier == 'quick' else 6000
        cases = []
        for i in range(n):
            r = rng.random()
            if r < 0.6:
                cases.append(bl.gen_broker_case(rng, stream='malformed' if rng.random() < 0.8 else 'boundary',
                                                exact=rng.random() < 0.5, n_ops=rng.randint(6, 40 if tier == 'quick' else 100)))
            else:
                cases.append(bl.gen_portfolio_case(rng, stream='malformed' if rng.random() < 0.8 else 'boundary',
                                                   exact=rng.random() < 0.5))
        return cases

    def model_case(self, case):
        return bl.broker_model_case(case) if case['kind'] == 'broker' else bl.portfolio_model_case(case)

    def judge(self, case, impl, mod):
        j = Judgement()
        if case['kind'] == 'broker':
            bl.compare_broker(case, impl, mod, self.FIELDS, j)
            noop_predicate_broker(case, impl, j)
            steps = impl.get('steps', [])
        else:
            bl.compare_portfolio(case, impl, mod, self.FIELDS, j)
            noop_predicate_pf(case, impl, j)
            steps = impl['steps']
        sig = tuple((op[0], st['res'][0] if st['res'][0] == 'ok' else st['res'][1]) for op, st in zip(case['ops'], steps))
        j.key = hash((case['kind'], sig))
        j.nontrivial = any(t.startswith('refused:') for t in j.tags) and len(steps) > 2
        return j

    def neighbours(self, case, rng):
        return [bl.gen_broker_case(rng, stream='malformed', exact=rng.random() < 0.5) for _ in range(32)] + \
               [bl.gen_portfolio_case(rng, stream='malformed', exact=rng.random() < 0.5) for _ in range(32)]

    def matches_known(self, k, case, text):
        return False


PROP = C15()
