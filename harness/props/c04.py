"""C04 — orders fill exactly once, in full, only in exchange hours, sells first."""
from fractions import Fraction

from ..engine import Prop, Judgement
from .. import brokerlib as bl, model
from ..numcmp import close, fr
from .c15 import is_open, DOCUMENTED


def order_predicate(case, impl, j):
    out = j.failures
    if impl['init'][0] != 'ok':
        return
    quotes = set((q[0], q[1]) for q in case['quotes'])
    pending = {}        # order index -> (pid, asset, qty, submit step)
    filled = {}         # order index -> count
    nxt = 0
    prev = impl['snap0']
    for n, st in enumerate(impl['steps']):
        op = case['ops'][n]
        w = 'step %d %s' % (n, op)
        ok = st['res'][0] == 'ok'
        snap = st['snap']

        def money(s):
            return [s[1]] + [[a[0], a[1][1], [[p[0], p[1]] for p in a[1][2]], a[1][3]] for a in s[2]]
        if op[0] == 'submit':
            if ok:
                pending[nxt] = (op[1], op[2], op[3], n)
                nxt += 1
            if money(prev) != money(snap):
                out.append('%s: submitting changed cash, holdings or history' % w)
            if st['fills']:
                out.append('%s: submitting produced a fill' % w)
        elif op[0] == 'update':
            t = op[1]
            if not ok:
                if st['res'][1] not in DOCUMENTED or any((t, a) not in quotes for a in case['assets']):
                    return          # missing quote: outside the property's "assets that have a quote"
                # a refused update is not an update: nothing may have happened
                if st['fills'] or [a[2] for a in prev[2]] != [a[2] for a in snap[2]]:
                    out.append('%s: refused update filled or dropped orders' % w)
            elif not is_open(t):
                if st['fills']:
                    out.append('%s: fill outside exchange hours: %s' % (w, st['fills']))
                if [a[2] for a in prev[2]] != [a[2] for a in snap[2]]:
                    out.append('%s: closed-hours update changed the order queues' % w)
                if [[a[0], a[1][1], [[p[0], p[1]] for p in a[1][2]], a[1][3]] for a in prev[2]] != \
                        [[a[0], a[1][1], [[p[0], p[1]] for p in a[1][2]], a[1][3]] for a in snap[2]]:
                    out.append('%s: closed-hours update changed cash, quantities or history' % w)
            else:
                j.nontrivial = j.nontrivial or bool(pending)
                got = [(f[1][5], f[0], f[1][0], f[1][1], f[1][2]) for f in st['fills']]
                ids = [g[0] for g in got]
                if sorted(ids) != sorted(pending.keys()):
                    out.append('%s: open update filled orders %s but pending were %s' % (w, sorted(ids), sorted(pending.keys())))
                for oid, pid, asset, qty, dt in got:
                    if oid in pending:
                        p = pending[oid]
                        if (pid, asset) != (p[0], p[1]) or fr(qty) != p[2] or dt != t:
                            out.append('%s: order %d %s filled as %s at %s' % (w, oid, p[:3], (pid, asset, qty), dt))
                    filled[oid] = filled.get(oid, 0) + 1
                    if filled[oid] > 1:
                        out.append('%s: order %d filled %d times' % (w, oid, filled[oid]))
                # sells before buys, same side in submission order (per portfolio)
                for pid in set(g[1] for g in got):
                    mine = [g for g in got if g[1] == pid]
                    sells = [g[0] for g in mine if fr(g[3]) < 0]
                    buys = [g[0] for g in mine if fr(g[3]) >= 0]
                    if [g[0] for g in mine] != sells + buys or sells != sorted(sells) or buys != sorted(buys):
                        out.append('%s: portfolio %s fill order %s is not sells-first / submission order' % (w, pid, [(g[0], g[3]) for g in mine]))
                # ... and over the whole update (all portfolios): no buy is filled before a sell
                sides = [fr(g[3]) < 0 for g in got]
                if any((not a_) and b_ for a_, b_ in zip(sides, sides[1:])):
                    out.append('%s: a buy was filled before a sell within one update: %s' % (w, [(g[1], g[0], g[3]) for g in got]))
                if any(a[2] for a in snap[2]):
                    out.append('%s: orders still queued after an open update: %s' % (w, [a[2] for a in snap[2]]))
                pending = {}
        else:
            if st['fills']:
                out.append('%s: fill outside a clock update' % w)
        # pending orders must sit in their portfolio's queue, in submission order, untouched
        q_now = dict((a[0], [o[0] for o in a[2]]) for a in snap[2])
        for pid in q_now:
            want = sorted(k for k, p in pending.items() if p[0] == pid)
            if q_now[pid] != want:
                out.append('%s: queue of %s is %s, pending submissions are %s' % (w, pid, q_now[pid], want))
        for a in snap[2]:
            for o in a[2]:
                if o[0] in pending and (o[1], o[2]) != (pending[o[0]][1], pending[o[0]][2]):
                    out.append('%s: pending order %d was altered: %s' % (w, o[0], o))
        prev = snap
        if len(out) > 5:
            return


class C04(Prop):
    pid = 'C04'
    worker = 'broker'
    rule = ('interleavings of order submissions with clock updates at open / closed / weekend / exact 14:30:00 and 21:00:00 '
            'instants and moving quotes on the real broker; the exchange predicate is also compared on boundary seconds of every '
            'weekday (quick) or every second of a week (thorough); non-trivial = an open update had pending orders; '
            'distinct = hash of (op kind, open?, fill signs) sequence')
    FIELDS = {'res', 'queues', 'fills', 'hist', 'holdings', 'cash'}

    def gen(self, rng, tier):
        n = 400 if tier == 'quick' else 6000
        cases = []
        for i in range(n):
            stream = 'boundary' if rng.random() < 0.5 else 'valid'
            cases.append(bl.gen_broker_case(rng, stream=stream, exact=rng.random() < 0.5, malformed_rate=0.04,
                                            n_ops=rng.randint(8, 50 if tier == 'quick' else 120)))
        return cases

    def model_case(self, case):
        return bl.broker_model_case(case)

    def judge(self, case, impl, mod):
        j = Judgement()
        bl.compare_broker(case, impl, mod, self.FIELDS, j)
        order_predicate(case, impl, j)
        sig = tuple((op[0], is_open(op[1]) if op[0] == 'update' else None, st['res'][0],
                     tuple(f[1][1] > 0 for f in st['fills'])) for op, st in zip(case['ops'], impl.get('steps', [])))
        j.key = hash(sig)
        return j

    def extra_checks(self, tier, rng):
        """exchange hours: model vs implementation, boundary seconds or the whole week"""
        from .. import impl as implmod
        base = bl.MON
        if tier == 'thorough':
            ts = list(range(base, base + 7 * 86400))
        else:
            ts = []
            for d in range(7):
                for tod in (0, 52199, 52200, 52201, 75599, 75600, 75601, 86399):
                    ts.append(base + d * 86400 + tod)
            ts += [base + rng.randint(-10**8, 10**9) for _ in range(3000)]
        chunks = [ts[i:i + 20000] for i in range(0, len(ts), 20000)]
        if len(chunks) < 3:
            chunks = [ts[i::3] for i in range(3)]
        # the exchange's own start argument varies: before, inside and after the instants asked about
        starts = [0, base + 3 * 86400, base + 2 * 10**9]
        iout = implmod.run_impl('exchange', [{'ts': c, 'exch_start': starts[i % 3]} for i, c in enumerate(chunks)], min_per_shard=1)
        mout = model.run_model([('is_open', c) for c in chunks])
        found = []
        n = 0
        for c, io, mo in zip(chunks, iout, mout):
            for t, a, b in zip(c, io, mo):
                n += 1
                if bool(a) != bool(b):
                    found.append(('disagreement', 'is_open(%d): model=%s impl=%s' % (t, b, a), {'ts': [t]}))
                want = is_open(t)
                if bool(a) != want:
                    found.append(('failure', 'exchange open at %d (weekday %d, tod %d) reported %s, Mon-Fri 14:30<=t<21:00 says %s'
                                  % (t, (t // 86400 + 3) % 7, t % 86400, a, want), {'ts': [t]}))
        return found[:5], {'evaluations': n, 'distinct_nontrivial': n, 'exhaustive': tier == 'thorough',
                           'exchange_seconds_compared': n}

    def neighbours(self, case, rng):
        return [bl.gen_broker_case(rng, stream='boundary', exact=rng.random() < 0.5) for _ in range(64)]

    def matches_known(self, k, case, text):
        return False


PROP = C04()
