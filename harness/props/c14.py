"""C14 — a session trades only at scheduled rebalances after burn-in; equity is daily."""
from fractions import Fraction

from ..engine import Prop, Judgement
from ..numcmp import close, fr
from .. import sesslib as sl

DAY = 86400


def c14_predicate(c, o, j):
    F = j.failures
    cfg = c['cfg']
    if o['init'][0] != 'ok':
        return
    evs = sl.event_times(cfg['start'], cfg['end'])
    times = [t for t, _ in evs]
    opens = set(t for t, k in evs if k == 'market_open')
    closes = [t for t, k in evs if k == 'market_close']
    burn = cfg.get('burn')
    last = o['error'][1] if o['error'] is not None else None

    def upto_err(ts_, inclusive=True):
        if last is None:
            return list(ts_)
        return [t for t in ts_ if (t <= last if inclusive else t < last)]
    # portfolio construction runs at exactly the scheduled instants that are clock events and not before burn-in
    # the schedule is recomputed from the configuration (C13's definition), not read back from the session
    sched = set(o['schedule'])
    try:
        from .c13 import expected as sched_expected
        r = cfg['rebal']
        sched = set(sched_expected({'which': {'weekly': 'weekly', 'daily': 'daily', 'eom': 'end_of_month', 'bah': 'buy_and_hold'}[r[0]],
                                    'start': cfg['start'], 'stop': cfg['end'], 'pm': False,
                                    'weekday': (r[1].upper() if r[0] == 'weekly' else 'MON')}))
    except Exception:
        pass
    if cfg.get('sched_thin'):
        # the session's public rebalance_schedule was replaced (every other instant kept) before run()
        sched = set(sorted(sched)[::2])
    want = [t for t in times if t in sched and (burn is None or t >= burn)]
    if o['pcm_times'] != upto_err(want):
        F.append('portfolio construction ran at %s..., scheduled instants not before burn-in are %s...' % (o['pcm_times'][:4], upto_err(want)[:4]))
    # every run of the portfolio construction records exactly one target-allocation row, at its instant
    if o['error'] is None and [t for t, _ in o['allocs']] != o['pcm_times']:
        F.append('target-allocation rows at %s..., portfolio construction was due at %s...' % ([t for t, _ in o['allocs']][:4], o['pcm_times'][:4]))
    # "the weights of the rebalance" are the full target vector (C09): every universe member at that instant has a figure in
    # the row (0.0 where the alpha model is silent), so that the table carries a weight - not a blank - for it
    u = cfg['universe']
    for t, row in o['allocs']:
        members = list(u[1]) if u[0] == 'static' else [a for a, e in u[1] if e is not None and e <= t]
        missing = sorted(set(members) - set(k for k, _ in row))
        if missing:
            F.append('the allocation row of the rebalance at %s has no weight for the universe members %s (row: %s)' % (t, missing, row))
            break
    if o['fills']:
        if not o['pcm_times'] or o['fills'][0][0] < o['pcm_times'][0]:
            F.append('a fill at %s precedes the first rebalance %s' % (o['fills'][0][0], o['pcm_times'][:1]))
        bad = [f for f in o['fills'] if f[0] not in opens]
        if bad:
            F.append('fill at %s is not at a market-open event' % bad[0][0])
        j.nontrivial = True
    # equity curve: one point per business day whose close is not before burn-in
    want_eq = [t for t in closes if burn is None or t >= burn]
    got_eq = [t for t, _ in o['equity']]
    if got_eq != upto_err(want_eq, inclusive=False) and got_eq != upto_err(want_eq):
        F.append('equity curve dates %s..., expected the closes %s...' % (got_eq[:3], want_eq[:3]))
    # value = account equity marked at that close: cash + holdings x close price
    rows = dict((t, dict(s)) for t, s in c['market']['rows'])
    cash = Fraction(cfg['cash'])
    hold = {}
    fi = 0
    tol = Fraction(1, 10**9) * Fraction(sl.sess_scale(c))
    for t, v in o['equity']:
        while fi < len(o['fills']) and o['fills'][fi][0] <= t:
            f = o['fills'][fi]
            cash -= Fraction(f[3]) * Fraction(f[2]) + Fraction(f[4])
            hold[f[1]] = hold.get(f[1], 0) + Fraction(f[2])
            fi += 1
        px = rows.get(t, {})
        if any(q != 0 and a not in px for a, q in hold.items()):
            break
        eq = cash + sum(q * Fraction(px[a]) for a, q in hold.items() if q != 0)
        if fr(v) is None or abs(fr(v) - eq) > tol:
            F.append('equity at %d is %s, cash + holdings at that close = %s' % (t, v, float(eq)))
            break
    # allocation table: one row per equity date, carrying forward the latest rebalance's weights
    if o.get('alloc_df') and isinstance(o['alloc_df'], list) and o['alloc_df'][0] != 'err' and o['error'] is None:
        cols, table = o['alloc_df']
        eq_days = [t // DAY for t in got_eq]
        if burn is not None:
            eq_days = [d for d in eq_days if d >= burn // DAY]
        if [d for d, _ in table] != eq_days:
            F.append('allocation table dates %s..., equity dates %s...' % ([d for d, _ in table][:3], eq_days[:3]))
        else:
            al = [(t // DAY, dict(w)) for t, w in o['allocs']]
            for d, row in table:
                prev = [w for dd, w in al if dd <= d]
                for col, x in zip(cols, row):
                    if not prev:
                        if x != 'nan':
                            F.append('allocation table row %d has %s=%s before the first rebalance' % (d, col, x))
                            break
                    else:
                        wv = prev[-1].get(col, 'nan')
                        if (x == 'nan') != (wv == 'nan') or (x != 'nan' and x != wv):
                            F.append('allocation table row %d %s=%s, latest rebalance weight is %s' % (d, col, x, wv))
                            break
                if len(F) > 4:
                    break
    elif isinstance(o.get('alloc_df'), list) and o['alloc_df'] and o['alloc_df'][0] == 'err':
        F.append('get_target_allocations raised %s' % o['alloc_df'][1])
    if isinstance(o.get('equity_df'), list) and o['equity_df'] and o['equity_df'][0] == 'err' and o['equity']:
        F.append('get_equity_curve raised %s' % o['equity_df'][1])


class C14(Prop):
    pid = 'C14'
    worker = 'sessworker'
    cross_limit = 12
    rule = ('real BacktestTradingSession runs on synthetic markets (stub data handler) over start/end/burn-in triples - burn-in absent, '
            'before the start, exactly on a rebalance instant, one second before/after, between rebalances - all rebalance kinds '
            '(buy-and-hold mostly with a 14:30 start), fixed / universe-driven / top-N momentum / SMA-trend alpha models, static and '
            'dynamic universes, both sizers; each run is also compared with the Coq session model; non-trivial = at least one fill; '
            'distinct = hash of the configuration')

    def gen(self, rng, tier):
        n = 160 if tier == 'quick' else 2500
        out = []
        for i in range(n):
            c = sl.gen_timed_session(rng, tier) if rng.random() < 0.15 else sl.gen_session(rng, tier)
            if rng.random() < 0.12 and c['cfg']['rebal'][0] in ('daily', 'weekly'):
                c['cfg']['sched_thin'] = True         # (the session model has no such option: judged by the predicate alone)
                c['stream'] += ':schedule-replaced'
            if rng.random() < 0.5 and c['cfg'].get('burn') is None:
                closes = [t for t, k in sl.event_times(c['cfg']['start'], c['cfg']['end']) if k == 'market_close']
                if closes:
                    c['cfg']['burn'] = rng.choice(closes) + rng.choice([0, 1, -1, -30000, 3600])
            out.append(c)
        return out

    NOP = ['num', ['floor', Fraction(0)]]

    def model_case(self, c):
        s = sl.session_model_case(c)
        return ('multi', [[s[0], s[1]], self.NOP])

    def model_case2(self, c, impl):
        # the allocation-table model (AllocTable.v) is fed the rows and equity dates the session itself recorded
        s = sl.session_model_case(c)
        t = self.NOP
        if isinstance(impl, dict) and impl.get('init', [''])[0] == 'ok' and isinstance(impl.get('alloc_df'), list) \
                and len(impl['alloc_df']) == 2 and impl['alloc_df'][0] != 'err' and impl.get('error') is None \
                and all(fr(v) is not None for _, row in impl['allocs'] for _, v in row):
            burn = c['cfg'].get('burn')
            t = ['alloc_table', [[[int(tt), [[k, Fraction(v)] for k, v in row]] for tt, row in impl['allocs']],
                                 [int(tt) // DAY for tt, _ in impl['equity']],
                                 ([] if burn is None else [int(burn)])]]
        return ('multi', [[s[0], s[1]], t])

    def judge(self, c, impl, mod):
        j = Judgement()
        j.key = hash(repr(c['cfg']))
        mod, mtable = mod[0], mod[1]
        sl.compare_session(c, impl, mod, j)
        if isinstance(mtable, list) and len(mtable) == 2 and isinstance(mtable[1], list) and isinstance(impl.get('alloc_df'), list) \
                and len(impl['alloc_df']) == 2 and impl['alloc_df'][0] != 'err':
            cols, table = impl['alloc_df']
            mcols, mrows = mtable
            if sorted(cols) != sorted(mcols):          # (column order is not an observable of the property)
                j.disagreements.append('allocation table columns model=%s impl=%s' % (mcols, cols))
            elif [d for d, _ in table] != [d for d, _ in mrows]:
                j.disagreements.append('allocation table dates model=%s... impl=%s...' % ([d for d, _ in mrows][:4], [d for d, _ in table][:4]))
            else:
                for (d, row), (_, mrow) in zip(table, mrows):
                    mw = dict((k, v) for k, v in mrow[0]) if mrow else {}
                    want = [(float(mw[col]) if col in mw else 'nan') for col in cols]
                    if [x if x == 'nan' else float(x) for x in row] != want:
                        j.disagreements.append('allocation table row %d model=%s impl=%s' % (d, want, row))
                        break
        c14_predicate(c, impl, j)
        j.tags.append(c['cfg']['alpha'][0])
        j.tags.append(c['cfg']['rebal'][0])
        return j

    def shrink_candidates(self, c):
        cfg = c['cfg']
        for cut in (30, 10, 3, 1):
            if cfg['end'] - cut * DAY > cfg['start']:
                d = dict(c); d['cfg'] = dict(cfg, end=cfg['end'] - cut * DAY)
                yield d
        if cfg.get('burn') is not None:
            d = dict(c); d['cfg'] = dict(cfg, burn=None)
            yield d
        if cfg['fee'][0] != 'zero':
            d = dict(c); d['cfg'] = dict(cfg, fee=['zero'])
            yield d

    def neighbours(self, c, rng):
        return [sl.gen_session(rng, 'quick') for _ in range(24)]

    def matches_known(self, k, case, text):
        return False


PROP = C14()
