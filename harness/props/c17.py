"""C17 — performance statistics match their definitions for every equity curve."""
from fractions import Fraction
import datetime
import math

from ..engine import Prop, Judgement
from ..numcmp import fr
from .. import brokerlib as bl

EPOCH = datetime.date(1970, 1, 1)
BASE = 18200


def bdays(d0, n, rng=None, gap=0.0):
    out, d = [], d0
    while len(out) < n:
        if (d + 3) % 7 <= 4 and (rng is None or rng.random() >= gap):
            out.append(d)
        d += 1
    return out


def gen_case(rng, tier):
    moments = rng.random() < 0.4
    n = rng.randint(2, 20) if moments else rng.randint(2, 120 if tier == 'quick' else 700)
    slump = (not moments) and rng.random() < 0.06
    if slump:
        n = rng.randint(300, 650)          # more than a trading year under water
    days = bdays(BASE + rng.randint(0, 400), n, rng, gap=rng.choice([0.0, 0.0, 0.1]))
    shape = 'slump' if slump else rng.choice(['walk', 'walk', 'up', 'down', 'peakfirst', 'flat', 'vee'])
    dust = (not moments) and (not slump) and n >= 30 and rng.random() < 0.08
    if dust:
        shape = 'dust'
        dust_len = rng.randint(6, 15)
    if moments:
        e = float(rng.randint(4000, 4000000)) / 4
        step = lambda x: max(1.0, x + rng.randint(-40000, 40000) / 4)
    else:
        e = rng.uniform(1e3, 1e6)
        step = lambda x: max(1.0, x * (1 + rng.uniform(-0.04, 0.04)))
    eq = [e]
    for i in range(1, n):
        if shape == 'up':
            e = e * (1 + rng.uniform(0, 0.02)) if not moments else e + rng.randint(0, 4000) / 4
        elif shape == 'down':
            e = max(1.0, e * (1 - rng.uniform(0, 0.02))) if not moments else max(1.0, e - rng.randint(0, 4000) / 4)
        elif shape == 'peakfirst':
            e = min(eq[0] * 0.999, step(e)) if i > 0 else e
        elif shape == 'slump':
            # an early peak, a fall, then a slow recovery that stays below the peak for the rest of the curve
            if i < 10:
                e = e * 1.01
            elif i < 40:
                e = e * 0.985
            else:
                e = min(eq[9] * 0.97, e * (1 + rng.uniform(-0.002, 0.004)))
        elif shape == 'dust':
            # a large account on its peak paying a few units of custody charge a day (a long, extremely shallow under-water
            # run, relative depth ~1e-9), later a deeper but shorter dip
            if i == 1:
                e = 5e8
            elif i < 4:
                e = e * 1.01
            elif i < 4 + dust_len:
                e = e - rng.randint(1, 4)
            elif i == 4 + dust_len:
                e = e * 1.02
            elif i in (8 + dust_len, 9 + dust_len):
                e = e * 0.99
            else:
                e = e * 1.015
        elif shape == 'flat':
            e = e if rng.random() < 0.7 else step(e)
        elif shape == 'vee':
            e = e * 0.98 if i < n // 2 else e * 1.03
            if moments:
                e = round(e * 4) / 4
        else:
            e = step(e)
        eq.append(float(e))
    c = {'curve': [[d, x] for d, x in zip(days, eq)], 'moments': moments, 'stream': shape + (':moments' if moments else ''),
         'seed0': False}
    if rng.random() < 0.4:
        c['scale'] = rng.choice([2.0, 0.5, 1024.0, 3.0, 0.1, rng.uniform(0.01, 100)])
    c['periods'] = rng.choice([252, 252, 52, 12, 365, 1638, 1, 365.25, 12.5, 365.25 / 7, 252.0, 0.5])
    c['raw_scale'] = rng.choice([1.0, 1.0, 0.001, 1e-6, 2.5])
    if rng.random() < 0.5:
        # a benchmark with its own (different) dates: an earlier start and/or a later end, other values
        cur = c['curve']
        lo = cur[0][0] - rng.choice([0, 7, 30, 90])
        hi = cur[-1][0] + rng.choice([0, 0, 5, 40])
        bd, e = [], 100.0
        for d in range(lo, hi + 1):
            if (d + 3) % 7 <= 4 and (rng.random() < 0.9 or not bd):
                e = max(1.0, e * (1 + rng.uniform(-0.03, 0.03)))
                bd.append([d, e])
        if len(bd) >= 3:
            c['bench'] = bd
    if rng.random() < 0.12:
        # a whole-dollar curve held in an INTEGER column (as read back from a CSV of whole numbers)
        c['curve'] = [[d, float(max(1, int(round(e))))] for d, e in c['curve']]
        if c.get('bench'):
            c['bench'] = [[d, float(max(1, int(round(e))))] for d, e in c['bench']]
        c['int_equity'] = True
        c['moments'] = False
        c['stream'] = c.get('stream', 'random') + ':integer-column'
    return c


def exact_defs(curve):
    es = [Fraction(e) for _, e in curve]
    rets = [Fraction(0)] + [b / a - 1 for a, b in zip(es, es[1:])]
    cum = [e / es[0] for e in es]
    dd, peak = [], None
    for c in cum:
        peak = c if peak is None else max(peak, c)
        dd.append(1 - c / peak)
    run = best = 0
    for x in dd:
        run = run + 1 if x != 0 else 0
        best = max(best, run)
    return rets, cum, dd, max(dd), best


def ok(a, b, tol=1e-9):
    if isinstance(a, str) or isinstance(b, str) or a is None or b is None:
        return a == b
    return abs(a - b) <= tol * max(1.0, abs(a), abs(b))


class C17(Prop):
    pid = 'C17'
    worker = 'statsworker'
    cross_limit = 30
    rule = ('positive equity curves on business-day indexes spanning months and years: random walks, monotone up/down, first-point-is-peak, '
            'long flat stretches, V shapes; lengths 2-120 (quick) / 2-700 (thorough); performance.*, JSONStatistics and '
            'TearsheetStatistics.get_results all run; 40% of cases re-run with equity multiplied by a constant; short coarse-dyadic '
            'curves additionally tie mean/variance to the model; non-trivial = a drawdown occurs; distinct = hash of the curve')

    def gen(self, rng, tier):
        n = 300 if tier == 'quick' else 4000
        return [gen_case(rng, tier) for _ in range(n)]

    def model_case(self, c):
        return ('stats', [bool(c.get('seed0')), bool(c['moments']), [[int(d), Fraction(e)] for d, e in c['curve']]])

    def judge(self, c, impl, mod):
        j = Judgement()
        j.key = hash(repr(c['curve']))
        if 'err' in impl:
            j.failures.append('statistics raised %s on a positive curve: %s' % (impl['err'], impl['tb'][-200:]))
            return j
        a = impl['a']
        n = len(c['curve'])
        mret, mcum, mdd, mmax, mdur, mwk, mmo, myr, mmean, mvar, mnneg, mvarneg, mfinal, mn = mod
        D, F = j.disagreements, j.failures
        rets, cum, dd, maxdd, dur = exact_defs(c['curve'])
        # ---- knife edge: a drawdown that is exactly zero in exact arithmetic but rounding noise in floats
        kn = any((x == 0) != (y == 0) and abs(y) < 1e-12 and abs(float(x)) < 1e-12 for x, y in zip(dd[1:], a['dd'][1:]))
        if kn:
            j.knife += 1

        def cmp_list(name, ml, il, out, what):
            if len(ml) != len(il):
                out.append('%s: length %s=%d impl=%d' % (name, what, len(ml), len(il)))
                return
            for t, (x, y) in enumerate(zip(ml, il)):
                if not ok(float(x), y):
                    out.append('%s[%d]: %s=%s impl=%s' % (name, t, what, float(x), y))
                    return
        cmp_list('returns', mret, a['returns'], D, 'model')
        cmp_list('cum_returns', mcum, a['cum'], D, 'model')
        cmp_list('drawdown', mdd, a['dd'], D, 'model')
        if not ok(float(mmax), a['maxdd']):
            D.append('max drawdown model=%s impl=%s' % (float(mmax), a['maxdd']))
        if not kn and mdur != a['duration']:
            D.append('drawdown duration model=%s impl=%s' % (mdur, a['duration']))
        for name, m_, i_, conv in (('weekly', mwk, a['weekly'], lambda k: (k[0] * 100 + k[1]) * 100 + k[2]),
                                   ('monthly', mmo, a['monthly'], lambda k: k[0] * 100 + k[1]),
                                   ('yearly', myr, a['yearly'], lambda k: k[0])):
            md = dict((k, v) for k, v in m_)
            idd = dict((conv(k), v) for k, v in i_)
            if sorted(md) != sorted(idd):
                D.append('%s aggregate keys model=%s impl=%s' % (name, sorted(md)[:6], sorted(idd)[:6]))
            else:
                for k in md:
                    if not ok(float(md[k]), idd[k]):
                        D.append('%s aggregate %s model=%s impl=%s' % (name, k, float(md[k]), idd[k]))
                        break
        if c['moments']:
            if not ok(float(mmean), a['mean'], 1e-9) or not ok(math.sqrt(float(mvar)), a['std'], 1e-9):
                D.append('mean/std model=%s,%s impl=%s,%s' % (float(mmean), math.sqrt(float(mvar)), a['mean'], a['std']))
        # ---- the definitions (the property)
        cmp_list('returns', rets, a['returns'], F, 'definition')
        cmp_list('cum_returns', cum, a['cum'], F, 'definition e_t/e_0')
        cmp_list('drawdown', dd, a['dd'], F, 'definition 1 - value/running max (first observation included)')
        if not ok(float(maxdd), a['maxdd']):
            F.append('max drawdown %s, maximum of the drawdown series is %s' % (a['maxdd'], float(maxdd)))
        if not kn and dur != a['duration']:
            F.append('drawdown duration %s, longest consecutive under-water run is %s' % (a['duration'], dur))
        if maxdd > 0:
            j.nontrivial = True
        total = 1.0
        for r in a['returns']:
            total *= 1 + r
        for name in ('weekly', 'monthly', 'yearly'):
            p = 1.0
            for _, v in a[name]:
                p *= 1 + v
            if not ok(p, total):
                F.append('%s aggregates compound to %s, the daily series to %s' % (name, p, total))
        P = c.get('periods', 252)
        years = n / float(P)
        want_cagr = float(cum[-1]) ** (1.0 / years) - 1.0
        if not ok(want_cagr, a['cagr'], 1e-8):
            F.append('CAGR %s, final cumulative return ^ (periods / observations) - 1 = %s' % (a['cagr'], want_cagr))
        fr_ = [float(x) for x in rets]
        def moments(xs):
            # exact for short series; long series of float-valued curves in compensated float arithmetic (accurate
            # to ~1e-15, far inside the tolerances below - the exact rationals of 700 float ratios are enormous)
            if len(xs) <= 40:
                m_ = sum(xs) / len(xs)
                return m_, sum((x - m_) ** 2 for x in xs) / len(xs)
            fx = [float(x) for x in xs]
            m_ = math.fsum(fx) / len(fx)
            return Fraction(m_), Fraction(math.fsum((x - m_) ** 2 for x in fx) / len(fx))
        mean, var = moments(rets)
        degenerate = False
        if 0 < var < Fraction(1, 10**12):
            j.knife += 1          # (near-)constant returns: the ratio is dominated by rounding noise
            degenerate = True
        elif var > 0:
            want = math.sqrt(P) * float(mean) / math.sqrt(float(var))
            if not ok(want, a['sharpe'], 1e-7):
                F.append('Sharpe %s, sqrt(periods) x mean / population std = %s' % (a['sharpe'], want))
        neg = [x for x in rets if x < 0]
        if neg:
            mneg, vneg = moments(neg)
            if 0 < vneg < Fraction(1, 10**12):
                j.knife += 1
                degenerate = True
            elif vneg > 0:
                want = math.sqrt(P) * float(mean) / math.sqrt(float(vneg))
                if not ok(want, a['sortino'], 1e-7):
                    F.append('Sortino %s, sqrt(periods) x mean / population std of negative returns = %s' % (a['sortino'], want))
        # tearsheet and JSON export report the same numbers
        t, js = a['tear'], a['json']
        for name, x, y in (('sharpe', t['sharpe'], js['sharpe']), ('max drawdown', t['maxdd'], js['maxdd']),
                           ('max drawdown pct', t['maxdd_pct'], js['maxdd']), ('duration', t['duration'], js['duration']),
                           ('sharpe vs performance', a['sharpe'], js['sharpe']), ('sortino', a['sortino'], js['sortino']),
                           ('cagr', a['cagr'], js['cagr']), ('max drawdown vs performance', a['maxdd'], js['maxdd'])):
            if not ok(x, y, 1e-12):
                F.append('tearsheet / JSON / performance disagree on %s: %s vs %s' % (name, x, y))
        dr = a.get('dd_raw')
        if dr:
            # create_drawdowns is a public function: on the raw (not normalised) curve the series is the same
            if len(dr['dd']) != len(dd) or any(not ok(float(x), y, 1e-9) for x, y in zip(dd, dr['dd'])):
                F.append('create_drawdowns on the raw equity series (first value %s) differs from 1 - value / running maximum' % (c['curve'][0][1] * c.get('raw_scale', 1.0)))
            elif not ok(float(maxdd), dr['maxdd']) or (not kn and dur != dr['duration']):
                F.append('create_drawdowns on the raw equity series: max %s / duration %s, definition %s / %s' % (dr['maxdd'], dr['duration'], float(maxdd), dur))
        # the Highcharts-shaped lists carry the same figures: one entry [month - 1, index of the year, 100 x return] per
        # month of the monthly aggregates (month-major), one 100 x return per year
        if 'monthly_hc' in js:
            yrs = sorted(set(k[0] for k, _ in js['monthly']))
            want_hc = sorted([k[1] - 1, yrs.index(k[0]), 100.0 * v] for k, v in js['monthly'])
            for name_, got_hc in (('monthly_agg_returns_hc', js['monthly_hc']), ('monthly_agg_returns_hc of the exported file', a.get('file_monthly_hc'))):
                if got_hc is None:
                    continue
                if [e[:2] for e in got_hc] != [e[:2] for e in want_hc]:
                    F.append('%s lists the months %s, the monthly aggregates have %s' % (name_, [e[:2] for e in got_hc][:30], [e[:2] for e in want_hc][:30]))
                elif not all(ok(g[2], w_[2]) for g, w_ in zip(got_hc, want_hc)):
                    F.append('%s figures %s differ from 100 x monthly aggregates %s' % (name_, got_hc[:12], want_hc[:12]))
            want_y = [100.0 * v for _, v in js['yearly']]
            if len(js['yearly_hc']) != len(want_y) or not all(ok(g, w_) for g, w_ in zip(js['yearly_hc'], want_y)):
                F.append('yearly_agg_returns_hc %s differs from 100 x yearly aggregates %s' % (js['yearly_hc'][:8], want_y[:8]))
        if a.get('file', 'same') != 'same':
            F.append('JSONStatistics.to_file: %s' % a['file'])
        if a.get('two_objects', 'same') != 'same':
            F.append('after a second JSONStatistics object was built for another curve, %s' % a['two_objects'])
        ru = a.get('reuse')
        if ru and ru[0] != 'same':
            F.append('statistics of a sub-period taken from an already analysed frame differ from those of the same equity values in a fresh frame: %s' % ru)
        pn = a.get('panel')
        if pn and 'err' in pn:
            F.append('the tearsheet text panel could not be rendered: %s' % pn['err'])
        elif pn:
            def fmt(kind, x):
                x = fr(x)
                if x is None:
                    return None
                x = float(x)
                return {'total': '{:.0%}', 'cagr': '{:.2%}', 'sharpe': '{:.2f}', 'sortino': '{:.2f}', 'maxdd': '{:.2%}', 'duration': '{:.0f}'}[kind].format(x)
            for col, src, tot in (('s', js, a.get('json_total')), ('b', a.get('json_bench_alone'), a.get('bench_total'))):
                if not src:
                    continue
                for kind, val in (('total', tot), ('cagr', src['cagr']), ('sharpe', src['sharpe']), ('sortino', src['sortino']),
                                  ('maxdd', src['maxdd']), ('duration', src['duration'])):
                    want = fmt(kind, val)
                    if want is not None and 'nan' not in want and 'inf' not in want and pn[col].get(kind) != want:
                        F.append('tearsheet text panel, %s column: %s shown as %s, the JSON export of that curve says %s' % (
                            'strategy' if col == 's' else 'benchmark', kind, pn[col].get(kind), want))
        jb, ja = a.get('json_bench'), a.get('json_bench_alone')
        if jb and ja:
            for name in ('n', 'sharpe', 'sortino', 'cagr', 'maxdd', 'duration', 'ann_vol'):
                if not ok(ja[name], jb[name], 1e-12):
                    F.append('JSON export: a curve passed as benchmark reports %s = %s, the same curve on its own %s' % (name, jb[name], ja[name]))
        if not ok(js['std'] * math.sqrt(P), js['ann_vol'], 1e-9):
            F.append('JSON annualised volatility %s, sqrt(periods) x std = %s' % (js['ann_vol'], js['std'] * math.sqrt(P)))
        for name in ('dd', 'returns', 'cum'):
            if len(t[name]) != len(js[name]) or any(not ok(x, y, 1e-12) for x, y in zip(t[name], js[name])):
                F.append('tearsheet and JSON %s series differ' % name)
        # scale invariance
        if 'scaled' in impl:
            b = impl['scaled']
            for name in (('maxdd', 'cagr', 'mean', 'std') if degenerate else ('maxdd', 'cagr', 'sharpe', 'sortino', 'mean', 'std')):
                if not ok(a[name], b[name], 1e-8):
                    F.append('%s changes when equity is multiplied by %s: %s -> %s' % (name, c['scale'], a[name], b[name]))
            if not kn and a['duration'] != b['duration'] and c['scale'] in (2.0, 0.5, 1024.0):
                F.append('drawdown duration changes under scaling by %s: %s -> %s' % (c['scale'], a['duration'], b['duration']))
            for name in ('returns', 'cum', 'dd'):
                if any(not ok(x, y, 1e-9) for x, y in zip(a[name], b[name])):
                    F.append('%s series changes under scaling by %s' % (name, c['scale']))
        del D[6:], F[6:]
        return j

    def shrink_candidates(self, c):
        cur = c['curve']
        step = max(1, len(cur) // 8)
        for i in range(0, len(cur), step):
            d = dict(c)
            d['curve'] = cur[:i] + cur[i + step:]
            if len(d['curve']) >= 2:
                yield d

    def neighbours(self, c, rng):
        return [gen_case(rng, 'quick') for _ in range(48)]

    def matches_known(self, k, case, text):
        return False


PROP = C17()
