"""C02 — holdings equal the net of all fills and are valued at the latest price."""
from fractions import Fraction

from ..engine import Prop, Judgement
from .. import brokerlib as bl
from ..numcmp import close, fr
from .c15 import DOCUMENTED


def check_view(w, net, last, cashv, holdings, tmv, equity, tol, out):
    """holdings: [[asset, qty, mv, ...]] as reported; net/last: dict asset -> Fraction"""
    want = [a for a in net if net[a] != 0]
    got = [h[0] for h in holdings]
    if sorted(want) != sorted(got) or len(set(got)) != len(got):
        out.append('%s: holdings report lists %s but assets with non-zero net fills are %s' % (w, got, sorted(want)))
        return
    tot = Fraction(0)
    for h in holdings:
        a = h[0]
        if not close(net[a], h[1], tol):
            out.append('%s: quantity of %s reported %s, net of fills %s' % (w, a, h[1], float(net[a])))
        mv = net[a] * last[a]
        tot += mv
        if not close(mv, h[2], tol):
            out.append('%s: market value of %s reported %s, quantity x latest price = %s' % (w, a, h[2], float(mv)))
    if not close(tot, tmv, tol):
        out.append('%s: total market value %s, sum over holdings %s' % (w, tmv, float(tot)))
    if fr(cashv) is not None and not close(fr(cashv) + tot, equity, tol):
        out.append('%s: total equity %s, cash + market value = %s' % (w, equity, float(fr(cashv) + tot)))


def holdings_predicate_broker(case, impl, j):
    out = j.failures
    if impl['init'][0] != 'ok':
        return
    tol = Fraction(1, 10**9) * Fraction(max(1.0, bl.scale_of(case)))
    quotes = dict(((q[0], q[1]), (Fraction(q[2]), Fraction(q[3]))) for q in case['quotes'])
    net, last = {}, {}
    for n, st in enumerate(impl['steps']):
        op = case['ops'][n]
        w = 'step %d %s' % (n, op)
        if op[0] == 'create' and st['res'][0] == 'ok':
            net[op[1]] = {}
            last[op[1]] = {}
        if op[0] == 'update':
            if st['res'][0] != 'ok':
                if st['res'][1] not in DOCUMENTED or any((op[1], a) not in quotes for a in case['assets']):
                    return          # missing quote: outside "assets that have a quote"
                if st['fills']:
                    out.append('%s: refused update produced fills' % w)
            else:
                for pid in net:
                    for a in net[pid]:
                        if net[pid][a] != 0:
                            if (op[1], a) not in quotes:
                                return
                            b, k = quotes[(op[1], a)]
                            last[pid][a] = (b + k) / 2
        for pid, tx in st['fills']:
            if Fraction(tx[1]) == 0:
                continue        # a zero-quantity order is not a fill (it moves nothing and re-marks nothing)
            net[pid][tx[0]] = net[pid].get(tx[0], Fraction(0)) + Fraction(tx[1])
            last[pid][tx[0]] = Fraction(tx[3])
            j.nontrivial = True
        for pub in st['pub']:
            if len(pub) == 2:
                out.append('%s: getters raised %s' % (w, pub[1]))
                continue
            pid = pub[0]
            check_view('%s pf %s' % (w, pid), net[pid], last[pid], pub[1], pub[4], pub[2], pub[3], tol, out)
        if len(out) > 5:
            return


def holdings_predicate_pf(case, impl, j):
    out = j.failures
    tol = Fraction(1, 10**9) * Fraction(max(1.0, bl.pscale_of(case)))
    net, last = {}, {}
    prev = impl['snap0']
    for n, st in enumerate(impl['steps']):
        op = case['ops'][n]
        w = 'step %d %s' % (n, op)
        ok = st['res'][0] == 'ok'
        if op[0] == 'txn':
            if not ok:
                return      # refused transaction: judged by C15, state may be partially updated
            q = Fraction(op[2])
            if 0 < q < 1:
                return      # sub-unit quantity: outside "integer quantities"
            if q != 0:
                net[op[1]] = net.get(op[1], Fraction(0)) + q
                last[op[1]] = Fraction(op[4])
                j.nontrivial = True
        elif op[0] == 'mark' and ok and net.get(op[1], 0) != 0:
            last[op[1]] = Fraction(op[2])
        snap = st['snap']
        check_view(w, net, last, snap[1], st['pub'], snap[5], snap[6], tol, out)
        if len(out) > 5:
            return


class C02(Prop):
    pid = 'C02'
    worker = 'broker'
    rule = ('fill / mark sequences through SimulatedBroker (orders + clock updates with moving quotes) and directly on '
            'Portfolio (transact_asset / update_market_value_of_asset), incl. closes to exactly zero, re-opens and '
            'single-fill flips; non-trivial = at least one fill; distinct = hash of the sequence of (op, result, holdings signs)')
    FIELDS = {'res', 'holdings', 'cash'}

    def gen(self, rng, tier):
        n = 400 if tier == 'quick' else 6000
        cases = []
        for i in range(n):
            r = rng.random()
            exact = rng.random() < 0.4
            if r < 0.5:
                cases.append(bl.gen_broker_case(rng, stream='valid' if rng.random() < 0.7 else 'boundary', exact=exact,
                                                n_ops=rng.randint(8, 50 if tier == 'quick' else 120), malformed_rate=0.03))
            else:
                c = bl.gen_portfolio_case(rng, stream='valid' if rng.random() < 0.7 else 'boundary', exact=exact)
                if rng.random() < 0.5:
                    close_reopen(c, rng)
                cases.append(c)
        return cases

    def model_case(self, case):
        return bl.broker_model_case(case) if case['kind'] == 'broker' else bl.portfolio_model_case(case)

    def judge(self, case, impl, mod):
        j = Judgement()
        if case['kind'] == 'broker':
            bl.compare_broker(case, impl, mod, self.FIELDS, j)
            holdings_predicate_broker(case, impl, j)
            steps = impl.get('steps', [])
            sig = tuple((op[0], st['res'][0], tuple(tuple((h[0], h[1] > 0) for h in p[4]) if len(p) > 2 else () for p in st['pub']))
                        for op, st in zip(case['ops'], steps))
        else:
            bl.compare_portfolio(case, impl, mod, self.FIELDS, j)
            holdings_predicate_pf(case, impl, j)
            for rs in impl.get('restored', []):
                j.failures.append('a Position rebuilt from the stored fields of %s with the documented constructor differs (%s): %s' % (rs[0], rs[1], rs[2:]))
            for sp in impl.get('sparse_reads', []):
                j.failures.append('the same operations, state read only every third step: step %s reads %s, read after every step it was %s' % tuple(sp[:3]))
            for pr in impl.get('probe', []):
                if len(pr) != 6:
                    j.failures.append('a mark of %s without a timestamp was refused: %s' % (pr[0], pr[1:]))
                elif pr[1] != pr[2] or abs(pr[4] - pr[1] * pr[3]) > 1e-9 * max(1.0, abs(pr[4])):
                    j.failures.append('after a mark of %s at %s (no timestamp) the position is priced %s and valued %s for quantity %s'
                                      % (pr[0], pr[1], pr[2], pr[4], pr[3]))
            sig = tuple((op[0], st['res'][0], tuple((h[0], h[1] > 0) for h in st['pub'])) for op, st in zip(case['ops'], impl['steps']))
        j.key = hash((case['kind'], sig))
        return j

    def neighbours(self, case, rng):
        return [bl.gen_broker_case(rng, exact=rng.random() < 0.5) for _ in range(32)] + \
               [bl.gen_portfolio_case(rng, exact=rng.random() < 0.5) for _ in range(32)]

    def matches_known(self, k, case, text):
        return False


def close_reopen(c, rng):
    """rewrite a Portfolio case so that positions are closed to exactly zero, flipped and re-opened"""
    net = {}
    ops = []
    t = c['start']
    for op in c['ops']:
        if op[0] == 'txn':
            a = op[1]
            r = rng.random()
            cur = net.get(a, 0)
            if cur != 0 and float(cur).is_integer() and r < 0.35:
                op = ['txn', a, -int(cur), op[3], op[4], op[5]]            # close exactly
            elif cur != 0 and float(cur).is_integer() and r < 0.55:
                op = ['txn', a, -int(cur) * rng.choice([2, 3]), op[3], op[4], op[5]]   # flip through zero
            if float(op[2]).is_integer():
                net[a] = net.get(a, 0) + int(op[2])
            else:
                net[a] = float('nan')
        ops.append(op)
    c['ops'] = ops
    c['stream'] = c['stream'] + ':closereopen'


PROP = C02()
