"""C18 — identical inputs give identical results."""
from fractions import Fraction
import copy

from ..engine import Prop, Judgement
from .. import sesslib as sl
from .. import impl as implmod
from .c07 import csv_market, table_of_csv

DAY = 86400
SEEDS = ['0', '1', '2', '3', '4242', '99991']


def strip_ids(d):
    return d


def tied_topn_case(rng, tier):
    """several assets enter a dynamic universe together; top-N momentum with tied momenta (identical
    price paths and the warm-up zeros): the configuration in which enumeration order matters"""
    n = rng.randint(4, 8)
    assets = ['EQ:%s' % x for x in rng.sample(['XLB', 'XLC', 'XLE', 'XLF', 'XLI', 'XLK', 'XLP', 'XLU', 'XLV', 'XLY', 'SPY', 'AGG'], n)]
    d0 = sl.BASE + rng.randint(0, 200)
    while sl.weekday(d0) > 4:
        d0 += 1
    start = d0 * DAY + sl.OPEN
    nd = rng.randint(6, 25)
    end = (d0 + nd) * DAY + 86340
    evs = sl.event_times(start, end)
    closes = [t for t, k in evs if k == 'market_close']
    join = rng.choice(closes[:max(1, len(closes) // 2)]) if rng.random() < 0.7 else start
    universe = ['dynamic', [[a, (start if i == 0 and rng.random() < 0.5 else join)] for i, a in enumerate(assets)]]
    lb = rng.choice([1, 2, 3])
    # identical paths for groups of assets -> tied momenta
    groups = [rng.randrange(3) for _ in assets]
    paths = {}
    rows = []
    price = [float(rng.randint(80, 800)) / 8 for _ in range(3)]
    for t, _ in evs:
        price = [max(1.0, p + rng.randint(-8, 8) / 8) for p in price]
        rows.append([t, [[a, price[g]] for a, g in zip(assets, groups)]])
    cfg = {'start': start, 'end': end, 'universe': universe, 'alpha': ['topn', lb, rng.randint(1, 3)], 'cash': 100000.0,
           'rebal': rng.choice([['daily'], ['weekly', rng.choice(sl.WD)]]), 'long_only': True, 'param': 0.0, 'fee': ['zero'],
           'burn': None, 'lookbacks': [lb]}
    return {'cfg': cfg, 'market': {'kind': 'table', 'rows': rows}, 'exact': True, 'assets': assets, 'stream': 'tied-topn'}


class C18(Prop):
    pid = 'C18'
    worker = 'sessworker'
    cross_limit = 6
    rule = ('the same backtest (i) twice in one process, the second run re-using the CSVDailyBarDataSource (and its memo) that served the '
            'first run plus arbitrary extra queries, or that served a different (earlier/later) session - also with two vendors behind one shared data handler -, and (ii) in fresh interpreters under PYTHONHASHSEED in {0,1,2,3,4242,99991}, on '
            'configurations that include dynamic universes whose assets enter together and the top-N momentum alpha on tied momenta; '
            'fills, history (no order ids), equity curve and target allocations compared bit-for-bit; the first run is also compared '
            'with the Coq session model; non-trivial = at least one fill; distinct = hash of the configuration')

    def gen(self, rng, tier):
        n = 80 if tier == 'quick' else 800
        out = []
        csv_seen = rng.randint(0, 6)
        for i in range(n):
            if rng.random() < 0.35:
                c = tied_topn_case(rng, tier)
            elif rng.random() < 0.2:
                # fixed weights on assets the (static) universe does not list, several rebalances, universe object shared by both runs
                c = sl.gen_session(rng, tier, all_quoted=True, max_days=(30 if tier == 'quick' else 120), outside_universe=True)
                c['mode'] = 'twice'
                c['share_universe'] = True
                c['stream'] += ':outside-universe:shared-universe'
                out.append(c)
                continue
            else:
                c = sl.gen_session(rng, tier, all_quoted=True, max_days=(30 if tier == 'quick' else 120))
            if rng.random() < 0.85 and c['stream'] != 'tied-topn':
                cfg = c['cfg']
                c['market'] = csv_market(rng, c['assets'], cfg['start'] // DAY, cfg['end'] // DAY, c['exact'])
                c['stream'] += ':csv'
                c['extra_queries'] = [[rng.choice(c['assets']), rng.randint(cfg['start'] - 5 * DAY, cfg['end'] + 5 * DAY)] for _ in range(20)]
                evt = [t for t, _ in sl.event_times(cfg['start'], cfg['end'])]
                c['extra_queries'] += [[a_, t] for a_ in c['assets'] for t in rng.sample(evt, min(len(evt), 12))]
            c['mode'] = 'twice'
            if c['market']['kind'] == 'csv':
                # the modes take turns (every mode gets its share under every seed); a mode that does not apply to the
                # case at hand hands over to the next one
                cfg = c['cfg']
                order = ['prequeried', 'after_other', 'same_dir', 'churn', 'default_after_other', 'resourced', 'twice']
                start_at = csv_seen % len(order)
                csv_seen += 1
                for want in order[start_at:] + order[:start_at]:
                    if want == 'default_after_other' and cfg.get('lookbacks') is not None:
                        continue
                    break
                if want == 'prequeried':
                    c['mode'] = 'prequeried'
                    c['stream'] += ':prequeried'
                elif want == 'after_other':
                    # the data source first serves a DIFFERENT (later, overlapping or disjoint) session
                    shift = rng.choice([3, 10, 25, 60, -10, -25, -60]) * DAY
                    late_variant = cfg.get('lookbacks') is None and (csv_seen // len(order)) % 2 == 0
                    if late_variant:
                        shift = abs(shift) if abs(shift) >= 10 * DAY else 10 * DAY
                    other = dict(cfg, start=cfg['start'] + shift, end=cfg['end'] + shift)
                    if other.get('burn') is not None:
                        other['burn'] = other['burn'] + shift
                    if other['universe'][0] == 'dynamic':
                        other['universe'] = ['dynamic', [[a, (None if e is None else e + shift)] for a, e in other['universe'][1]]] + list(other['universe'][2:])
                    c['cfg_other'] = other
                    lo = min(cfg['start'], cfg['start'] + shift) // DAY
                    hi = max(cfg['end'], cfg['end'] + shift) // DAY
                    c['market'] = csv_market(rng, c['assets'], lo, hi, c['exact'])
                    c['mode'] = 'after_other'
                    c['stream'] += ':reused'
                    if late_variant:
                        # one asset is listed a few days into this session (its file begins there): before that nobody has a
                        # price for it - also not a data HANDLER that priced it while serving the later session first
                        late_a = rng.choice(sorted(c['market']['assets']))
                        first_day = cfg['start'] // DAY + rng.randint(2, 8)
                        rows_ = c['market']['assets'][late_a]
                        c['market'] = dict(c['market'], assets=dict(c['market']['assets'], **{late_a: [r for r in rows_ if r[0] >= first_day] or rows_[-1:]}))
                        c['share_handler'] = True
                        c['no_model'] = True
                        c['stream'] += ':late-listed-asset'
                    elif rng.random() < 0.5:
                        # a second vendor with a longer history and different quotes behind a primary one whose files begin
                        # with the session; the same data HANDLER (not only its sources) first serves the other session
                        backup = csv_market(rng, c['assets'], lo, hi, c['exact'])['assets']
                        first = cfg['start'] // DAY - rng.choice([0, 1, 3])
                        prim = dict((a, [r for r in rows if r[0] >= first] or rows[-1:]) for a, rows in c['market']['assets'].items())
                        c['market'] = dict(c['market'], assets=prim, backup=backup)
                        c['share_handler'] = True
                        c['stream'] += ':two-vendors'
                elif want == 'same_dir':
                    c['market'] = csv_market(rng, c['assets'], cfg['start'] // DAY, cfg['end'] // DAY, c['exact'], adjust=True)
                    # another data source object on the same directory with the opposite adjustment setting is used first
                    c['mode'] = 'same_dir'
                    c['event_times'] = [[t, k] for t, k in sl.event_times(cfg['start'], cfg['end'])]
                    c['stream'] += ':same-dir-other-adjust'
                elif want == 'churn':
                    c['market2'] = csv_market(rng, c['assets'], cfg['start'] // DAY, cfg['end'] // DAY, c['exact'], adjust=c['market'].get('adjust', True))
                    c['event_times'] = [[t, k] for t, k in sl.event_times(cfg['start'], cfg['end'])]
                    c['mode'] = 'churn'
                    c['stream'] += ':sources-on-another-market-built-and-dropped-first'
                elif want == 'resourced':
                    c['market2'] = csv_market(rng, c['assets'], cfg['start'] // DAY, cfg['end'] // DAY, c['exact'], adjust=c['market'].get('adjust', True))
                    c['mode'] = 'resourced'
                    c['stream'] += ':handler-given-new-sources'
                elif want == 'default_after_other':
                    # sessions that build their OWN data handler from QSTRADER_CSV_DATA_DIR: one on another directory (same symbols,
                    # other prices) runs first in the process, then the session under test; baseline = explicit handler
                    c['market'] = csv_market(rng, c['assets'], cfg['start'] // DAY, cfg['end'] // DAY, c['exact'], adjust=True)
                    c['market2'] = csv_market(rng, c['assets'], cfg['start'] // DAY, cfg['end'] // DAY, c['exact'], adjust=True)
                    c['default_handler'] = True
                    c['mode'] = 'default_after_other'
                    c['stream'] += ':default-dir-after-other-dir'
                    if (csv_seen // len(order)) % 2 == 1:
                        # the variable is not set at all: the files are found in the current directory, which changes
                        # between the two sessions
                        c['default_handler'] = 'cwd'
                        c['stream'] += ':cwd'
            if c['mode'] == 'twice' and rng.random() < 0.6:
                c['share_universe'] = True          # the second run is given the universe object of the first
                c['stream'] += ':shared-universe'
            out.append(c)
        return out

    def model_case(self, c):
        if c['market']['kind'] == 'csv':
            c2 = dict(c)
            c2['market'] = {'kind': 'table', 'rows': table_of_csv(c)}
            return sl.session_model_case(c2)
        return sl.session_model_case(c)

    def judge(self, c, impl, mod):
        j = Judgement()
        j.key = hash(repr(c['cfg']))
        a, b = impl['first'], impl['second']
        if 'address_reused' in impl:
            j.tags.append('address-reused' if impl['address_reused'] else 'address-not-reused')
        c2 = c
        if c['market']['kind'] == 'csv':
            c2 = dict(c)
            c2['market'] = {'kind': 'table', 'rows': table_of_csv(c)}
        if not c.get('no_model'):
            sl.compare_session(c2, a, mod, j)
        da, db = sl.digest(a), sl.digest(b)
        for key in ('init', 'equity', 'fills', 'history', 'allocs', 'error'):
            if da.get(key) != db.get(key):
                j.failures.append('second run in the same process (shared, memoised data source) differs in %s' % key)
        if a['init'][0] == 'ok' and a['fills']:
            j.nontrivial = True
        return j

    def extra_checks(self, tier, rng):
        """fresh interpreters under different string-hash seeds"""
        n = 56 if tier == 'quick' else 200
        cases = []
        for i in range(n):
            r_ = rng.random()
            if r_ < 0.25:
                # symbols equal up to letter case, fixed long/short weights: any case-insensitive ordering leaves their order to the hash seed
                c = sl.gen_session(rng, tier, max_days=25, fixed_only=True, collide=True)
            else:
                c = tied_topn_case(rng, tier) if r_ < 0.75 else sl.gen_session(rng, tier, max_days=25)
            cases.append(c)
        runs = {}
        for s in (SEEDS if tier == 'thorough' else SEEDS[:4]):
            runs[s] = implmod.run_impl('sessworker', cases, hashseed=s, min_per_shard=2)
        found = []
        base = SEEDS[0]
        differing = 0
        for i, c in enumerate(cases):
            d0 = sl.digest(runs[base][i])
            for s in runs:
                if s == base:
                    continue
                ds = sl.digest(runs[s][i])
                bad = [k for k in ('init', 'equity', 'fills', 'history', 'allocs', 'error') if d0.get(k) != ds.get(k)]
                if bad:
                    differing += 1
                    x, y = d0.get(bad[0]), ds.get(bad[0])
                    found.append(('failure', 'PYTHONHASHSEED=%s and =%s give different %s for the same backtest: %s vs %s' % (
                        base, s, bad[0], (x[:2] if isinstance(x, list) else x), (y[:2] if isinstance(y, list) else y)),
                        dict(c, hashseeds=[base, s])))
                    break
        # broker level: the same operation sequence (several same-side orders per asset, several portfolios) run twice
        from .. import brokerlib as bl
        bcases = []
        for i in range(40 if tier == 'quick' else 400):
            bc = bl.gen_broker_case(rng, stream=rng.choice(['valid', 'boundary']), exact=rng.random() < 0.5, n_ops=rng.randint(10, 40))
            # pile up same-asset orders so that ties in (side, asset) occur
            extra = []
            pids = [op[1] for op in bc['ops'] if op[0] == 'create']
            for op in bc['ops']:
                extra.append(op)
                if op[0] == 'submit' and op[1] in pids and rng.random() < 0.6:
                    extra.append(['submit', rng.choice(pids), op[2], op[3] + rng.choice([1, 2, 5]) * (1 if op[3] >= 0 else -1)])
            bc['ops'] = extra
            bcases.append(bc)
        r1 = implmod.run_impl('broker', bcases, hashseed='0', min_per_shard=2)
        r2 = implmod.run_impl('broker', bcases, hashseed='0', min_per_shard=2)
        for bc, x, y in zip(bcases, r1, r2):
            if x != y:
                steps = next((n for n, (p, q) in enumerate(zip(x.get('steps', []), y.get('steps', []))) if p != q), None)
                found.append(('failure', 'the same broker operation sequence run twice gives different results (first difference at step %s: %s vs %s)' % (
                    steps, (x.get('steps') or [None])[steps or 0] and x['steps'][steps or 0].get('fills'),
                    (y.get('steps') or [None])[steps or 0] and y['steps'][steps or 0].get('fills')), bc))
                break
        return found[:5], {'evaluations': len(cases) * len(runs) + 2 * len(bcases), 'distinct_nontrivial': len(cases) + len(bcases),
                           'hash_seeds': list(runs), 'sessions_differing_across_seeds': differing}

    def shrink_candidates(self, c):
        cfg = c['cfg']
        for cut in (10, 3, 1):
            if cfg['end'] - cut * DAY > cfg['start']:
                d = dict(c); d['cfg'] = dict(cfg, end=cfg['end'] - cut * DAY)
                yield d

    def neighbours(self, c, rng):
        return []

    def matches_known(self, k, case, text):
        return False


PROP = C18()
