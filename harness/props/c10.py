"""C10 — long-only sizing never budgets more than the cash-buffered equity."""
from fractions import Fraction
import math

from ..engine import Prop, Judgement
from ..numcmp import near_int, KNIFE
from .. import brokerlib as bl

ASSETS = ['AAA', 'BBB', 'CCC', 'DDD', 'EEE', 'FFF']
ATOL = Fraction(1e-8)      # the binary64 atol np.isclose uses


def fee_rate(fee):
    return Fraction(0) if fee[0] == 'zero' else Fraction(fee[1]) + Fraction(fee[2])


def sizer_model_case(c):
    return ('sizer', [c['kind'], Fraction(c['param']), Fraction(c['equity']), bl.fee_val(c['fee']),
                      [[a, ([] if p is None else [Fraction(p)])] for a, p in c['prices']],
                      [[a, Fraction(w)] for a, w in c['weights']]])


def compare_sizer(c, impl, mod, j, knife_fn):
    if impl[0] == 'err' or mod[0] == 'err':
        mi = mod[1] if mod[0] == 'err' else 'ok'
        ii = impl[1] if impl[0] == 'err' else 'ok'
        if mi != ii:
            j.disagreements.append('model=%s impl=%s' % (mod[:3] if mod[0] == 'err' else 'ok', ii))
        return
    mq = [[a, q] for a, q in mod[1]]
    if [a for a, _ in mq] != [a for a, _ in impl[1]]:
        j.disagreements.append('asset order model=%s impl=%s' % ([a for a, _ in mq], [a for a, _ in impl[1]]))
        return
    for (a, q), (_, iq) in zip(mq, impl[1]):
        if q != iq:
            if knife_fn(a):
                j.knife += 1
            else:
                j.disagreements.append('quantity of %s model=%s impl=%s' % (a, q, iq))


def lo_quantities(c):
    """exact per-asset figures: (A_i, fees_i, price_i) with the code's normalisation rule"""
    w = [(a, Fraction(x)) for a, x in c['weights']]
    s = sum(x for _, x in w)
    E = Fraction(c['equity']) * (1 - Fraction(c['param']))
    f = fee_rate(c['fee'])
    norm = abs(s) > ATOL
    out = {}
    prices = dict(c['prices'])
    for a, x in w:
        wh = x / s if norm else x
        A = E * wh
        out[a] = (A, f * abs(A), prices.get(a))
    return out, norm


def lo_knife(c):
    fig, _ = lo_quantities(c)

    strict = c.get('stream') == 'exact'

    def k(a):
        A, fees, p = fig[a]
        return p is not None and near_int((A - fees) / Fraction(p), strict)
    return k


class C10(Prop):
    pid = 'C10'
    worker = 'pcmworker'
    rule = ('DollarWeightedCashBufferedOrderSizer called with a stub broker/data handler on random weight vectors (unnormalised, '
            'sparse, all-zero, sums near 1e-8), price vectors, equity levels, buffers in [0,1] incl. the ends and outside, fee rates '
            'with c+t <= 1; an exact-by-construction stream where the after-fee allocation is an exact multiple of the price; negative '
            'weights and a NaN price at each position; non-trivial = at least one non-zero target or a rejection; distinct = the case tuple')

    def gen_case(self, rng, stream):
        n = rng.randint(1, 6)
        assets = rng.sample(ASSETS, n)
        c = {'op': 'sizer', 'kind': 'long_only', 'stream': stream}
        if stream == 'exact':
            # after-fee allocation of every asset = k * price exactly, all arithmetic exact in binary64
            j = rng.choice([1, 2, 4])
            assets = assets[:j] if len(assets) >= j else ASSETS[:j]
            c['param'] = rng.choice([0.0, 0.5, 0.75, 0.875])
            rate = rng.choice([0.0, 0.5, 0.75])
            c['fee'] = ['zero'] if rate == 0 else ['pct', rate / 2, rate / 2]
            p0 = bl.dy(rng, 1, 200, 8)
            k0 = rng.randint(0, 5000)
            E = k0 * p0 * j / ((1 - c['param']) * (1 - rate))
            c['equity'] = E
            # other assets get the same dollar allocation; their prices divide it exactly
            c['weights'] = [[a, 0.25] for a in assets]
            c['prices'] = [[a, p0 if i == 0 else p0 / rng.choice([1, 2, 4])] for i, a in enumerate(assets)]
            bump = rng.choice([0, 0, 1, -1])
            if bump:
                c['equity'] = E + bump * E * 2.0 ** -22
            return c
        if stream == 'nearly':
            # weights that are already (almost) normalised: sum = 1 +- a few 1e-6, large equity / price
            # ratio so that a relative 1e-6 is worth whole shares
            raw = [rng.random() + 0.05 for _ in assets]
            tot = sum(raw)
            eps = rng.choice([0.0, 1e-9, -1e-9, 1e-7, 8e-6, -8e-6, 1e-5, -1e-5, 3e-5, 1e-4, -1e-4])
            c['weights'] = [[a, x / tot * (1 + eps)] for a, x in zip(assets, raw)]
            c['param'] = rng.choice([0.0, 0.05, 0.5])
            c['equity'] = rng.choice([1e6, 5e6, 9e6, rng.uniform(1e6, 1e7)])
            c['fee'] = ['zero'] if rng.random() < 0.6 else ['pct', 0.001, 0.0]
            c['prices'] = [[a, rng.choice([1.0, 0.5, 2.0, round(rng.uniform(0.5, 3), 2)])] for a in assets]
            return c
        c['param'] = rng.choice([0.0, 1.0, 0.05, 0.15, 0.025, round(rng.random(), 3), rng.random()])
        c['equity'] = rng.choice([1e6, 325000.0, 687523.0, round(rng.uniform(100, 5e6), 2), rng.uniform(1, 1e7)])
        r = rng.random()
        if r < 0.3:
            c['fee'] = ['zero']
        else:
            ct = rng.choice([0.001, 0.0075, 0.5, 1.0, rng.random()])
            x = rng.random()
            c['fee'] = ['pct', ct * x, ct * (1 - x) * 0.999]
        c['prices'] = [[a, rng.choice([round(rng.uniform(1, 500), 2), rng.uniform(0.01, 3000)])] for a in assets]
        kind = rng.random()
        if kind < 0.5:
            c['weights'] = [[a, rng.choice([rng.random(), rng.random() * 10, 0.0, round(rng.random(), 2)])] for a in assets]
        elif kind < 0.6:
            c['weights'] = [[a, 0.0] for a in assets]
        elif kind < 0.7:
            c['weights'] = [[a, rng.choice([1e-9, 3e-9, 5e-9, 0.0, 1e-8 / n, 1.1e-8 / n])] for a in assets]
        elif kind < 0.8:
            c['weights'] = [[a, rng.choice([0.5, 0.25, 0.125, 1.0, 2.0])] for a in assets]
        else:
            c['weights'] = [[a, rng.random()] for a in assets]
        if stream == 'malformed':
            m = rng.choice(['neg', 'nan', 'buffer', 'empty'])
            if m == 'neg':
                c['weights'][rng.randrange(n)][1] = -rng.random()
                if n >= 2 and rng.random() < 0.4:
                    # a mixed-sign vector whose sum is (almost) zero
                    x = rng.choice([0.5, 0.25, 1.0, rng.random()])
                    c['weights'] = [[a, 0.0] for a, _ in c['weights']]
                    c['weights'][0][1] = x
                    c['weights'][1][1] = -x + rng.choice([0.0, 0.0, 1e-9, -1e-9])
            elif m == 'nan':
                c['prices'][rng.randrange(n)][1] = None
            elif m == 'buffer':
                c['param'] = rng.choice([-0.01, 1.01, -1.0, 1.5, -1e-9, -1e-12, 1.0 + 1e-9, 1.000001, 1.0 + 2.0 ** -40, -5e-324])
            else:
                c['weights'] = []
        if rng.random() < 0.3:
            c['two_sided'] = rng.choice(['normal', 'crossed'])      # the real BacktestDataHandler over a source with bid != ask
            c['nan_first'] = rng.random() < 0.4                     # ... behind an earlier-listed source that has no bar yet
            c['handler_universe'] = rng.random() < 0.4              # ... in a handler whose universe lists none of the assets
        if rng.random() < 0.3:
            ws = [[a, abs(w) if True else w] for a, w in c['weights']]
            c['warmup_calls'] = [ws + [['EQ:WARM1', 0.5], ['EQ:WARM2', 0.25]], [['EQ:WARM2', 1.0]]][:rng.randint(1, 2)]
        if rng.random() < 0.2:
            # the broker charged other fees when the sizer was built (and during the earlier calls); its fee model is replaced before this call
            c['warm_fee'] = rng.choice([['zero'], ['pct', 0.08, 0.0], ['pct', 0.001, 0.005], ['pct', 0.2, 0.0]])
        if rng.random() < 0.15 and 0.0 <= c['param'] <= 1.0:
            c['warm_param'] = rng.choice([0.0, 0.05, 0.5, 1.0, 0.25])
        return c

    def gen(self, rng, tier):
        n = 3000 if tier == 'quick' else 60000
        out = []
        for i in range(n):
            r = rng.random()
            out.append(self.gen_case(rng, 'random' if r < 0.55 else ('exact' if r < 0.75 else ('nearly' if r < 0.88 else 'malformed'))))
        return out

    def model_case(self, c):
        return sizer_model_case(c)

    def judge(self, c, impl, mod):
        j = Judgement()
        j.key = repr((c['param'], c['equity'], c['fee'], c['prices'], c['weights']))
        ssum = sum(Fraction(x) for _, x in c['weights'])
        if 0 < abs(abs(ssum) - ATOL) < ATOL / 10**6:
            j.knife += 1          # the weight sum sits on the np.isclose threshold: float and exact sums may land on different sides
            return j
        compare_sizer(c, impl, mod, j, lo_knife(c))
        out = j.failures
        w = [(a, Fraction(x)) for a, x in c['weights']]
        prices = dict(c['prices'])
        b = Fraction(c['param'])
        bad = None
        if b < 0 or b > 1:
            bad = 'buffer outside [0,1]'
        elif w and any(x < 0 for _, x in w):
            bad = 'negative weight'
        elif w and any(prices.get(a) is None for a, _ in w):
            bad = 'unavailable price'
        if impl[0] == 'err':
            j.nontrivial = True
            j.tags.append('rejected')
            if bad is None:
                out.append('valid sizing request rejected with %s' % impl[1])
            elif impl[1] != 'ValueError':
                out.append('rejected with %s, documented error is ValueError' % impl[1])
            return j
        if bad is not None:
            out.append('%s was accepted: %s' % (bad, impl[1]))
            return j
        fig, norm = lo_quantities(c)
        E = Fraction(c['equity']) * (1 - b)
        total = Fraction(0)
        j.tags.append('normalised' if norm else 'raw-weights')
        if c['equity'] <= 0 or any(p <= 0 for p in prices.values()):
            return j
        if sorted(a for a, _ in impl[1]) != sorted(a for a, _ in c['weights']):
            out.append('the target covers %s, the weighted assets are %s' % (sorted(a for a, _ in impl[1]), sorted(a for a, _ in c['weights'])))
            return j
        for (a, q), ty in zip(impl[1], impl[2]):
            A, fees, p = fig[a]
            p = Fraction(p)
            if ty != 'int' or q != int(q):
                out.append('target quantity of %s is %r (%s), not a whole number' % (a, q, ty))
                continue
            if q != 0:
                j.nontrivial = True
            if q < 0 and (A - fees) / p < -1:
                out.append('negative long-only quantity %s for %s' % (q, a))
                continue
            x = (A - fees) / p
            if near_int(x):
                j.knife += 1
                continue
            if x.denominator == 1 and x != 0 and c.get('stream') != 'exact' and q == x - 1:
                j.knife += 1      # an exact multiple reached through inexact float steps may land one share short
                continue
            if q < 0:
                out.append('negative long-only quantity %s for %s' % (q, a))
            if q * p + fees > A:
                out.append('%s: %s shares cost %s + fees %s exceed its share %s of the buffered equity' % (a, q, float(q * p), float(fees), float(A)))
            if (q + 1) * p + fees <= A:
                out.append('%s: %s shares, but one more would still fit (%s + fees %s <= %s)' % (a, q, float((q + 1) * p), float(fees), float(A)))
            total += q * p + fees
        if total > E and not out:
            out.append('whole target costs %s, more than (1 - buffer) x equity = %s' % (float(total), float(E)))
        if all(x == 0 for _, x in w) and any(q != 0 for _, q in impl[1]):
            out.append('all-zero weights gave a non-zero target %s' % impl[1])
        return j

    def shrink_candidates(self, c):
        for i in range(len(c['weights'])):
            d = dict(c)
            d['weights'] = c['weights'][:i] + c['weights'][i + 1:]
            yield d

    def neighbours(self, c, rng):
        return [self.gen_case(rng, rng.choice(['random', 'exact', 'malformed'])) for _ in range(200)]

    def matches_known(self, k, c, text):
        # K1: commission + tax above 100 %
        return k.get('id') == 'K1' and c.get('kind') == 'long_only' and fee_rate(c['fee']) > 1


PROP = C10()
