"""C05 — fills use the current quote and charge exactly the fee model's commission."""
from fractions import Fraction

from ..engine import Prop, Judgement
from .. import brokerlib as bl, model
from ..numcmp import close, fr, near_half
from .c01 import py_round2


def round_he(x):
    f = x.numerator // x.denominator
    r = x - f
    if r > Fraction(1, 2) or (r == Fraction(1, 2) and f % 2 == 1):
        f += 1
    return f


def fee_of(fee, consideration):
    if fee[0] == 'zero':
        return Fraction(0)
    return (Fraction(fee[1]) + Fraction(fee[2])) * abs(consideration)


def fill_predicate(case, impl, j):
    out = j.failures
    if impl['init'][0] != 'ok':
        return
    tol = Fraction(1, 10**9) * Fraction(max(1.0, bl.scale_of(case)))
    quotes = dict(((q[0], q[1]), (Fraction(q[2]), Fraction(q[3]))) for q in case['quotes'])
    fee = case['cfg']['fee']
    prev = impl['snap0']
    for n, st in enumerate(impl['steps']):
        op = case['ops'][n]
        w = 'step %d %s' % (n, op)
        snap = st['snap']
        spent = {}
        for pid, tx in st['fills']:
            asset, q, dt, price, comm = tx[0], Fraction(tx[1]), tx[2], fr(tx[3]), fr(tx[4])
            j.nontrivial = True
            if op[0] != 'update' or dt != op[1]:
                out.append('%s: fill stamped %s, broker update time is %s' % (w, dt, op[1] if op[0] == 'update' else None))
                continue
            if (dt, asset) not in quotes or price is None or comm is None:
                out.append('%s: fill without a usable quote: %s' % (w, tx))
                continue
            bid, ask = quotes[(dt, asset)]
            if q != 0:
                want = ask if q > 0 else bid
                if price != want:
                    out.append('%s: %s of %s priced at %s, the %s is %s' % (w, 'buy' if q > 0 else 'sell', asset, tx[3],
                                                                           'ask' if q > 0 else 'bid', float(want)))
            cons = price * q
            if near_half(cons):
                j.knife += 1
                return
            wc = fee_of(fee, Fraction(round_he(cons)))
            if abs(comm - wc) > tol:
                out.append('%s: commission %s, fee model on the rounded consideration gives %s' % (w, tx[4], float(wc)))
            if comm < 0 and not (fee[0] == 'pct' and (fee[1] < 0 or fee[2] < 0)):     # (rebate rates are outside the stated [0,1] domain)
                out.append('%s: negative commission %s' % (w, tx[4]))
            if fee[0] == 'zero' and comm != 0:
                out.append('%s: zero-fee model charged %s' % (w, tx[4]))
            spent[pid] = spent.get(pid, Fraction(0)) + price * q + comm
        # the cash debited across the update is exactly price x quantity + commission of its fills
        pc = dict((a[0], a[1][1]) for a in prev[2])
        for a in snap[2]:
            if a[0] in pc and op[0] == 'update':
                d = fr(pc[a[0]]) - fr(a[1][1])
                if abs(d - spent.get(a[0], Fraction(0))) > tol:
                    out.append('%s: cash of %s fell by %s, fills cost %s' % (w, a[0], float(d), float(spent.get(a[0], Fraction(0)))))
        prev = snap
        if len(out) > 5:
            return
    # history debit / credit of each fill = its cost rounded to cents (sign by direction)
    return


class C05(Prop):
    pid = 'C05'
    worker = 'broker'
    rule = ('broker runs with a stub data handler whose bid != ask, signed integer quantities, zero and percentage fee '
            'models with rates in [0,1] (incl. 0 and 1), considerations on exact half units (exact streams); plus the fee '
            'models alone on random considerations; non-trivial = at least one fill; distinct = hash of (fee kind, fill signs)')
    FIELDS = {'res', 'fills', 'cash', 'hist'}

    def gen(self, rng, tier):
        n = 400 if tier == 'quick' else 6000
        cases = []
        for i in range(n):
            exact = rng.random() < 0.5
            fee = None
            if rng.random() < 0.3:
                fee = ['pct', rng.choice([0.0, 1.0, 0.5, 1 / 1024]), rng.choice([0.0, 1.0, 0.25])] if exact else \
                      ['pct', rng.choice([0.0, 1.0, rng.random()]), rng.choice([0.0, 1.0, rng.random()])]
            cases.append(bl.gen_broker_case(rng, stream='valid', exact=exact, fee=fee, malformed_rate=0.02,
                                            n_ops=rng.randint(8, 40 if tier == 'quick' else 100)))
        return cases

    def model_case(self, case):
        return bl.broker_model_case(case)

    def judge(self, case, impl, mod):
        j = Judgement()
        bl.compare_broker(case, impl, mod, self.FIELDS, j)
        fill_predicate(case, impl, j)
        sig = (case['cfg']['fee'][0],) + tuple(tuple(f[1][1] > 0 for f in st['fills']) for st in impl.get('steps', []))
        j.key = hash(sig)
        return j

    def extra_checks(self, tier, rng):
        """the fee models by themselves: model vs implementation vs definition"""
        from .. import impl as implmod
        n = 2000 if tier == 'quick' else 50000
        cs = []
        for i in range(n):
            if rng.random() < 0.3:
                fee = ['zero']
            else:
                fee = ['pct', rng.choice([0.0, 1.0, rng.random(), 0.001]), rng.choice([0.0, 1.0, rng.random(), 0.005])]
            x = rng.choice([float(rng.randint(-10**6, 10**6)), rng.uniform(-1e6, 1e6), 0.0])
            cs.append({'fee': fee, 'x': x})
        iout = implmod.run_impl('fees', cs, min_per_shard=500)
        mout = model.run_model([('fee', [bl.fee_val(c['fee']), Fraction(c['x'])]) for c in cs])
        found = []
        for c, io, mo in zip(cs, iout, mout):
            tol = Fraction(1, 10**9) * max(1, abs(Fraction(c['x'])))
            if not close(mo, io[0], tol):
                found.append(('disagreement', 'fee %s on %s: model=%s impl=%s' % (c['fee'], c['x'], float(mo), io[0]), c))
            want = fee_of(c['fee'], Fraction(c['x']))
            if abs(fr(io[0]) - want) > tol or fr(io[0]) < 0 or io[0] != io[1]:
                found.append(('failure', 'fee %s on %s = %s, on %s = %s; definition gives %s' % (c['fee'], c['x'], io[0], -c['x'], io[1], float(want)), c))
        return found[:5], {'evaluations': n, 'distinct_nontrivial': len(set((tuple(c['fee']), c['x']) for c in cs)),
                           'fee_model_evaluations': n}

    def neighbours(self, case, rng):
        return [bl.gen_broker_case(rng, stream='valid', exact=rng.random() < 0.5) for _ in range(64)]

    def matches_known(self, k, case, text):
        return False


PROP = C05()
