"""C09 — rebalancing trades the portfolio exactly onto its target."""
from fractions import Fraction

from ..engine import Prop, Judgement
from ..numcmp import close, near_int
from .. import brokerlib as bl
from .. import recase as rc
from .c10 import lo_knife
from .c11 import ls_knife

ASSETS = ['AAA', 'BBB', 'CCC', 'DDD', 'EEE', 'FFF', 'GGG']
MON = bl.MON
DAY = 86400


def gen_case(rng, exact):
    n_round = rng.randint(1, 4)
    kind = rng.choice(['long_only', 'long_short'])
    pool = rng.sample(ASSETS, rng.randint(2, 6))
    price = {a: bl.dy(rng, 5, 300, 8) for a in ASSETS}
    funds = float(rng.randint(50000, 2000000))
    c = {'op': 'rebalance_seq', 'kind': kind, 'stream': 'exact' if exact else 'random', 'start': MON, 'funds': funds,
         'param': (rng.choice([0.0, 0.05, 0.25, 0.5]) if kind == 'long_only' else rng.choice([1.0, 2.0, 0.5, 1.5])),
         'fee': ['zero'] if rng.random() < 0.5 else ['pct', rng.choice([0.001, 0.0, 1 / 1024]), rng.choice([0.0, 0.005, 1 / 512])]}
    # seed holdings: long, short, and assets that will not be in any universe
    seed_assets = rng.sample(ASSETS, rng.randint(0, 4))
    c['seed'] = [[a, rng.choice([rng.randint(1, 300), -rng.randint(1, 300)]) if kind == 'long_short' or rng.random() < 0.7
                  else -rng.randint(1, 50)] for a in seed_assets]
    if c['seed'] and rng.random() < 0.12:
        # holdings that are not whole numbers of units (fractional orders sent straight to the broker): outside the model
        # (integral quantities), judged by the predicate alone
        c['seed'] = [[a, (rng.choice([0.5, -0.5, 0.25, 0.75, -0.25]) if rng.random() < 0.6 else q + rng.choice([0.5, -0.5, 0.25]))]
                     for a, q in c['seed']]
        c['fractional'] = True
        c['stream'] += ':fractional-holdings'
    c['via_handler'] = rng.random() < 0.35
    c['t_seed'] = MON + 52200
    c['extra_portfolios'] = rng.choice([0, 0, 1, 2])      # idle sub-portfolios in the same account
    c['seed_prices'] = [[a, price[a]] for a in ASSETS]
    rounds = []
    for k in range(n_round):
        d = MON + DAY * (k + 1) if (k + 1) % 7 < 5 else MON + DAY * (k + 3)
        d = MON + DAY * [0, 1, 2, 3, 4, 7, 8][k]
        for a in ASSETS:
            price[a] = max(1.0, price[a] + rng.randint(-40, 40) / 8) if exact else max(1.0, price[a] * (1 + rng.uniform(-0.08, 0.08)))
        close_p = [[a, price[a]] for a in ASSETS]
        for a in ASSETS:
            price[a] = max(1.0, price[a] + rng.randint(-8, 8) / 8) if exact else max(1.0, price[a] * (1 + rng.uniform(-0.02, 0.02)))
        open_p = [[a, price[a]] for a in ASSETS]
        universe = rng.sample(pool, rng.randint(0, len(pool)))
        r = rng.random()
        if r < 0.4:
            keys = universe
        elif r < 0.6:
            keys = rng.sample(ASSETS, rng.randint(0, 5))           # may be disjoint from universe and holdings
        elif r < 0.8:
            keys = universe[:max(0, len(universe) - 1)]           # subset
        else:
            keys = list(set(universe + rng.sample(ASSETS, 2)))    # superset
        rng.shuffle(keys)
        if kind == 'long_only':
            alpha = [[a, rng.choice([0.25, 0.5, 1.0, 0.0, 0.125]) if exact else rng.choice([rng.random(), 0.0])] for a in keys]
        else:
            alpha = [[a, rng.choice([0.25, -0.5, 1.0, 0.0, -0.125]) if exact else rng.choice([rng.uniform(-1, 1), 0.0])] for a in keys]
        no_alpha = rng.random() < 0.08
        if no_alpha:
            alpha = []              # the construction model is given no alpha model at all: every weight is zero
        rounds.append({'no_alpha': no_alpha, 'risk_identity': rng.random() < 0.15, 't_close': d + 75600, 't_open': d + DAY * (3 if (d // DAY + 3) % 7 == 4 else 1) + 52200,
                       'close': close_p, 'open': open_p, 'universe': universe, 'alpha': alpha})
    if rounds and rng.random() < 0.5:
        # the same universe object, sizer and construction model serve all rebalances
        c['persistent'] = True
        for r in rounds:
            r['universe'] = list(rounds[0]['universe'])
        if rng.random() < 0.4:
            sgn = rng.choice([0.5, 1.0, 0.25] + ([] if kind == 'long_only' else [-1.0]))
            c['single_signal'] = sgn
            for r in rounds:
                r['alpha'] = [[a, sgn] for a in r['universe']]
                r['no_alpha'] = False
        c['stream'] += ':persistent'
    c['rounds'] = rounds
    if c.get('single_signal') is None and rng.random() < 0.2:
        # a risk model that strikes one asset off the alpha weights: from there on it is an asset the alpha model is silent on
        for r in rounds:
            if r['alpha'] and not r['no_alpha'] and not r['risk_identity']:
                r['risk_drop'] = rng.choice([a for a, _ in r['alpha']])
                r['alpha_in'] = r['alpha']
                r['alpha'] = [[a, w] for a, w in r['alpha'] if a != r['risk_drop']]
        c['stream'] += ':risk-model-exclusion'
    elif rounds and all(r['alpha'] and not r['no_alpha'] for r in rounds) and rng.random() < 0.3:
        # the construction model is built with the equal-weight optimiser: the assets the alpha model NAMES share the scale
        # equally (whatever their signals); universe members and holdings it does not name are still targeted at zero
        scale = rng.choice([1.0, 0.5, 2.0]) if kind == 'long_only' else rng.choice([1.0, 1.5, 0.5])
        c['opt_equal'] = scale
        for r in rounds:
            r['alpha_in'] = r['alpha']
            r['alpha'] = [[a, scale * (1.0 / float(len(r['alpha_in'])))] for a, _ in r['alpha_in']]
        c['stream'] += ':equal-weight-optimiser'
    if rng.random() < 0.15:
        c = rc.recase(c, rc.mapping(rng, collide=rng.random() < 0.3))        # symbols with lower-case letters
        c['stream'] += ':mixed-case-symbols'
    return c


class C09(Prop):
    pid = 'C09'
    worker = 'pcmworker'
    rule = ('a real SimulatedBroker pre-loaded with arbitrary holdings (long, short, assets outside the universe), then 1-4 successive '
            'rebalances: real PortfolioConstructionModel + real sizer (both kinds) at a close, orders submitted and filled at the next '
            'open, prices moving in between; alpha dictionaries that are subsets / supersets / disjoint from holdings and universe; '
            'each PCM call is also replayed on the Coq model with the observed holdings and equity; '
            'non-trivial = at least one order; distinct = hash of (kind, per-round order signs)')

    def gen(self, rng, tier):
        n = 250 if tier == 'quick' else 4000
        return [gen_case(rng, rng.random() < 0.4) for _ in range(n)]

    def model_case2(self, c, impl):
        ins = []
        if impl[0] == 'ok' and not c.get('fractional'):
            for r, o in zip(c['rounds'], impl[1]):
                ins.append([c['kind'], Fraction(c['param']), Fraction(o['equity']), bl.fee_val(c['fee']),
                            [[a, [Fraction(p)]] for a, p in r['close']],
                            [[a, int(q)] for a, q in o['held']], list(r['universe']),
                            [[a, Fraction(w)] for a, w in r['alpha']]])
                if c.get('opt_equal') is not None:
                    # the model's own equal-weight optimiser (exact scale / N) is given the raw alpha weights
                    ins[-1] = ['equal', Fraction(c['opt_equal'])] + ins[-1][:-1] + [[[a, Fraction(w)] for a, w in r['alpha_in']]]
        return ('pcm_opt_seq' if c.get('opt_equal') is not None else 'pcm_seq', ins)

    def judge(self, c, impl, mod):
        j = Judgement()
        if impl[0] != 'ok':
            j.disagreements.append('worker could not run the sequence: %s' % (impl,))
            return j
        sig = []
        for k, (r, o) in enumerate(zip(c['rounds'], impl[1])):
            w = 'rebalance %d' % k
            frac = bool(c.get('fractional'))
            if frac:
                if 'err' in o:
                    return j
                m = ['ok', [o['alloc'], [], []]]
                if k == 0:
                    j.tags.append('model_skipped')
            else:
                m = mod[k]
            if 'err' in o:
                if m[0] != 'err' or m[1] != o['err']:
                    j.disagreements.append('%s: model=%s impl=%s' % (w, m[:3], o['err']))
                return j
            if m[0] == 'err':
                j.disagreements.append('%s: model=%s impl=ok' % (w, m[:3]))
                return j
            malloc, mtarget, morders = m[1]
            sc = {'kind': c['kind'], 'param': c['param'], 'equity': o['equity'], 'fee': c['fee'], 'prices': r['close'],
                  'weights': o['alloc']}
            knife = (lo_knife(sc) if c['kind'] == 'long_only' else ls_knife(sc)) if o['alloc'] else (lambda a: False)
            kn = any(knife(a) for a, _ in o['alloc'])
            # allocation row: same keys in the same order, same weights
            if sorted(a for a, _ in malloc) != sorted(a for a, _ in o['alloc']):
                j.disagreements.append('%s: allocation keys model=%s impl=%s' % (w, [a for a, _ in malloc], [a for a, _ in o['alloc']]))
            else:
                # (compared as a mapping: the order of the keys in the recorded row is not part of the property)
                for (a, x), (_, y) in zip(sorted(malloc), sorted(o['alloc'])):
                    if not close(x, y, Fraction(1, 10**12)):
                        j.disagreements.append('%s: allocation of %s model=%s impl=%s' % (w, a, float(x), y))
            if frac:
                pass
            elif not kn:
                if [[a, q] for a, q in morders] != [[a, int(q)] for a, q in o['orders']]:
                    j.disagreements.append('%s: orders model=%s impl=%s' % (w, morders, o['orders']))
            else:
                j.knife += 1
            # ---- the property itself, on the implementation's own figures
            held = dict((a, Fraction(q)) for a, q in o['held'])
            keyset = sorted(set(held) | set(r['universe']) | set(a for a, _ in r['alpha']))
            if sorted(a for a, _ in o['alloc']) != keyset:
                j.failures.append('%s: recorded allocation covers %s, expected universe + held + alpha keys = %s' % (w, sorted(a for a, _ in o['alloc']), keyset))
            aw = dict((a, x) for a, x in r['alpha'])
            for a, x in o['alloc']:
                if Fraction(x) != Fraction(aw.get(a, 0.0)):
                    j.failures.append('%s: recorded weight of %s is %s, alpha model gave %s' % (w, a, x, aw.get(a, 0.0)))
            if o['target'] and o['target'][0] == 'err':
                continue
            target = dict((a, Fraction(q)) for a, q in o['target'])
            want = [[a, target.get(a, 0) - held.get(a, 0)] for a in keyset]
            want = [[a, q] for a, q in want if q != 0]
            got = [[a, Fraction(q)] for a, q in o['orders']]
            if got != want:
                j.failures.append('%s: orders %s, target minus current is %s' % (w, o['orders'], [[a, float(q)] for a, q in want]))
            names = [a for a, _ in o['orders']]
            if names != sorted(set(names)):
                j.failures.append('%s: orders not in ascending asset order / duplicated: %s' % (w, names))
            after = dict((a, Fraction(q)) for a, q in o['after'])
            tnz = dict((a, q) for a, q in target.items() if q != 0)
            if after != tnz and not frac:       # (a fill of less than one unit is ignored by Position: quantities are documented as whole numbers)
                j.failures.append('%s: holdings after the fills %s differ from the target %s' % (w, o['after'], [[a, float(q)] for a, q in sorted(tnz.items())]))
            for a in held:
                if a not in aw and target.get(a, 0) != 0:
                    j.failures.append('%s: held asset %s got no weight but is not liquidated (target %s)' % (w, a, target.get(a)))
            if o['orders']:
                j.nontrivial = True
            sig.append(tuple((a, q > 0) for a, q in o['orders']))
        j.key = hash((c['kind'], tuple(sig)))
        return j

    def shrink_candidates(self, c):
        for i in range(len(c['rounds'])):
            d = dict(c)
            d['rounds'] = c['rounds'][:i + 1][:-1] + c['rounds'][i + 1:] if False else c['rounds'][:i] + c['rounds'][i + 1:]
            if d['rounds']:
                yield d
        for i in range(len(c['seed'])):
            d = dict(c)
            d['seed'] = c['seed'][:i] + c['seed'][i + 1:]
            yield d

    def neighbours(self, c, rng):
        return [gen_case(rng, rng.random() < 0.5) for _ in range(32)]

    def matches_known(self, k, case, text):
        return False


PROP = C09()
