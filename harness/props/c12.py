"""C12 — the simulation clock is strictly increasing and covers exactly business days."""
import datetime

from ..engine import Prop, Judgement

DAY = 86400
EPOCH = datetime.date(1970, 1, 1)
TODS = [0, 52200, 75600, 86340, 3600 * 9 + 17, 86399]
BASE = 18250      # 2019-12-20: a window with a month end, a year end and (2020) a leap day follows


def expected_events(start, stop, pre, post):
    """independent calendar (datetime.date only)"""
    d0, d1 = start // DAY, stop // DAY
    out = []
    for d in range(d0, d1 + 1):
        if (EPOCH + datetime.timedelta(days=d)).weekday() <= 4:
            if pre:
                out.append([d * DAY, 'pre_market'])
            out.append([d * DAY + 52200, 'market_open'])
            out.append([d * DAY + 75600, 'market_close'])
            if post:
                out.append([d * DAY + 86340, 'post_market'])
    return out


def gen_range(rng, tier):
    r = rng.random()
    d0 = rng.randint(-3000, 30000) if r < 0.3 else BASE + rng.randint(0, 120)
    if r < 0.15:
        span = rng.randint(0, 365 * 30 if tier == 'thorough' else 365 * 8)
    elif r < 0.6:
        span = rng.randint(0, 40)
    else:
        span = rng.choice([0, 0, 1, 2, 3, 6, 7])
    t0 = rng.choice(TODS)
    t1 = rng.choice(TODS)
    return d0 * DAY + t0, (d0 + span) * DAY + t1


class C12(Prop):
    pid = 'C12'
    worker = 'calworker'
    rule = ('(start, end, pre, post) ranges: random spans up to 8 (quick) / 30 (thorough) years, short spans around month/year ends '
            'and 2020-02-29, single-day and weekend-only ranges, 6 times of day at each end, all four flag combinations, and '
            'end < start; thorough adds every ordered day pair of a 70-day window x 6x6 times of day x 4 flag pairs; '
            'non-trivial = at least one event or a rejection; distinct = (start, end, flags)')

    def gen(self, rng, tier):
        cases = []
        n = 500 if tier == 'quick' else 3000
        for i in range(n):
            s, e = gen_range(rng, tier)
            if rng.random() < 0.06:
                s, e = e + rng.choice([1, 60, DAY]), s
            cases.append({'kind': 'sim', 'start': s, 'stop': e, 'pre': rng.random() < 0.5, 'post': rng.random() < 0.5,
                          'stream': 'random', 'naive': rng.random() < 0.15, 'flagkind': rng.choice(['bool', 'bool', 'np', 'int'])})
            if rng.random() < 0.2 and e >= s:
                cases[-1]['built'] = [rng.random() < 0.5, rng.random() < 0.5]
                cases[-1]['stream'] = 'switches-set-after-construction'
        # the clock a SESSION holds is the clock of its (start, end) range without pre / post market events, whatever its burn-in
        for i in range(40 if tier == 'quick' else 400):
            s, e = gen_range(rng, tier)
            if e < s:
                s, e = e, s
            burn = rng.choice([None, s + rng.randint(0, max(1, e - s)), (s // DAY + rng.randint(0, 9)) * DAY + rng.choice([52200, 75600, 0])])
            onoff = rng.random() < 0.3
            cases.append({'kind': 'sess_clock', 'start': s, 'stop': e, 'pre': onoff and rng.random() < 0.6, 'post': onoff and rng.random() < 0.6, 'burn': burn,
                          'which': rng.choice(['weekly', 'daily', 'end_of_month', 'buy_and_hold']), 'stream': 'session-wiring'})
        if tier == 'thorough':
            for a in range(0, 70):
                for b in range(a, 70):
                    for t0 in TODS:
                        for t1 in TODS:
                            k = (a * 7 + b * 3 + t0 + t1) % 4
                            cases.append({'kind': 'sim', 'start': (BASE + a) * DAY + t0, 'stop': (BASE + b) * DAY + t1,
                                          'pre': k & 1 == 1, 'post': k & 2 == 2, 'stream': 'grid'})
        else:
            for a in range(0, 70, 3):
                for b in range(a, 70, 5):
                    t0, t1 = rng.choice(TODS), rng.choice(TODS)
                    cases.append({'kind': 'sim', 'start': (BASE + a) * DAY + t0, 'stop': (BASE + b) * DAY + t1,
                                  'pre': rng.random() < 0.5, 'post': rng.random() < 0.5, 'stream': 'grid'})
        return cases

    def model_case(self, c):
        return ('sim_events', [int(c['start']), int(c['stop']), bool(c['pre']), bool(c['post'])])

    def judge(self, c, impl, mod):
        j = Judgement()
        j.key = (c['start'], c['stop'], c['pre'], c['post'], bool(c.get('naive')), c.get('flagkind', 'bool'), c['kind'], c.get('burn'), repr(c.get('built')))
        if impl[0] == 'err' or mod[0] == 'err':
            mi = mod[1] if mod[0] == 'err' else 'ok'
            ii = impl[1] if impl[0] == 'err' else 'ok'
            if mi != ii:
                j.disagreements.append('model=%s impl=%s' % (mi, ii))
            j.nontrivial = True
            j.tags.append('rejected')
            if c['stop'] >= c['start'] and impl[0] == 'err':
                j.failures.append('start <= end rejected with %s' % impl[1])
            if c['stop'] < c['start'] and impl[0] != 'err':
                j.failures.append('end earlier than start was accepted')
            return j
        if c['stop'] < c['start']:
            j.failures.append('end earlier than start was accepted')
        if impl[1] and isinstance(impl[1][0], list) and impl[1][0] and impl[1][0][0] == 'not-utc':
            j.failures.append('events of a clock built from a start/end without time zone are not stamped in UTC: %s' % impl[1][:2])
            j.nontrivial = True
            return j
        if len(impl) > 2:
            j.failures.append('iterating the same engine a second time gives %d events instead of %d' % (len(impl[2]), len(impl[1])))
        me = [[e[0], e[1]] for e in mod[1]]
        if me != impl[1]:
            k = next((i for i, (a, b) in enumerate(zip(me, impl[1])) if a != b), min(len(me), len(impl[1])))
            j.disagreements.append('events differ at #%d: model=%s impl=%s (lengths %d / %d)' % (
                k, me[k:k + 2], impl[1][k:k + 2], len(me), len(impl[1])))
        j.nontrivial = bool(impl[1])
        j.tags.append('events:%d' % min(len(impl[1]), 9))
        # the property itself, on its stated domain (end's time of day not before the start's)
        if c['stop'] % DAY >= c['start'] % DAY:
            want = expected_events(c['start'], c['stop'], c['pre'], c['post'])
            if impl[1] != want:
                k = next((i for i, (a, b) in enumerate(zip(want, impl[1])) if a != b), min(len(want), len(impl[1])))
                j.failures.append('clock differs from the Mon-Fri calendar at #%d: expected %s got %s (lengths %d / %d)' % (
                    k, want[k:k + 2], impl[1][k:k + 2], len(want), len(impl[1])))
        tsq = [e[0] for e in impl[1]]
        if any(b <= a for a, b in zip(tsq, tsq[1:])):
            j.failures.append('event times are not strictly increasing')
        return j

    def shrink_candidates(self, c):
        for cut in (DAY * 365, DAY * 30, DAY * 7, DAY):
            if c['stop'] - cut >= c['start']:
                d = dict(c); d['stop'] = c['stop'] - cut
                yield d
            if c['start'] + cut <= c['stop']:
                d = dict(c); d['start'] = c['start'] + cut
                yield d

    def neighbours(self, c, rng):
        return [dict(c, start=c['start'] + rng.randint(-3, 3) * DAY, stop=c['stop'] + rng.randint(-3, 3) * DAY) for _ in range(32)]

    def matches_known(self, k, case, text):
        return False


PROP = C12()
