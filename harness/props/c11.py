"""C11 — long/short sizing respects gross leverage and the sign of every weight."""
from fractions import Fraction
import math

from ..engine import Prop, Judgement
from ..numcmp import near_int
from .. import brokerlib as bl
from .c10 import ASSETS, ATOL, fee_rate, sizer_model_case, compare_sizer


def trunc(x):
    return math.floor(x) if x >= 0 else math.ceil(x)


def ls_quantities(c):
    w = [(a, Fraction(x)) for a, x in c['weights']]
    g = sum(abs(x) for _, x in w)
    E, L, f = Fraction(c['equity']), Fraction(c['param']), fee_rate(c['fee'])
    norm = g > ATOL
    out = {}
    prices = dict(c['prices'])
    for a, x in w:
        D = E * (x * L / g if norm else x)
        out[a] = (D, D - f * abs(D), prices.get(a))
    return out, norm, g


def ls_knife(c):
    fig, _, _ = ls_quantities(c)

    strict = c.get('stream') == 'exact'

    def k(a):
        D, after, p = fig[a]
        return p is not None and (near_int(after, strict) or near_int(Fraction(trunc(after)) / Fraction(p), strict))
    return k


class C11(Prop):
    pid = 'C11'
    worker = 'pcmworker'
    rule = ('LongShortLeveragedOrderSizer with a stub broker/data handler on signed weight vectors (any gross exposure, all-zero, '
            'gross near 1e-8), price vectors, equity levels, leverages (incl. <= 0), fee rates <= 1; an exact-by-construction stream with '
            'after-cost dollars on exact integers of both signs and exact multiples of the price; NaN prices; '
            'non-trivial = a non-zero target or a rejection; distinct = the case tuple')

    def gen_case(self, rng, stream):
        n = rng.randint(1, 6)
        assets = rng.sample(ASSETS, n)
        c = {'op': 'sizer', 'kind': 'long_short', 'stream': stream}
        if stream == 'exact':
            j = rng.choice([1, 2, 4])
            assets = ASSETS[:j]
            c['param'] = rng.choice([1.0, 2.0, 0.5, 4.0])
            rate = rng.choice([0.0, 0.5, 0.25])
            c['fee'] = ['zero'] if rate == 0 else ['pct', rate / 2, rate / 2]
            p0 = bl.dy(rng, 1, 200, 8)
            k0 = rng.randint(0, 3000)
            sgn = [rng.choice([1, -1]) for _ in assets]
            # |D| = E * L / j ; after = D(1-rate) long, D(1+rate) short: make the LONG side land on k0 * p0
            E = k0 * p0 * j / (c['param'] * (1 - rate))
            bump = rng.choice([0, 0, 1, -1])
            c['equity'] = E + bump * 2.0 ** -20 * max(E, 1.0)
            c['weights'] = [[a, 0.25 * s] for a, s in zip(assets, sgn)]
            c['prices'] = [[a, p0 if i == 0 else p0 / rng.choice([1, 2, 4])] for i, a in enumerate(assets)]
            return c
        if stream == 'nearly':
            # gross exposure already (almost) equal to the leverage; a relative 1e-6 is worth whole shares
            L = rng.choice([1.0, 2.0, 0.5, 1.5])
            raw = [rng.choice([1, -1]) * (rng.random() + 0.05) for _ in assets]
            g = sum(abs(x) for x in raw)
            eps = rng.choice([0.0, 1e-9, -1e-9, 1e-7, 8e-6, -8e-6, 1e-5, -1e-5, 3e-5, 1e-4, -1e-4])
            c['weights'] = [[a, x / g * L * (1 + eps)] for a, x in zip(assets, raw)]
            c['param'] = L
            c['equity'] = rng.choice([1e6, 5e6, 9e6, rng.uniform(1e6, 1e7)])
            c['fee'] = ['zero'] if rng.random() < 0.6 else ['pct', 0.001, 0.0]
            c['prices'] = [[a, rng.choice([1.0, 0.5, 2.0, round(rng.uniform(0.5, 3), 2)])] for a in assets]
            return c
        c['param'] = rng.choice([1.0, 1.5, 2.0, 0.5, 5.0, 0.01, round(rng.uniform(0.01, 5), 2), rng.uniform(0.001, 6)])
        c['equity'] = rng.choice([1e6, 325000.0, 687523.0, round(rng.uniform(100, 5e6), 2), rng.uniform(1, 1e7)])
        if rng.random() < 0.3:
            c['fee'] = ['zero']
        else:
            ct = rng.choice([0.001, 0.0075, 0.5, 1.0, rng.random()])
            x = rng.random()
            c['fee'] = ['pct', ct * x, ct * (1 - x) * 0.999]
        c['prices'] = [[a, rng.choice([round(rng.uniform(1, 500), 2), rng.uniform(0.01, 3000)])] for a in assets]
        kind = rng.random()
        if kind < 0.55:
            c['weights'] = [[a, rng.choice([rng.uniform(-1, 1), rng.uniform(-10, 10), 0.0, round(rng.uniform(-1, 1), 2)])] for a in assets]
        elif kind < 0.65:
            c['weights'] = [[a, 0.0] for a in assets]
        elif kind < 0.75:
            c['weights'] = [[a, rng.choice([1.2e-8, -2e-8, 3e-8, 0.0, 1.1e-8 / n])] for a in assets]
        else:
            c['weights'] = [[a, rng.choice([0.5, -0.25, 0.125, -1.0, 2.0])] for a in assets]
        if stream == 'malformed':
            m = rng.choice(['lev', 'nan', 'empty', 'lev0'])
            if m == 'lev':
                c['param'] = rng.choice([-rng.random(), -1e-9, -1e-12, -5e-324, -2.0 ** -40])
            elif m == 'lev0':
                c['param'] = 0.0
            elif m == 'nan':
                c['prices'][rng.randrange(n)][1] = None
            else:
                c['weights'] = []
        if rng.random() < 0.3:
            c['two_sided'] = rng.choice(['normal', 'crossed'])      # the real BacktestDataHandler over a source with bid != ask
            c['nan_first'] = rng.random() < 0.4                     # ... behind an earlier-listed source that has no bar yet
            c['handler_universe'] = rng.random() < 0.4              # ... in a handler whose universe lists none of the assets
        if rng.random() < 0.3:
            ws = [[a, abs(w) if False else w] for a, w in c['weights']]
            c['warmup_calls'] = [ws + [['EQ:WARM1', 0.5], ['EQ:WARM2', -0.25]], [['EQ:WARM2', 1.0]]][:rng.randint(1, 2)]
        if rng.random() < 0.2:
            # the broker charged other fees when the sizer was built (and during the earlier calls); its fee model is replaced before this call
            c['warm_fee'] = rng.choice([['zero'], ['pct', 0.08, 0.0], ['pct', 0.001, 0.005], ['pct', 0.2, 0.0]])
        if rng.random() < 0.15 and c['param'] > 0:
            c['warm_param'] = rng.choice([1.0, 2.0, 0.5, 3.0])
        return c

    def gen(self, rng, tier):
        n = 3000 if tier == 'quick' else 60000
        out = []
        for i in range(n):
            r = rng.random()
            out.append(self.gen_case(rng, 'random' if r < 0.55 else ('exact' if r < 0.75 else ('nearly' if r < 0.88 else 'malformed'))))
        return out

    def model_case(self, c):
        return sizer_model_case(c)

    def judge(self, c, impl, mod):
        j = Judgement()
        j.key = repr((c['param'], c['equity'], c['fee'], c['prices'], c['weights']))
        gsum = sum(abs(Fraction(x)) for _, x in c['weights'])
        if 0 < abs(gsum - ATOL) < ATOL / 10**6:
            j.knife += 1          # gross exposure on the np.isclose threshold
            return j
        compare_sizer(c, impl, mod, j, ls_knife(c))
        out = j.failures
        w = [(a, Fraction(x)) for a, x in c['weights']]
        prices = dict(c['prices'])
        L = Fraction(c['param'])
        bad = None
        if L <= 0:
            bad = 'non-positive leverage'
        elif w and any(prices.get(a) is None for a, _ in w):
            bad = 'unavailable price'
        if impl[0] == 'err':
            j.nontrivial = True
            j.tags.append('rejected')
            if bad is None:
                out.append('valid sizing request rejected with %s' % impl[1])
            elif impl[1] != 'ValueError':
                out.append('rejected with %s, documented error is ValueError' % impl[1])
            return j
        if bad is not None:
            out.append('%s was accepted: %s' % (bad, impl[1]))
            return j
        if c['equity'] <= 0 or any(p <= 0 for p in prices.values()):
            return j
        fig, norm, g = ls_quantities(c)
        E, f = Fraction(c['equity']), fee_rate(c['fee'])
        j.tags.append('normalised' if norm else 'raw-weights')
        gross = Fraction(0)
        wd = dict(w)
        if sorted(a for a, _ in impl[1]) != sorted(wd):
            out.append('the target covers %s, the weighted assets are %s' % (sorted(a for a, _ in impl[1]), sorted(wd)))
            return j
        for (a, q), ty in zip(impl[1], impl[2]):
            D, after, p = fig[a]
            p = Fraction(p)
            if ty != 'int' or q != int(q):
                out.append('target quantity of %s is %r (%s), not a whole number' % (a, q, ty))
                continue
            if q != 0:
                j.nontrivial = True
            x = wd[a]
            if abs(q) > 1 and (q > 0) != (x > 0):
                out.append('%s: weight %s but target quantity %s has the other sign' % (a, float(x), q))
                continue
            y = Fraction(trunc(after)) / p
            if near_int(after) or near_int(y):
                j.knife += 1
                continue
            if c.get('stream') != 'exact' and (after.denominator == 1 or y.denominator == 1) and after != 0 and \
                    abs(q) in (abs(trunc(y)) - 1, abs(trunc(Fraction(trunc(after) - (1 if after > 0 else -1)) / p))):
                if q != trunc(y):
                    j.knife += 1  # exact integer reached through inexact float steps: one unit / one share short
                    continue
            if q != 0 and (q > 0) != (x > 0):
                out.append('%s: weight %s but target quantity %s has the other sign' % (a, float(x), q))
            if abs(q) * p > abs(after):
                out.append('%s: |%s| x price = %s exceeds its after-cost allocation %s' % (a, q, float(abs(q) * p), float(abs(after))))
            if (abs(q) + 1) * p <= abs(after) - 1:
                out.append('%s: %s shares, but one more would fit within the allocation %s to within one currency unit' % (a, q, float(abs(after))))
            gross += abs(q) * p
        if gross > L * E * (1 + f) and not out:
            out.append('gross exposure %s exceeds L x equity x (1 + f) = %s' % (float(gross), float(L * E * (1 + f))))
        if all(x == 0 for _, x in w) and any(q != 0 for _, q in impl[1]):
            out.append('all-zero weights gave a non-zero target %s' % impl[1])
        return j

    def shrink_candidates(self, c):
        for i in range(len(c['weights'])):
            d = dict(c)
            d['weights'] = c['weights'][:i] + c['weights'][i + 1:]
            yield d

    def neighbours(self, c, rng):
        return [self.gen_case(rng, rng.choice(['random', 'exact', 'malformed'])) for _ in range(200)]

    def matches_known(self, k, c, text):
        if c.get('kind') != 'long_short':
            return False
        if k.get('id') == 'K2':
            return fee_rate(c['fee']) > 1
        if k.get('id') == 'K3':
            g = sum(abs(Fraction(x)) for _, x in c['weights'])
            return 0 < g <= ATOL and Fraction(c['param']) < g
        return False


PROP = C11()
