"""C13 — rebalance schedules hold exactly the intended dates and meet a clock event."""
import calendar as pycal
import datetime

from ..engine import Prop, Judgement
from .c12 import gen_range, DAY, EPOCH, TODS, BASE

WD = ['MON', 'TUE', 'WED', 'THU', 'FRI']


def date_of(d):
    return EPOCH + datetime.timedelta(days=d)


def expected(c):
    s, e = c['start'], c['stop']
    mt = 52200 if c['pm'] else 75600
    d0, d1 = s // DAY, e // DAY
    w = c['which']
    if w == 'buy_and_hold':
        d = d0
        if date_of(d).weekday() <= 4:
            return [s]
        while date_of(d).weekday() > 4:
            d += 1
        return [d * DAY + s % DAY]
    out = []
    for d in range(d0, d1 + 1):
        x = date_of(d)
        if w == 'weekly':
            ok = x.weekday() == WD.index(c['weekday'].upper())
        elif w == 'daily':
            ok = x.weekday() <= 4
        else:
            last = pycal.monthrange(x.year, x.month)[1]
            ld = datetime.date(x.year, x.month, last)
            while ld.weekday() > 4:
                ld -= datetime.timedelta(days=1)
            ok = x == ld
        if ok:
            out.append(d * DAY + mt)
    return out


class C13(Prop):
    pid = 'C13'
    worker = 'calworker'
    rule = ('weekly (every weekday string, lower/upper case, invalid names) / daily / end-of-month / buy-and-hold schedules over the '
            'same range generator as C12 (any start time of day, month ends on weekends, year ends, leap day), pre-market flag, '
            'each with the simulation clock of the same range; non-trivial = schedule non-empty or rejected; distinct = the case tuple')

    def gen(self, rng, tier):
        cases = []
        n = 700 if tier == 'quick' else 6000
        for i in range(n):
            s, e = gen_range(rng, tier)
            if rng.random() < 0.5 and e % DAY < s % DAY:
                e = (e // DAY) * DAY + 86340
            which = rng.choice(['weekly', 'weekly', 'daily', 'end_of_month', 'end_of_month', 'buy_and_hold'])
            c = {'kind': 'sched', 'which': which, 'start': s, 'stop': e, 'pm': rng.random() < 0.35, 'with_clock': True,
                 'stream': 'random', 'weekday': 'MON'}
            if which == 'weekly':
                r = rng.random()
                c['weekday'] = rng.choice(WD) if r < 0.75 else (rng.choice(WD).lower() if r < 0.88 else rng.choice(['SAT', 'SUN', 'Wed', 'XYZ', 'MONDAY', 'mo']))
            if which == 'end_of_month' and rng.random() < 0.5:
                c['stop'] = c['start'] + rng.randint(20, 800) * DAY
                c['stop'] = (c['stop'] // DAY) * DAY + 86340
            if rng.random() < 0.15:
                c['naive'] = True         # start / end handed over without a time zone
            if rng.random() < 0.3:
                c['other_first'] = True
            cases.append(c)
        # the schedule a SESSION holds is the schedule of its (start, end) range, whatever its burn-in
        for i in range(60 if tier == 'quick' else 600):
            s, e = gen_range(rng, tier)
            if e < s:
                s, e = e, s
            e = (e // DAY) * DAY + rng.choice([86340, 86340, 0, 52200])
            if e < s:
                e = (s // DAY + 1) * DAY + 86340
            which = rng.choice(['weekly', 'daily', 'end_of_month', 'buy_and_hold'])
            burn = rng.choice([None, s + rng.randint(0, max(1, e - s)), (s // DAY + rng.randint(0, 9)) * DAY + rng.choice([52200, 75600, 0])])
            cases.append({'kind': 'sess_sched', 'which': which, 'start': s, 'stop': e, 'pm': False, 'weekday': rng.choice(WD),
                          'burn': burn, 'stream': 'session-wiring'})
        if tier == 'thorough':
            for a in range(0, 70, 2):
                for b in range(a, 70, 3):
                    for which in ('weekly', 'daily', 'end_of_month'):
                        t0 = TODS[(a + b) % len(TODS)]
                        cases.append({'kind': 'sched', 'which': which, 'start': (BASE + a) * DAY + t0, 'stop': (BASE + b) * DAY + 86340,
                                      'pm': (a + b) % 3 == 0, 'with_clock': True, 'stream': 'grid', 'weekday': WD[(a * 3 + b) % 5]})
        return cases

    def model_case(self, c):
        w = c['which']
        if w == 'weekly':
            return ('schedule', ['weekly', int(c['start']), int(c['stop']), c['weekday'], bool(c['pm'])])
        if w == 'buy_and_hold':
            return ('schedule', ['buy_and_hold', int(c['start'])])
        return ('schedule', [w, int(c['start']), int(c['stop']), bool(c['pm'])])

    def judge(self, c, impl, mod):
        j = Judgement()
        j.key = (c['which'], c['start'], c['stop'], c['pm'], c['weekday'], bool(c.get('naive')), bool(c.get('other_first')))
        valid_wd = c['which'] != 'weekly' or c['weekday'].upper() in WD
        if impl[0] == 'err' or mod[0] == 'err':
            mi = mod[1] if mod[0] == 'err' else 'ok'
            ii = impl[1] if impl[0] == 'err' else 'ok'
            if mi != ii:
                j.disagreements.append('model=%s impl=%s' % (mi, ii))
            if valid_wd and impl[0] == 'err':
                j.failures.append('valid schedule request rejected with %s' % impl[1])
            if not valid_wd and impl[0] != 'err':
                j.failures.append('unknown weekday %r was accepted' % c['weekday'])
            j.nontrivial = True
            j.tags.append('rejected')
            return j
        if not valid_wd:
            j.failures.append('unknown weekday %r was accepted' % c['weekday'])
            return j
        if impl[1] and isinstance(impl[1][0], list):
            j.failures.append('%s schedule for a start/end without time zone is not stamped in UTC: %s' % (c['which'], impl[1][:2]))
            j.nontrivial = True
            return j
        if mod[1] != impl[1]:
            j.disagreements.append('schedule model=%s impl=%s' % (mod[1][:6], impl[1][:6]))
        j.nontrivial = bool(impl[1])
        j.tags.append(c['which'])
        sched = impl[1]
        if any(b <= a for a, b in zip(sched, sched[1:])):
            j.failures.append('schedule not strictly increasing')
        in_domain = c['stop'] % DAY >= c['start'] % DAY and c['stop'] >= c['start']
        if in_domain or c['which'] == 'buy_and_hold':
            want = expected(c)
            if sched != want:
                j.failures.append('%s schedule %s..., intended dates %s...' % (c['which'], sched[:5], want[:5]))
            if c['which'] != 'buy_and_hold' and len(impl) > 2:
                kind = 'market_open' if c['pm'] else 'market_close'
                if len(impl) > 3 and impl[3] != len(impl[2]):
                    j.failures.append('the clock of the range gives %d events on its first walk and %d on the next' % (impl[3], len(impl[2])))
                ev = set(e[0] for e in impl[2] if e[1] == kind)
                miss = [t for t in sched if t not in ev]
                if miss:
                    j.failures.append('scheduled instants %s coincide with no %s event of the clock' % (miss[:3], kind))
        return j

    def shrink_candidates(self, c):
        for cut in (DAY * 365, DAY * 30, DAY * 7, DAY):
            if c['stop'] - cut >= c['start']:
                yield dict(c, stop=c['stop'] - cut)
            if c['start'] + cut <= c['stop']:
                yield dict(c, start=c['start'] + cut)

    def neighbours(self, c, rng):
        return [dict(c, start=c['start'] + rng.randint(-3, 3) * DAY, stop=c['stop'] + rng.randint(0, 40) * DAY) for _ in range(32)]

    def extra_checks(self, tier, rng):
        """civil-date arithmetic (year, month, day, weekday, month index, ISO week): model vs datetime.date"""
        from .. import impl as implmod, model
        if tier == 'thorough':
            days = list(range(-25567, 120530))          # 1900-01-01 .. 2299-12-31: more than one 400-year cycle
        else:
            days = [rng.randint(-25567, 120530) for _ in range(20000)] + list(range(18200, 18700))
        chunks = [days[i:i + 10000] for i in range(0, len(days), 10000)]
        iout = implmod.run_impl('calworker', [{'kind': 'civil', 'days': ch} for ch in chunks], min_per_shard=1)
        mout = model.run_model([('civil', ch) for ch in chunks])
        found = []
        for ch, io, mo in zip(chunks, iout, mout):
            for d, a, b in zip(ch, io, mo):
                if list(a) != list(b):
                    found.append(('disagreement', 'civil(%d): model=%s datetime=%s' % (d, b, a), {'days': [d]}))
        return found[:5], {'evaluations': len(days), 'distinct_nontrivial': len(set(days)), 'civil_days_compared': len(days),
                           'exhaustive': tier == 'thorough'}

    def matches_known(self, k, case, text):
        return False


PROP = C13()
