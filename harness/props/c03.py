"""C03 — position P&L reconciles exactly to the cash flows of its fills."""
from fractions import Fraction

from ..engine import Prop, Judgement
from .. import brokerlib as bl
from ..numcmp import close, fr
from .c02 import close_reopen


def pnl_predicate_pf(case, impl, j):
    out = j.failures
    tol = Fraction(1, 10**8) * Fraction(max(1.0, bl.pscale_of(case)))
    fills = {}      # asset -> fills since the position was opened: (q, p, c)
    prev = None
    for n, st in enumerate(impl['steps']):
        op = case['ops'][n]
        w = 'step %d %s' % (n, op)
        ok = st['res'][0] == 'ok'
        if op[0] == 'txn':
            if not ok:
                return
            q = Fraction(op[2])
            if 0 <= q < 1:
                if q > 0:
                    return          # sub-unit buy: outside the documented contract (quantity : int)
            else:
                fills.setdefault(op[1], []).append((q, Fraction(op[4]), Fraction(op[5])))
                j.nontrivial = True
        held = dict((h[0], h) for h in st['pub'])
        for a in list(fills):
            if a not in held:
                fills[a] = []       # closed to zero: the next fill opens a new position
        snapd = dict((p[0], p) for p in st['snap'][2])
        tot = [Fraction(0)] * 3
        for a, h in held.items():
            # h = [asset, qty, mv, unrealised, realised, total]
            fs = fills.get(a, [])
            if not fs:
                continue
            un, re, to, mv = fr(h[3]), fr(h[4]), fr(h[5]), fr(h[2])
            if None in (un, re, to, mv):
                out.append('%s: non-finite P&L for %s: %s' % (w, a, h))
                continue
            tot = [tot[0] + un, tot[1] + re, tot[2] + to]
            if abs(to - (re + un)) > tol:
                out.append('%s: %s total_pnl %s != realised %s + unrealised %s' % (w, a, h[5], h[4], h[3]))
            flows = sum(q * p for q, p, c in fs) + sum(c for q, p, c in fs)
            if abs(to - (mv - flows)) > tol:
                out.append('%s: %s total_pnl %s but market value - cash flows of its fills = %s' % (w, a, h[5], float(mv - flows)))
            netq = sum(q for q, p, c in fs)
            side = [(q, p, c) for q, p, c in fs if (q > 0) == (netq > 0)]
            sq = sum(abs(q) for q, p, c in side)
            if netq != 0 and sq != 0:
                if netq > 0:
                    avg = (sum(q * p for q, p, c in side) + sum(c for q, p, c in side)) / sq
                else:
                    avg = (sum(-q * p for q, p, c in side) - sum(c for q, p, c in side)) / sq
                price = Fraction(snapd[a][2])
                if abs(un - (price - avg) * netq) > tol:
                    out.append('%s: %s unrealised %s but (price - average cost) x net = %s' % (w, a, h[3], float((price - avg) * netq)))
        for k, nm in ((7, 'total_unrealised_pnl'), (8, 'total_realised_pnl'), (9, 'total_pnl')):
            v = fr(st['snap'][k])
            if all(fills.get(a) for a in held) and v is not None and abs(v - tot[k - 7]) > tol:
                out.append('%s: portfolio %s %s but sum over positions %s' % (w, nm, st['snap'][k], float(tot[k - 7])))
        # re-marking changes unrealised P&L only
        if op[0] == 'mark' and ok and prev is not None:
            pb = dict((h[0], h) for h in prev['pub'])
            for a, h in held.items():
                if a in pb and (pb[a][4] != h[4] or pb[a][1] != h[1]):
                    out.append('%s: re-marking changed realised P&L or quantity of %s: %s -> %s' % (w, a, pb[a], h))
            sb = dict((p[0], p) for p in prev['snap'][2])
            for a, p in snapd.items():
                if a in sb and [p[k] for k in (4, 5, 6, 7, 8, 9)] != [sb[a][k] for k in (4, 5, 6, 7, 8, 9)]:
                    out.append('%s: re-marking changed position accounting fields of %s' % (w, a))
        prev = st
        if len(out) > 5:
            return


class C03(Prop):
    pid = 'C03'
    worker = 'broker'
    rule = ('ladders of 1-60 fills (integer and real-valued quantities of both signs, any commissions) interleaved with marks, '
            'directly on Portfolio/PositionHandler/Position, incl. closes to zero, re-opens and flips; thorough adds every sign '
            'pattern of <= 5 fills with quantities in {+-1,+-2,+-3}; non-trivial = a fill happened; distinct = hash of the '
            'sequence of (op, sign of fill, sign of running net)')
    FIELDS = {'res', 'holdings', 'pnl', 'posfields', 'cash'}

    def gen(self, rng, tier):
        n = 500 if tier == 'quick' else 8000
        cases = []
        for i in range(n):
            exact = rng.random() < 0.4
            c = bl.gen_portfolio_case(rng, stream='valid', exact=exact, real_qty=rng.random() < 0.5,
                                      n_ops=rng.randint(1, 60))
            if rng.random() < 0.5:
                close_reopen(c, rng)
            cases.append(c)
        cases.extend(near_close(rng, 120 if tier == 'quick' else 2000))
        if tier == 'thorough':
            cases.extend(sign_patterns())
        else:
            cases.extend(sign_patterns(maxlen=3))
        return cases

    def model_case(self, case):
        return bl.portfolio_model_case(case)

    def judge(self, case, impl, mod):
        j = Judgement()
        bl.compare_portfolio(case, impl, mod, self.FIELDS, j)
        pnl_predicate_pf(case, impl, j)
        for rs in impl.get('restored', []):
            j.failures.append('a Position rebuilt from the stored fields of %s with the documented constructor differs (%s): %s' % (rs[0], rs[1], rs[2:]))
        for sp in impl.get('sparse_reads', []):
            j.failures.append('the same fills, P&L read only every third step: step %s reads %s, read after every step it was %s' % tuple(sp[:3]))
        sig = tuple((op[0], (op[2] > 0) if op[0] == 'txn' else None, tuple((h[0], h[1] > 0) for h in st['pub']))
                    for op, st in zip(case['ops'], impl['steps']))
        j.key = hash(sig)
        return j

    def neighbours(self, case, rng):
        return [bl.gen_portfolio_case(rng, exact=rng.random() < 0.5, real_qty=True) for _ in range(64)]

    def matches_known(self, k, case, text):
        return False


def near_close(rng, n):
    """large positions that are almost, but not fully, closed (long and short), then re-marked and traded on"""
    out = []
    for _ in range(n):
        t = bl.MON
        sgn = rng.choice([1, -1])
        big = [rng.randint(10000, 900000) for _ in range(rng.randint(1, 3))]
        resid = rng.choice([1, 2, 5, 9, 25, 100])
        p = float(rng.randint(8, 800)) / 8
        ops = []
        for i, q in enumerate(big):
            ops.append(['txn', 'AAA', sgn * q, t + i * 60, p + i * 0.125, rng.choice([0.0, 1.0, 2.5])])
        ops.append(['txn', 'AAA', -sgn * (sum(big) - resid), t + 600, p + 1.0, rng.choice([0.0, 1.0])])
        ops.append(['mark', 'AAA', p + 2.0, t + 660])
        if rng.random() < 0.5:
            ops.append(['txn', 'AAA', sgn * rng.randint(1, 50), t + 720, p + 1.5, 0.0])
            ops.append(['mark', 'AAA', p + 0.5, t + 780])
        if rng.random() < 0.5:
            ops.append(['txn', 'AAA', -sgn * resid, t + 840, p + 3.0, 0.0])
        out.append({'kind': 'portfolio', 'stream': 'nearclose', 'start': t, 'cash': float(rng.randint(0, 10**9)), 'ops': ops, 'exact': True})
    return out


def sign_patterns(maxlen=5):
    """every sequence of <= maxlen fills with quantities in {+-1,+-2,+-3} (one asset), a mark after each"""
    import itertools
    out = []
    qs = [1, 2, 3, -1, -2, -3]
    for L in range(1, maxlen + 1):
        for combo in itertools.product(qs, repeat=L):
            ops = []
            t = bl.MON
            for i, q in enumerate(combo):
                ops.append(['txn', 'AAA', q, t + i * 60, 10.0 + 0.5 * i, 0.25 * (i % 3)])
                ops.append(['mark', 'AAA', 11.0 + 0.25 * i, t + i * 60 + 30])
            out.append({'kind': 'portfolio', 'stream': 'signpatterns', 'start': t, 'cash': 1000.0, 'ops': ops, 'exact': True})
    return out


PROP = C03()
