"""C06 — market data is point-in-time: a price query never sees a later bar."""
from fractions import Fraction

from ..engine import Prop, Judgement
from ..numcmp import close, fr
from .. import brokerlib as bl

DAY = 86400
BASE = 18260          # 2019-12-30


def gen_case(rng, tier, wrap=False):
    n_assets = rng.randint(1, 3)
    assets = {}
    adjust = rng.random() < 0.6
    queries = []
    all_days = []
    names_ = ['AAA', 'BBB', 'CCC']
    if rng.random() < 0.3:
        names_ = rng.sample(['AAA', 'BRK.B', 'BRK.A', 'VOD.L', 'bf.b', 'CCC'], 3)      # tickers with a dot (share classes, exchange suffixes)
    for name in names_[:n_assets]:
        n = rng.choice([1, 2, 3, 5, 10, 30]) if tier == 'quick' else rng.choice([1, 2, 3, 10, 60, 400])
        first = BASE + rng.randint(0, 20)
        days, d = [], first
        sparse = rng.random() < 0.25
        zero_prices = rng.random() < 0.15
        calendar_days = rng.random() < 0.25        # vendors with a bar for every calendar day (weekend-dated rows)
        while len(days) < n:
            if ((d + 3) % 7 <= 4 or calendar_days) and rng.random() < 0.9:
                days.append(d)
            d += 1
            if sparse and rng.random() < 0.3:
                d += rng.choice([29, 30, 31, 45, 100, 400])      # suspended / monthly data: stale quotes stay the answer
        rows = []
        p = bl.dy(rng, 5, 300, 8)
        for d in days:
            p = max(1.0, p + rng.randint(-24, 24) / 8)
            o, c = p, max(1.0, p + rng.randint(-16, 16) / 8)
            a = c * rng.choice([1.0, 0.5, 0.75, 1.25]) if rng.random() < 0.5 else round(c * rng.uniform(0.5, 1.0), 4)
            r = [d, o, c, a]
            if zero_prices and rng.random() < 0.25:
                # a zero or negative quote is a value like any other (only an empty cell is a missing one)
                if adjust and rng.random() < 0.5:
                    r[2], r[3] = 0.0, 0.0                       # a halted bar: raw close and adjusted close are both zero
                elif adjust:
                    r[1] = rng.choice([0.0, -1.0])              # (an adjusted open is open x adj/close: keep the ratio defined)
                else:
                    r[rng.choice([1, 2])] = rng.choice([0.0, -1.0, -0.5])
            for k in (1, 2, 3):
                if rng.random() < 0.08:
                    r[k] = None
            rows.append(r)
        if rng.random() < 0.08:
            # a close-only file (index levels, fund NAVs): the Open column is empty on every row - each 14:30 answer is the
            # previous observation, i.e. the close before it
            for r in rows:
                r[1] = None
        if len(rows) >= 3 and rng.random() < 0.2:
            # a later bar repeats an earlier one figure for figure (flat / quantised markets)
            i_, j_ = sorted(rng.sample(range(len(rows)), 2))
            rows[j_] = [rows[j_][0]] + list(rows[i_][1:])
        rng.shuffle(rows)
        assets[name] = rows
        all_days += days
        for d in days:
            for off in (52199, 52200, 52201, 75599, 75600, 75601):
                if rng.random() < (0.6 if len(days) <= 10 else 0.08):
                    queries.append([name, d * DAY + off])
        queries += [[name, first * DAY + 52199], [name, (first - 1) * DAY + 75600], [name, (first - 3) * DAY],
                    [name, (days[-1] + 1) * DAY], [name, (days[-1] + 30) * DAY + 3600], [name, days[-1] * DAY + 86399],
                    [name, (days[-1] + 31) * DAY + 80000], [name, (days[-1] + rng.choice([45, 400, 4000])) * DAY + rng.randint(0, 86399)]]
        for a_, b_ in zip(days, days[1:]):
            if b_ - a_ > 20:
                queries += [[name, (a_ + 30) * DAY + 75600], [name, (a_ + 30) * DAY + 75601], [name, b_ * DAY + 52199]]
        for _ in range(4):
            queries.append([name, rng.randint((first - 5) * DAY, (days[-1] + 5) * DAY)])
    c = {'assets': assets, 'adjust': adjust, 'queries': queries, 'stream': 'random', 'wrap': wrap}
    if rng.random() < 0.5:
        # instants with a sub-second part: the answer is that of the whole second they lie in (boundary - 1 ms is still before it)
        c['subsec'] = [(rng.choice([999999999, 999999000, 999000000, 600000000, 400000000, 1, 500000000]) if rng.random() < 0.3 else 0)
                       for _ in queries]
    if rng.random() < 0.3:
        c['split_day'] = rng.choice(all_days)
    if rng.random() < 0.25:
        c['resource'] = True
    if rng.random() < 0.5:
        c['cut_day'] = rng.choice(all_days)
    if rng.random() < 0.3:
        c['csv_symbols'] = rng.sample(sorted(assets), len(assets))
    if rng.random() < 0.3:
        c['shared_dir'] = True
    if rng.random() < 0.4:
        c['handler_universe'] = rng.choice(['late_dynamic', 'none_dynamic', 'static_without', 'static_with'])
    if rng.random() < 0.4:
        c['tz'] = rng.choice(['Asia/Tokyo', 'America/New_York', 'Europe/Paris', 'Australia/Sydney', 'America/Los_Angeles'])
    return c


def spec_price(rows, adjust, t):
    """the statement, literally: latest bar whose 14:30 open is <= t; its open before its 21:00 close,
    its close otherwise; missing -> previous observation; nothing before the first open"""
    obs = []
    for d, o, c, a in sorted(rows, key=lambda r: r[0]):
        if adjust:
            # (a halted bar with close = adjusted close = 0 has no adjustment ratio, 0/0: its adjusted open is missing)
            oo = None if (o is None or c is None or a is None or (c == 0 and a == 0)) else Fraction(a) / Fraction(c) * Fraction(o)
            cc = None if a is None else Fraction(a)
        else:
            oo = None if o is None else Fraction(o)
            cc = None if c is None else Fraction(c)
        obs.append((d * DAY + 52200, oo))
        obs.append((d * DAY + 75600, cc))
    last = None
    seen = False
    for u, v in obs:
        if u > t:
            break
        seen = True
        if v is not None:
            last = v
    return last if seen else None


class C06(Prop):
    pid = 'C06'
    worker = 'dataworker'
    rule = ('CSV directories written by the harness (1-400 rows, gaps, shuffled rows, missing cells in every column, adjusted or not, '
            'several assets with different first dates) loaded by the real CSVDailyBarDataSource + BacktestDataHandler; queries at every '
            "bar's open/close instant +-1 s, midnights, weekends, before the first bar and after the last; metamorphic re-runs with "
            'all rows after a cut day removed or rewritten; non-trivial = at least one non-NaN answer; distinct = hash of the rows and queries')

    def gen(self, rng, tier):
        n = 150 if tier == 'quick' else 1500
        return [gen_case(rng, tier) for _ in range(n)]

    def model_case2(self, c, impl):
        # the model is fed the values pandas actually parsed (CSV parsing itself is out of scope)
        cases = []
        for a, t in c['queries']:
            pass
        def enc(r):
            cells = [([] if (v is None or v == 'nan') else [Fraction(v)]) for v in r[1:]]
            if c['adjust'] and cells[1] == [Fraction(0)] and cells[2] == [Fraction(0)]:
                cells[0] = []          # 0/0: no adjustment ratio, the adjusted open is missing (the model's rationals would say 0)
            return [int(r[0])] + cells
        rows = dict((a, [enc(r) for r in impl['loaded'][a]]) for a in c['assets'])
        per_asset = []
        for a in sorted(c['assets']):
            ts = [int(t) for (b, t) in c['queries'] if b == a]
            per_asset.append([bool(c.get('wrap')), bool(c['adjust']), rows[a], ts])
        return ('data_multi', per_asset)

    def judge(self, c, impl, mod):
        j = Judgement()
        j.key = hash(repr((c['assets'], c['adjust'], c['queries'])))
        scale = max([abs(v) for rows in c['assets'].values() for r in rows for v in r[1:] if v is not None] + [1.0])
        tol = Fraction(1, 10**9) * Fraction(scale)
        # parsed rows must be the rows written (sanity of the harness' CSV writer)
        for a, rows in c['assets'].items():
            want = sorted([[r[0]] + [('nan' if v is None else v) for v in r[1:]] for r in rows])
            if sorted(impl['loaded'][a]) != want:
                # the frame the source keeps is not the file's rows: reported, and the answers are still judged against the file
                j.disagreements.append('CSV for %s was not parsed as written: %s vs %s' % (a, impl['loaded'][a][:3], want[:3]))
                break
        manswers = {}
        for a, res in zip(sorted(c['assets']), mod):
            ts = [t for (b, t) in c['queries'] if b == a]
            for t, v in zip(ts, res):
                manswers[(a, t)] = v[0] if v else None
        for (a, t), ans in zip(c['queries'], impl['answers']):
            w = 'query %s at %d (day %d, tod %d)' % (a, t, t // DAY, t % DAY)
            mv = manswers[(a, t)]
            bid = ans[0]
            if mv is None:
                if bid != 'nan':
                    j.disagreements.append('%s: model=NaN impl=%s' % (w, bid))
            elif bid == 'nan' or not close(mv, bid, tol):
                j.disagreements.append('%s: model=%s impl=%s' % (w, float(mv), bid))
            # the property: spec value, and bid = ask = handler bid/ask/mid
            sv = spec_price(c['assets'][a], c['adjust'], t)
            if sv is None:
                if bid != 'nan':
                    j.failures.append('%s: no bar opens at or before t but the answer is %s' % (w, bid))
            else:
                j.nontrivial = True
                if bid == 'nan' or abs(fr(bid) - sv) > tol:
                    j.failures.append('%s: answer %s, point-in-time value is %s' % (w, bid, float(sv)))
            flat = [ans[1], ans[2], ans[3], ans[4][0], ans[4][1], ans[5]]
            if any(x != bid for x in flat):
                j.failures.append('%s: source bid %s but ask / handler bid, ask, bid-ask, mid are %s' % (w, bid, flat))
            if len(j.failures) > 5 or len(j.disagreements) > 5:
                return j
        if 'answers_univ' in impl:
            for q, a0, a1 in zip(c['queries'], impl['answers'], impl['answers_univ']):
                if a0 != a1:
                    j.failures.append('query %s: a data handler built with universe %s answers %s, without a universe %s' % (q, c['handler_universe'], a1, a0))
                    break
        if 'answers_two_sources' in impl and not c.get('subsec'):
            for q, a0, a1 in zip(c['queries'], impl['answers'], impl['answers_two_sources']):
                if a0[2:6] != a1:
                    j.failures.append('query %s: a handler with a recent-bars-only source listed before the full history answers %s, the full history alone %s' % (q, a1, a0[2:6]))
                    break
        if 'answers_resourced' in impl:
            for q, a0, a1 in zip(c['queries'], *impl['answers_resourced']):
                want = [('nan' if x == 'nan' else x * 2.0) for x in a0]
                if a1 != want:
                    j.failures.append('query %s: a handler whose data_sources were replaced by files with every figure doubled answers %s, expected %s' % (q, a1, want))
                    break
        if 'answers_first_vendor' in impl and 'answers_resourced' in impl:
            for q, a0, a1 in zip(c['queries'], impl['answers_resourced'][0], impl['answers_first_vendor']):
                if a1 != a0:
                    j.failures.append('query %s: with a second vendor (every figure doubled) listed after the files as written the handler answers [bid, ask, mid, pair] %s, the first vendor alone %s' % (q, a1, a0))
                    break
        if 'answers_shared_dir' in impl:
            for q, a0, a1 in zip(c['queries'], impl['answers'], impl['answers_shared_dir']):
                if a0 != a1:
                    j.failures.append('query %s: a second source object on a directory already read with the other adjustment setting answers %s instead of %s' % (q, a1[0], a0[0]))
                    break
        if 'answers_tz' in impl:
            for q, a0, a1 in zip(c['queries'], impl['answers'], impl['answers_tz']):
                if a0 != a1:
                    j.failures.append('query %s: the same instant expressed in %s is answered %s instead of %s' % (q, c['tz'], a1[0], a0[0]))
                    break
        if 'early_queries' in impl:
            for name in ('truncated', 'rewritten'):
                if impl[name] is None:
                    continue
                for q, a0, a1 in zip(impl['early_queries'], impl['original_early'], impl[name]):
                    if a0 != a1:
                        j.failures.append('query %s on or before the cut day %d changes when later rows are %s: %s -> %s' % (
                            q, c['cut_day'], name, a0[0], a1[0]))
                        break
        return j

    def shrink_candidates(self, c):
        for a in list(c['assets']):
            if len(c['assets']) > 1:
                d = dict(c)
                d['assets'] = dict((k, v) for k, v in c['assets'].items() if k != a)
                d['queries'] = [q for q in c['queries'] if q[0] != a]
                yield d
            rows = c['assets'][a]
            for i in range(len(rows)):
                if len(rows) > 1:
                    d = dict(c)
                    d['assets'] = dict(c['assets'])
                    d['assets'][a] = rows[:i] + rows[i + 1:]
                    yield d
        if len(c['queries']) > 1:
            for i in range(0, len(c['queries']), max(1, len(c['queries']) // 8)):
                d = dict(c)
                d['queries'] = c['queries'][:i] + c['queries'][i + max(1, len(c['queries']) // 8):]
                if d['queries']:
                    yield d

    def neighbours(self, c, rng):
        return [gen_case(rng, 'quick') for _ in range(32)]

    def matches_known(self, k, case, text):
        return False


PROP = C06()
