"""C07 — backtest results up to any date do not depend on later market data."""
from fractions import Fraction
import copy

from ..engine import Prop, Judgement
from .. import sesslib as sl
from .. import brokerlib as bl
from .c06 import spec_price

DAY = 86400


def csv_market(rng, assets, d0, d1, exact, late=None, holes=None, adjust=None):
    """daily bars for every weekday in [d0 - 3, d1 + 3]; late: asset -> first day with data;
    holes: asset -> set of days whose row is missing from that asset's file (a per-asset holiday)"""
    out = {}
    if adjust is None:
        adjust = rng.random() < 0.4
    for a in assets:
        p = bl.dy(rng, 8, 250, 8)
        rows = []
        # back-adjustment: Adj Close = factor x Close, the factor stepping at a split / dividend day
        step_day = rng.randint(d0 - 3, d1 + 3)
        f_before, f_after = (rng.choice([0.5, 0.25, 0.75, 1.0]), rng.choice([1.0, 1.0, 0.5])) if adjust else (1.0, 1.0)
        blank_lead = late is not None and rng.random() < 0.6     # aligned export: early rows exist but are blank
        for d in range(d0 - 3, d1 + 4):
            if sl.weekday(d) > 4:
                continue
            if late and d < late.get(a, 0):
                if blank_lead:
                    rows.append([d, None, None, None])
                continue
            if exact:
                o = max(1.0, p + rng.randint(-12, 12) / 8)
                c = max(1.0, o + rng.randint(-12, 12) / 8)
            else:
                o = max(1.0, p * (1 + rng.uniform(-0.02, 0.02)))
                c = max(1.0, o * (1 + rng.uniform(-0.02, 0.02)))
            p = c
            if holes and d in holes.get(a, ()):
                continue
            rows.append([d, o, c, c * (f_before if d < step_day else f_after)])
            if rng.random() < 0.04:
                k = rng.choice([1, 2])
                rows[-1][k] = None
                if k == 2:
                    rows[-1][3] = None
        out[a.replace('EQ:', '')] = rows
    return {'kind': 'csv', 'assets': out, 'adjust': bool(adjust), 'file_order': rng.choice([None, None, 'desc', 'scrambled'])}


def future_rewrite(rng, market, T, mode):
    m = copy.deepcopy(market)
    if m['kind'] == 'table':
        rows = []
        for t, snap in m['rows']:
            if t // DAY <= T:
                rows.append([t, snap])
            elif mode == 'rewrite':
                rows.append([t, [[a, max(1.0, p * rng.choice([0.5, 2.0, 1.5]) + rng.randint(-8, 8) / 8)] for a, p in snap]])
            elif mode == 'shuffle':
                rows.append([t, [[a, float(rng.randint(8, 4000)) / 8] for a, p in snap]])
            # 'remove': the snapshot disappears altogether
        m['rows'] = rows
    else:
        for a, rows in m['assets'].items():
            new = []
            for r in rows:
                if r[0] <= T:
                    new.append(r)
                elif mode in ('rewrite', 'shuffle'):
                    k = rng.choice([0.5, 2.0, 1.5])
                    new.append([r[0]] + [None if v is None else max(1.0, v * k + rng.randint(-8, 8) / 8) for v in r[1:]])
            fut = [r for r in new if r[0] > T]
            if fut and rng.random() < 0.25:
                # a corrupt (zero / negative) price somewhere in the future must not matter before it is reached
                r = rng.choice(fut)
                k = rng.choice([1, 2, 3])
                r[k] = rng.choice([0.0, -5.0])
            m['assets'][a] = new if new else rows[:1]      # never an empty file (pandas cannot load one)
    return m


def table_of_csv(c):
    """the snapshots the CSV data source serves at the session's clock instants (C06 semantics)"""
    cfg = c['cfg']
    rows = []
    for t, _ in sl.event_times(cfg['start'], cfg['end']):
        snap = []
        for name, bars in c['market']['assets'].items():
            v = spec_price(bars, c['market'].get('adjust', False), t)
            if v is None and c['market'].get('backup'):
                # the handler asks the next data source when the first one has no price
                v = spec_price(c['market']['backup'][name], c['market'].get('adjust', False), t)
            if v is not None:
                snap.append(['EQ:' + name, v])
        rows.append([t, snap])
    return rows


class C07(Prop):
    pid = 'C07'
    worker = 'sessworker'
    cross_limit = 6
    rule = ('pairs of full sessions on the real code: (config, market) vs (config, market with everything after a random cut day T '
            'rewritten, randomised or removed); CSV-backed (real data source in the loop) and table-backed markets; fixed, universe-driven, '
            'top-N momentum, SMA-trend and volatility-filter alpha models; static and dynamic universes incl. assets whose data start later; '
            'every rebalance kind, both sizers, fees, burn-in; outputs up to T compared bit-for-bit; the first run of each pair is also '
            'compared with the Coq session model; non-trivial = something was produced before T and the future really differs; '
            'distinct = hash of (config, T, mode)')

    def gen(self, rng, tier):
        n = 300 if tier == 'quick' else 1500
        out = []
        for i in range(n):
            kinds = ('fixed', 'single', 'topn', 'smatrend')
            c = sl.gen_session(rng, tier, all_quoted=False, alpha_kinds=kinds, max_days=(40 if tier == 'quick' else 150))
            cfg = c['cfg']
            if rng.random() < 0.2 and cfg['lookbacks'] is None and c['cfg']['alpha'][0] in ('single',):
                # implementation-only volatility filter (long/short)
                lb = rng.choice([2, 3, 5])
                cfg['alpha'] = ['volfilter', lb, rng.choice([0.1, 0.2, 0.4])]
                cfg['lookbacks'] = [lb]
                cfg['long_only'] = False
                cfg['param'] = 1.0
                c['stream'] = 'volfilter:' + cfg['rebal'][0]
            d0, d1 = cfg['start'] // DAY, cfg['end'] // DAY
            late = None
            if rng.random() < 0.5:
                late = None
                if rng.random() < 0.6:
                    late = dict((a, d0 + rng.randint(0, max(1, (d1 - d0) // 2))) for a in rng.sample(c['assets'], 1))
                    if rng.random() < 0.5:
                        # the asset's first bar is the business day after the first scheduled rebalance
                        from .c13 import expected as sched_expected
                        r = cfg['rebal']
                        sc = sched_expected({'which': {'weekly': 'weekly', 'daily': 'daily', 'eom': 'end_of_month', 'bah': 'buy_and_hold'}[r[0]],
                                             'start': cfg['start'], 'stop': cfg['end'], 'pm': False,
                                             'weekday': (r[1] if r[0] == 'weekly' else 'MON')})
                        sc = [t for t in sc if cfg.get('burn') is None or t >= cfg['burn']]
                        if sc:
                            R = sc[0] // DAY
                            nxt = R + 1
                            while sl.weekday(nxt) > 4:
                                nxt += 1
                            late = dict((a, nxt) for a in list(late))
                            c['_force_T'] = R
                holes = None
                inner = sl.bdays_between(d0 + 1, d1 - 1)
                if late is None and inner and rng.random() < 0.5:
                    # interior business days missing from one asset's file (the engine still has events then)
                    a = rng.choice(c['assets'])
                    holes = {a: set(rng.sample(inner, min(len(inner), rng.randint(1, 3))))}
                    if len(inner) > 12 and rng.random() < 0.4:
                        # a suspension: more than a week without a bar for this asset
                        k0 = rng.randint(0, len(inner) - 9)
                        holes = {a: set(inner[k0:k0 + rng.randint(7, 9)])}
                    c['_hole_T'] = rng.choice(sorted(holes[a]))
                    if rng.random() < 0.4:
                        # a market holiday: NO asset has a bar that day; the cut falls on the business day before it
                        from .c13 import expected as sched_expected2
                        r_ = cfg['rebal']
                        sc_days = set(t // DAY for t in sched_expected2(
                            {'which': {'weekly': 'weekly', 'daily': 'daily', 'eom': 'end_of_month', 'bah': 'buy_and_hold'}[r_[0]],
                             'start': cfg['start'], 'stop': cfg['end'], 'pm': False, 'weekday': (r_[1] if r_[0] == 'weekly' else 'MON')}))
                        on_sched = [d for d in inner if d in sc_days]
                        if on_sched and rng.random() < 0.8:
                            holes[a] = set([rng.choice(on_sched)])       # the holiday is a scheduled rebalance day
                        holes = dict((b, set(holes[a])) for b in c['assets'])
                        h = rng.choice(sorted(holes[a]))
                        prev = h - 1
                        while sl.weekday(prev) > 4:
                            prev -= 1
                        c['_hole_T'] = prev
                        c['_holiday'] = True
                c['market'] = csv_market(rng, c['assets'], d0, d1, c['exact'], late, holes)
                c['stream'] += ':csv' + (':holes' if holes else '')
            days = sl.bdays_between(d0, d1)
            c['T'] = rng.choice(days) if days else d0
            if c.get('_hole_T') is not None and (rng.random() < 0.7 or c.get('_holiday')):
                c['T'] = c['_hole_T']
            c.pop('_hole_T', None)
            if c['market']['kind'] == 'csv' and late and rng.random() < 0.6:
                # cut right where an asset's data begin: the day before, the first day, the day after
                L = list(late.values())[0]
                near = [d for d in days if L - 4 <= d <= L + 1]
                if near:
                    c['T'] = rng.choice(near[-3:])
            if c.get('_force_T') is not None and c['market']['kind'] == 'csv':
                c['T'] = c.pop('_force_T')
            c.pop('_force_T', None)
            c['mode_future'] = rng.choice(['rewrite', 'shuffle', 'remove'])
            if c.pop('_holiday', None):
                c['mode_future'] = 'remove'
                c['stream'] += ':market-holiday'
            if c['market']['kind'] == 'csv' and rng.random() < 0.4:
                # the bars of the cut day have an open but no close (yet); with the future removed they end their files
                hit = False
                for a in sorted(c['market']['assets']):
                    for r in c['market']['assets'][a]:
                        if r[0] == c['T'] and r[1] is not None:
                            r[2] = None
                            r[3] = None
                            hit = True
                if hit:
                    c['market']['adjust'] = rng.random() < 0.3
                    c['mode_future'] = 'remove'
                    c['stream'] += ':open-bar-at-cut'
            if c['market']['kind'] == 'csv' and rng.random() < 0.25:
                # a bar after the cut repeats, figure for figure, a bar on or before it (flat or quantised markets do that)
                names = sorted(c['market']['assets'])
                a_ = rng.choice(names)
                rows_ = c['market']['assets'][a_]
                early = [r for r in rows_ if r[0] <= c['T'] and None not in r[1:]]
                late_ = [r for r in rows_ if r[0] > c['T']]
                if early and late_:
                    src, dst = rng.choice(early[-6:]), rng.choice(late_)
                    dst[1], dst[2], dst[3] = src[1], src[2], src[3]
                    c['stream'] += ':repeated-bar-after-the-cut'
            if c['market']['kind'] == 'csv' and rng.random() < 0.15:
                # a vendor that publishes opening prices only from some day after the cut: one asset's Open column is blank on
                # every row up to the cut day (closes are there); in the other world the rows with opens are gone
                a_ = rng.choice(sorted(c['market']['assets']))
                upto = c['T'] + rng.choice([0, 0, 2])
                for r in c['market']['assets'][a_]:
                    if r[0] <= upto:
                        r[1] = None
                if rng.random() < 0.7:
                    c['mode_future'] = 'remove'
                c['stream'] += ':no-opens-until-after-the-cut'
            two_vendors = False
            if c['market']['kind'] == 'csv' and not c['market'].get('backup') and rng.random() < 0.15:
                # two vendors for the same assets: the one listed first stops a couple of days after the cut, the second one (other
                # quotes, a slightly shorter past) runs on; with the future removed the second one is the shorter file
                T_ = c['T']
                full = c['market']['assets']
                backup = dict((n_, ([[r_[0]] + [None if v_ is None else v_ * 1.5 for v_ in r_[1:]] for r_ in rows_][5:]) or
                               [[rows_[-1][0]] + [None if v_ is None else v_ * 1.5 for v_ in rows_[-1][1:]]]) for n_, rows_ in full.items())
                prim = dict((n_, [r_ for r_ in rows_ if r_[0] <= T_ + 2] or rows_[:1]) for n_, rows_ in full.items())
                c['market'] = dict(c['market'], assets=prim, backup=backup)
                c['mode_future'] = 'remove'
                c['stream'] += ':two-vendors-first-one-ends-after-the-cut'
                two_vendors = True
            c['market2'] = future_rewrite(rng, c['market'], c['T'], c['mode_future'])
            if two_vendors:
                c['market2']['backup'] = dict((n_, [r_ for r_ in rows_ if r_[0] <= c['T']] or rows_[:1]) for n_, rows_ in c['market']['backup'].items())
            if c['market']['kind'] == 'csv' and not two_vendors and rng.random() < 0.15:
                # a re-rating on the cut day: one asset's prices jump by 80 % on T; in one world the new level holds, in the
                # other the jump is undone the next day (the two worlds agree on every bar up to and including T)
                a_ = rng.choice(sorted(c['market']['assets']))
                base = copy.deepcopy(c['market'])
                jump = lambda r: [r[0]] + [None if v is None else v * 1.8 for v in r[1:]]
                up, back = copy.deepcopy(base), copy.deepcopy(base)
                up['assets'][a_] = [jump(r) if r[0] >= c['T'] else r for r in base['assets'][a_]]
                back['assets'][a_] = [jump(r) if r[0] == c['T'] else r for r in base['assets'][a_]]
                c['market'], c['market2'] = up, back
                c['mode_future'] = 'rewrite'
                c['stream'] += ':re-rating-at-the-cut'
            c['mode'] = 'pair'
            if c['market']['kind'] == 'csv' and rng.random() < 0.35:
                # in both worlds the data handler object has first served a LATER session (a parameter sweep re-using the handler)
                shift = rng.choice([3, 7, 14, 30]) * DAY
                prior = dict(cfg, start=cfg['start'] + shift, end=cfg['end'] + shift)
                if prior.get('burn') is not None:
                    prior['burn'] = prior['burn'] + shift
                if prior['universe'][0] == 'dynamic':
                    prior['universe'] = ['dynamic', [[a, (None if e is None else e + shift)] for a, e in prior['universe'][1]]] + list(prior['universe'][2:])
                c['cfg_prior'] = prior
                c['stream'] += ':handler-served-a-later-session'
            out.append(c)
        return out

    def model_case(self, c):
        if c['cfg']['alpha'][0] == 'volfilter':
            return ('num', ['floor', Fraction(0)])
        if c['market']['kind'] == 'csv':
            c2 = dict(c)
            c2['market'] = {'kind': 'table', 'rows': table_of_csv(c)}
            return sl.session_model_case(c2)
        return sl.session_model_case(c)

    def judge(self, c, impl, mod):
        j = Judgement()
        j.key = hash(repr((c['cfg'], c['T'], c['mode_future'])))
        a, b = impl['a'], impl['b']
        if c['cfg']['alpha'][0] != 'volfilter':
            c2 = c
            if c['market']['kind'] == 'csv':
                c2 = dict(c)
                c2['market'] = {'kind': 'table', 'rows': table_of_csv(c)}
            sl.compare_session(c2, a, mod, j)
        else:
            j.tags.append('model_skipped')
        Tend = c['T'] * DAY + 86399
        da, db = sl.digest(a, Tend), sl.digest(b, Tend)
        for key in ('init', 'equity', 'fills', 'history', 'error'):
            if da.get(key) != db.get(key):
                x, y = da.get(key), db.get(key)
                if isinstance(x, list) and isinstance(y, list):
                    k = next((i for i, (p, q) in enumerate(zip(x, y)) if p != q), min(len(x), len(y)))
                    j.failures.append('%s up to day %d differs when later data are %s: #%d %s vs %s (lengths %d / %d)' % (
                        key, c['T'], c['mode_future'], k, x[k:k + 1], y[k:k + 1], len(x), len(y)))
                else:
                    j.failures.append('%s up to day %d differs when later data are %s: %s vs %s' % (key, c['T'], c['mode_future'], x, y))
        if da.get('allocs') is not None and db.get('allocs') is not None and a.get('error') is None and b.get('error') is None:
            if da['allocs'] != db['allocs']:
                j.failures.append('recorded target allocations up to day %d differ when later data are %s' % (c['T'], c['mode_future']))
        # the allocation TABLE (get_target_allocations): rows dated on or before T
        ta, tb = a.get('alloc_df'), b.get('alloc_df')
        if isinstance(ta, list) and isinstance(tb, list) and len(ta) == 2 and len(tb) == 2 and ta[0] != 'err' and tb[0] != 'err' \
                and a.get('error') is None and b.get('error') is None:
            def rows_upto(t_):
                cols, table = t_
                return [[d, sorted((k, v) for k, v in zip(cols, row) if v != 'nan')] for d, row in table if d <= c['T']]
            ra, rb = rows_upto(ta), rows_upto(tb)
            if ra != rb:
                k = next((i for i, (p, q) in enumerate(zip(ra, rb)) if p != q), min(len(ra), len(rb)))
                j.failures.append('target-allocation table up to day %d differs when later data are %s: %s vs %s' % (
                    c['T'], c['mode_future'], ra[k:k + 1], rb[k:k + 1]))
        if a['init'][0] == 'ok' and (da['equity'] or da['fills']) and c['market'] != c['market2']:
            j.nontrivial = True
        j.tags.append(c['mode_future'])
        return j

    def shrink_candidates(self, c):
        cfg = c['cfg']
        for cut in (30, 10, 3, 1):
            if cfg['end'] - cut * DAY > max(cfg['start'], c['T'] * DAY + DAY):
                d = dict(c); d['cfg'] = dict(cfg, end=cfg['end'] - cut * DAY)
                yield d
        if cfg.get('burn') is not None:
            d = dict(c); d['cfg'] = dict(cfg, burn=None)
            yield d

    def neighbours(self, c, rng):
        return self.gen(rng, 'quick')[:16]

    def matches_known(self, k, case, text):
        return False


PROP = C07()
