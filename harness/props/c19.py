"""C19 — assets trade only while they belong to the universe (universe / optimiser level;
the session-level part is added by the backtest correspondence)."""
from fractions import Fraction

from ..engine import Prop, Judgement
from ..numcmp import close
from .. import brokerlib as bl
from .. import sesslib as sl

ASSETS = ['AAA', 'BBB', 'CCC', 'DDD', 'EEE']
MON = bl.MON
DAY = 86400


def gen_universe_case(rng):
    if rng.random() < 0.25:
        u = ['static', rng.sample(ASSETS, rng.randint(0, 5))]
        times = [MON + rng.randint(-10, 400) * DAY + rng.choice([0, 52200, 75600]) for _ in range(6)]
        return {'op': 'universe', 'universe': u, 'times': times, 'stream': 'static'}
    entries = []
    times = []
    for a in rng.sample(ASSETS, rng.randint(1, 5)):
        r = rng.random()
        if r < 0.2:
            e = None
        else:
            e = MON + rng.randint(-5, 60) * DAY + rng.choice([0, 52200, 75600, 75660])
            times += [e - 1, e, e + 1, e + 60, e - 60]
        entries.append([a, e])
    times += [MON + rng.randint(-3000, 3000) * DAY for _ in range(3)]
    return {'op': 'universe', 'universe': ['dynamic', entries] + ([rng.choice(['nat', 'tz', 'nat+tz', 'pydt', 'tz+pydt', 'latemap', 'tz+latemap'])] if rng.random() < 0.65 else []), 'times': times, 'stream': 'dynamic'}


def gen_opt_case(rng):
    n = rng.randint(1, 6)
    w = [[a, rng.choice([rng.uniform(-2, 2), 0.0, 1.0, 0.25])] for a in rng.sample(ASSETS + ['FFF'], n)]
    kind = rng.choice(['fixed', 'equal'])
    return {'op': 'optimiser', 'kind': kind, 'scale': rng.choice([1.0, 2.0, 0.5, rng.uniform(0.1, 5), 0.0, 0, -1.0, -0.5, 1, 2]), 'weights': w,
            'stream': 'optimiser:' + kind}


def gen_pcm_equal_case(rng):
    """a construction model with the equal-weight optimiser: only the assets the alpha model names (the members of its
    dynamic universe at t) share the scale; held or listed non-members get zero"""
    assets = ['EQ:' + a for a in rng.sample(ASSETS, rng.randint(2, 5))]
    t = 1580000000 + rng.randint(0, 50) * 86400
    entries = []
    for a in assets:
        r = rng.random()
        entries.append([a, (t - rng.choice([0, 1, 86400, 400 * 86400]) if r < 0.55 else (t + rng.choice([1, 60, 86400]) if r < 0.85 else None))])
    if not any(e is not None and e <= t for _, e in entries):
        entries[0][1] = t
    held = [[a, rng.choice([rng.randint(1, 200), -rng.randint(1, 50)])] for a in rng.sample(assets, rng.randint(0, len(assets)))]
    return {'op': 'pcm', 'kind': 'long_short', 'param': 1.0, 'equity': float(rng.randint(10000, 1000000)), 'fee': ['zero'],
            'prices': [[a, float(rng.randint(5, 300))] for a in assets], 'held': held,
            'universe': (list(assets) if rng.random() < 0.5 else rng.sample(assets, rng.randint(0, len(assets) - 1))), 'alpha': [],
            'alpha_dynamic': entries, 'signal': rng.choice([1.0, 0.5, 2.0]), 'opt': ['equal', rng.choice([1.0, 2.0, 0.5, 1.5])], 't': t,
            'stream': 'pcm-equal-weight'}


class C19(Prop):
    pid = 'C19'
    worker = 'pcmworker'
    cross_limit = 60
    rule = ('DynamicUniverse / StaticUniverse queried one second before, exactly at, and after each entry time, years away, and '
            'with absent entry dates; Fixed and EqualWeight optimisers on random non-empty dictionaries and scales; '
            'non-trivial = non-empty answer; distinct = the case tuple')

    def gen(self, rng, tier):
        n = 800 if tier == 'quick' else 10000
        out = [gen_universe_case(rng) if rng.random() < 0.6 else gen_opt_case(rng) for _ in range(n)]
        out += [gen_pcm_equal_case(rng) for _ in range(60 if tier == 'quick' else 600)]
        # whole sessions: dynamic universe + the universe-driven alpha model
        for _ in range(60 if tier == 'quick' else 800):
            c = sl.gen_session(rng, tier, alpha_kinds=('single',), allow_dynamic=True, all_quoted=True)
            c['_worker'] = 'sessworker'
            c['op'] = 'session'
            out.append(c)
        return out

    def model_case(self, c):
        if c['op'] == 'session':
            return sl.session_model_case(c)
        if c['op'] == 'pcm':
            return ('num', ['floor', Fraction(0)])
        if c['op'] == 'universe':
            u = c['universe']
            if u[0] == 'static':
                uv = ['static', list(u[1])]
            else:
                uv = ['dynamic', [[a, ([] if e is None else [int(e)])] for a, e in u[1]]]
            return ('universe', [uv, [int(t) for t in c['times']]])
        return ('optimiser', [c['kind'], Fraction(c['scale']), [[a, Fraction(x)] for a, x in c['weights']]])

    def judge_session(self, c, o, mod):
        j = Judgement()
        j.key = hash(repr(c['cfg']))
        sl.compare_session(c, o, mod, j)
        if o['init'][0] != 'ok':
            return j
        cfg = c['cfg']
        u = cfg['universe']
        entry = dict((a, None) for a in c['assets'])
        if u[0] == 'static':
            entry = dict((a, cfg['start'] - 1) for a in u[1])
        else:
            entry.update(dict((a, e) for a, e in u[1]))
        sig = cfg['alpha'][1]
        for t, row in o['allocs']:
            d = dict(row)
            for a, e in entry.items():
                member = e is not None and e <= t
                if a in d and d[a] != 0 and not member:
                    j.failures.append('asset %s has target weight %s at %d but enters the universe at %s' % (a, d[a], t, e))
                if member and d.get(a) != sig:
                    j.failures.append('asset %s is a universe member at %d (entry %s) but its target weight is %s, not the signal %s' % (a, t, e, d.get(a), sig))
        for f in o['fills']:
            e = entry.get(f[1])
            if e is None or f[0] < e:
                j.failures.append('fill of %s at %d precedes its universe entry %s' % (f[1], f[0], e))
        for h in o['history']:
            if h[1] == 'asset_transaction':
                a = [x for x in entry if x.upper() == h[3]]
                if a and (entry[a[0]] is None or h[0] < entry[a[0]]):
                    j.failures.append('history shows a transaction in %s at %d before its universe entry %s' % (a[0], h[0], entry[a[0]]))
        if o['fills']:
            j.nontrivial = True
        del j.failures[5:]
        return j

    def judge(self, c, impl, mod):
        if c['op'] == 'session':
            return self.judge_session(c, impl, mod)
        j = Judgement()
        j.key = repr(c)
        if c['op'] == 'pcm':
            j.tags.append('model_skipped')
            if impl[0] != 'ok':
                j.failures.append('portfolio construction with the equal-weight optimiser raised %s' % (impl[1:],))
                return j
            t = c['t']
            members = [a for a, e in c['alpha_dynamic'] if e is not None and e <= t]
            want_keys = sorted(set(a for a, _ in c['held']) | set(c['universe']) | set(members))
            alloc = dict(impl[1])
            if sorted(alloc) != want_keys:
                j.failures.append('allocation covers %s, expected held + listed + members = %s' % (sorted(alloc), want_keys))
            share = Fraction(c['opt'][1]) / len(members)
            for a, x in alloc.items():
                w = share if a in members else Fraction(0)
                if abs(Fraction(x) - w) > Fraction(1, 10**12):
                    j.failures.append('%s (entry %s, t %s) has target weight %s; the members %s share the scale %s equally, everything else gets 0'
                                      % (a, dict(c['alpha_dynamic']).get(a), t, x, members, c['opt'][1]))
                    break
            j.nontrivial = True
            return j
        if c['op'] == 'universe':
            if [list(x) for x in mod] != [list(x) for x in impl]:
                j.disagreements.append('universe membership model=%s impl=%s' % (mod, impl))
            u = c['universe']
            for t, got in zip(c['times'], impl):
                if u[0] == 'static':
                    want = list(u[1])
                else:
                    want = [a for a, e in u[1] if e is not None and e <= t]
                if list(got) != want:
                    j.failures.append('universe at %s is %s, expected %s (entry <= t, inclusive; no entry = never)' % (t, got, want))
                if got:
                    j.nontrivial = True
            return j
        if impl[0] != 'ok':
            j.failures.append('optimiser raised %s on a non-empty dictionary' % impl[1])
            return j
        j.nontrivial = True
        if [a for a, _ in mod] != [a for a, _ in impl[1]]:
            j.disagreements.append('optimiser keys model=%s impl=%s' % ([a for a, _ in mod], [a for a, _ in impl[1]]))
        else:
            for (a, x), (_, y) in zip(mod, impl[1]):
                if not close(x, y, Fraction(1, 10**12)):
                    j.disagreements.append('optimiser weight of %s model=%s impl=%s' % (a, float(x), y))
        keys = [a for a, _ in c['weights']]
        if [a for a, _ in impl[1]] != keys:
            j.failures.append('optimiser returned keys %s for input keys %s' % ([a for a, _ in impl[1]], keys))
        elif c['kind'] == 'fixed':
            if [y for _, y in impl[1]] != [x for _, x in c['weights']]:
                j.failures.append('fixed-weight optimiser changed the weights: %s -> %s' % (c['weights'], impl[1]))
        else:
            n = len(keys)
            tot = sum(Fraction(y) for _, y in impl[1])
            if any(abs(Fraction(y) - Fraction(c['scale']) / n) > Fraction(1, 10**12) for _, y in impl[1]) or \
                    abs(tot - Fraction(c['scale'])) > Fraction(1, 10**12):
                j.failures.append('equal-weight optimiser: %s does not give scale/N each summing to the scale %s' % (impl[1], c['scale']))
        return j

    def shrink_candidates(self, c):
        return []

    def neighbours(self, c, rng):
        return self.gen(rng, 'quick')[:64]

    def matches_known(self, k, case, text):
        return False


PROP = C19()
