"""Run the extracted Coq model (OCaml driver) on a batch of cases, in parallel shards."""
import os
import subprocess
import tempfile
from concurrent.futures import ThreadPoolExecutor

from . import val

ROOT = os.path.dirname(os.path.dirname(os.path.abspath(__file__)))
DRIVER = os.path.join(ROOT, 'build', 'qsmodel_driver')
JOBS = int(os.environ.get('VERIF_JOBS', '16'))


def _run_shard(lines):
    p = subprocess.run([DRIVER], input='\n'.join(lines) + '\n', capture_output=True, text=True)
    if p.returncode != 0:
        raise RuntimeError('model driver failed: %s' % p.stderr[-2000:])
    out = p.stdout.split('\n')
    if out and out[-1] == '':
        out.pop()
    if len(out) != len(lines):
        raise RuntimeError('model driver returned %d lines for %d cases: %s' % (len(out), len(lines), p.stderr[-500:]))
    return out


def run_model(cases):
    """cases: list of (entry, value).  Returns list of parsed values."""
    lines = [val.sexp_line(e, v) for (e, v) in cases]
    if not lines:
        return []
    n = min(JOBS, max(1, len(lines) // 4))
    shards = [lines[i::n] for i in range(n)]
    with ThreadPoolExecutor(max_workers=n) as ex:
        outs = list(ex.map(_run_shard, shards))
    res = [None] * len(lines)
    for k, o in enumerate(outs):
        for j, line in enumerate(o):
            res[k + j * n] = val.parse_sexp(line)
    return res


def coq_crosscheck(cases, outputs, workdir, limit=200, budget=300000):
    """Evaluate the smallest of the same cases (up to [limit] cases / [budget] bytes of Coq
    text; Coq parses about 30 KB/s) inside Coq with vm_compute and compare with what the
    extracted driver returned.  Returns (n_checked, ok, detail)."""
    sized = sorted(((len(val.to_coq(cases[i][1])) + len(val.to_coq(outputs[i])), i) for i in range(len(cases))))
    idx, tot = [], 0
    for sz, i in sized:
        if len(idx) >= limit or (idx and tot + sz > budget):
            break
        idx.append(i)
        tot += sz
    if not idx:
        return 0, True, ''
    os.makedirs(workdir, exist_ok=True)
    path = os.path.join(workdir, 'cases.v')
    with open(path, 'w') as f:
        f.write('From Coq Require Import ZArith QArith String List.\n'
                'From QS Require Import theories.Val theories.Entry.\n'
                'Import ListNotations.\nOpen Scope string_scope.\n')
        for k, i in enumerate(idx):
            e, v = cases[i]
            f.write('Definition c%d := val_eqb (dispatch "%s" %s) %s.\n' % (k, e, val.to_coq(v), val.to_coq(outputs[i])))
        f.write('Definition all := [%s].\n' % '; '.join('c%d' % k for k in range(len(idx))))
        f.write('Eval vm_compute in (length (filter (fun b => b) all), length all).\n')
    p = subprocess.run(['timeout', '600', 'coqc', '-R', os.path.join(ROOT, 'coq'), 'QS', '-o',
                        os.path.join(workdir, 'cases.vo'), path],
                       capture_output=True, text=True, cwd=workdir)
    txt = ' '.join(p.stdout.split())
    import re
    m = re.search(r'= \((\d+)(?:%nat)?, (\d+)(?:%nat)?\)', txt)
    ok = p.returncode == 0 and m is not None and int(m.group(1)) == len(idx) and int(m.group(2)) == len(idx)
    return len(idx), ok, (p.stdout[-1500:] + p.stderr[-1500:])
