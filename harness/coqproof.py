"""Proof step: (re)build the cone of props/Cnn.v, re-check the property file from scratch,
parse Print Assumptions, scan the sources for forbidden constructs."""
import os
import re
import subprocess
import time

ROOT = os.path.dirname(os.path.dirname(os.path.abspath(__file__)))
COQ = os.path.join(ROOT, 'coq')

FORBIDDEN = re.compile(r'\b(Admitted|admit|Axiom|Axioms|Parameter|Parameters|Conjecture|Hypothesis|Variable|Variables|Hypotheses)\b|Unset Guard|bypass_check|type-in-type|impredicative-set|Admit Obligations|give_up')
STMT = re.compile(r'^\s*(Theorem|Lemma|Corollary|Example|Fact|Remark|Proposition)\s+([A-Za-z0-9_\']+)', re.M)

# axioms of the standard library that a property may rely on (named in DESIGN.md §9)
STDLIB_AXIOMS = {
    'ClassicalDedekindReals.sig_forall_dec', 'ClassicalDedekindReals.sig_not_dec',
    'FunctionalExtensionality.functional_extensionality_dep',
    'Classical_Prop.classic',
}


def strip_comments(src):
    out, depth, i = [], 0, 0
    while i < len(src):
        if src.startswith('(*', i):
            depth += 1
            i += 2
        elif src.startswith('*)', i) and depth:
            depth -= 1
            i += 2
        else:
            if depth == 0:
                out.append(src[i])
            i += 1
    return ''.join(out)


def cone(prop_file):
    """.v files (relative to coq/) that props/Cnn.v depends on, transitively, plus itself."""
    seen, todo = set(), [prop_file]
    while todo:
        f = todo.pop()
        if f in seen:
            continue
        seen.add(f)
        src = strip_comments(open(os.path.join(COQ, f)).read())
        for m in re.finditer(r'From\s+QS\s+Require\s+(?:Import\s+|Export\s+)?(.*?)\.(?=\s)', src, re.S):
            for name in m.group(1).split():
                p = name.replace('.', '/') + '.v'
                if os.path.exists(os.path.join(COQ, p)):
                    todo.append(p)
    return sorted(seen)


def scan_forbidden(files):
    """Forbidden declarations.  Variable/Hypothesis are allowed only inside a Section."""
    bad = []
    for f in files:
        src = strip_comments(open(os.path.join(COQ, f)).read())
        stack = []
        for ln, line in enumerate(src.split('\n'), 1):
            s = line.strip()
            m = re.match(r'(Section|Module)\s+(\w+)', s)
            if m and ':=' not in s:
                stack.append(m.group(1))
            m = FORBIDDEN.search(line)
            if m:
                w = m.group(0)
                if w in ('Variable', 'Variables', 'Hypothesis', 'Hypotheses') and 'Section' in stack:
                    pass
                else:
                    bad.append('%s:%d: %s' % (f, ln, w))
            if re.match(r'End\s+\w+\s*\.', s) and stack:
                stack.pop()
    return bad


def proof_step(pid, whitelist=(), thorough=False):
    t0 = time.time()
    prop = 'props/%s.v' % pid
    info = {'prop_file': prop, 'ok': False, 'obligations': 0, 'discharged': 0, 'axioms': [],
            'theorems': [], 'detail': '', 'checker_cmd': ''}
    if not os.path.exists(os.path.join(COQ, prop)):
        info['detail'] = 'missing ' + prop
        return info
    files = cone(prop)
    # 1. build the cone (full .vo)
    if not os.path.exists(os.path.join(COQ, 'Makefile')):
        subprocess.run(['coq_makefile', '-f', '_CoqProject', '-o', 'Makefile'], cwd=COQ, capture_output=True)
    targets = [f + 'o' for f in files if f != prop]
    mk = subprocess.run(['timeout', '3000', 'make', '-j16'] + targets, cwd=COQ, capture_output=True, text=True)
    counts = {}
    for f in files:
        src = strip_comments(open(os.path.join(COQ, f)).read())
        counts[f] = len(STMT.findall(src))
    info['obligations'] = sum(counts.values())
    built = [f for f in files if f != prop and os.path.exists(os.path.join(COQ, f + 'o'))
             and os.path.getmtime(os.path.join(COQ, f + 'o')) >= os.path.getmtime(os.path.join(COQ, f))]
    if mk.returncode != 0:
        info['detail'] = 'make failed: ' + (mk.stdout + mk.stderr)[-1500:]
    # 2. re-check the property file from scratch, capturing Print Assumptions
    cmd = ['timeout', '1200', 'coqc', '-R', COQ, 'QS', os.path.join(COQ, prop)]
    info['checker_cmd'] = 'make -C coq <cone of %s> && coqc -R coq QS coq/%s' % (prop, prop)
    pc = subprocess.run(cmd, cwd=COQ, capture_output=True, text=True)
    out = pc.stdout
    if pc.returncode == 0:
        built.append(prop)
    else:
        info['detail'] += ' coqc %s failed: %s' % (prop, (pc.stdout + pc.stderr)[-1500:])
    info['discharged'] = sum(counts[f] for f in built)
    src = strip_comments(open(os.path.join(COQ, prop)).read())
    thms = [m[1] for m in STMT.findall(src)]
    info['theorems'] = thms
    n_print = len(re.findall(r'Print\s+Assumptions', src))
    closed = out.count('Closed under the global context')
    axioms = set()
    for blk in re.split(r'Axioms:', out)[1:]:
        for line in blk.split('\n'):
            m = re.match(r'^([A-Za-z_][\w.\']*)\s*:', line)
            if m:
                axioms.add(m.group(1))
            elif line.strip() == '' or line.startswith(' '):
                continue
            elif 'Closed under' in line:
                break
    info['axioms'] = sorted(axioms)
    bad_ax = [a for a in axioms if a not in STDLIB_AXIOMS or (a not in whitelist)]
    forb = scan_forbidden(files)
    problems = []
    if n_print < len([t for t in thms]):
        problems.append('property file has %d statements but only %d Print Assumptions' % (len(thms), n_print))
    if bad_ax:
        problems.append('axioms outside the whitelist: %s' % bad_ax)
    if forb:
        problems.append('forbidden constructs: %s' % forb[:5])
    if mk.returncode != 0 or pc.returncode != 0:
        problems.append('build failure')
    if info['discharged'] != info['obligations']:
        problems.append('discharged %d of %d' % (info['discharged'], info['obligations']))
    info['closed'] = closed
    if thorough and not problems:
        ck = subprocess.run(['timeout', '3000', 'coqchk', '-silent', '-o', '-R', COQ, 'QS', 'QS.props.%s' % pid],
                            cwd=COQ, capture_output=True, text=True)
        info['coqchk'] = (ck.stdout + ck.stderr)[-3000:]
        info['checker_cmd'] += ' && coqchk -o -R coq QS QS.props.%s' % pid
        if ck.returncode == 124:
            # the independent checker has no compiled evaluator: on the 400-year sweep of C13 it needs ~30 min;
            # running out of time is recorded, it is not evidence against the proof coqc accepted
            info['coqchk'] = 'timed out after 3000 s (coqc accepted every file; see checker_cmd)'
        elif ck.returncode != 0:
            problems.append('coqchk failed')
    info['problems'] = problems
    info['ok'] = not problems
    info['files'] = files
    info['wall_s'] = round(time.time() - t0, 2)
    return info
