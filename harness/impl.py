"""Run implementation-side workers against /repo's current working tree."""
import json
import os
import subprocess
from concurrent.futures import ThreadPoolExecutor

ROOT = os.path.dirname(os.path.dirname(os.path.abspath(__file__)))
PY = '/venv/bin/python'
REPO = os.environ.get('VERIF_REPO', '/repo')
JOBS = int(os.environ.get('VERIF_JOBS', '16'))


def impl_env(hashseed='0', extra=None):
    env = dict(os.environ)
    env.update({'PYTHONPATH': REPO, 'PYTHONHASHSEED': str(hashseed), 'PYTHONDONTWRITEBYTECODE': '1',
                'QSTRADER_VERIF': '1', 'TZ': 'UTC', 'OMP_NUM_THREADS': '1', 'OPENBLAS_NUM_THREADS': '1',
                'MKL_NUM_THREADS': '1'})
    if extra:
        env.update(extra)
    return env


def _run_shard(args):
    worker, cases, hashseed, extra = args
    p = subprocess.run([PY, '-B', os.path.join(ROOT, 'harness', 'workers', worker + '.py')],
                       input=json.dumps(cases), capture_output=True, text=True,
                       env=impl_env(hashseed, extra), cwd=os.path.join(ROOT, 'build'))
    if p.returncode != 0:
        raise RuntimeError('impl worker %s failed (exit %d): %s' % (worker, p.returncode, p.stderr[-3000:]))
    return json.loads(p.stdout)


def run_impl(worker, cases, hashseed='0', extra=None, min_per_shard=4):
    if not cases:
        return []
    n = min(JOBS, max(1, len(cases) // min_per_shard))
    shards = [cases[i::n] for i in range(n)]
    with ThreadPoolExecutor(max_workers=n) as ex:
        outs = list(ex.map(_run_shard, [(worker, s, hashseed, extra) for s in shards]))
    res = [None] * len(cases)
    for k, o in enumerate(outs):
        for j, r in enumerate(o):
            res[k + j * n] = r
    # a case whose run ended in an exception the worker does not expect is handed on as {'worker_error': traceback}:
    # the engine reports it as a disagreement between implementation and model (see engine.evaluate)
    return res
