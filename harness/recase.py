"""Asset symbols with lower-case letters (EQ:BRKb, a file called spy.csv -> EQ:spy) and symbols that differ only in letter
case: a generated case is rewritten consistently - every occurrence of an asset token, also as a dictionary key."""

PLAIN = {'AAA': 'AAa', 'BBB': 'bbb', 'CCC': 'Ccc', 'DDD': 'Ddd', 'EEE': 'eee', 'FFF': 'Fff', 'GGG': 'ggg'}


def mapping(rng, collide=False):
    """which tokens to rename: a random subset; collide=True forces the pair BBB -> bbb, CCC -> BBB (equal up to case)"""
    m = {}
    for k, v in PLAIN.items():
        if rng.random() < 0.6:
            m[k] = v
    if collide:
        m['BBB'] = 'bbb'
        m['CCC'] = 'BBB'
    full = dict(m)
    full.update(('EQ:' + k, 'EQ:' + v) for k, v in m.items())
    return full


def recase(obj, m):
    if isinstance(obj, str):
        return m.get(obj, obj)
    if isinstance(obj, list):
        return [recase(x, m) for x in obj]
    if isinstance(obj, tuple):
        return tuple(recase(x, m) for x in obj)
    if isinstance(obj, dict):
        return dict((recase(k, m) if isinstance(k, str) else k, recase(v, m)) for k, v in obj.items())
    return obj
