"""Generic check engine: proof step + correspondence + direct predicate + verdict + evidence."""
import hashlib
import json
import os
import random
import sys
import time
import traceback

from . import coqproof, impl, model

ROOT = os.path.dirname(os.path.dirname(os.path.abspath(__file__)))


class Judgement(object):
    def __init__(self):
        self.disagreements = []   # model vs implementation differences (strings)
        self.failures = []        # property predicate failures on the implementation (strings)
        self.knife = 0            # comparisons skipped by the knife-edge rule
        self.nontrivial = False
        self.key = None           # structural key for distinctness
        self.tags = []            # histogram tags


class Prop(object):
    pid = None
    worker = None
    axioms_whitelist = ()
    title = ''
    trusted_extra = ()
    rule = ''

    def gen(self, rng, tier):
        raise NotImplementedError

    def model_case(self, case):
        raise NotImplementedError

    def judge(self, case, impl_out, model_out):
        raise NotImplementedError

    def shrink_candidates(self, case):
        """smaller variants of a case (default: delete one element of case['ops'])"""
        ops = case.get('ops')
        if isinstance(ops, list):
            for i in range(len(ops)):
                c = dict(case)
                c['ops'] = ops[:i] + ops[i + 1:]
                yield c

    def neighbours(self, case, rng):
        return []

    def extra_checks(self, tier, rng):
        """Property-specific additional checks (e.g. exhaustive sweeps).  Returns a list of
        (kind, text, case) with kind in {'failure','disagreement'} and a stats dict."""
        return [], {}

    def hashseed(self):
        return '0'


def load_known():
    p = os.path.join(ROOT, 'known_findings.json')
    if os.path.exists(p):
        return json.load(open(p))
    return {'fixed': [], 'known': []}


def corpus_cases(pid):
    d = os.path.join(ROOT, 'corpus', pid)
    out = []
    if os.path.isdir(d):
        for f in sorted(os.listdir(d)):
            if f.endswith('.json'):
                c = json.load(open(os.path.join(d, f)))
                c = c.get('case', c)
                c['stream'] = 'corpus:' + f
                out.append(c)
    return out


def evaluate(prop, cases):
    """Run implementation and model on the cases and judge each."""
    groups = {}
    for i, c in enumerate(cases):
        groups.setdefault(c.get('_worker', prop.worker), []).append(i)
    impl_outs = [None] * len(cases)
    for w, idx in groups.items():
        outs = impl.run_impl(w, [cases[i] for i in idx], hashseed=prop.hashseed())
        for i, o in zip(idx, outs):
            impl_outs[i] = o
    # an implementation run that ended in an exception the worker does not expect (it never does on the tree the check was
    # validated on) is a behaviour the model does not predict: a disagreement, reported with the traceback
    werr = [isinstance(io, dict) and 'worker_error' in io for io in impl_outs]
    good = [i for i in range(len(cases)) if not werr[i]]
    if hasattr(prop, 'model_case2'):
        good_m = [prop.model_case2(cases[i], impl_outs[i]) for i in good]
    else:
        good_m = [prop.model_case(cases[i]) for i in good]
    good_o = model.run_model(good_m) if good_m else []
    mcases, model_outs = [None] * len(cases), [None] * len(cases)
    for i, mc, mo in zip(good, good_m, good_o):
        mcases[i], model_outs[i] = mc, mo
    js = []
    for c, io, mo, we in zip(cases, impl_outs, model_outs, werr):
        if we:
            j = Judgement()
            j.disagreements.append('the implementation run ended in an exception this check does not expect: ' + io['worker_error'][-900:])
            js.append(j)
            continue
        try:
            js.append(prop.judge(c, io, mo))
        except Exception:
            j = Judgement()
            j.disagreements.append('judge crashed: ' + traceback.format_exc()[-800:])
            js.append(j)
    return impl_outs, mcases, model_outs, js


def shrink(prop, case, want, budget_s=60.0):
    """Greedy one-at-a-time deletion while a judgement of kind [want] persists."""
    t0 = time.time()
    cur = case
    while time.time() - t0 < budget_s:
        try:
            cands = list(prop.shrink_candidates(cur))
        except Exception:
            break
        if not cands:
            break
        cands = cands[:64]
        try:
            _, _, _, js = evaluate(prop, cands)
        except Exception:
            break
        nxt = None
        for c, j in zip(cands, js):
            if (want == 'failure' and j.failures) or (want == 'disagreement' and j.disagreements):
                nxt = c
                break
        if nxt is None:
            break
        cur = nxt
    return cur


def write_replay(pid, payload):
    d = os.path.join(ROOT, 'replays')
    os.makedirs(d, exist_ok=True)
    txt = json.dumps(payload, indent=1, default=str)
    h = hashlib.sha1(txt.encode()).hexdigest()[:10]
    p = os.path.join(d, '%s-%s.json' % (pid, h))
    open(p, 'w').write(txt)
    return p


def jsonable(x):
    from fractions import Fraction
    if isinstance(x, Fraction):
        return {'frac': '%d/%d' % (x.numerator, x.denominator), 'approx': float(x)}
    if isinstance(x, (list, tuple)):
        return [jsonable(y) for y in x]
    if isinstance(x, dict):
        return {k: jsonable(v) for k, v in x.items()}
    return x


def run_check(prop, tier='quick', seed=0, replay=None):
    t0 = time.time()
    pid = prop.pid
    rng = random.Random('%s-%s-%s' % (pid, seed, tier))
    known = load_known()
    lines = []          # lines to print
    violations = []     # (text, replay_path)
    known_hits = []
    harness_error = None

    # 1. proof step
    proof = coqproof.proof_step(pid, whitelist=prop.axioms_whitelist, thorough=(tier == 'thorough'))

    # 2. cases
    if replay:
        payload = json.load(open(replay))
        cases = [payload['case']]
    else:
        cases = corpus_cases(pid) + prop.gen(rng, tier)
    stats = {'streams': {}, 'tags': {}, 'knife_edge_skipped': 0}
    keys = set()
    impl_outs = model_outs = js = mcases = []
    try:
        impl_outs, mcases, model_outs, js = evaluate(prop, cases)
    except Exception:
        harness_error = traceback.format_exc()

    fail_idx, dis_idx = [], []
    for i, j in enumerate(js):
        st = cases[i].get('stream', 'gen')
        stats['streams'][st.split(':')[0]] = stats['streams'].get(st.split(':')[0], 0) + 1
        for t in j.tags:
            stats['tags'][t] = stats['tags'].get(t, 0) + 1
        stats['knife_edge_skipped'] += j.knife
        if j.nontrivial:
            keys.add(j.key if j.key is not None else hashlib.sha1(json.dumps(cases[i], sort_keys=True, default=str).encode()).hexdigest())
        if j.failures:
            fail_idx.append(i)
        if j.disagreements:
            dis_idx.append(i)

    # 3. property-specific extra checks (exhaustive sweeps etc.)
    extra_fail, extra_dis, extra_stats = [], [], {}
    if not harness_error and not replay:
        try:
            found, extra_stats = prop.extra_checks(tier, rng)
            for kind, text, case in found:
                (extra_fail if kind == 'failure' else extra_dis).append((text, case))
        except Exception:
            harness_error = traceback.format_exc()

    # 4. in-Coq cross-check of the extracted model on a sample of the same cases
    cross_n, cross_ok, cross_detail = 0, True, ''
    if not harness_error and mcases:
        try:
            lim = getattr(prop, 'cross_limit', 200) * (1 if tier == 'quick' else 2)
            cross_n, cross_ok, cross_detail = model.coq_crosscheck(
                [m_ for m_ in mcases if m_ is not None], [o_ for m_, o_ in zip(mcases, model_outs) if m_ is not None], os.path.join(ROOT, 'build', 'cross', pid), limit=lim,
                budget=250000 if tier == 'quick' else 1500000)
            if not cross_ok:
                harness_error = 'extracted model and vm_compute disagree: ' + cross_detail
        except Exception:
            harness_error = traceback.format_exc()

    def is_known(case, text):
        for k in known.get('known', []):
            if k['property'] == pid and prop.matches_known(k, case, text):
                return k
        return None

    # 5. verdict
    if harness_error:
        print('HARNESS-ERROR property=%s\n%s' % (pid, harness_error))
    else:
        reported = False
        # 5a. predicate failures on the implementation
        for i in fail_idx:
            k = is_known(cases[i], js[i].failures[0])
            if k:
                known_hits.append(k)
                continue
            if reported:
                continue
            small = cases[i] if replay else shrink(prop, cases[i], 'failure', 45 if tier == 'quick' else 120)
            io, mc, mo, jj = evaluate(prop, [small])
            if not jj[0].failures:
                small, io, mo, jj = cases[i], [impl_outs[i]], [model_outs[i]], [js[i]]
            path = write_replay(pid, {'property': pid, 'kind': 'property-predicate-fails-on-implementation',
                                      'failures': jj[0].failures[:10], 'disagreements': jj[0].disagreements[:10],
                                      'case': small, 'impl': io[0], 'model': jsonable(mo[0])})
            violations.append(('VIOLATION property=%s replay=%s' % (pid, path), path))
            reported = True
        for text, case in extra_fail:
            k = is_known(case, text)
            if k:
                known_hits.append(k)
                continue
            if reported:
                continue
            path = write_replay(pid, {'property': pid, 'kind': 'property-predicate-fails-on-implementation',
                                      'failures': [text], 'case': case})
            violations.append(('VIOLATION property=%s replay=%s' % (pid, path), path))
            reported = True
        # 5b. broken tie / broken proof without a failing input so far
        broken = []
        if not proof['ok']:
            broken.append(('theorem', 'proof step failed for %s: %s %s' % (proof.get('prop_file'), proof.get('problems'), proof.get('detail', '')[-600:]), None))
        for i in dis_idx:
            if not js[i].failures:
                broken.append(('correspondence', js[i].disagreements[0], i))
        for text, case in extra_dis:
            broken.append(('correspondence', text, case))
        if broken and not reported:
            kind, text, where = broken[0]
            case = None
            if isinstance(where, int):
                case = cases[where] if replay else shrink(prop, cases[where], 'disagreement', 30 if tier == 'quick' else 90)
            elif where is not None:
                case = where
            # search around the disagreement for an input on which the property itself fails
            found = None
            if case is not None and not replay:
                t_search = time.time()
                budget = 60 if tier == 'quick' else 300
                while time.time() - t_search < budget and found is None:
                    neigh = list(prop.neighbours(case, rng))
                    if not neigh:
                        break
                    _, _, _, nj = evaluate(prop, neigh)
                    for c, j in zip(neigh, nj):
                        if j.failures and not is_known(c, j.failures[0]):
                            found = (c, j)
                            break
            if found:
                c, j = found
                io, mc, mo, jj = evaluate(prop, [c])
                path = write_replay(pid, {'property': pid, 'kind': 'property-predicate-fails-on-implementation',
                                          'found_by': 'search around broken ' + kind, 'failures': j.failures[:10],
                                          'case': c, 'impl': io[0], 'model': jsonable(mo[0])})
                violations.append(('VIOLATION property=%s replay=%s' % (pid, path), path))
            else:
                payload = {'property': pid, 'kind': 'broken-' + kind, 'no_longer_checks': text,
                           'note': 'no input found on which the property predicate itself fails'}
                if case is not None:
                    io, mc, mo, jj = evaluate(prop, [case])
                    payload.update({'case': case, 'impl': io[0], 'model': jsonable(mo[0]),
                                    'disagreements': jj[0].disagreements[:10]})
                path = write_replay(pid, payload)
                violations.append(('VIOLATION property=%s replay=%s no-failing-input-found' % (pid, path), path))

    # 6. known findings: replay each listed witness
    if not harness_error and not replay:
        for k in known.get('known', []):
            if k['property'] != pid:
                continue
            try:
                _, _, _, kj = evaluate(prop, [k['witness']])
                if kj[0].failures:
                    print('KNOWN-FINDING: property=%s %s' % (pid, k['what']))
            except Exception:
                print('HARNESS-ERROR property=%s while replaying known finding %s\n%s' % (pid, k.get('id'), traceback.format_exc()))
                harness_error = 'known-finding replay failed'

    # 7. evidence
    n_eval = len(cases) + int(extra_stats.get('evaluations', 0))
    samples = []
    for i in range(min(2, len(cases))):
        samples.append({'case': cases[i], 'model_entry': mcases[i][0] if (mcases and mcases[i] is not None) else None})
    for t in proof.get('theorems', [])[:6]:
        samples.append({'obligation': t})
    cov = {
        'obligations': proof['obligations'], 'discharged': proof['discharged'],
        'checker_cmd': proof['checker_cmd'],
        'trusted_base': ['Coq 8.16.1 kernel + VM (vm_compute); no native_compute',
                         'axioms reported by Print Assumptions: %s' % (proof['axioms'] or 'none (closed under the global context)'),
                         'extraction: ExtrOcamlBasic only; OCaml 4.13.1; ocaml/driver.ml (bitwise number conversion)',
                         'correspondence harness (generators, tolerance 1e-9*S, knife-edge rule), Python fractions',
                         'pandas/numpy/CPython behaviour is observed through the correspondence, not derived'] + list(prop.trusted_extra),
        'theorems': proof.get('theorems', []), 'axioms': proof['axioms'],
        'proof_files': proof.get('files', []), 'proof_ok': proof['ok'], 'proof_problems': proof.get('problems', []),
        'programs': len(cases), 'disagreements_checked': len(js),
        'disagreements_found': len(dis_idx) + len(extra_dis), 'predicate_failures': len(fail_idx) + len(extra_fail),
        'evaluations': n_eval, 'distinct_nontrivial': len(keys) + int(extra_stats.get('distinct_nontrivial', 0)),
        'rule': prop.rule, 'samples': samples,
        'vm_compute_crosschecked': cross_n,
        'generator_histogram': stats, 'extra': extra_stats,
        'exhaustive': bool(extra_stats.get('exhaustive', False)),
        'known_findings_hit': [k.get('id') for k in known_hits],
    }
    ev = {'property_id': pid, 'tier': tier, 'seed': int(seed), 'level': 'proof', 'coverage': cov,
          'assumptions': list(prop.assumptions) if hasattr(prop, 'assumptions') else [],
          'wall_s': round(time.time() - t0, 2), 'violations': len(violations)}
    os.makedirs(os.path.join(ROOT, 'evidence'), exist_ok=True)
    if not replay:
        with open(os.path.join(ROOT, 'evidence', '%s.json' % pid), 'w') as f:
            json.dump(ev, f, indent=1, default=str)
    if os.environ.get('VERIF_VERBOSE'):
        for i in (fail_idx[:3]):
            print('  FAIL case %d [%s]: %s' % (i, cases[i].get('stream'), js[i].failures[:3]))
        for i in (dis_idx[:5]):
            print('  DISAGREE case %d [%s]: %s' % (i, cases[i].get('stream'), js[i].disagreements[:3]))
        for text, case in (extra_fail[:3] + extra_dis[:3]):
            print('  EXTRA: %s' % text)
    for text, _ in violations:
        print(text)
    print('%s tier=%s seed=%s cases=%d disagreements=%d predicate_failures=%d knife_skipped=%d proof_ok=%s obligations=%d/%d wall=%.1fs' % (
        pid, tier, seed, n_eval, len(dis_idx) + len(extra_dis), len(fail_idx) + len(extra_fail),
        stats['knife_edge_skipped'], proof['ok'], proof['discharged'], proof['obligations'], time.time() - t0))
    if harness_error:
        return 2
    return 1 if violations else 0
