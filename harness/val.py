"""Python <-> model value conversion.

Python side: int -> VZ, Fraction -> VQ, str -> VS, list/tuple -> VL, bool -> VZ 0/1.
Floats are never passed implicitly: callers convert with Fraction(x) (exact).
"""
from fractions import Fraction


def to_sexp(v, out):
    if isinstance(v, bool):
        out.append('i1' if v else 'i0')
    elif isinstance(v, int):
        out.append('i' + format(v, 'x'))
    elif isinstance(v, Fraction):
        out.append('q%s/%s' % (format(v.numerator, 'x'), format(v.denominator, 'x')))
    elif isinstance(v, str):
        assert v and ' ' not in v and '(' not in v and ')' not in v, repr(v)
        out.append('s' + v)
    elif isinstance(v, (list, tuple)):
        out.append('(')
        for x in v:
            to_sexp(x, out)
        out.append(')')
    elif isinstance(v, float):
        raise TypeError('float passed to model: convert with Fraction() explicitly')
    else:
        raise TypeError('cannot encode %r' % (v,))


def sexp_line(entry, v):
    out = [entry]
    to_sexp(v, out)
    return ' '.join(out)


def parse_sexp(line):
    toks = line.split()
    stack = [[]]
    for t in toks:
        if t == '(':
            stack.append([])
        elif t == ')':
            l = stack.pop()
            stack[-1].append(l)
        else:
            c, body = t[0], t[1:]
            if c == 'i':
                stack[-1].append(int(body, 16))
            elif c == 'q':
                n, d = body.split('/')
                stack[-1].append(Fraction(int(n, 16), int(d, 16)))
            elif c == 's':
                stack[-1].append(body)
            else:
                raise ValueError('bad token %r' % t)
    assert len(stack) == 1 and len(stack[0]) == 1, line[:200]
    return stack[0][0]


def to_coq(v):
    """Coq term text of type [val]."""
    if isinstance(v, bool):
        return '(VZ %d)' % (1 if v else 0)
    if isinstance(v, int):
        return '(VZ (%d))' % v
    if isinstance(v, Fraction):
        return '(VQ ((%d) # %d))' % (v.numerator, v.denominator)
    if isinstance(v, str):
        return '(VS "%s")' % v
    if isinstance(v, (list, tuple)):
        return '(VL [' + '; '.join(to_coq(x) for x in v) + '])'
    raise TypeError('cannot encode %r' % (v,))


def F(x):
    """Exact rational of a float / int / Fraction."""
    if isinstance(x, Fraction):
        return x
    return Fraction(x)
