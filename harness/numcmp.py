"""Numeric comparison rules of DESIGN.md section 3."""
from fractions import Fraction
import math

KNIFE = Fraction(1, 10**10)


def fr(x):
    """exact rational of an implementation number (int/float), None for nan/inf/None"""
    if x is None or isinstance(x, str):
        return None
    if isinstance(x, bool):
        return Fraction(int(x))
    if isinstance(x, float) and (math.isnan(x) or math.isinf(x)):
        return None
    return Fraction(x)


def close(m, i, tol):
    """model value m (int/Fraction) vs implementation value i (int/float)"""
    fi = fr(i)
    if fi is None:
        return False
    if isinstance(m, int) and not isinstance(m, bool):
        return fi == m
    return abs(fi - m) <= tol


def near_half(x, unit=1):
    """relative distance rule for round-to-unit break points: is x within the knife-edge band
    of k*unit + unit/2 (but not exactly on it)?"""
    y = Fraction(x) / unit
    frac = y - math.floor(y)
    d = abs(frac - Fraction(1, 2))
    return 0 < d < KNIFE * max(1, abs(y))


def near_int(x, strict_zero=True):
    """x within the knife-edge band of an integer.  strict_zero=True: an exactly integral x is NOT a
    knife edge (exact-by-construction streams, where floats equal the rationals); False: it is, because
    the float computation of a value that is exactly integral in exact arithmetic may land just below"""
    y = Fraction(x)
    d = abs(y - round(y))
    if d == 0:
        return (not strict_zero) and y != 0
    return d < KNIFE * max(1, abs(y))


def near_zero_cmp(a, b):
    """comparison a ? b is a knife edge when the two differ by a relative hair"""
    d = abs(Fraction(a) - Fraction(b))
    return 0 < d < KNIFE * max(1, abs(Fraction(a)), abs(Fraction(b)))
