"""Backtest sessions: generators, model encoding, comparison (shared by C07, C08, C14, C16, C18, C19)."""
from fractions import Fraction
from .holidays import HOLIDAYS, HOLIDAY_MONTH_ENDS
import datetime
import math

from .engine import Judgement
from .numcmp import close, fr, near_int
from . import brokerlib as bl
from . import recase as rc
from .props.c10 import lo_knife
from .props.c11 import ls_knife

DAY = 86400
OPEN, CLOSE = 52200, 75600
EPOCH = datetime.date(1970, 1, 1)
ASSETS = ['EQ:AAA', 'EQ:BBB', 'EQ:CCC', 'EQ:DDD', 'EQ:EEE']
BASE = 18260
WD = ['MON', 'TUE', 'WED', 'THU', 'FRI']


def weekday(d):
    return (d + 3) % 7


def bdays_between(d0, d1):
    return [d for d in range(d0, d1 + 1) if weekday(d) <= 4]


def event_times(start, end):
    """(t, kind) for the session clock (no pre/post market), per C12's model"""
    out = []
    tod0 = start % DAY
    for d in range(start // DAY, end // DAY + 1):
        if weekday(d) <= 4 and d * DAY + tod0 <= end:
            out.append((d * DAY + OPEN, 'market_open'))
            out.append((d * DAY + CLOSE, 'market_close'))
    return out


def gen_prices(rng, assets, times, exact, data_start=None):
    """random-walk snapshots at the given instants; data_start: asset -> first instant with a price"""
    price = {a: bl.dy(rng, 8, 250, 8) for a in assets}
    rows = []
    for t in times:
        snap = []
        for a in assets:
            if exact:
                price[a] = min(2000.0, max(1.0, price[a] + rng.randint(-12, 12) / 8))
            else:
                price[a] = min(2000.0, max(1.0, price[a] * (1 + rng.uniform(-0.025, 0.025))))
            if data_start is None or data_start.get(a, 0) <= t:
                snap.append([a, price[a]])
        rows.append([t, snap])
    return rows


def gen_session(rng, tier='quick', exact=None, alpha_kinds=('fixed', 'single', 'topn', 'smatrend'), fixed_only=False,
                all_quoted=True, allow_dynamic=True, max_days=None, outside_universe=False, collide=False):
    exact = (rng.random() < 0.7) if exact is None else exact
    nd = rng.randint(3, max_days or (45 if tier == 'quick' else 260))
    d0 = BASE + rng.randint(0, 300)
    rebal = rng.choice([['weekly', rng.choice(WD)], ['weekly', rng.choice(WD).lower()], ['daily'], ['eom'], ['bah']])
    if rng.random() < 0.12:
        # aim the range at a US federal holiday on a weekday (the engine knows none: pure Monday-Friday arithmetic)
        if rebal[0] == 'eom':
            d0 = rng.choice(HOLIDAY_MONTH_ENDS) - rng.randint(1, 25)
        elif rebal[0] == 'bah':
            h = rng.choice([x for x in HOLIDAYS if weekday(x) == 0])
            d0 = h - rng.choice([0, 1, 2])
        else:
            d0 = rng.choice(HOLIDAYS) - rng.randint(0, min(nd, 8))
    tod0 = OPEN if (rebal[0] == 'bah' and rng.random() < 0.85) else rng.choice([0, 0, OPEN, 3600 * 9])
    start = d0 * DAY + tod0
    end = (d0 + nd) * DAY + 86340
    if rebal[0] == 'eom':
        end = (d0 + nd + rng.randint(20, 70)) * DAY + 86340
    if rng.random() < 0.15:
        # a date-only end, or an end at another time of day (also earlier in the day than the start's time of day)
        end = (end // DAY) * DAY + rng.choice([0, 0, OPEN, CLOSE, 3600 * 9, OPEN - 1, CLOSE - 1])
    n_assets = rng.randint(2, 4) if outside_universe else (rng.randint(3, 4) if collide else rng.randint(1, 4))
    assets = ASSETS[:n_assets]
    long_only = rng.random() < 0.5
    kind = 'fixed' if (fixed_only or outside_universe) else rng.choice(alpha_kinds)
    if outside_universe and rebal[0] in ('eom', 'bah'):
        rebal = ['daily']
    evs = event_times(start, end)
    times = [t for t, _ in evs]
    closes = [t for t, k in evs if k == 'market_close']
    # universe
    if kind in ('fixed',) or not allow_dynamic or rng.random() < 0.45:
        universe = ['static', list(assets)]
        if kind == 'fixed' and len(assets) > 1 and (outside_universe or rng.random() < 0.25):
            # the fixed weights also cover assets that the universe does not list
            universe = ['static', rng.sample(list(assets), rng.randint(1, len(assets) - 1))]
        entry = dict((a, None) for a in assets)
    else:
        ents = []
        for a in assets:
            r = rng.random()
            if r < 0.3 or not closes:
                e = start - rng.choice([0, DAY, 400 * DAY])
            elif r < 0.55:
                e = rng.choice(closes)
            elif r < 0.7:
                e = rng.choice(closes) + 60
            elif r < 0.8:
                e = rng.choice(closes) - 1
            elif r < 0.9:
                e = end + rng.choice([DAY, 100 * DAY])
            else:
                e = None
            ents.append([a, e])
        universe = ['dynamic', ents] + ([rng.choice(['nat', 'tz', 'nat+tz', 'pydt', 'tz+pydt', 'latemap', 'nat+latemap'])] if rng.random() < 0.55 else [])     # missing entries as None or as NaT
    # alpha
    lookbacks = None
    if kind == 'fixed':
        keys = rng.sample(assets, rng.randint(1, len(assets))) if (rng.random() < 0.8 and not outside_universe) else list(assets)
        if outside_universe:
            rng.shuffle(keys)
        if long_only:
            ws = [rng.choice([0.25, 0.5, 1.0, 0.125, 0.0]) if exact else rng.choice([rng.random(), 0.0, 0.6, 0.4]) for _ in keys]
        else:
            ws = [rng.choice([0.25, -0.5, 1.0, -0.125, 0.0, 0.5]) if exact else rng.choice([rng.uniform(-1, 1), 0.0, 0.5, -0.5]) for _ in keys]
        alpha = ['fixed', [[a, w] for a, w in zip(keys, ws)]]
    elif kind == 'single':
        alpha = ['single', rng.choice([1.0, 0.5, 0.25] + ([] if long_only else [-1.0]))]
    elif kind == 'topn':
        lb = rng.choice([1, 2, 3])
        alpha = ['topn', lb, rng.randint(1, 3)]
        lookbacks = [lb]
        long_only = True
    else:
        lb = rng.choice([2, 3])
        alpha = ['smatrend', lb]
        lookbacks = [1, lb]
        long_only = True
    if lookbacks is not None and exact:
        nd_cap = 14           # exact rationals in the signal windows grow: keep signal sessions short
        if len(closes) > nd_cap:
            end = closes[nd_cap - 1] + 3 * 3600 - 1
            evs = event_times(start, end)
            times = [t for t, _ in evs]
            closes = [t for t, k in evs if k == 'market_close']
    param = (rng.choice([0.0, 0.05, 0.25, 0.5, 0.125]) if long_only else rng.choice([1.0, 2.0, 0.5, 1.5]))
    fee = ['zero'] if rng.random() < 0.5 else ['pct', rng.choice([1 / 1024, 1 / 512, 0.0]), rng.choice([0.0, 1 / 256, 1 / 2048])]
    if not exact and fee[0] == 'pct':
        fee = ['pct', rng.choice([0.001, 0.0025, 0.0]), rng.choice([0.0, 0.005])]
    cash = float(rng.choice([10000, 100000, 250000, 1000000, rng.randint(5000, 2000000)]))
    burn = None
    if rng.random() < 0.35 and closes:
        r = rng.random()
        c_ = rng.choice(closes)
        burn = c_ if r < 0.35 else (c_ + 1 if r < 0.5 else (c_ - 1 if r < 0.65 else (start - DAY if r < 0.8 else c_ - 20000)))
    # market
    data_start = None
    if not all_quoted and rng.random() < 0.5:
        data_start = dict((a, rng.choice([0, 0, rng.choice(times) if times else 0])) for a in assets)
    extra_times = [burn] if burn else []
    rows = gen_prices(rng, assets, times, exact, data_start)
    cfg = {'start': start, 'end': end, 'universe': universe, 'alpha': alpha, 'cash': cash, 'rebal': rebal,
           'long_only': long_only, 'param': param, 'fee': fee, 'burn': burn, 'lookbacks': lookbacks}
    if kind in ('fixed', 'single') and rng.random() < 0.35:
        # (for the universe-driven model: its documented, stored and unused data_handler option is given a handler that lists nobody)
        cfg['alpha_universe'] = True
    if rng.random() < 0.2:
        cfg['extra_portfolio'] = True
    if lookbacks is not None and rng.random() < 0.3:
        cfg['late_signals'] = True
    case = {'cfg': cfg, 'market': {'kind': 'table', 'rows': rows}, 'exact': exact, 'assets': assets,
            'stream': kind + ':' + rebal[0] + (':exact' if exact else ':float')}
    if collide or rng.random() < 0.1:
        # symbols with lower-case letters; collide: two symbols that differ only in letter case
        case = rc.recase(case, rc.mapping(rng, collide=collide))
        case['stream'] += ':mixed-case-symbols'
    return case


def gen_timed_session(rng, tier, max_days=None):
    """a session whose alpha model changes its weight dictionary (also its key set, also keys outside the universe) with time"""
    c = gen_session(rng, tier, fixed_only=True, all_quoted=True, allow_dynamic=False, max_days=max_days, outside_universe=(rng.random() < 0.7))
    cfg = c['cfg']
    closes = [t for t, k in event_times(cfg['start'], cfg['end']) if k == 'market_close']
    table = []
    for t in sorted(rng.sample(closes, min(len(closes), rng.randint(2, 4)))) if closes else []:
        keys = rng.sample(c['assets'], rng.randint(0, len(c['assets'])))
        if cfg['long_only']:
            ws = [[a, rng.choice([0.25, 0.5, 1.0, 0.125])] for a in keys]
        else:
            ws = [[a, rng.choice([0.25, -0.5, 1.0, -0.125, 0.5])] for a in keys]
        table.append([t - rng.choice([0, 0, 3600]), ws])
    cfg['alpha'] = ['timed', table]
    c['stream'] = 'timed:' + cfg['rebal'][0] + (':exact' if c['exact'] else ':float')
    return c


# ---------------------------------------------------------------- model encoding
def cfg_val(cfg):
    u = cfg['universe']
    uv = ['static', list(u[1])] if u[0] == 'static' else ['dynamic', [[a, ([] if e is None else [int(e)])] for a, e in u[1]]]
    a = cfg['alpha']
    if a[0] == 'fixed':
        av = ['fixed', [[k, Fraction(v)] for k, v in a[1]]]
    elif a[0] == 'single':
        av = ['single', Fraction(a[1])]
    elif a[0] == 'timed':
        av = ['fixed', []]          # time-varying weights are not in the session model: compared through the recorded rows only
    elif a[0] == 'topn':
        av = ['topn', int(a[1]), int(a[2])]
    else:
        av = ['smatrend', int(a[1])]
    r = cfg['rebal']
    rv = ['weekly', r[1]] if r[0] == 'weekly' else [r[0]]
    return [int(cfg['start']), int(cfg['end']), uv, av, Fraction(cfg['cash']), rv, bool(cfg['long_only']), Fraction(cfg['param']),
            bl.fee_val(cfg['fee']), ([] if cfg.get('burn') is None else [int(cfg['burn'])]),
            ([] if cfg.get('lookbacks') is None else [[int(x) for x in cfg['lookbacks']]])]


def market_val(m):
    return [[int(t), [[a, Fraction(p)] for a, p in snap]] for t, snap in m['rows']]


def session_model_case(c):
    return ('session', [cfg_val(c['cfg']), market_val(c['market'])])


def spec_model_case(c):
    cfg = c['cfg']
    r = cfg['rebal']
    return ('spec', [int(cfg['start']), int(cfg['end']), list(cfg['universe'][1]), [[k, Fraction(v)] for k, v in cfg['alpha'][1]],
                     Fraction(cfg['cash']), (['weekly', r[1]] if r[0] == 'weekly' else [r[0]]), bool(cfg['long_only']),
                     Fraction(cfg['param']), bl.fee_val(cfg['fee']), ([] if cfg.get('burn') is None else [int(cfg['burn'])]),
                     market_val(c['market'])])


def sess_scale(c):
    cfg = c['cfg']
    return cfg['cash'] * (2 + (0 if cfg['long_only'] else 2 * cfg['param']))


# ---------------------------------------------------------------- comparison
def model_trace(mod):
    """split the model's stamped outputs"""
    tr = {'fills': [], 'allocs': [], 'equity': [], 'error': None}
    for t, kind, payload in mod[1]:
        if kind == 'fill':
            tr['fills'].append([t] + list(payload))
        elif kind == 'alloc':
            tr['allocs'].append([t, payload])
        elif kind == 'equity':
            tr['equity'].append([t, payload])
        else:
            tr['error'] = [payload[1], payload[2], t]
    return tr


def compare_session(c, impl, mod, j):
    """model trace vs implementation outputs"""
    out = j.disagreements
    tol = Fraction(1, 10**9) * Fraction(sess_scale(c))
    if c['cfg'].get('sched_thin'):
        j.tags.append('model_skipped')
        return
    if c['cfg']['alpha'][0] == 'timed':
        j.tags.append('model_skipped')
        # the session model is not used, but the rules driven by the recorded rows are: the same sizing knife edges apply
        if impl['init'][0] == 'ok' and c['market']['kind'] == 'table':
            rows_ = dict((t, dict(s_)) for t, s_ in c['market']['rows'])
            eq_ = dict(impl.get('pcm_equity', []))
            for t, w in impl['allocs']:
                if t not in eq_:
                    continue
                sc = {'kind': 'long_only' if c['cfg']['long_only'] else 'long_short', 'param': c['cfg']['param'], 'equity': eq_[t],
                      'fee': c['cfg']['fee'], 'prices': [[a, rows_.get(t, {}).get(a)] for a, _ in w], 'weights': w}
                try:
                    k = lo_knife(sc) if c['cfg']['long_only'] else ls_knife(sc)
                    if any(k(a) for a, _ in w):
                        j.knife += 1
                        return
                except Exception:
                    pass
        return
    if impl['init'][0] == 'err' or mod[0] == 'err':
        mi = mod[1] if mod[0] == 'err' else 'ok'
        ii = impl['init'][1] if impl['init'][0] == 'err' else 'ok'
        if mi != ii:
            out.append('session construction: model=%s impl=%s' % (mod[:3] if mod[0] == 'err' else 'ok', ii))
        return
    tr = model_trace(mod)
    if tr['error'] is not None and tr['error'][0] == 'OutOfModel':
        j.tags.append('out_of_model')
        return
    # sizing knife edges (float streams): a target within rounding noise of a share boundary
    rows = dict((t, dict(s)) for t, s in c['market']['rows'])

    def knife_at(t):
        eq = dict(impl.get('pcm_equity', []))
        al = dict((tt, w) for tt, w in impl['allocs'])
        if t not in eq or t not in al:
            return False
        sc = {'kind': 'long_only' if c['cfg']['long_only'] else 'long_short', 'param': c['cfg']['param'], 'equity': eq[t],
              'fee': c['cfg']['fee'], 'prices': [[a, rows.get(t, {}).get(a)] for a, _ in al[t]], 'weights': al[t]}
        try:
            k = lo_knife(sc) if c['cfg']['long_only'] else ls_knife(sc)
            return any(k(a) for a, _ in al[t])
        except Exception:
            return False
    # ranking knife edges: momenta (or price vs moving average) that are equal in exact arithmetic, or within
    # rounding noise, can be ordered differently by the float implementation - everything after that rebalance differs
    def ranking_knife(t, mw, iw):
        a = c['cfg']['alpha']
        if a[0] not in ('topn', 'smatrend'):
            return False
        mset = set(k for k, x in mw if x != 0)
        iset = set(k for k, x in iw if fr(x) not in (None, 0))
        diff = mset ^ iset
        if not diff:
            return False
        obs = impl.get('signal_obs') or {}
        vals = []
        for asset in diff:
            w = [Fraction(p) for tt, p in obs.get(asset, []) if tt is not None and tt <= t and fr(p) is not None]
            if a[0] == 'topn':
                w = w[-(a[1] + 1):]
                if len(w) < 2:
                    vals.append(Fraction(0))
                else:
                    vals.append(w[-1] / w[0] - 1)
            else:
                w = w[-a[1]:]
                if not w:
                    return False
                vals.append(w[-1] / (sum(w) / len(w)) - 1)
        if a[0] == 'topn':
            return max(vals) - min(vals) <= Fraction(1, 10**9) * max(1, max(abs(v) for v in vals))
        return all(abs(v) <= Fraction(1, 10**9) for v in vals)
    if tr['error'] is None and impl['error'] is None:
        for (t, mw), (t2, iw) in zip(tr['allocs'], impl['allocs']):
            if t != t2:
                break
            if [k for k, _ in mw] == [k for k, _ in iw] and any(not close(x, y, Fraction(1, 10**9)) for (_, x), (_, y) in zip(mw, iw)):
                if ranking_knife(t, mw, iw):
                    j.knife += 1
                    return
                break
    mf, ifl = tr['fills'], impl['fills']
    n = min(len(mf), len(ifl))
    for k in range(n):
        a, b = mf[k], ifl[k]
        if a[0] != b[0] or a[1] != b[1] or not close(a[2], b[2], tol) or not close(a[3], b[3], tol) or not close(a[4], b[4], tol):
            # was the rebalance that produced this order a knife edge?
            prev_reb = [t for t in impl['pcm_times'] if t <= b[0]]
            if prev_reb and knife_at(prev_reb[-1]):
                j.knife += 1
                return
            out.append('fill #%d model=%s impl=%s' % (k, [a[0], a[1], float(a[2]), float(a[3]), float(a[4])], b))
            return
    if len(mf) != len(ifl):
        prev_reb = impl['pcm_times']
        if prev_reb and any(knife_at(t) for t in prev_reb):
            j.knife += 1
            return
        out.append('number of fills model=%d impl=%d' % (len(mf), len(ifl)))
        return
    me, ie = tr['equity'], impl['equity']
    if [t for t, _ in me] != [t for t, _ in ie]:
        out.append('equity dates model=%s.. impl=%s.. (%d / %d points)' % ([t for t, _ in me][:3], [t for t, _ in ie][:3], len(me), len(ie)))
    else:
        for (t, x), (_, y) in zip(me, ie):
            if not close(x, y, tol):
                out.append('equity at %d model=%s impl=%s' % (t, float(x), y))
                break
    merr, ierr = tr['error'], impl['error']
    if (merr is None) != (ierr is None):
        out.append('run error model=%s impl=%s' % (merr, ierr))
    elif merr is not None:
        if merr[0] != ierr[0] or merr[2] != ierr[1]:
            out.append('run error model=%s at %s impl=%s at %s' % (merr[0], merr[2], ierr[0], ierr[1]))
    elif True:
        ma, ia = tr['allocs'], impl['allocs']
        if [t for t, _ in ma] != [t for t, _ in ia]:
            out.append('allocation dates model=%s impl=%s' % ([t for t, _ in ma][:4], [t for t, _ in ia][:4]))
        else:
            for (t, mw), (_, iw) in zip(ma, ia):
                # (the ORDER of the keys in a recorded row is not an observable of any property: compared as a mapping)
                if sorted(a for a, _ in mw) != sorted(a for a, _ in iw):
                    out.append('allocation keys at %d model=%s impl=%s' % (t, [a for a, _ in mw], [a for a, _ in iw]))
                    break
                mw, iw = sorted(mw), sorted(iw)
                if any(not close(x, y, Fraction(1, 10**9)) for (_, x), (_, y) in zip(mw, iw)):
                    out.append('allocation weights at %d model=%s impl=%s' % (t, [float(x) for _, x in mw], [y for _, y in iw]))
                    break


def digest(o, upto=None):
    """the C07 / C18 observables of one implementation run, bit-for-bit (floats kept as they are)"""
    if o['init'][0] != 'ok':
        return {'init': o['init']}
    def keep(t):
        return upto is None or t <= upto
    return {
        'init': o['init'],
        'equity': [e for e in o['equity'] if keep(e[0])],
        'fills': [f for f in o['fills'] if keep(f[0])],
        'history': [h for h in o['history'] if keep(h[0])],
        'allocs': [a for a in o['allocs'] if keep(a[0])] if o['error'] is None or upto is None else None,
        'error': (o['error'] if (o['error'] is not None and (upto is None or o['error'][1] is None or o['error'][1] <= upto)) else None),
    }
