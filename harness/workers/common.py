"""Helpers shared by the implementation-side workers (run under /venv/bin/python with
PYTHONPATH=/repo, so that `qstrader` is /repo's current working tree)."""
import json
import math
import os
import sys

# diagnostic only (off unless VERIF_COVERAGE=<dir> is set): line coverage of the qstrader package under the workers,
# used to look for code the generators never reach (tools/coverage_report.sh)
if os.environ.get('VERIF_COVERAGE'):
    import atexit
    import coverage
    _COV = coverage.Coverage(data_file=os.path.join(os.environ['VERIF_COVERAGE'], '.coverage.%d' % os.getpid()),
                             include=['*/qstrader/*'])
    _COV.start()
    atexit.register(lambda: (_COV.stop(), _COV.save()))

import numpy as np
import pandas as pd

from qstrader import settings

settings.set_print_events(False)


def ts(sec):
    return pd.Timestamp(int(sec), unit='s', tz='UTC')


def sec(t):
    return int(pd.Timestamp(t).timestamp()) if t is not None else None


def num(x):
    """JSON-able number: ints stay ints, floats stay floats (NaN -> 'nan')."""
    if x is None:
        return None
    if isinstance(x, (bool, np.bool_)):
        return bool(x)
    if isinstance(x, (int, np.integer)):
        return int(x)
    x = float(x)
    if math.isnan(x):
        return 'nan'
    if math.isinf(x):
        return 'inf' if x > 0 else '-inf'
    return x


def errname(e):
    return ['err', type(e).__name__]


class StubDataHandler(object):
    """Quote table keyed by (second, asset) -> (bid, ask)."""

    def __init__(self, rows):
        self.table = {}
        for t, a, b, k in rows:
            self.table[(int(t), a)] = (float(b), float(k))

    def _get(self, dt, asset):
        return self.table.get((int(dt.timestamp()), asset))

    def get_asset_latest_bid_price(self, dt, asset):
        r = self._get(dt, asset)
        return np.nan if r is None else r[0]

    def get_asset_latest_ask_price(self, dt, asset):
        r = self._get(dt, asset)
        return np.nan if r is None else r[1]

    def get_asset_latest_bid_ask_price(self, dt, asset):
        r = self._get(dt, asset)
        return (np.nan, np.nan) if r is None else r

    def get_asset_latest_mid_price(self, dt, asset):
        r = self._get(dt, asset)
        return np.nan if r is None else (r[0] + r[1]) / 2.0


def main(handler):
    import contextlib
    import io
    cases = json.load(sys.stdin)
    out = []
    for i, c in enumerate(cases):
        # event printing is a global setting (on by default in qstrader): every third case runs with it on,
        # its output discarded - results must not depend on it
        settings.set_print_events(i % 3 == 1)
        try:
            with contextlib.redirect_stdout(io.StringIO()):
                out.append(handler(c))
        except Exception as e:  # harness-level failure: reported, never silently dropped
            import traceback
            out.append({'worker_error': traceback.format_exc()[-1500:]})
    settings.set_print_events(False)
    json.dump(out, sys.stdout)
