"""Run operation sequences on the real SimulatedBroker / Portfolio and report the
observables after every operation."""
import os
import sys
sys.path.insert(0, os.path.dirname(os.path.abspath(__file__)))
from common import *  # noqa

from qstrader.broker.simulated_broker import SimulatedBroker
from qstrader.broker.portfolio.portfolio import Portfolio
from qstrader.broker.portfolio.position import Position
from qstrader.broker.transaction.transaction import Transaction
from qstrader.broker.fee_model.zero_fee_model import ZeroFeeModel
from qstrader.broker.fee_model.percent_fee_model import PercentFeeModel
from qstrader.exchange.simulated_exchange import SimulatedExchange
from qstrader.execution.order import Order


def mk_fee(f):
    if f[0] == 'zero':
        return ZeroFeeModel()
    return PercentFeeModel(commission_pct=f[1], tax_pct=f[2])


def pos_snap(asset, p):
    g = lambda n: num(getattr(p, n, None))
    return [asset, g('net_quantity'), g('current_price'), sec(getattr(p, 'current_dt', None)),
            g('buy_quantity'), g('sell_quantity'), g('avg_bought'), g('avg_sold'),
            g('buy_commission'), g('sell_commission'),
            g('market_value'), g('unrealised_pnl'), g('realised_pnl'), g('total_pnl'),
            g('avg_price'), g('direction')]


def event_snap(e):
    long_, asset, qty = False, '', 0
    if e.type == 'asset_transaction':
        parts = e.description.split(' ')
        long_ = parts[0] == 'LONG'
        qty = num(float(parts[1]))
        asset = parts[2]
    return [sec(e.dt), e.type, long_, asset, qty, num(e.debit), num(e.credit), num(e.balance)]


def pf_snap(pf):
    return [sec(pf.current_dt), num(pf.cash),
            [pos_snap(a, p) for a, p in pf.pos_handler.positions.items()],
            len(pf.history), [event_snap(pf.history[-1])] if pf.history else [],
            num(pf.total_market_value), num(pf.total_equity),
            num(pf.total_unrealised_pnl), num(pf.total_realised_pnl), num(pf.total_pnl),
            hash(tuple(repr(e) for e in pf.history)) & 0xffffffff]


class AnySlippage(object):
    """stands in for the documented (unimplemented) slippage_model option: whatever method is called on it answers the last
    numeric argument moved by 0.1 %.  The option is accepted and ignored today; fills must stay at the quoted bid / ask."""

    def __getattr__(self, name):
        if name.startswith('__'):
            raise AttributeError(name)

        def method(*args, **kwargs):
            nums = [a for a in list(args) + list(kwargs.values()) if isinstance(a, (int, float)) and not isinstance(a, bool)]
            return nums[-1] * 1.001 if nums else None
        return method


def run_broker(c):
    cfg = c['cfg']
    dh = StubDataHandler(c['quotes'])
    start = ts(cfg['start'])
    try:
        exch = SimulatedExchange(ts(cfg['exch_start']) if cfg.get('exch_start') is not None else start)
        extra = {'slippage_model': AnySlippage()} if cfg.get('slippage_probe') else {}
        if cfg.get('fee_late'):
            # built with the default (zero) fee model; the public fee_model attribute is set afterwards, before any operation
            broker = SimulatedBroker(start, exch, dh, account_id='acct', base_currency=cfg['base'], initial_funds=cfg['funds'], **extra)
            broker.fee_model = mk_fee(cfg['fee'])
        else:
            broker = SimulatedBroker(start, exch, dh, account_id='acct', base_currency=cfg['base'], initial_funds=cfg['funds'],
                                     fee_model=mk_fee(cfg['fee']), **extra)
    except Exception as e:
        return {'init': errname(e)}
    fills = []
    orig = Portfolio.transact_asset

    def spy(self, txn):
        orig(self, txn)
        k = executing[0] if executing[0] is not None else oid.get(txn.order_id, -1)
        fills.append([self.portfolio_id, [txn.asset, num(txn.quantity), sec(txn.dt), num(txn.price),
                                          num(txn.commission), k]])
    oid = {}
    by_obj = {}        # id(Order object) -> submission number (order ids supplied by the caller may repeat)
    keep = []
    executing = [None]
    nxt = [0]
    Portfolio.transact_asset = spy
    orig_exec = getattr(SimulatedBroker, '_execute_order', None)
    if orig_exec is not None:
        def spy_exec(self, dt, portfolio_id, order):
            executing[0] = by_obj.get(id(order))
            try:
                return orig_exec(self, dt, portfolio_id, order)
            finally:
                executing[0] = None
        SimulatedBroker._execute_order = spy_exec
    def bsnap():
        return [sec(broker.current_dt), num(broker.cash_balances.get(broker.base_currency, float('nan'))),
                [[pid, pf_snap(pf),
                  [[by_obj.get(id(o), oid.get(o.order_id, -1)), o.asset, num(o.quantity)] for o in list(broker.open_orders[pid].queue)]]
                 for pid, pf in broker.portfolios.items()],
                [[k, num(v)] for k, v in sorted(broker.cash_balances.items())]]
    try:
        steps = []
        snap0 = bsnap()
        for op in c['ops']:
            del fills[:]
            k = op[0]
            if len(op) > 1 and isinstance(op[1], list):
                op = [op[0], int(op[1][1])] + list(op[2:])          # the id as an int
            try:
                r = None
                if k == 'subacct':
                    broker.subscribe_funds_to_account(op[1])
                elif k == 'wdacct':
                    broker.withdraw_funds_from_account(op[1])
                elif k == 'create':
                    broker.create_portfolio(op[1], name='n')
                elif k == 'subpf':
                    broker.subscribe_funds_to_portfolio(op[1], op[2])
                elif k == 'wdpf':
                    broker.withdraw_funds_from_portfolio(op[1], op[2])
                elif k == 'submit':
                    kw = {}
                    if len(op) > 4:
                        kw['commission'] = op[4]
                    if cfg.get('dup_ids'):
                        kw['order_id'] = 'SAME-ID'          # caller-supplied, repeated order ids
                    # whole-number quantities as Python ints, numpy integers or floats (all accepted today, all mean the same)
                    qk = cfg.get('qty_kind', 'int')
                    qty = np.int64(op[3]) if qk == 'np' else (float(op[3]) if qk == 'float' else op[3])
                    o = Order(broker.current_dt, op[2], qty, **kw)
                    broker.submit_order(op[1], o)
                    oid[o.order_id] = nxt[0]
                    by_obj[id(o)] = nxt[0]
                    keep.append(o)
                    nxt[0] += 1
                elif k == 'update':
                    broker.update(ts(op[1]))
                elif k == 'getacctcash':
                    r = broker.get_account_cash_balance(*op[1:])
                elif k == 'getaccttmv':
                    r = broker.get_account_total_market_value()
                elif k == 'getacctequity':
                    r = broker.get_account_total_equity()
                elif k == 'getpfcash':
                    r = broker.get_portfolio_cash_balance(op[1])
                elif k == 'getpftmv':
                    r = broker.get_portfolio_total_market_value(op[1])
                elif k == 'getpfequity':
                    r = broker.get_portfolio_total_equity(op[1])
                else:
                    raise RuntimeError('unknown op %r' % (op,))
                if isinstance(r, dict):
                    res = ['ok', [[[kk, num(vv)] for kk, vv in r.items()]]]
                elif r is None:
                    res = ['ok', []]
                else:
                    res = ['ok', [num(r)]]
            except Exception as e:
                res = errname(e)
            snap = bsnap()
            # public getter view (what C01/C02 name as observables)
            pub = []
            for pid in broker.portfolios:
                try:
                    d = broker.get_portfolio_as_dict(pid)
                    pub.append([pid, num(broker.get_portfolio_cash_balance(pid)),
                                num(broker.get_portfolio_total_market_value(pid)),
                                num(broker.get_portfolio_total_equity(pid)),
                                [[a, num(v['quantity']), num(v['market_value']), num(v['unrealised_pnl']),
                                  num(v['realised_pnl']), num(v['total_pnl'])] for a, v in d.items()]])
                except Exception as e:
                    pub.append([pid, errname(e)])
            steps.append({'res': res, 'fills': [list(f) for f in fills], 'snap': snap, 'pub': pub})
        hist = [[pid, [event_snap(e) for e in pf.history]] for pid, pf in broker.portfolios.items()]
        # history_to_df must carry the same rows
        dfrows = []
        for pid, pf in broker.portfolios.items():
            try:
                df = pf.history_to_df()
                dfrows.append([pid, len(df)])
            except Exception as e:
                dfrows.append([pid, errname(e)])
        probes = []
        before = bsnap()
        for name in ('get_portfolio_as_dict', 'get_portfolio_cash_balance', 'get_portfolio_total_market_value', 'get_portfolio_total_equity'):
            try:
                getattr(broker, name)('no-such-portfolio')
                probes.append([name, ['ok']])
            except Exception as e:
                probes.append([name, errname(e)])
        if bsnap() != before:
            probes.append(['state after the refused getters', ['changed']])
        return {'init': ['ok'], 'snap0': snap0, 'steps': steps, 'hist': hist, 'dfrows': dfrows, 'unknown_pid_probes': probes}
    finally:
        Portfolio.transact_asset = orig
        if orig_exec is not None:
            SimulatedBroker._execute_order = orig_exec


def run_portfolio(c):
    if c.get('tzmix'):
        # the same instants, each written in another time zone (the portfolio compares instants, not wall-clock readings)
        zones = ['Asia/Tokyo', 'UTC', 'America/New_York', 'Australia/Sydney', 'Europe/London']
        counter = [0]
        plain = globals()['ts']

        def ts(sec_):
            counter[0] += 1
            return plain(sec_).tz_convert(zones[counter[0] % len(zones)])
    else:
        ts = globals()['ts']
    pf = Portfolio(ts(c['start']), starting_cash=c['cash'], portfolio_id='p')
    steps = []
    snap0 = pf_snap(pf)
    for op in c['ops']:
        k = op[0]
        try:
            if k == 'sub':
                pf.subscribe_funds(ts(op[1]), op[2])
            elif k == 'wd':
                pf.withdraw_funds(ts(op[1]), op[2])
            elif k == 'txn':
                pf.transact_asset(Transaction(op[1], op[2], ts(op[3]), op[4], 'oid', commission=op[5]))
            elif k == 'mark':
                pf.update_market_value_of_asset(op[1], op[2], ts(op[3]))
            res = ['ok', []]
        except Exception as e:
            res = errname(e)
        d = pf.portfolio_to_dict()
        steps.append({'res': res, 'snap': pf_snap(pf),
                      'pub': [[a, num(v['quantity']), num(v['market_value']), num(v['unrealised_pnl']),
                               num(v['realised_pnl']), num(v['total_pnl'])] for a, v in d.items()]})
    # the same operations on a second Portfolio whose state is looked at only now and then (every third step):
    # what is read there must be what was read after the same step above - reading must not change anything
    sparse = []
    try:
        pf2 = Portfolio(ts(c['start']), starting_cash=c['cash'], portfolio_id='p')
        for i, op in enumerate(c['ops']):
            k = op[0]
            try:
                if k == 'sub':
                    pf2.subscribe_funds(ts(op[1]), op[2])
                elif k == 'wd':
                    pf2.withdraw_funds(ts(op[1]), op[2])
                elif k == 'txn':
                    pf2.transact_asset(Transaction(op[1], op[2], ts(op[3]), op[4], 'oid', commission=op[5]))
                elif k == 'mark':
                    pf2.update_market_value_of_asset(op[1], op[2], ts(op[3]))
            except Exception:
                pass
            if i % 3 == 2 or i == len(c['ops']) - 1:
                d2 = pf2.portfolio_to_dict()
                pub2 = [[a, num(v['quantity']), num(v['market_value']), num(v['unrealised_pnl']),
                         num(v['realised_pnl']), num(v['total_pnl'])] for a, v in d2.items()]
                # (the last field of a snapshot hashes the events' repr, which spells their time zone: left out)
                if pub2 != steps[i]['pub'] or pf_snap(pf2)[:10] != steps[i]['snap'][:10]:
                    sparse.append([i, pub2, steps[i]['pub']])
                    break
    except Exception as e:
        sparse.append(['error'] + errname(e))
    hist = [event_snap(e) for e in pf.history]
    # Position.update_current_price has an optional timestamp: a mark given without one must still be the latest price
    probe = []
    for a, pos in list(pf.pos_handler.positions.items()):
        newp = float(pos.current_price) * 1.25 + 0.5
        try:
            pos.update_current_price(newp)
            d = pf.portfolio_to_dict()
            probe.append([a, num(newp), num(pos.current_price), num(pos.net_quantity), num(d[a]['market_value']), num(pf.total_market_value)])
        except Exception as e:
            probe.append([a] + errname(e))
    # a position restored from its stored fields through the documented constructor (arguments in the documented order)
    # is the same position: same figures now, and after one more fill and one more mark
    restored = []
    for a, pos in list(pf.pos_handler.positions.items()):
        try:
            twin = Position(pos.asset, pos.current_price, pos.current_dt, pos.buy_quantity, pos.sell_quantity,
                            pos.avg_bought, pos.avg_sold, pos.buy_commission, pos.sell_commission)
            if pos_snap(a, twin) != pos_snap(a, pos):
                restored.append([a, 'as restored', pos_snap(a, twin), pos_snap(a, pos)])
                continue
            q = 3 if float(pos.net_quantity) <= 0 else -2
            p0, t0 = float(pos.current_price), pos.current_dt
            for p_ in (twin, pos):
                p_.transact(Transaction(a, q, t0, p0 * 1.125, 'oid', commission=0.5))
                p_.update_current_price(p0 * 0.875)
            if pos_snap(a, twin) != pos_snap(a, pos):
                restored.append([a, 'one fill and one mark later', pos_snap(a, twin), pos_snap(a, pos)])
        except Exception as e:
            restored.append([a] + errname(e))
    return {'snap0': snap0, 'steps': steps, 'hist': hist, 'probe': probe, 'sparse_reads': sparse, 'restored': restored}


def handler(c):
    if c['kind'] == 'broker':
        return run_broker(c)
    return run_portfolio(c)


if __name__ == '__main__':
    main(handler)
