import os
import shutil
import sys
import tempfile
sys.path.insert(0, os.path.dirname(os.path.abspath(__file__)))
from common import *  # noqa
import datetime

from qstrader.asset.equity import Equity
from qstrader.data.daily_bar_csv import CSVDailyBarDataSource
from qstrader.data.backtest_data_handler import BacktestDataHandler

EPOCH = datetime.date(1970, 1, 1)
TMPROOT = os.path.join(os.path.dirname(os.path.dirname(os.path.dirname(os.path.abspath(__file__)))), 'build', 'tmp')


def cell(x):
    return '' if x is None else repr(float(x))


def write_csvs(d, assets):
    for name, rows in assets.items():
        with open(os.path.join(d, name + '.csv'), 'w') as f:
            f.write('Date,Open,High,Low,Close,Adj Close,Volume\n')
            for day, o, c, a in rows:
                date = (EPOCH + datetime.timedelta(days=day)).isoformat()
                f.write('%s,%s,%s,%s,%s,%s,1000\n' % (date, cell(o), cell(o), cell(o), cell(c), cell(a)))


def build(assets, adjust, symbols=None):
    os.makedirs(TMPROOT, exist_ok=True)
    d = tempfile.mkdtemp(prefix='data_', dir=TMPROOT)
    try:
        write_csvs(d, assets)
        if symbols is not None:
            # the csv_symbols option: only the named files are loaded; the directory holds another one
            write_csvs(d, {'ZZZUNRELATED': [[18262, 1.0, 2.0, 2.0]]})
            ds = CSVDailyBarDataSource(d, Equity, adjust_prices=adjust, csv_symbols=list(symbols))
        else:
            ds = CSVDailyBarDataSource(d, Equity, adjust_prices=adjust)
    finally:
        shutil.rmtree(d, ignore_errors=True)
    return ds


def ask_all(ds, queries, tz=None, universe=None, subsec=None):
    dh = BacktestDataHandler(universe, data_sources=[ds])
    out = []
    for i, (a, t) in enumerate(queries):
        sym = 'EQ:' + a
        dt = ts(t)
        if subsec and i < len(subsec) and subsec[i]:
            dt = dt + pd.Timedelta(int(subsec[i]), unit='ns')       # an instant inside the second [t, t+1)
        if tz:
            dt = dt.tz_convert(tz)
        ba = dh.get_asset_latest_bid_ask_price(dt, sym)

        def direct(f):
            try:
                return num(f(dt, sym))
            except Exception as e:
                return 'raised ' + type(e).__name__
        out.append([direct(ds.get_bid), direct(ds.get_ask),
                    num(dh.get_asset_latest_bid_price(dt, sym)), num(dh.get_asset_latest_ask_price(dt, sym)),
                    [num(ba[0]), num(ba[1])], num(dh.get_asset_latest_mid_price(dt, sym))])
    return out


def handler(c):
    ds = build(c['assets'], c['adjust'], symbols=c.get('csv_symbols'))
    loaded = {}
    for a in c['assets']:
        if 'EQ:' + a not in ds.asset_bar_frames:
            loaded[a] = []          # the file was not registered under its symbol
            continue
        df = ds.asset_bar_frames['EQ:' + a]
        loaded[a] = [[int(idx.timestamp()) // 86400, num(r['Open']), num(r['Close']), num(r['Adj Close'])]
                     for idx, r in df.iterrows()]
    res = {'loaded': loaded}
    if c.get('tz'):
        # the same instants expressed in another time zone, asked of a fresh source (so that no memoised answer is reused)
        res['answers_tz'] = ask_all(build(c['assets'], c['adjust']), c['queries'], tz=c['tz'])
    if c.get('handler_universe'):
        # the handler's universe argument plays no part in what a price query returns
        from qstrader.asset.universe.static import StaticUniverse
        from qstrader.asset.universe.dynamic import DynamicUniverse
        names = ['EQ:' + a for a in c['assets']]
        hu = c['handler_universe']
        if hu == 'late_dynamic':
            uni = DynamicUniverse(dict((n, ts(4102444800)) for n in names))          # everything enters in 2100
        elif hu == 'none_dynamic':
            uni = DynamicUniverse(dict((n, None) for n in names))
        elif hu == 'static_without':
            uni = StaticUniverse(['EQ:OTHER'])
        else:
            uni = StaticUniverse(names)
        res['answers_univ'] = ask_all(build(c['assets'], c['adjust']), c['queries'], universe=uni)
    if c.get('shared_dir'):
        # two source objects on ONE directory: the one with the opposite adjustment setting is built and queried first
        os.makedirs(TMPROOT, exist_ok=True)
        d = tempfile.mkdtemp(prefix='data_', dir=TMPROOT)
        try:
            write_csvs(d, c['assets'])
            other = CSVDailyBarDataSource(d, Equity, adjust_prices=not c['adjust'])
            ask_all(other, c['queries'])
            mine = CSVDailyBarDataSource(d, Equity, adjust_prices=c['adjust'])
        finally:
            shutil.rmtree(d, ignore_errors=True)
        res['answers_shared_dir'] = ask_all(mine, c['queries'])
    res['answers'] = ask_all(ds, c['queries'], subsec=c.get('subsec'))
    if c.get('resource'):
        # one handler object: asked everything on the files as written, then given a source whose files carry every figure doubled
        # (data_sources is a public attribute) and asked again: it must now answer the doubled figures
        doubled = dict((a, [[r[0]] + [None if v is None else v * 2.0 for v in r[1:]] for r in rows]) for a, rows in c['assets'].items())
        dh3 = BacktestDataHandler(None, data_sources=[build(c['assets'], c['adjust'])])

        def ask3():
            o3 = []
            for a, t in c['queries']:
                sym, dt = 'EQ:' + a, ts(t)
                ba3 = dh3.get_asset_latest_bid_ask_price(dt, sym)
                o3.append([num(dh3.get_asset_latest_bid_price(dt, sym)), num(dh3.get_asset_latest_ask_price(dt, sym)),
                           num(dh3.get_asset_latest_mid_price(dt, sym)), num(ba3[0]), num(ba3[1])])
            return o3
        before = ask3()
        dh3.data_sources = [build(doubled, c['adjust'])]
        res['answers_resourced'] = [before, ask3()]
        # two vendors quoting the same assets differently, the files as written listed FIRST: bid, ask, pair and mid are all the
        # first vendor's wherever it has a price
        dh3.data_sources = [build(c['assets'], c['adjust']), build(doubled, c['adjust'])]
        res['answers_first_vendor'] = ask3()
    if c.get('split_day') is not None:
        # a vendor with recent bars only (from split_day on) is listed before the one with the full history: whatever the
        # order of the questions, the handler's answers are those of the full history
        recent = dict((a, [r for r in rows if r[0] >= c['split_day']]) for a, rows in c['assets'].items())
        recent = dict((a, rows) for a, rows in recent.items() if rows)
        if recent:
            dh2 = BacktestDataHandler(None, data_sources=[build(recent, c['adjust']), build(c['assets'], c['adjust'])])
            out2 = [None] * len(c['queries'])
            # asked latest instant first (so the recent vendor serves first), then backwards in time
            for i in sorted(range(len(c['queries'])), key=lambda k: -c['queries'][k][1]):
                a, t = c['queries'][i]
                sym, dt = 'EQ:' + a, ts(t)
                ba = dh2.get_asset_latest_bid_ask_price(dt, sym)
                out2[i] = [num(dh2.get_asset_latest_bid_price(dt, sym)), num(dh2.get_asset_latest_ask_price(dt, sym)),
                           [num(ba[0]), num(ba[1])], num(dh2.get_asset_latest_mid_price(dt, sym))]
            res['answers_two_sources'] = out2
    if c.get('cut_day') is not None:
        cut = c['cut_day']
        trunc = dict((a, [r for r in rows if r[0] <= cut]) for a, rows in c['assets'].items())
        rew = dict((a, [r if r[0] <= cut else [r[0]] + [None if v is None else v * 3.0 + 1.0 for v in r[1:]] for r in rows] +
                        [[max([cut] + [r[0] for r in rows]) + 400 + k, 1.0, 2.0, 3.0] for k in range(2)])
                   for a, rows in c['assets'].items())
        qs = [q for q in c['queries'] if q[1] // 86400 <= cut]
        res['early_queries'] = qs
        res['truncated'] = ask_all(build(trunc, c['adjust']), qs) if all(trunc.values()) else None
        res['rewritten'] = ask_all(build(rew, c['adjust']), qs)
        res['original_early'] = ask_all(ds, qs)
    return res


if __name__ == '__main__':
    main(handler)
