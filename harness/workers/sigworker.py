import os
import sys
import warnings
sys.path.insert(0, os.path.dirname(os.path.abspath(__file__)))
from common import *  # noqa

from qstrader.asset.universe.static import StaticUniverse
from qstrader.signals.momentum import MomentumSignal
from qstrader.signals.sma import SMASignal
from qstrader.signals.vol import VolatilitySignal


def handler(c):
    warnings.simplefilter('ignore')
    uni = StaticUniverse(list(c['assets']))
    start = ts(0)
    mom = MomentumSignal(start, uni, list(c['lookbacks']))
    sma = SMASignal(start, uni, list(c['lookbacks']))
    vol = VolatilitySignal(start, uni, list(c['lookbacks']))
    out = []
    known = list(c['assets'])
    for a, x in c['appends']:
        res = None
        try:
            for s in (mom, sma, vol):
                s.append(a, x)
        except Exception as e:
            out.append(errname(e))
            continue
        if a not in known:
            known.append(a)
        rep = []
        for b in c['report']:
            row = []
            for n in c['lookbacks']:
                try:
                    row.append([num(mom(b, n)), num(sma(b, n)), num(vol(b, n))])
                except KeyError:
                    row.append(None)
            rep.append(row)
        out.append(rep)
    return out


if __name__ == '__main__':
    main(handler)
