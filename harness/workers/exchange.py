import os
import sys
sys.path.insert(0, os.path.dirname(os.path.abspath(__file__)))
from common import *  # noqa
from qstrader.exchange.simulated_exchange import SimulatedExchange


def handler(c):
    ex = SimulatedExchange(ts(c.get('exch_start', 0)))
    return [bool(ex.is_open_at_datetime(ts(t))) for t in c['ts']]


if __name__ == '__main__':
    main(handler)
