"""Run real BacktestTradingSession objects on synthetic markets and report everything the
properties observe."""
import operator
import os
import pandas as pd
import shutil
import sys
import tempfile
import warnings
sys.path.insert(0, os.path.dirname(os.path.abspath(__file__)))
from common import *  # noqa
from broker import mk_fee, event_snap
import datetime

from qstrader.alpha_model.alpha_model import AlphaModel
from qstrader.alpha_model.fixed_signals import FixedSignalsAlphaModel
from qstrader.alpha_model.single_signal import SingleSignalAlphaModel
from qstrader.asset.equity import Equity
from qstrader.asset.universe.static import StaticUniverse
from qstrader.asset.universe.dynamic import DynamicUniverse
from qstrader.broker.portfolio.portfolio import Portfolio
from qstrader.broker.simulated_broker import SimulatedBroker
from qstrader.data.backtest_data_handler import BacktestDataHandler
from qstrader.data.daily_bar_csv import CSVDailyBarDataSource
from qstrader.signals.momentum import MomentumSignal
from qstrader.signals.sma import SMASignal
from qstrader.signals.vol import VolatilitySignal
from qstrader.signals.signal import Signal
from qstrader.signals.signals_collection import SignalsCollection
from qstrader.system.qts import QuantTradingSystem
from qstrader.trading.backtest import BacktestTradingSession

EPOCH = datetime.date(1970, 1, 1)
TMPROOT = os.path.join(os.path.dirname(os.path.dirname(os.path.dirname(os.path.abspath(__file__)))), 'build', 'tmp')


class TableDataHandler(object):
    """prices keyed by (second, asset); bid = ask = mid, NaN when absent"""

    def __init__(self, rows):
        self.t = {}
        for t, snap in rows:
            for a, p in snap:
                self.t[(int(t), a)] = float(p)

    def _p(self, dt, a):
        return self.t.get((int(dt.timestamp()), a), np.nan)

    def get_asset_latest_bid_price(self, dt, a):
        return self._p(dt, a)

    def get_asset_latest_ask_price(self, dt, a):
        return self._p(dt, a)

    def get_asset_latest_bid_ask_price(self, dt, a):
        p = self._p(dt, a)
        return (p, p)

    def get_asset_latest_mid_price(self, dt, a):
        return self._p(dt, a)


class TopNMomentumAlphaModel(AlphaModel):
    """examples/momentum_taa.py, verbatim"""

    def __init__(self, signals, mom_lookback, mom_top_n, universe, data_handler):
        self.signals = signals
        self.mom_lookback = mom_lookback
        self.mom_top_n = mom_top_n
        self.universe = universe
        self.data_handler = data_handler

    def _highest_momentum_asset(self, dt):
        assets = self.signals['momentum'].assets
        all_momenta = {asset: self.signals['momentum'](asset, self.mom_lookback) for asset in assets}
        return [asset[0] for asset in sorted(all_momenta.items(), key=operator.itemgetter(1), reverse=True)][:self.mom_top_n]

    def _generate_signals(self, dt, weights):
        top_assets = self._highest_momentum_asset(dt)
        for asset in top_assets:
            weights[asset] = 1.0 / self.mom_top_n
        return weights

    def __call__(self, dt):
        assets = self.universe.get_assets(dt)
        weights = {asset: 0.0 for asset in assets}
        if self.signals.warmup >= self.mom_lookback:
            weights = self._generate_signals(dt, weights)
        return weights


class SmaTrendAlphaModel(AlphaModel):
    def __init__(self, signals, lookback, universe):
        self.signals, self.lookback, self.universe = signals, lookback, universe

    def __call__(self, dt):
        w = {}
        for a in self.universe.get_assets(dt):
            try:
                last = self.signals['sma'](a, 1)
                avg = self.signals['sma'](a, self.lookback)
                w[a] = 1.0 if last > avg else 0.0
            except KeyError:
                w[a] = 0.0
        return w


class TimedAlphaModel(AlphaModel):
    """weights that change with time: [[from_second, {asset: weight}], ...]; before the first entry: no weights at all"""

    def __init__(self, table):
        self.table = [(int(t), dict((a, w) for a, w in ws)) for t, ws in table]

    def __call__(self, dt):
        now = int(dt.timestamp())
        cur = {}
        for t, ws in self.table:
            if t <= now:
                cur = ws
        return dict(cur)


class VolFilterAlphaModel(AlphaModel):
    """implementation-side only: long the low-volatility assets, short the rest"""

    def __init__(self, signals, lookback, thr, universe):
        self.signals, self.lookback, self.thr, self.universe = signals, lookback, thr, universe

    def __call__(self, dt):
        w = {}
        for a in self.universe.get_assets(dt):
            try:
                v = self.signals['vol'](a, self.lookback)
                m = self.signals['momentum'](a, self.lookback)
                w[a] = (1.0 if v < self.thr else -0.5) * (1.0 + max(-0.5, min(0.5, m)))
            except KeyError:
                w[a] = 0.0
        return w


def mk_universe(u):
    if u[0] == 'static':
        return StaticUniverse(list(u[1]))
    flags = u[2] if len(u) > 2 else ''
    missing = pd.NaT if 'nat' in flags else None      # a missing entry date as None or as pandas' NaT
    zones = ['America/New_York', 'Asia/Tokyo', 'Europe/London', 'Australia/Sydney']
    # 'tz': the same entry instants, written in other time zones
    when = (lambda i, e: ts(e).tz_convert(zones[i % 4])) if 'tz' in flags else (lambda i, e: ts(e))
    if 'pydt' in flags:
        # the same instants as standard-library datetime objects (time-zone aware)
        when0 = when
        when = lambda i, e: when0(i, e).to_pydatetime()
    real = dict((a, (missing if e is None else when(i, e))) for i, (a, e) in enumerate(u[1]))
    if 'latemap' in flags:
        # built on a provisional map (nobody listed yet); the public asset_dates attribute is given the real map afterwards
        uni = DynamicUniverse(dict((a, None) for a in real))
        uni.asset_dates = real
        return uni
    return DynamicUniverse(real)


FILE_ORDER = [None]


def write_csvs(d, assets):
    for name, rows in assets.items():
        # the order of the rows in the FILE is free (the loader sorts): newest first, or scrambled
        if FILE_ORDER[0] == 'desc':
            rows = list(reversed(rows))
        elif FILE_ORDER[0] == 'scrambled':
            rows = sorted(rows, key=lambda r: (r[0] * 7919) % 101)
        with open(os.path.join(d, name + '.csv'), 'w') as f:
            f.write('Date,Open,High,Low,Close,Adj Close,Volume\n')
            for day, o, c, a in rows:
                date = (EPOCH + datetime.timedelta(days=day)).isoformat()
                cell = lambda x: '' if x is None else repr(float(x))
                f.write('%s,%s,%s,%s,%s,%s,1000\n' % (date, cell(o), cell(o), cell(o), cell(c), cell(a)))


def csv_handler(m, universe, keep=None, share_handler=False):
    """keep = (sources, handler) of an earlier session: re-use the data sources (and, if asked, the handler itself).
    m['backup'] = a second vendor's files for the same assets, queried after the primary one."""
    if keep is not None:
        sources, dh = keep
        if share_handler:
            return dh, keep
        return BacktestDataHandler(universe, data_sources=list(sources)), keep
    os.makedirs(TMPROOT, exist_ok=True)
    dirs = []
    try:
        sources = []
        for assets in [m['assets']] + ([m['backup']] if m.get('backup') else []):
            # ONE directory path per process and vendor slot, emptied and rewritten for every case (a user regenerating
            # the files of a data directory between backtests): a source must serve the files it was built from
            d = os.path.join(TMPROOT, 'sess_%d_slot%d' % (os.getpid(), len(dirs)))
            shutil.rmtree(d, ignore_errors=True)
            os.makedirs(d)
            dirs.append(d)
            write_csvs(d, assets)
            sources.append(CSVDailyBarDataSource(d, Equity, adjust_prices=m.get('adjust', True)))
    finally:
        for d in dirs:
            shutil.rmtree(d, ignore_errors=True)
    dh = BacktestDataHandler(universe, data_sources=list(sources))
    return dh, (sources, dh)


LAST = {}
os.environ.pop('QSTRADER_CSV_DATA_DIR', None)   # never inherited; set and unset again by the default-handler cases only
EXTRA_EQUITY = 65536.0


def run_session(c, shared_ds=None, reuse_universe=False, reuse_signals=False):
    warnings.simplefilter('ignore')
    cfg = c['cfg']
    start, end = ts(cfg['start']), ts(cfg['end'])
    # reuse_universe: the universe OBJECT of the previous session of this process serves this one too
    universe = LAST['universe'] if (reuse_universe and 'universe' in LAST) else mk_universe(cfg['universe'])
    LAST['universe'] = universe
    m = c['market']
    FILE_ORDER[0] = m.get('file_order')
    ds = None
    try:
        if m['kind'] == 'table':
            dh = TableDataHandler(m['rows'])
        else:
            dh, ds = csv_handler(m, universe, keep=shared_ds, share_handler=bool(c.get('share_handler')))
    except Exception as e:
        return {'init': errname(e)}, None
    signals = None
    tracked_signal = [None]
    lbs = cfg.get('lookbacks')
    if lbs is not None:
        sigs = {}
        if cfg.get('extra_signal'):
            # another signal of the same collection, listed first, over a DIFFERENT (static, all-asset) universe
            allu = StaticUniverse([a for a, _ in cfg['universe'][1]] if cfg['universe'][0] == 'dynamic' else list(cfg['universe'][1]))
            sigs['aaa_all_assets_vol'] = VolatilitySignal(start, allu, list(lbs))
        sig_start = start + pd.Timedelta(days=cfg.get('signal_start_shift', 0))     # a Signal's own start_dt argument
        sigs['momentum'] = MomentumSignal(sig_start, universe, list(lbs))
        sigs['sma'] = SMASignal(sig_start, universe, list(lbs))
        tracked_signal[0] = sigs['momentum']
        if cfg['alpha'][0] == 'volfilter':
            sigs['vol'] = VolatilitySignal(start, universe, list(lbs))
        dh_session = dh
        if cfg.get('signals_own_handler') and m['kind'] == 'table':
            # the signals read a handler of their own (the same market with every price doubled: momentum, price-vs-average and
            # volatility are scale free, so every decision stays what it was, but the windows must hold the doubled closes)
            dh = TableDataHandler([[t_, [[a_, p_ * 2.0] for a_, p_ in snap_]] for t_, snap_ in m['rows']])
        if cfg.get('late_signals') and len(sigs) > 1:
            # the collection is built on a mapping that holds one signal; the others are put into the same mapping afterwards
            registry = dict(list(sigs.items())[:1])
            signals = SignalsCollection(registry, dh)
            for k_, v_ in list(sigs.items())[1:]:
                registry[k_] = v_
        else:
            signals = SignalsCollection(sigs, dh)
        dh = dh_session
        if reuse_signals and 'signals' in LAST:
            # the SignalsCollection OBJECT (and its signals) of the previous session serves this one too
            signals, tracked_signal[0] = LAST['signals']
        LAST['signals'] = (signals, tracked_signal[0])
    a = cfg['alpha']
    if a[0] == 'fixed':
        # the constructor's documented `universe` option is stored and not used by the model: passing it must change nothing
        alpha = (FixedSignalsAlphaModel(dict((k, v) for k, v in a[1]), universe=universe) if cfg.get('alpha_universe')
                 else FixedSignalsAlphaModel(dict((k, v) for k, v in a[1])))
    elif a[0] == 'single':
        if cfg.get('alpha_universe'):
            # the documented data_handler option is stored and not used by the model: a handler that lists no asset changes nothing
            alpha = SingleSignalAlphaModel(universe, signal=a[1], data_handler=BacktestDataHandler(StaticUniverse([]), data_sources=[]))
        else:
            alpha = SingleSignalAlphaModel(universe, signal=a[1])
    elif a[0] == 'timed':
        alpha = TimedAlphaModel(a[1])
    elif a[0] == 'topn':
        alpha = TopNMomentumAlphaModel(signals, a[1], a[2], universe, dh)
    elif a[0] == 'smatrend':
        alpha = SmaTrendAlphaModel(signals, a[1], universe)
    else:
        alpha = VolFilterAlphaModel(signals, a[1], a[2], universe)
    kw = {}
    r = cfg['rebal']
    rebalance = {'weekly': 'weekly', 'daily': 'daily', 'eom': 'end_of_month', 'bah': 'buy_and_hold'}[r[0]]
    if r[0] == 'weekly':
        kw['rebalance_weekday'] = r[1]
    if cfg['long_only']:
        kw['cash_buffer_percentage'] = cfg['param']
    else:
        kw['gross_leverage'] = cfg['param']
    out = {'init': ['ok']}
    env_dir = None
    if (c.get('default_handler') and m['kind'] == 'csv' and m.get('adjust', True) and not m.get('backup')
            and signals is None and shared_ds is None):
        # the session builds its own data handler from the QSTRADER_CSV_DATA_DIR directory (the documented default)
        os.makedirs(TMPROOT, exist_ok=True)
        env_dir = tempfile.mkdtemp(prefix='env_', dir=TMPROOT)
        write_csvs(env_dir, m['assets'])
        if c.get('default_handler') == 'cwd':
            # the documented fallback: no QSTRADER_CSV_DATA_DIR at all, the files are in the current directory
            # (the variable is unset from the start of this process: see below LAST)
            old_cwd = os.getcwd()
            os.chdir(env_dir)
        else:
            os.environ['QSTRADER_CSV_DATA_DIR'] = env_dir
        dh = None
        kw.update(account_name='Verification account', portfolio_id='000001', portfolio_name='Verification portfolio')
    try:
        sess = BacktestTradingSession(start, end, universe, alpha, signals=signals, initial_cash=cfg['cash'],
                                      rebalance=rebalance, long_only=cfg['long_only'], fee_model=mk_fee(cfg['fee']),
                                      burn_in_dt=(None if cfg.get('burn') is None else ts(cfg['burn'])),
                                      data_handler=dh, **kw)
        if cfg.get('sched_thin'):
            sess.rebalance_schedule = sorted(sess.rebalance_schedule)[::2]
        if cfg.get('extra_portfolio'):
            # the account also holds a second, idle sub-portfolio with cash of its own (the equity curve is the ACCOUNT's equity)
            sess.broker.subscribe_funds_to_account(EXTRA_EQUITY)
            sess.broker.create_portfolio('000002', 'idle')
            sess.broker.subscribe_funds_to_portfolio('000002', EXTRA_EQUITY)
    except Exception as e:
        return {'init': errname(e)}, ds
    finally:
        if env_dir is not None:
            if c.get('default_handler') == 'cwd':
                os.chdir(old_cwd)       # the environment is left as the library left it
            else:
                os.environ.pop('QSTRADER_CSV_DATA_DIR', None)
            shutil.rmtree(env_dir, ignore_errors=True)
    fills, updates, pcm_times, sig_obs = [], [], [], {}
    o_tx, o_up, o_qts, o_app = Portfolio.transact_asset, SimulatedBroker.update, QuantTradingSystem.__call__, Signal.append

    def spy_tx(self, txn):
        o_tx(self, txn)
        fills.append([sec(txn.dt), txn.asset, num(txn.quantity), num(txn.price), num(txn.commission)])

    def spy_up(self, dt):
        updates.append(sec(dt))
        return o_up(self, dt)

    pcm_equity = []

    def spy_qts(self, dt, stats=None):
        pcm_times.append(sec(dt))
        try:
            pcm_equity.append([sec(dt), num(self.broker.get_portfolio_total_equity(self.broker_portfolio_id))])
        except Exception:
            pass
        return o_qts(self, dt, stats=stats)

    def spy_app(self, asset, price):
        if self is tracked_signal[0]:
            sig_obs.setdefault(asset, []).append([updates[-1] if updates else None, num(price)])
        return o_app(self, asset, price)
    Portfolio.transact_asset, SimulatedBroker.update, QuantTradingSystem.__call__, Signal.append = spy_tx, spy_up, spy_qts, spy_app
    err = None
    try:
        try:
            sess.run()
        except Exception as e:
            err = [type(e).__name__, updates[-1] if updates else None]
    finally:
        Portfolio.transact_asset, SimulatedBroker.update, QuantTradingSystem.__call__, Signal.append = o_tx, o_up, o_qts, o_app
    out['error'] = err
    out['fills'] = fills
    out['pcm_times'] = pcm_times
    out['pcm_equity'] = pcm_equity
    out['update_times'] = updates
    out['signal_obs'] = sig_obs
    out['warmup'] = (signals.warmup if signals is not None else None)
    try:
        # the windows the tracked signal holds when the session ends
        out['final_windows'] = ([[k_, dq_.maxlen, [num(x_) for x_ in dq_]] for k_, dq_ in sorted(tracked_signal[0].buffers.prices.items())]
                                if tracked_signal[0] is not None else None)
    except Exception as e:
        out['final_windows'] = ['err', type(e).__name__]
    xe = EXTRA_EQUITY if cfg.get('extra_portfolio') else 0.0
    out['equity'] = [[sec(t), num(v - xe)] for t, v in sess.equity_curve]         # (less the idle sub-portfolio's cash)
    out['allocs'] = [[sec(r_['Date']), [[k, num(v)] for k, v in r_.items() if k != 'Date']] for r_ in sess.target_allocations]
    pf = sess.broker.portfolios[sess.portfolio_id]
    out['history'] = [event_snap(e) for e in pf.history]
    out['cash'] = num(pf.cash)
    out['holdings'] = [[a_, num(v['quantity'])] for a_, v in pf.portfolio_to_dict().items()]
    try:
        edf = sess.get_equity_curve()
        out['equity_df'] = [[(d - EPOCH).days, num(v)] for d, v in zip(edf.index, edf['Equity'])]
    except Exception as e:
        out['equity_df'] = errname(e)
    if sess.target_allocations:
        try:
            adf = sess.get_target_allocations()
            cols = list(adf.columns)
            out['alloc_df'] = [cols, [[(d - EPOCH).days, [num(x) for x in row]] for d, row in zip(adf.index, adf.values.tolist())]]
        except Exception as e:
            out['alloc_df'] = errname(e)
    else:
        out['alloc_df'] = None
    out['schedule'] = [sec(x) for x in sess.rebalance_schedule]
    return out, ds


def digest_lite(o):
    return [o.get('init'), o.get('equity'), o.get('fills'), o.get('allocs'), o.get('error')]


def handler(c):
    if c.get('mode') == 'twice':
        # the same backtest twice in one process, the second time with the already-used data source
        a, ds = run_session(c)
        extra = c.get('extra_queries') or []
        if ds is not None:
            for asset, t in extra:
                for src in ds[0]:
                    for q in (ts(t), ts(t).tz_convert('America/New_York'), ts(t).tz_convert('Asia/Tokyo')):
                        try:
                            src.get_bid(q, asset)
                            src.get_ask(q, asset)
                        except Exception:
                            pass
        b, _ = run_session(c, shared_ds=ds, reuse_universe=bool(c.get('share_universe')), reuse_signals=bool(c.get('share_signals')))
        return {'first': a, 'second': b}
    if c.get('mode') == 'after_other':
        # session B on a fresh data source vs on a data source that already served a different session A
        fresh, _ = run_session(c)
        c_other = dict(c)
        c_other['cfg'] = c['cfg_other']
        first, ds = run_session(c_other)
        extra = c.get('extra_queries') or []
        if ds is not None:
            for asset, t in extra:
                for src in ds[0]:
                    try:
                        src.get_bid(ts(t), asset)
                    except Exception:
                        pass
        reused, _ = run_session(c, shared_ds=ds)
        return {'first': fresh, 'second': reused, 'other_ok': first['init']}
    if c.get('mode') == 'prequeried':
        # a fresh run, then the same session on a NEW data source that has first answered other queries
        # (the session's own instants expressed in other time zones, and arbitrary instants)
        fresh, _ = run_session(c)
        universe = mk_universe(c['cfg']['universe'])
        try:
            _, keep = csv_handler(c['market'], universe)
        except Exception as e:
            return {'first': fresh, 'second': {'init': errname(e)}}
        for asset, t in (c.get('extra_queries') or []):
            for src in keep[0]:
                for q in (ts(t).tz_convert('America/New_York'), ts(t).tz_convert('Asia/Tokyo'), ts(t)):
                    try:
                        src.get_bid(q, asset)
                        src.get_ask(q, asset)
                    except Exception:
                        pass
        reused, _ = run_session(c, shared_ds=keep)
        return {'first': fresh, 'second': reused}
    if c.get('mode') == 'same_dir':
        # baseline on its own directory; then, on ONE other directory, a data source with the opposite adjustment
        # setting is built and queried first, and a NEW source object with the right setting serves the session
        m = c['market']
        fresh, _ = run_session(c)
        os.makedirs(TMPROOT, exist_ok=True)
        d = tempfile.mkdtemp(prefix='sess_', dir=TMPROOT)
        try:
            write_csvs(d, m['assets'])
            other = CSVDailyBarDataSource(d, Equity, adjust_prices=not m.get('adjust', True))
            for t, _k in c.get('event_times', []):
                for name in m['assets']:
                    try:
                        other.get_bid(ts(t), 'EQ:' + name)
                        other.get_ask(ts(t), 'EQ:' + name)
                    except Exception:
                        pass
            mine = CSVDailyBarDataSource(d, Equity, adjust_prices=m.get('adjust', True))
        finally:
            shutil.rmtree(d, ignore_errors=True)
        universe = mk_universe(c['cfg']['universe'])
        reused, _ = run_session(c, shared_ds=([mine], BacktestDataHandler(universe, data_sources=[mine])))
        return {'first': fresh, 'second': reused}
    if c.get('mode') == 'churn':
        # data sources on ANOTHER market are built, asked the session's own questions and dropped; then a new source on the
        # session's market is built (CPython tends to hand it the freed address) and serves the session
        import gc
        m, m2 = c['market'], c['market2']
        fresh, _ = run_session(c)
        universe = mk_universe(c['cfg']['universe'])
        os.makedirs(TMPROOT, exist_ok=True)
        d1 = tempfile.mkdtemp(prefix='sess_', dir=TMPROOT)
        d2 = tempfile.mkdtemp(prefix='sess_', dir=TMPROOT)
        reused = fresh
        try:
            write_csvs(d1, m['assets'])
            write_csvs(d2, m2['assets'])
            dead = set()
            for _ in range(12):
                other = CSVDailyBarDataSource(d2, Equity, adjust_prices=m.get('adjust', True))
                for t, _k in c.get('event_times', []):
                    for name in m2['assets']:
                        try:
                            other.get_bid(ts(t), 'EQ:' + name)
                            other.get_ask(ts(t), 'EQ:' + name)
                        except Exception:
                            pass
                dead.add(id(other))
                del other
                mine = CSVDailyBarDataSource(d1, Equity, adjust_prices=m.get('adjust', True))
                if id(mine) in dead:
                    # this object lives where a dropped source of the other market lived
                    reused, _ = run_session(c, shared_ds=([mine], BacktestDataHandler(universe, data_sources=[mine])))
                    break
                del mine
            else:
                # second pattern: many sources of the other market alive at once (each asked a few of the session's questions),
                # all dropped, then new sources kept alive until one of them is handed a freed address
                evs = [t for t, _k in c.get('event_times', [])]
                some = evs[:10] + evs[len(evs) // 2:len(evs) // 2 + 6]

                def queried_other():
                    o_ = CSVDailyBarDataSource(d2, Equity, adjust_prices=m.get('adjust', True))
                    for t in some:
                        for name in m2['assets']:
                            try:
                                o_.get_bid(ts(t), 'EQ:' + name)
                                o_.get_ask(ts(t), 'EQ:' + name)
                            except Exception:
                                pass
                    return o_
                batch = [queried_other() for _ in range(70)]
                dead |= set(id(o_) for o_ in batch)
                del batch
                keep_alive = []
                for _ in range(90):
                    mine = CSVDailyBarDataSource(d1, Equity, adjust_prices=m.get('adjust', True))
                    if id(mine) in dead:
                        reused, _ = run_session(c, shared_ds=([mine], BacktestDataHandler(universe, data_sources=[mine])))
                        break
                    keep_alive.append(mine)
                del keep_alive
        finally:
            shutil.rmtree(d1, ignore_errors=True)
            shutil.rmtree(d2, ignore_errors=True)
        return {'first': fresh, 'second': reused, 'address_reused': reused is not fresh}
    if c.get('mode') == 'resourced':
        # one handler object serves a session on ANOTHER market first; then its public data_sources list is given the sources of
        # this session's market and it serves this session: same results as a handler built for this market
        fresh, _ = run_session(c)
        c_o = dict(c)
        c_o['market'] = c['market2']
        _, ds_o = run_session(c_o)
        universe = mk_universe(c['cfg']['universe'])
        try:
            _, ds_m = csv_handler(c['market'], universe)
        except Exception as e:
            return {'first': fresh, 'second': {'init': errname(e)}}
        if ds_o is None:
            return {'first': fresh, 'second': fresh}
        handler_obj = ds_o[1]
        handler_obj.data_sources = list(ds_m[0])
        c_m = dict(c)
        c_m['share_handler'] = True
        reused, _ = run_session(c_m, shared_ds=(ds_m[0], handler_obj))
        return {'first': fresh, 'second': reused}
    if c.get('mode') == 'default_after_other':
        c_exp = dict(c)
        c_exp.pop('default_handler', None)
        fresh, _ = run_session(c_exp)
        c_o = dict(c)
        c_o['market'] = c['market2']
        other, _ = run_session(c_o)
        again, _ = run_session(c)
        return {'first': fresh, 'second': again, 'other_ok': other['init']}
    if c.get('mode') == 'pair':
        def world(cc):
            if not cc.get('cfg_prior'):
                return run_session(cc)[0]
            c_o = dict(cc)
            c_o['cfg'] = cc['cfg_prior']
            _, ds = run_session(c_o)
            c_m = dict(cc)
            c_m['share_handler'] = True
            return run_session(c_m, shared_ds=ds)[0]
        a = world(c)
        c2 = dict(c)
        c2['market'] = c['market2']
        b = world(c2)
        return {'a': a, 'b': b}
    out, _ = run_session(c)
    return out


if __name__ == '__main__':
    main(handler)
