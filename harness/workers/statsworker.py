import os
import sys
import warnings
os.environ.setdefault('MPLBACKEND', 'Agg')
sys.path.insert(0, os.path.dirname(os.path.abspath(__file__)))
from common import *  # noqa
import datetime

import qstrader.statistics.performance as perf
TMPROOT = os.path.join(os.path.dirname(os.path.dirname(os.path.dirname(os.path.abspath(__file__)))), 'build', 'tmp')
from qstrader.statistics.json_statistics import JSONStatistics
from qstrader.statistics.tearsheet import TearsheetStatistics

EPOCH = datetime.date(1970, 1, 1)


def series(s):
    return [num(v) for v in s.tolist()]


def agg(s):
    out = []
    for k, v in s.items():
        key = list(k) if isinstance(k, tuple) else [k]
        out.append([[int(x) for x in key], num(v)])
    return out


def run(c):
    warnings.simplefilter('ignore')
    idx = [EPOCH + datetime.timedelta(days=d) for d, _ in c['curve']]
    eq = [e for _, e in c['curve']]
    if c.get('int_equity') and all(float(e).is_integer() for e in eq):
        eq = [int(e) for e in eq]          # the Equity column gets an integer dtype
    df = pd.DataFrame({'Equity': eq}, index=idx)
    alloc = pd.DataFrame({'EQ:A': [1.0] * len(idx)}, index=idx)
    P = c.get('periods', 252)
    ts_ = TearsheetStatistics(df.copy(), periods=P)
    t = ts_.get_results(df.copy())
    if c.get('bench'):
        # a benchmark on its own dates (longer history / later start): its numbers must be those of that curve
        bidx = [EPOCH + datetime.timedelta(days=d) for d, _ in c['bench']]
        bdf = pd.DataFrame({'Equity': [e for _, e in c['bench']]}, index=bidx)
        balloc = pd.DataFrame({'EQ:A': [1.0] * len(bidx)}, index=bidx)
        jalone = JSONStatistics(bdf.copy(), balloc, periods=P).statistics['strategy']
    else:
        bdf = df
        jalone = None
    jfull = JSONStatistics(df.copy(), alloc, periods=P, benchmark_curve=bdf.copy()).statistics
    j = jfull['strategy']
    jb = jfull['benchmark']
    if jalone is None:
        jalone = j
    # statistics of a frame that was analysed before (it already carries returns / cum_returns columns)
    reuse = None
    try:
        k = len(df) // 3
        if len(df) - k >= 2:
            dfa = df.copy()
            ts_.get_results(dfa)
            r1 = ts_.get_results(dfa.iloc[k:].copy() if c.get('reuse_copy') else dfa.iloc[k:])
            r0 = ts_.get_results(df.iloc[k:].copy())
            same = (series(r1['returns']) == series(r0['returns']) and series(r1['cum_returns']) == series(r0['cum_returns'])
                    and num(r1['max_drawdown']) == num(r0['max_drawdown']) and num(r1['sharpe']) == num(r0['sharpe']))
            reuse = ['same'] if same else ['differs', num(r1['cum_returns'].iloc[0]), num(r0['cum_returns'].iloc[0])]
    except Exception as e:
        reuse = ['err', type(e).__name__ + ': ' + str(e)[:160]]
    # the rendered text panel of the tearsheet (strategy and benchmark columns)
    panel = None
    try:
        import matplotlib
        matplotlib.use('Agg')
        import matplotlib.pyplot as plt
        tsb = TearsheetStatistics(df.copy(), benchmark_equity=bdf.copy(), periods=P)
        fig, ax = plt.subplots()
        tsb._plot_txt_curve(tsb.get_results(df.copy()), bench_stats=tsb.get_results(bdf.copy()), ax=ax)
        cells = dict(((round(t.get_position()[0], 2), round(t.get_position()[1], 2)), t.get_text()) for t in ax.texts)
        plt.close(fig)
        rows = {'total': 6.9, 'cagr': 5.9, 'sharpe': 4.9, 'sortino': 3.9, 'maxdd': 1.9, 'duration': 0.9}
        panel = {'s': dict((k, cells.get((7.5, y))) for k, y in rows.items()),
                 'b': dict((k, cells.get((10.0, y))) for k, y in rows.items())}
    except Exception as e:
        panel = {'err': type(e).__name__ + ': ' + str(e)[:200]}
    rets = t['returns']
    cum = t['cum_returns']
    dd, mdd, dur = perf.create_drawdowns(cum)
    res = {
        'returns': series(rets), 'cum': series(cum), 'dd': series(dd), 'maxdd': num(mdd), 'duration': int(dur),
        'weekly': agg(perf.aggregate_returns(rets, 'weekly')), 'monthly': agg(perf.aggregate_returns(rets, 'monthly')),
        'yearly': agg(perf.aggregate_returns(rets, 'yearly')),
        'cagr': num(perf.create_cagr(cum, P)), 'sharpe': num(perf.create_sharpe_ratio(rets, P)),
        'sortino': num(perf.create_sortino_ratio(rets, P)),
        'mean': num(np.mean(rets)), 'std': num(np.std(rets)),
        'tear': {'sharpe': num(t['sharpe']), 'maxdd': num(t['max_drawdown']), 'maxdd_pct': num(t['max_drawdown_pct']),
                 'duration': int(t['max_drawdown_duration']), 'dd': series(t['drawdowns']), 'returns': series(t['returns']),
                 'cum': series(t['cum_returns'])},
        'dd_raw': (lambda r: {'dd': series(r[0]), 'maxdd': num(r[1]), 'duration': int(r[2])})(perf.create_drawdowns(df['Equity'] * c.get('raw_scale', 1.0))),
        'panel': panel,
        'reuse': reuse,
        'json_total': num(j['cum_returns'][-1][1] - 1.0) if j['cum_returns'] else None,
        'bench_total': num(jalone['cum_returns'][-1][1] - 1.0) if jalone['cum_returns'] else None,
        'json_bench_alone': {'sharpe': num(jalone['sharpe']), 'sortino': num(jalone['sortino']), 'cagr': num(jalone['cagr']),
                             'maxdd': num(jalone['max_drawdown']), 'duration': int(jalone['max_drawdown_duration']),
                             'ann_vol': num(jalone['annualised_vol']), 'n': len(jalone['returns'])},
        'json_bench': {'n': len(jb['returns']), 'sharpe': num(jb['sharpe']), 'sortino': num(jb['sortino']), 'cagr': num(jb['cagr']), 'maxdd': num(jb['max_drawdown']),
                       'duration': int(jb['max_drawdown_duration']), 'ann_vol': num(jb['annualised_vol'])},
        'json': {'sharpe': num(j['sharpe']), 'sortino': num(j['sortino']), 'cagr': num(j['cagr']), 'maxdd': num(j['max_drawdown']),
                 'duration': int(j['max_drawdown_duration']), 'mean': num(j['mean_returns']), 'std': num(j['stdev_returns']),
                 'ann_vol': num(j['annualised_vol']),
                 'dd': [num(v) for _, v in j['drawdowns']], 'returns': [num(v) for _, v in j['returns']],
                 'cum': [num(v) for _, v in j['cum_returns']], 'equity': [num(v) for _, v in j['equity_curve']],
                 'monthly': [[list(k) if isinstance(k, tuple) else [k], num(v)] for k, v in j['monthly_agg_returns']],
                 'yearly': [[[k] if not isinstance(k, tuple) else list(k), num(v)] for k, v in j['yearly_agg_returns']]},
    }
    # the Highcharts-shaped copies of the aggregates, and the exported file
    res['json']['monthly_hc'] = [[int(m_), int(y_), num(v)] for m_, y_, v in j['monthly_agg_returns_hc']]
    res['json']['yearly_hc'] = [num(v) for v in j['yearly_agg_returns_hc']]
    try:
        import json as _json2
        import tempfile as _tf
        import shutil as _sh
        os.makedirs(TMPROOT, exist_ok=True)
        d_ = _tf.mkdtemp(prefix='stats_', dir=TMPROOT)
        try:
            fn = os.path.join(d_, 'out.json')
            obj = JSONStatistics(df.copy(), alloc, periods=P, output_filename=fn)
            obj.to_file()
            on_disk = _json2.load(open(fn))
            res['file'] = 'same' if _json2.dumps(on_disk, sort_keys=True) == _json2.dumps(_json2.loads(_json2.dumps(obj.statistics)), sort_keys=True) else 'the exported file differs from the statistics dictionary'
            sf = on_disk['strategy']
            res['file_monthly_hc'] = [[int(m_), int(y_), num(v)] for m_, y_, v in sf['monthly_agg_returns_hc']]
        finally:
            _sh.rmtree(d_, ignore_errors=True)
    except Exception as e:
        res['file'] = 'raised ' + type(e).__name__
    # two statistics objects alive at once: building the second must leave what the first one reports untouched
    try:
        import copy as _copy
        import json as _json
        first = JSONStatistics(df.copy(), alloc, periods=P, strategy_id='first', strategy_name='first')
        before = _json.dumps(first.statistics, sort_keys=True, default=str)
        other_df = pd.DataFrame({'Equity': [e * (1.0 + 0.01 * (i % 7)) for i, e in enumerate(eq)]}, index=idx)
        JSONStatistics(other_df, alloc, periods=P, benchmark_curve=bdf.copy(), strategy_id='second', benchmark_id='bench')
        after = _json.dumps(first.statistics, sort_keys=True, default=str)
        res['two_objects'] = 'same' if before == after else 'the first object now reports other figures'
    except Exception as e:
        res['two_objects'] = 'raised ' + type(e).__name__
    return res


def handler(c):
    try:
        out = {'a': run(c)}
        if c.get('scale'):
            c2 = dict(c)
            c2['curve'] = [[d, e * c['scale']] for d, e in c['curve']]
            out['scaled'] = run(c2)
        return out
    except Exception as e:
        import traceback
        return {'err': type(e).__name__, 'tb': traceback.format_exc()[-600:]}


if __name__ == '__main__':
    main(handler)
