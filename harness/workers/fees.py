import os
import sys
sys.path.insert(0, os.path.dirname(os.path.abspath(__file__)))
from common import *  # noqa
from qstrader.broker.fee_model.zero_fee_model import ZeroFeeModel
from qstrader.broker.fee_model.percent_fee_model import PercentFeeModel


def handler(c):
    f = c['fee']
    fm = ZeroFeeModel() if f[0] == 'zero' else PercentFeeModel(commission_pct=f[1], tax_pct=f[2])
    return [num(fm.calc_total_cost('A', 10, c['x'], None)), num(fm.calc_total_cost('A', -10, -c['x'], None))]


if __name__ == '__main__':
    main(handler)
