import os
import sys
sys.path.insert(0, os.path.dirname(os.path.abspath(__file__)))
from common import *  # noqa
from broker import mk_fee

from qstrader.portcon.order_sizer.dollar_weighted import DollarWeightedCashBufferedOrderSizer
from qstrader.portcon.order_sizer.long_short import LongShortLeveragedOrderSizer
from qstrader.portcon.optimiser.fixed_weight import FixedWeightPortfolioOptimiser
from qstrader.portcon.optimiser.equal_weight import EqualWeightPortfolioOptimiser
from qstrader.portcon.pcm import PortfolioConstructionModel
from qstrader.asset.universe.static import StaticUniverse
from qstrader.asset.universe.dynamic import DynamicUniverse
from qstrader.alpha_model.fixed_signals import FixedSignalsAlphaModel
from qstrader.alpha_model.single_signal import SingleSignalAlphaModel


class StubBroker(object):
    def __init__(self, equity, fee, held=None):
        self.equity = equity
        self.fee_model = mk_fee(fee)
        self.held = held or []

    def get_portfolio_total_equity(self, pid):
        return self.equity

    def get_portfolio_as_dict(self, pid):
        return dict((a, {'quantity': q}) for a, q in self.held)


class StubPrices(object):
    def __init__(self, prices):
        self.p = dict((a, (np.nan if p is None else p)) for a, p in prices)

    def get_asset_latest_ask_price(self, dt, asset):
        return self.p.get(asset, np.nan)


def mk_sizer(c, broker):
    dh = StubPrices(c['prices'])
    if c['kind'] == 'long_only':
        return DollarWeightedCashBufferedOrderSizer(broker, 'p', dh, cash_buffer_percentage=c['param'])
    return LongShortLeveragedOrderSizer(broker, 'p', dh, gross_leverage=c['param'])


def mk_universe(u):
    if u[0] == 'static':
        return StaticUniverse(list(u[1]))
    return DynamicUniverse(dict((a, (None if e is None else ts(e))) for a, e in u[1]))


def handler(c):
    op = c['op']
    try:
        if op == 'sizer':
            sizer = mk_sizer(c, StubBroker(c['equity'], c['fee']))
            r = sizer(ts(0), dict((a, w) for a, w in c['weights']))
            return ['ok', [[a, num(v['quantity'])] for a, v in r.items()], [type(v['quantity']).__name__ for v in r.values()]]
        if op == 'universe':
            u = mk_universe(c['universe'])
            return [list(u.get_assets(ts(t))) for t in c['times']]
        if op == 'optimiser':
            o = FixedWeightPortfolioOptimiser() if c['kind'] == 'fixed' else EqualWeightPortfolioOptimiser(scale=c['scale'])
            r = o(ts(0), dict((a, w) for a, w in c['weights']))
            return ['ok', [[a, num(w)] for a, w in r.items()]]
        if op == 'pcm':
            broker = StubBroker(c['equity'], c['fee'], held=c['held'])
            sizer = mk_sizer(c, broker)
            uni = StaticUniverse(list(c['universe']))
            alpha = FixedSignalsAlphaModel(dict((a, w) for a, w in c['alpha']))
            pcm = PortfolioConstructionModel(broker, 'p', uni, sizer, FixedWeightPortfolioOptimiser(), alpha_model=alpha)
            stats = {'target_allocations': []}
            orders = pcm(ts(c.get('t', 0)), stats=stats)
            row = stats['target_allocations'][-1]
            return ['ok', [[k, num(v)] for k, v in row.items() if k != 'Date'],
                    [[o.asset, num(o.quantity)] for o in orders], sec(row['Date'])]
    except Exception as e:
        return errname(e)


if __name__ == '__main__':
    main(handler)
