import os
import pandas as pd
import sys
sys.path.insert(0, os.path.dirname(os.path.abspath(__file__)))
from common import *  # noqa
from broker import mk_fee

from qstrader.portcon.order_sizer.dollar_weighted import DollarWeightedCashBufferedOrderSizer
from qstrader.portcon.order_sizer.long_short import LongShortLeveragedOrderSizer
from qstrader.portcon.optimiser.fixed_weight import FixedWeightPortfolioOptimiser
from qstrader.portcon.optimiser.equal_weight import EqualWeightPortfolioOptimiser
from qstrader.portcon.pcm import PortfolioConstructionModel
from qstrader.asset.universe.static import StaticUniverse
from qstrader.asset.universe.dynamic import DynamicUniverse
from qstrader.alpha_model.fixed_signals import FixedSignalsAlphaModel
from qstrader.alpha_model.single_signal import SingleSignalAlphaModel


class StubBroker(object):
    def __init__(self, equity, fee, held=None):
        self.equity = equity
        self.fee_model = mk_fee(fee)
        self.held = held or []

    def get_portfolio_total_equity(self, pid):
        return self.equity

    def get_portfolio_as_dict(self, pid):
        return dict((a, {'quantity': q}) for a, q in self.held)


class StubPrices(object):
    def __init__(self, prices):
        self.p = dict((a, (np.nan if p is None else p)) for a, p in prices)
        self.p.setdefault('EQ:WARM1', 10.0)
        self.p.setdefault('EQ:WARM2', 3.5)

    def get_asset_latest_ask_price(self, dt, asset):
        return self.p.get(asset, np.nan)


class TwoSidedSource(object):
    """a data source whose bid differs from its ask (the sizers must price at the ask)"""
    def __init__(self, prices, crossed):
        self.p = dict((a, (np.nan if p is None else p)) for a, p in prices)
        self.p.setdefault('EQ:WARM1', 10.0)
        self.p.setdefault('EQ:WARM2', 3.5)
        self.k = 1.03 if crossed else 0.97

    def get_ask(self, dt, asset):
        return self.p.get(asset, np.nan)

    def get_bid(self, dt, asset):
        return self.p.get(asset, np.nan) * self.k


class NoBarYetSource(object):
    """a vendor listed first that knows the assets but has no bar yet at the sizing instant"""

    def get_ask(self, dt, asset):
        return np.nan

    def get_bid(self, dt, asset):
        return np.nan


def mk_sizer(c, broker):
    if c.get('two_sided'):
        from qstrader.data.backtest_data_handler import BacktestDataHandler
        srcs = [TwoSidedSource(c['prices'], c['two_sided'] == 'crossed')]
        if c.get('nan_first'):
            srcs = [NoBarYetSource()] + srcs
        # (the handler's universe argument plays no part in pricing: here one that lists none of the assets)
        dh = BacktestDataHandler((StaticUniverse(['EQ:NOT-LISTED']) if c.get('handler_universe') else None), data_sources=srcs)
    else:
        dh = StubPrices(c['prices'])
    if c['kind'] == 'long_only':
        return DollarWeightedCashBufferedOrderSizer(broker, 'p', dh, cash_buffer_percentage=c.get('warm_param', c['param']))
    return LongShortLeveragedOrderSizer(broker, 'p', dh, gross_leverage=c.get('warm_param', c['param']))


def mk_universe(u):
    if u[0] == 'static':
        return StaticUniverse(list(u[1]))
    flags = u[2] if len(u) > 2 else ''
    missing = pd.NaT if 'nat' in flags else None      # a missing entry date as None or as pandas' NaT
    zones = ['America/New_York', 'Asia/Tokyo', 'Europe/London', 'Australia/Sydney']
    # 'tz': the same entry instants, written in other time zones
    when = (lambda i, e: ts(e).tz_convert(zones[i % 4])) if 'tz' in flags else (lambda i, e: ts(e))
    if 'pydt' in flags:
        # the same instants as standard-library datetime objects (time-zone aware)
        when0 = when
        when = lambda i, e: when0(i, e).to_pydatetime()
    real = dict((a, (missing if e is None else when(i, e))) for i, (a, e) in enumerate(u[1]))
    if 'latemap' in flags:
        # built on a provisional map (nobody listed yet); the public asset_dates attribute is given the real map afterwards
        uni = DynamicUniverse(dict((a, None) for a in real))
        uni.asset_dates = real
        return uni
    return DynamicUniverse(real)


def handler(c):
    op = c['op']
    try:
        if op == 'sizer':
            stub = StubBroker(c['equity'], c.get('warm_fee', c['fee']))
            sizer = mk_sizer(c, stub)
            for wv in c.get('warmup_calls', []):
                stub.equity = c['equity'] * 3 + 1000.0          # and another equity, at the same timestamp
                # earlier sizings on the same sizer object (other asset sets): they must not influence this one
                try:
                    sizer(ts(0), dict((a, w) for a, w in wv))
                except Exception:
                    pass
            stub.equity = c['equity']
            stub.fee_model = mk_fee(c['fee'])
            if 'warm_param' in c:
                # the sizer was built (and used) with another buffer / leverage; its public attribute is set before this call
                if c['kind'] == 'long_only':
                    sizer.cash_buffer_percentage = c['param']
                else:
                    sizer.gross_leverage = c['param']
            r = sizer(ts(0), dict((a, w) for a, w in c['weights']))
            return ['ok', [[a, num(v['quantity'])] for a, v in r.items()], [type(v['quantity']).__name__ for v in r.values()]]
        if op == 'universe':
            u = mk_universe(c['universe'])
            return [list(u.get_assets(ts(t))) for t in c['times']]
        if op == 'optimiser':
            o = FixedWeightPortfolioOptimiser() if c['kind'] == 'fixed' else (EqualWeightPortfolioOptimiser(c['scale']) if len(c['weights']) % 2 == 0 else EqualWeightPortfolioOptimiser(scale=c['scale']))
            r = o(ts(0), dict((a, w) for a, w in c['weights']))
            return ['ok', [[a, num(w)] for a, w in r.items()]]
        if op == 'pcm':
            broker = StubBroker(c['equity'], c['fee'], held=c['held'])
            sizer = mk_sizer(c, broker)
            uni = StaticUniverse(list(c['universe']))
            if c.get('alpha_dynamic'):
                # the universe-driven alpha model over a dynamic universe of its own (the construction model's universe is wider)
                from qstrader.data.backtest_data_handler import BacktestDataHandler as _BDH
                kw_a = {'data_handler': _BDH(StaticUniverse(['EQ:NOT-LISTED']), data_sources=[])} if c.get('t', 0) % 2 == 0 else {}
                alpha = SingleSignalAlphaModel(mk_universe(['dynamic', c['alpha_dynamic']]), signal=c['signal'], **kw_a)
            else:
                alpha = FixedSignalsAlphaModel(dict((a, w) for a, w in c['alpha']))
            opt = (EqualWeightPortfolioOptimiser(c['opt'][1]) if c.get('t', 0) % 3 == 0 else EqualWeightPortfolioOptimiser(scale=c['opt'][1])) if c.get('opt') else FixedWeightPortfolioOptimiser()
            pcm = PortfolioConstructionModel(broker, 'p', uni, sizer, opt, alpha_model=alpha)
            stats = {'target_allocations': []}
            orders = pcm(ts(c.get('t', 0)), stats=stats)
            row = stats['target_allocations'][-1]
            return ['ok', [[k, num(v)] for k, v in row.items() if k != 'Date'],
                    [[o.asset, num(o.quantity)] for o in orders], sec(row['Date'])]
        if op == 'rebalance_seq':
            return rebalance_seq(c)
    except Exception as e:
        return errname(e)


def rebalance_seq(c):
    """real SimulatedBroker + real PCM + real sizer over several rebalances with price moves"""
    from qstrader.broker.simulated_broker import SimulatedBroker
    from qstrader.exchange.simulated_exchange import SimulatedExchange
    from qstrader.execution.order import Order
    rows = []
    for r in c['rounds']:
        for a, p in r['close']:
            rows.append([r['t_close'], a, p, p])
        for a, p in r['open']:
            rows.append([r['t_open'], a, p, p])
    for a, p in c['seed_prices']:
        rows.append([c['t_seed'], a, p, p])
    dh = StubDataHandler(rows)
    start = ts(c['start'])
    broker = SimulatedBroker(start, SimulatedExchange(start), dh, initial_funds=c['funds'], fee_model=mk_fee(c['fee']))
    if c.get('extra_portfolios', 0) >= 2:
        broker.create_portfolio('a0', 'earlier idle portfolio')
    broker.create_portfolio('p', 'n')
    broker.subscribe_funds_to_portfolio('p', c['funds'])
    if c.get('extra_portfolios', 0) >= 1:
        broker.create_portfolio('zz', 'later idle portfolio')
    # seed arbitrary holdings (long, short, assets outside any later universe)
    for a, q in c['seed']:
        broker.submit_order('p', Order(start, a, q))
    broker.update(ts(c['t_seed']))
    out = []

    def mk_seq_sizer():
        if c['kind'] == 'long_only':
            return DollarWeightedCashBufferedOrderSizer(broker, 'p', dh, cash_buffer_percentage=c['param'])
        return LongShortLeveragedOrderSizer(broker, 'p', dh, gross_leverage=c['param'])
    def mk_seq_opt():
        if c.get('opt_equal') is not None:
            return EqualWeightPortfolioOptimiser(scale=c['opt_equal'])
        return FixedWeightPortfolioOptimiser()
    persistent = None
    if c.get('persistent') and c['rounds']:
        # one universe object, one sizer and one construction model serve every rebalance, as in a trading system
        uni0 = StaticUniverse(list(c['rounds'][0]['universe']))
        sizer0 = mk_seq_sizer()
        if c.get('single_signal') is not None:
            alpha0 = SingleSignalAlphaModel(uni0, signal=c['single_signal'])
        else:
            alpha0 = FixedSignalsAlphaModel({})
        persistent = (uni0, sizer0, PortfolioConstructionModel(broker, 'p', uni0, sizer0, mk_seq_opt(),
                                                                alpha_model=alpha0))
    for r in c['rounds']:
        t = ts(r['t_close'])
        broker.update(t)
        held = [[a, num(v['quantity'])] for a, v in broker.get_portfolio_as_dict('p').items()]
        equity = num(broker.get_portfolio_total_equity('p'))
        if persistent is not None:
            _, sizer, pcm = persistent
            if c.get('single_signal') is None:
                pcm.alpha_model = None if r.get('no_alpha') else FixedSignalsAlphaModel(dict((a, w) for a, w in r.get('alpha_in', r['alpha'])))
        else:
            sizer = mk_seq_sizer()
            pcm = PortfolioConstructionModel(broker, 'p', StaticUniverse(list(r['universe'])), sizer,
                                             mk_seq_opt(),
                                             alpha_model=(None if r.get('no_alpha') else
                                                          FixedSignalsAlphaModel(dict((a, w) for a, w in r.get('alpha_in', r['alpha'])))))
        # a risk model that returns the weights it is given must change nothing
        pcm.risk_model = (lambda dt_, w_: w_) if r.get('risk_identity') else None
        if r.get('risk_drop') is not None:
            # a risk model that removes one asset from the weights (an exclusion list): it is then an asset the alpha is silent on
            pcm.risk_model = (lambda drop_: (lambda dt_, w_: dict((k_, v_) for k_, v_ in w_.items() if k_ != drop_)))(r['risk_drop'])
        stats = {'target_allocations': []}
        try:
            orders = pcm(t, stats=stats)
        except Exception as e:
            out.append({'held': held, 'equity': equity, 'err': type(e).__name__})
            break
        row = stats['target_allocations'][-1]
        alloc = [[k, num(v)] for k, v in row.items() if k != 'Date']
        try:
            target = [[a, num(v['quantity'])] for a, v in sizer(t, dict((k, v) for k, v in row.items() if k != 'Date')).items()]
        except Exception as e:
            target = ['err', type(e).__name__]
        olist = [[o.asset, num(o.quantity)] for o in orders]
        if c.get('via_handler'):
            # the orders travel through the real ExecutionHandler (market-order algorithm), built on the round's universe
            from qstrader.execution.execution_handler import ExecutionHandler
            from qstrader.execution.execution_algo.market_order import MarketOrderExecutionAlgorithm

            eh = ExecutionHandler(broker, 'p', StaticUniverse(list(r['universe'])), submit_orders=True,
                                  execution_algo=MarketOrderExecutionAlgorithm(), data_handler=dh)
            eh(t, orders)
        else:
            for o in orders:
                broker.submit_order('p', o)
        broker.update(ts(r['t_open']))
        after = [[a, num(v['quantity'])] for a, v in broker.get_portfolio_as_dict('p').items()]
        out.append({'held': held, 'equity': equity, 'alloc': alloc, 'orders': olist, 'target': target, 'after': after,
                    'date': sec(row['Date'])})
    return ['ok', out]


if __name__ == '__main__':
    main(handler)
