import os
import sys
sys.path.insert(0, os.path.dirname(os.path.abspath(__file__)))
from common import *  # noqa
import datetime

from qstrader.simulation.daily_bday import DailyBusinessDaySimulationEngine
from qstrader.system.rebalance.weekly import WeeklyRebalance
from qstrader.system.rebalance.daily import DailyRebalance
from qstrader.system.rebalance.end_of_month import EndOfMonthRebalance
from qstrader.system.rebalance.buy_and_hold import BuyAndHoldRebalance

EPOCH = datetime.date(1970, 1, 1)


def handler(c):
    k = c['kind']
    try:
        if k == 'sim':
            # 'naive': the same wall-clock instants handed over without a time zone (the clock stamps UTC itself)
            tsx = (lambda x: ts(x).tz_localize(None)) if c.get('naive') else ts
            # the switches as Python bools, numpy bools or 0/1 integers (all accepted, all mean the same)
            fk = c.get('flagkind', 'bool')
            conv = {'bool': bool, 'np': np.bool_, 'int': int}[fk]
            if c.get('built') is not None:
                # built with other switches; the public pre_market / post_market attributes are set to the wanted ones afterwards
                eng = DailyBusinessDaySimulationEngine(tsx(c['start']), tsx(c['stop']), pre_market=conv(c['built'][0]), post_market=conv(c['built'][1]))
                eng.pre_market = conv(c['pre'])
                eng.post_market = conv(c['post'])
            else:
                eng = DailyBusinessDaySimulationEngine(tsx(c['start']), tsx(c['stop']), pre_market=conv(c['pre']), post_market=conv(c['post']))
            walk = list(eng)
            if any(e.ts.tzinfo is None or e.ts.utcoffset().total_seconds() != 0 for e in walk):
                return ['ok', [['not-utc', str(e.ts)] for e in walk][:3]]
            first = [[sec(e.ts), e.event_type] for e in walk]
            again = [[sec(e.ts), e.event_type] for e in eng]        # the same engine object, iterated a second time
            if again != first:
                return ['ok', first, again]
            return ['ok', first]
        if k == 'sched':
            w = c['which']
            # 'naive': the same instants handed over without a time zone (the schedules stamp UTC themselves)
            tsx = (lambda x: ts(x).tz_localize(None)) if c.get('naive') else ts
            if c.get('other_first'):
                # a schedule of the same range with the OTHER market-time choice is built first in this process
                try:
                    if w == 'weekly':
                        WeeklyRebalance(tsx(c['start']), tsx(c['stop']), c['weekday'], pre_market=not c['pm']).rebalances
                    elif w == 'daily':
                        DailyRebalance(tsx(c['start']), tsx(c['stop']), pre_market=not c['pm']).rebalances
                    elif w == 'end_of_month':
                        EndOfMonthRebalance(tsx(c['start']), tsx(c['stop']), pre_market=not c['pm']).rebalances
                except Exception:
                    pass
            if w == 'weekly':
                r = WeeklyRebalance(tsx(c['start']), tsx(c['stop']), c['weekday'], pre_market=c['pm'])
            elif w == 'daily':
                r = DailyRebalance(tsx(c['start']), tsx(c['stop']), pre_market=c['pm'])
            elif w == 'end_of_month':
                r = EndOfMonthRebalance(tsx(c['start']), tsx(c['stop']), pre_market=c['pm'])
            else:
                r = BuyAndHoldRebalance(tsx(c['start']))
            out = ['ok', [sec(x) for x in r.rebalances]]
            if w != 'buy_and_hold' and any(x.tzinfo is None or x.utcoffset().total_seconds() != 0 for x in r.rebalances):
                out[1] = [['not-utc', str(x)] for x in r.rebalances][:3]
            if c.get('with_clock') and c['stop'] >= c['start']:
                eng = DailyBusinessDaySimulationEngine(ts(c['start']), ts(c['stop']), pre_market=False, post_market=False)
                n_first = len(list(eng))                                     # one full walk first (a count, a log ...)
                out.append([[sec(e.ts), e.event_type] for e in eng])         # the walk the schedule is matched against
                out.append(n_first)
            return out
        if k == 'sess_clock':
            from qstrader.trading.backtest import BacktestTradingSession
            from qstrader.asset.universe.static import StaticUniverse
            from qstrader.alpha_model.fixed_signals import FixedSignalsAlphaModel
            kw = {'rebalance_weekday': 'WED'} if c['which'] == 'weekly' else {}
            sess = BacktestTradingSession(ts(c['start']), ts(c['stop']), StaticUniverse(['EQ:A']), FixedSignalsAlphaModel({'EQ:A': 1.0}),
                                          rebalance=c['which'], long_only=True, cash_buffer_percentage=0.05,
                                          burn_in_dt=(None if c.get('burn') is None else ts(c['burn'])),
                                          data_handler=StubDataHandler([]), **kw)
            if c['pre'] or c['post']:
                # a session has no option for the bracket events: they are switched on on its clock before the run
                sess.sim_engine.pre_market = c['pre']
                sess.sim_engine.post_market = c['post']
            return ['ok', [[sec(e.ts), e.event_type] for e in sess.sim_engine]]
        if k == 'sess_sched':
            from qstrader.trading.backtest import BacktestTradingSession
            from qstrader.asset.universe.static import StaticUniverse
            from qstrader.alpha_model.fixed_signals import FixedSignalsAlphaModel
            kw = {'rebalance_weekday': c['weekday']} if c['which'] == 'weekly' else {}
            sess = BacktestTradingSession(ts(c['start']), ts(c['stop']), StaticUniverse(['EQ:A']), FixedSignalsAlphaModel({'EQ:A': 1.0}),
                                          rebalance=c['which'], long_only=True, cash_buffer_percentage=0.05,
                                          burn_in_dt=(None if c.get('burn') is None else ts(c['burn'])),
                                          data_handler=StubDataHandler([]), **kw)
            return ['ok', [sec(x) for x in sess.rebalance_schedule]]
        if k == 'civil':
            res = []
            for d in c['days']:
                x = EPOCH + datetime.timedelta(days=d)
                res.append([x.year, x.month, x.day, x.weekday(), x.year * 12 + x.month - 1, x.isocalendar()[1]])
            return res
    except Exception as e:
        return errname(e)


if __name__ == '__main__':
    main(handler)
