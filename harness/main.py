import argparse
import importlib
import os
import subprocess
import sys

ROOT = os.path.dirname(os.path.dirname(os.path.abspath(__file__)))


def main():
    ap = argparse.ArgumentParser()
    ap.add_argument('pid')
    ap.add_argument('--tier', default=os.environ.get('VERIF_TIER', 'quick'))
    ap.add_argument('--replay', default=None)
    a = ap.parse_args()
    seed = int(os.environ.get('VERIF_SEED', '0'))
    # make sure the Coq development and the extracted driver are built and current
    r = subprocess.run([os.path.join(ROOT, 'build.sh')], capture_output=True, text=True)
    if r.returncode != 0:
        print('HARNESS-ERROR build failed\n' + (r.stdout + r.stderr)[-3000:])
        sys.exit(2)
    mod = importlib.import_module('harness.props.' + a.pid.lower())
    from harness import engine
    sys.exit(engine.run_check(mod.PROP, tier=a.tier, seed=seed, replay=a.replay))


if __name__ == '__main__':
    main()
