"""Generators, model encoding, comparison and predicates for SimulatedBroker / Portfolio
operation sequences (shared by C01, C02, C03, C04, C05, C15)."""
from fractions import Fraction
from . import recase as rc
import math

from .engine import Judgement
from .numcmp import close, fr, near_half, near_zero_cmp, KNIFE

MON = 1578268800          # 2020-01-06 00:00:00 UTC, a Monday
DAY = 86400
OPEN, CLOSE = 52200, 75600
ASSETS = ['AAA', 'BBB', 'CCC', 'DDD']
PIDS = ['P1', 'P2', 'P3', 'P4']
STR_PIDS = PIDS
NUM_PIDS = ['1234', '77', '5', '900']


# ---------------------------------------------------------------- generators
def dy(rng, lo, hi, den):
    """dyadic (exact in binary64) number in [lo, hi] with denominator den (a power of two)"""
    return rng.randint(int(lo * den), int(hi * den)) / den


def gen_time(rng, t, mode):
    """next clock value >= t (mostly), mixing open / closed / boundary / weekend instants"""
    d = t // DAY
    r = rng.random()
    if mode == 'boundary' or r < 0.25:
        tod = rng.choice([OPEN - 1, OPEN, OPEN + 1, CLOSE - 1, CLOSE, CLOSE + 1, 0, DAY - 60])
        nd = d + rng.choice([0, 0, 1, 1, 2, 3])
        nt = nd * DAY + tod
    elif r < 0.75:
        nd = d + rng.choice([0, 0, 1, 1, 2])
        nt = nd * DAY + rng.randint(OPEN, CLOSE - 1)
    else:
        nd = d + rng.choice([0, 1, 2, 3])
        nt = nd * DAY + rng.randint(0, DAY - 1)
    if nt < t:
        nt = t + rng.choice([0, 1, 60, 3600])
    return nt


def gen_broker_case(rng, stream='valid', n_ops=None, exact=False, fee=None, npf=None,
                    malformed_rate=None, allow_backwards=True):
    """One operation sequence.  exact=True: all numbers small dyadics so binary64 is exact."""
    n_ops = n_ops or rng.randint(5, 60)
    npf = npf or rng.randint(1, 3)
    nas = rng.randint(1, 4)
    assets = ASSETS[:nas]
    if malformed_rate is None:
        malformed_rate = {'valid': 0.06, 'boundary': 0.1, 'malformed': 0.4}[stream]
    if fee is None:
        if rng.random() < 0.4:
            fee = ['zero']
        elif exact:
            fee = ['pct', rng.choice([0, 1 / 1024, 1 / 256, 1 / 64, 1 / 2, 1]), rng.choice([0, 1 / 512, 1 / 128, 1 / 4])]
        else:
            fee = ['pct', rng.choice([0.0, 0.001, 0.002, 0.0025, 0.01, 0.5, 1.0, rng.random()]),
                   rng.choice([0.0, 0.005, 0.0025, 0.1, rng.random() * 0.3])]
    if fee[0] == 'pct' and rng.random() < 0.06:
        # a rebate: a negative rate (the ledger must hold for any rates)
        fee = ['pct', (-1 / 1024 if exact else rng.choice([-0.0002, -0.003, -0.01])), fee[2] if rng.random() < 0.5 else 0.0]
    amt = (lambda lo, hi: dy(rng, lo, hi, 4)) if exact else (
        lambda lo, hi: rng.choice([round(rng.uniform(lo, hi), 2), round(rng.uniform(lo, hi), 3), rng.uniform(lo, hi)]))
    funds = amt(0, 200000) if rng.random() < 0.8 else 0.0
    if rng.random() < 0.03:
        funds = -amt(0.25, 1000)          # a broker cannot be created with negative funds
    start = MON + rng.choice([0, OPEN, 3 * 3600]) + DAY * rng.randint(0, 6)
    t = start
    price = {a: dy(rng, 5, 300, 8) for a in assets}
    # penny assets: considerations that round to zero whole currency units
    penny = set(a for a in assets if rng.random() < 0.12)
    for a in penny:
        price[a] = rng.choice([0.125, 0.25, 0.375]) if exact else rng.choice([0.0045, 0.04, 0.32, 0.3, 0.125, 0.49])
    quotes, ops = [], []
    quoted = set()
    master = Fraction(funds)
    pfcash = {}          # pid -> Fraction (transfer-only view) or None once fills happened
    created = []
    pending = {}
    PIDS = NUM_PIDS if rng.random() < 0.15 else STR_PIDS          # numeric-looking ids: '1234' is a portfolio, the int 1234 is not
    # the first portfolio stays idle (no transfer, no order): the others are validated after it
    idle_first = npf >= 2 and rng.random() < 0.2

    def active():
        return created[1:] if (idle_first and len(created) > 1) else created

    def add_quotes(tt, missing=None):
        for a in assets:
            if (tt, a) in quoted:
                continue
            quoted.add((tt, a))
            if a == missing:
                continue
            # random walk, strictly positive, bid != ask
            if a in penny:
                spread = 0.125 if exact else price[a] * rng.choice([0.05, 0.0625])
            elif exact:
                price[a] = max(0.5, price[a] + rng.randint(-16, 16) / 8)
                spread = rng.choice([0.125, 0.25, 0.5])
            else:
                price[a] = (price[a] * (1 + rng.choice([1, -1, 2]) * rng.choice([1e-6, 4e-6, 9e-6])) if rng.random() < 0.15
                            else max(0.5, price[a] * (1 + rng.uniform(-0.03, 0.03))))
                spread = rng.choice([0.01, 0.05, price[a] * 0.001])
            if rng.random() < 0.08:
                spread = -min(spread, price[a] / 2)          # a crossed quote: ask below bid
            quotes.append([tt, a, price[a], price[a] + spread])

    while len(ops) < n_ops:
        bad = rng.random() < malformed_rate
        r = rng.random()
        if bad:
            k = rng.choice(['negsub', 'negwd', 'overwd', 'negsubpf', 'negwdpf', 'oversubpf', 'overwdpf',
                            'unkpf_sub', 'unkpf_wd', 'unkpf_submit', 'dupcreate', 'badcur', 'unk_get',
                            'backupdate', 'noquote', 'nearwd', 'nearsubpf', 'nearwdpf'])
            # a request just above the balance (relative 1e-9 .. 5e-6, or a quarter unit): still to be refused
            near = lambda bal: (float(bal) + 0.25) if (exact or rng.random() < 0.3) else float(bal) * (1 + rng.choice([1e-9, 1e-7, 1e-6, 5e-6]))
            if k == 'nearwd' and master > 0:
                ops.append(['wdacct', near(master)])
            elif k == 'nearsubpf' and created and master > 0:
                ops.append(['subpf', rng.choice(created), near(master)])
            elif k == 'nearwdpf' and created:
                p = rng.choice(created)
                if pfcash[p] is not None and pfcash[p] > 0:
                    ops.append(['wdpf', p, near(pfcash[p])])
            if created and created[0].isdigit() and rng.random() < 0.5:
                p_ = ['int', rng.choice(created)]
                ops.append(rng.choice([['subpf', p_, amt(0, 10)], ['wdpf', p_, 0.0], ['submit', p_, rng.choice(assets), rng.randint(1, 50)],
                                       ['getpfcash', p_]]))
                continue
            if k == 'negsub':
                ops.append(['subacct', -amt(0.25, 1000)])
            elif k == 'negwd':
                ops.append(['wdacct', -amt(0.25, 1000)])
            elif k == 'overwd':
                ops.append(['wdacct', float(master) + amt(0.25, 1000)])
            elif k == 'negsubpf' and created:
                ops.append(['subpf', rng.choice(created), -amt(0.25, 1000)])
            elif k == 'negwdpf' and created:
                ops.append(['wdpf', rng.choice(created), -amt(0.25, 1000)])
            elif k == 'oversubpf' and created:
                ops.append(['subpf', rng.choice(created), float(master) + amt(0.25, 1000)])
            elif k == 'overwdpf' and created:
                p = rng.choice(created)
                ops.append(['wdpf', p, 1e6 + amt(0.25, 1000)])
            elif k == 'unkpf_sub':
                ops.append(['subpf', 'ZZ', amt(0, 10)])
            elif k == 'unkpf_wd':
                ops.append(['wdpf', 'ZZ', amt(0, 10)])
            elif k == 'unkpf_submit':
                ops.append(['submit', 'ZZ', rng.choice(assets), rng.randint(-50, 50)])
            elif k == 'dupcreate' and created:
                ops.append(['create', rng.choice(created)])
            elif k == 'badcur':
                ops.append(['getacctcash', 'XXX'])
            elif k == 'unk_get':
                ops.append([rng.choice(['getpfcash', 'getpftmv', 'getpfequity']), 'ZZ'])
            if idle_first and allow_backwards and t > start and rng.random() < 0.5:
                k = 'backupdate'
            if k == 'backupdate' and allow_backwards and t > start:
                tb = t - rng.choice([1, 60, 900, 3600, DAY])
                add_quotes(tb)
                ops.append(['update', tb])
            elif k == 'noquote' and created and stream == 'malformed':
                t = gen_time(rng, t, 'boundary' if stream == 'boundary' else 'mix')
                add_quotes(t, missing=rng.choice(assets))
                ops.append(['update', t])
            continue
        if len(created) < npf and (not created or r < 0.08):
            p = PIDS[len(created)]
            created.append(p)
            pfcash[p] = Fraction(0)
            ops.append(['create', p])
        elif r < 0.16:
            a = amt(0, 50000)
            if stream == 'boundary' and rng.random() < 0.3:
                a = 0.0
            master += Fraction(a)
            ops.append(['subacct', a])
        elif r < 0.20:
            a = float(master) if (stream == 'boundary' and rng.random() < 0.5) else float(master) * rng.random() * 0.3
            if exact:
                a = math.floor(a * 4) / 4
            if Fraction(a) <= master:
                master -= Fraction(a)
            ops.append(['wdacct', a])
        elif r < 0.34 and created:
            p = rng.choice(active())
            a = float(master) if (stream == 'boundary' and rng.random() < 0.5) else float(master) * rng.random() * 0.6
            if exact:
                a = math.floor(a * 4) / 4
            if Fraction(a) <= master:
                master -= Fraction(a)
                if pfcash[p] is not None:
                    pfcash[p] += Fraction(a)
            ops.append(['subpf', p, a])
        elif r < 0.40 and created:
            p = rng.choice(active())
            if pfcash[p] is not None:
                a = float(pfcash[p]) if (stream == 'boundary' and rng.random() < 0.5) else float(pfcash[p]) * rng.random() * 0.5
                if exact:
                    a = math.floor(a * 4) / 4
                if Fraction(a) <= pfcash[p]:
                    pfcash[p] -= Fraction(a)
                    master += Fraction(a)
            else:
                a = amt(0, 500)
                master = master  # unknown outcome; tracked value becomes a lower bound only
            ops.append(['wdpf', p, a])
        elif r < 0.66 and created:
            p = rng.choice(active())
            q = rng.choice([rng.randint(-200, 200), rng.randint(-5, 5), rng.randint(1, 300)])
            if q == 0 and rng.random() < 0.7:
                q = 1
            ops.append(['submit', p, rng.choice(assets), q] + ([rng.choice([1.25, -3.0, 0.5, 100.0, 0.0])] if rng.random() < 0.25 else []))
            pending[p] = True
        elif r < 0.92:
            t = gen_time(rng, t, 'boundary' if stream == 'boundary' else 'mix')
            add_quotes(t)
            ops.append(['update', t])
            for p in created:
                if pending.get(p):
                    pfcash[p] = None
        else:
            k = rng.choice(['getacctcash', 'getaccttmv', 'getacctequity', 'getpfcash', 'getpftmv', 'getpfequity', 'getacctcash_usd'])
            if k == 'getacctcash_usd':
                ops.append(['getacctcash', rng.choice(['USD', 'GBP', 'EUR'])])
            elif k.startswith('getpf'):
                if created:
                    ops.append([k, rng.choice(created)])
            else:
                ops.append([k])
    case = {'kind': 'broker', 'stream': stream + (':exact' if exact else ''),
            'cfg': {'start': start, 'base': (rng.choice(['usd', 'Usd', 'gbp', 'eur', 'Eur', 'UsD', 'XYZ', 'JPY', 'USDX']) if rng.random() < 0.04 else rng.choice(['USD', 'USD', 'GBP', 'EUR'])), 'funds': funds, 'fee': fee, 'pre': 1,
                    # the exchange object has its own start argument (the documented hours do not depend on it)
                    'exch_start': (start + rng.choice([86400, 10 * 86400, 400 * 86400, -86400, 3600]) if rng.random() < 0.3 else None),
                    # every order of the case carries the same caller-supplied order id
                    'dup_ids': rng.random() < 0.15,
                    # the fee model is assigned to the broker's public attribute after construction
                    'fee_late': rng.random() < 0.15,
                    # the documented slippage_model option is given an object (it is accepted and unused)
                    'slippage_probe': rng.random() < 0.1,
                    'qty_kind': rng.choice(['int', 'int', 'int', 'np', 'float'])},
            'quotes': quotes, 'ops': ops, 'exact': exact, 'assets': assets}
    if rng.random() < 0.12:
        case = rc.recase(case, rc.mapping(rng))          # symbols with lower-case letters
        case['stream'] += ':mixed-case-symbols'
    elif rng.random() < 0.06 and case['cfg']['base'] in ('USD', 'GBP', 'EUR'):
        case = rc.recase(case, {assets[0]: case['cfg']['base']})       # a ticker that reads like the account's currency code
        case['stream'] += ':currency-code-ticker'
    return case


def scale_of(case):
    s = abs(case['cfg']['funds']) + 1.0
    pmax = max([abs(q[3]) for q in case['quotes']] + [1.0])
    for op in case['ops']:
        if op[0] in ('subacct', 'wdacct'):
            s += abs(op[1])
        elif op[0] in ('subpf', 'wdpf'):
            s += abs(op[2])
        elif op[0] == 'submit':
            s += abs(op[3]) * pmax * 2
    return s


# ---------------------------------------------------------------- model encoding
def fee_val(f):
    if f[0] == 'zero':
        return ['zero']
    return ['pct', Fraction(f[1]), Fraction(f[2])]


def op_val(op):
    k = op[0]
    if len(op) > 1 and isinstance(op[1], list):
        # a portfolio id handed over as an int: the broker's table is keyed by strings, so it names no portfolio
        op = [op[0], 'no-such-portfolio'] + list(op[2:])
    if k in ('subacct', 'wdacct'):
        return [k, Fraction(op[1])]
    if k in ('subpf', 'wdpf'):
        return [k, op[1], Fraction(op[2])]
    if k == 'submit':
        return [k, op[1], op[2], int(op[3])]
    if k == 'update':
        return [k, int(op[1])]
    return list(op)


def broker_model_case(case):
    cfg = case['cfg']
    return ('broker_run', [[int(cfg['start']), cfg['base'], Fraction(cfg['funds']), fee_val(cfg['fee']), int(cfg.get('pre', 1))],
                           [[int(q[0]), q[1], Fraction(q[2]), Fraction(q[3])] for q in case['quotes']],
                           [op_val(o) for o in case['ops']]])


# ---------------------------------------------------------------- comparison
ALL_FIELDS = {'res', 'cash', 'hist', 'holdings', 'pnl', 'queues', 'fills', 'posfields', 'clocks', 'totals'}


def cent_knife(*xs):
    return any(x is not None and near_half(Fraction(x) * 100) for x in xs)


def cmp_event(me, ie, tol, unrounded, where, out, j):
    # [dt, kind, long, asset, qty, debit, credit, bal]
    if me[0] != ie[0] or me[1] != ie[1]:
        out.append('%s: event dt/type model=%s impl=%s' % (where, me[:2], ie[:2]))
        return
    if me[1] == 'asset_transaction':
        if bool(me[2]) != bool(ie[2]) or me[3].upper() != ie[3] or not close(me[4], ie[4], tol):
            out.append('%s: event description model=%s impl=%s' % (where, me[2:5], ie[2:5]))
    for k, name in ((5, 'debit'), (6, 'credit'), (7, 'balance')):
        if not close(me[k], ie[k], tol):
            fi = fr(ie[k])
            if fi is not None and abs(fi - me[k]) <= Fraction(1, 100) + tol and cent_knife(*unrounded):
                j.knife += 1
            else:
                out.append('%s: event %s model=%s impl=%s' % (where, name, float(me[k]), ie[k]))


def cmp_pf(mpf, ipf, pubpos, fields, tol, ww, out, j, amts):
    """one portfolio: model light snapshot vs implementation snapshot + public holdings view"""
    if 'clocks' in fields and mpf[0] != ipf[0]:
        out.append('%s: portfolio clock model=%s impl=%s' % (ww, mpf[0], ipf[0]))
    if 'cash' in fields and not close(mpf[1], ipf[1], tol):
        out.append('%s: cash model=%s impl=%s' % (ww, float(mpf[1]), ipf[1]))
    if 'hist' in fields:
        if mpf[3] != ipf[3]:
            out.append('%s: history length model=%s impl=%s' % (ww, mpf[3], ipf[3]))
        elif mpf[4] and ipf[4]:
            cmp_event(mpf[4][0], ipf[4][0], tol, amts, ww, out, j)
    if 'holdings' in fields:
        mh = [[p[0], p[1], p[10]] for p in mpf[2]]
        ih = [[p[0], p[1], p[2]] for p in pubpos]
        if [x[0] for x in mh] != [x[0] for x in ih]:
            out.append('%s: holdings keys model=%s impl=%s' % (ww, [x[0] for x in mh], [x[0] for x in ih]))
        else:
            for a, b in zip(mh, ih):
                if not close(a[1], b[1], tol) or not close(a[2], b[2], tol):
                    out.append('%s: holding %s qty/mv model=%s impl=%s' % (ww, a[0], [float(a[1]), float(a[2])], b[1:]))
        if not close(mpf[5], ipf[5], tol) or not close(mpf[6], ipf[6], tol):
            out.append('%s: tmv/equity model=%s impl=%s' % (ww, [float(mpf[5]), float(mpf[6])], ipf[5:7]))
    if 'pnl' in fields and [p[0] for p in mpf[2]] == [p[0] for p in pubpos]:
        for a, b in zip(mpf[2], pubpos):
            for km, ki, nm in ((11, 3, 'unrealised'), (12, 4, 'realised'), (13, 5, 'total')):
                if not close(a[km], b[ki], tol):
                    out.append('%s: %s %s_pnl model=%s impl=%s' % (ww, a[0], nm, float(a[km]), b[ki]))
        for km, nm in ((7, 'total_unrealised'), (8, 'total_realised'), (9, 'total_pnl')):
            if not close(mpf[km], ipf[km], tol):
                out.append('%s: %s model=%s impl=%s' % (ww, nm, float(mpf[km]), ipf[km]))
    if 'posfields' in fields and [p[0] for p in mpf[2]] == [p[0] for p in ipf[2]]:
        for a, b in zip(mpf[2], ipf[2]):
            for k in (1, 2, 4, 5, 6, 7, 8, 9, 14, 15):
                if b[k] is not None and not close(a[k], b[k], tol):
                    out.append('%s: position %s field %d model=%s impl=%s' % (ww, a[0], k, float(a[k]), b[k]))
            if 'clocks' in fields and b[3] is not None and a[3] != b[3]:
                out.append('%s: position %s clock model=%s impl=%s' % (ww, a[0], a[3], b[3]))


def compare_broker(case, impl, mod, fields, j):
    """Append model-vs-implementation differences on the selected observables to j.disagreements."""
    out = j.disagreements
    tol = Fraction(1, 10**9) * Fraction(max(1.0, scale_of(case)))
    if mod == ['BAD_INPUT'] or (isinstance(mod, list) and mod and mod[0] == 'BAD_INPUT'):
        out.append('model rejected the input encoding')
        return
    if impl['init'][0] == 'err' or mod[0][0] == 'err':
        mi = mod[0][1] if mod[0][0] == 'err' else 'ok'
        ii = impl['init'][1] if impl['init'][0] == 'err' else 'ok'
        if mi != ii:
            out.append('constructor: model=%s impl=%s' % (mi, ii))
        return
    msteps = mod[1]
    prev_m = None
    sticky_fill_amts = {}
    for n, (ms, st) in enumerate(zip(msteps, impl['steps'])):
        op = case['ops'][n]
        w = 'step %d %s' % (n, op)
        mres, meff, msnap = ms
        # knife edge: consideration rounding of a fill
        kn = False
        for e in meff:
            if e[0] == 'fill':
                tx = e[2]
                if near_half(tx[1] * tx[3]):
                    kn = True
        if kn:
            j.knife += 1
            return
        ires = st['res']
        if mres[0] == 'err' and mres[1] == 'OutOfModel':
            j.tags.append('out_of_model')
            return
        if mres[0] != ires[0] and prev_m is not None and op[0] in ('wdacct', 'subpf', 'wdpf'):
            # knife edge of the `amount > cash` guard: float cash and exact cash differ by a hair
            amt_ = Fraction(op[1] if op[0] == 'wdacct' else op[2])
            bal_ = [prev_m[1]] + [a[1][1] for a in prev_m[2] if op[0] == 'wdpf' and a[0] == op[1]]
            band = KNIFE * Fraction(max(1.0, scale_of(case)))
            if not case.get('exact') and any(abs(amt_ - b) <= band for b in bal_):
                j.knife += 1
                return
        prev_m = msnap
        if 'res' in fields:
            if mres[0] != ires[0] or (mres[0] == 'err' and mres[1] != ires[1]):
                out.append('%s: result model=%s impl=%s' % (w, mres[:3], ires))
                return
        if mres[0] == 'ok' and ires[0] == 'ok' and ('totals' in fields or not op[0].startswith('getacct') or op[0] == 'getacctcash'):
            mo, io = mres[1], ires[1]
            if len(mo) != len(io):
                out.append('%s: return shape model=%s impl=%s' % (w, mo, io))
            elif mo:
                if isinstance(mo[0], list):
                    md = sorted((k, v) for k, v in mo[0])
                    idd = sorted((k, v) for k, v in io[0])
                    if [k for k, _ in md] != [k for k, _ in idd]:
                        out.append('%s: dict keys model=%s impl=%s' % (w, [k for k, _ in md], [k for k, _ in idd]))
                    else:
                        for (k, mv), (_, iv) in zip(md, idd):
                            if not close(mv, iv, tol):
                                out.append('%s: dict[%s] model=%s impl=%s' % (w, k, float(mv), iv))
                elif not close(mo[0], io[0], tol):
                    out.append('%s: return value model=%s impl=%s' % (w, float(mo[0]), io[0]))
        isnap = st['snap']
        if 'clocks' in fields and msnap[0] != isnap[0]:
            out.append('%s: broker clock model=%s impl=%s' % (w, msnap[0], isnap[0]))
        if 'cash' in fields and not close(msnap[1], isnap[1], tol):
            out.append('%s: master cash model=%s impl=%s' % (w, float(msnap[1]), isnap[1]))
        if [a[0] for a in msnap[2]] != [a[0] for a in isnap[2]]:
            out.append('%s: portfolio ids model=%s impl=%s' % (w, [a[0] for a in msnap[2]], [a[0] for a in isnap[2]]))
            return
        if 'fills' in fields:
            mf = [[e[1]] + e[2] for e in meff if e[0] == 'fill']
            ifl = [[f[0]] + f[1] for f in st['fills']]
            if len(mf) != len(ifl):
                out.append('%s: number of fills model=%d impl=%d' % (w, len(mf), len(ifl)))
            else:
                for a, b in zip(mf, ifl):
                    # [pid, asset, qty, dt, price, comm, oid]
                    if a[0] != b[0] or a[1] != b[1] or a[3] != b[3] or (b[6] != -1 and a[6] != b[6]) or not close(a[2], b[2], tol) \
                            or not close(a[4], b[4], tol) or not close(a[5], b[5], tol):
                        out.append('%s: fill model=%s impl=%s' % (w, [a[0], a[1], float(a[2]), a[3], float(a[4]), float(a[5]), a[6]], b))
        for (pid, mpf, mq), (_, ipf, iq), pub in zip(msnap[2], isnap[2], st['pub']):
            ww = '%s pf %s' % (w, pid)
            if 'queues' in fields and any(e[0] == -1 for e in iq):
                mq = [[-1] + list(e[1:]) for e in mq]
            if 'queues' in fields and mq != iq:
                out.append('%s: queue model=%s impl=%s' % (ww, mq, iq))
            amts = [mpf[1]]
            if op[0] in ('subpf', 'wdpf'):
                amts.append(Fraction(op[2]))
            here = [e[2][1] * e[2][3] + e[2][4] for e in meff if e[0] == 'fill' and e[1] == pid]
            if here:
                sticky_fill_amts[pid] = here
            # the last history event is compared again at every later step: keep the unrounded amounts of this portfolio's most recent fills
            amts.extend(sticky_fill_amts.get(pid, []))
            if len(pub) == 2:
                out.append('%s: getters raised %s' % (ww, pub[1]))
                continue
            if 'cash' in fields and not close(mpf[1], pub[1], tol):
                out.append('%s: get_portfolio_cash_balance model=%s impl=%s' % (ww, float(mpf[1]), pub[1]))
            if 'holdings' in fields and (not close(mpf[5], pub[2], tol) or not close(mpf[6], pub[3], tol)):
                out.append('%s: tmv/equity getters model=%s impl=%s' % (ww, [float(mpf[5]), float(mpf[6])], pub[2:4]))
            cmp_pf(mpf, ipf, pub[4], fields, tol, ww, out, j, amts)
        if len(out) > 20:
            return
    if 'hist' in fields and len(mod) > 2:
        for (pid, mh), (_, ih) in zip(mod[2], impl['hist']):
            if len(mh) != len(ih):
                out.append('final history length pf %s model=%d impl=%d' % (pid, len(mh), len(ih)))
                continue
            for k, (me, ie) in enumerate(zip(mh, ih)):
                tmp = []
                jj = Judgement()
                cmp_event(me, ie, tol, [], 'final history pf %s #%d' % (pid, k), tmp, jj)
                # rounding knife edges were already classified step by step; only structural
                # differences matter here
                out.extend(t for t in tmp if 'dt/type' in t or 'description' in t)
        for name, res in impl.get('unknown_pid_probes', []):
            want = ['err', 'ValueError'] if name == 'get_portfolio_cash_balance' else ['err', 'KeyError']
            if res != want:
                out.append('%s for an unknown portfolio id: %s (the code base raises %s there)' % (name, res, want[1]))
        for (pid, n) in impl.get('dfrows', []):
            hl = dict((p, len(h)) for p, h in impl['hist'])
            if n != hl.get(pid):
                out.append('history_to_df rows for %s: %s vs history %s' % (pid, n, hl.get(pid)))


# ---------------------------------------------------------------- Portfolio-level sequences
def gen_portfolio_case(rng, stream='valid', n_ops=None, exact=False, real_qty=False):
    """Direct Portfolio operations with explicit timestamps."""
    n_ops = n_ops or rng.randint(3, 50)
    nas = rng.randint(1, 3)
    assets = ASSETS[:nas]
    bad_rate = {'valid': 0.05, 'boundary': 0.12, 'malformed': 0.4}[stream]
    block = (not real_qty) and rng.random() < 0.1
    blocknet = {}
    start = MON + DAY * rng.randint(0, 6) + rng.choice([0, OPEN])
    cash = dy(rng, 0, 100000, 4) if rng.random() < 0.8 else 0.0
    t = start
    price = {a: dy(rng, 5, 300, 8) for a in assets}
    ops = []
    tcash = Fraction(cash)
    known_cash = True
    for _ in range(n_ops):
        r = rng.random()
        t2 = t + rng.choice([0, 0, 1, 60, 3600, DAY])
        if exact:
            am = dy(rng, 0, 20000, 4)
        else:
            am = rng.choice([round(rng.uniform(0, 20000), 2), rng.uniform(0, 20000)])
        a = rng.choice(assets)
        if exact:
            price[a] = max(0.5, price[a] + rng.randint(-16, 16) / 8)
        elif rng.random() < 0.15:
            price[a] = price[a] * (1 + rng.choice([1, -1, 2, 3]) * rng.choice([1e-6, 4e-6, 1e-7, 9e-6]))     # a slowly drifting quote
        else:
            price[a] = max(0.5, price[a] * (1 + rng.uniform(-0.05, 0.05)))
        if rng.random() < bad_rate:
            k = rng.choice(['negsub', 'negwd', 'overwd', 'earlysub', 'earlywd', 'earlytxn', 'earlymark', 'negmark', 'zeromark'])
            tb = t - rng.choice([1, 60, DAY])
            if k == 'negsub':
                ops.append(['sub', t2, -am - 0.25])
            elif k == 'negwd':
                ops.append(['wd', t2, -am - 0.25])
            elif k == 'overwd':
                ops.append(['wd', t2, (float(tcash) if known_cash else 1e7) + am + 0.25])
            elif k == 'earlysub':
                ops.append(['sub', tb, am])
            elif k == 'earlywd':
                ops.append(['wd', tb, 0.0])
            elif k == 'earlytxn':
                ops.append(['txn', a, rng.randint(1, 50), tb, price[a], 0.0])
            elif k == 'earlymark':
                ops.append(['mark', a, price[a], tb])
            elif k == 'negmark':
                ops.append(['mark', a, -price[a], t2])
            else:
                ops.append(['mark', a, 0.0, t2])
            continue
        if r < 0.12:
            if stream == 'boundary' and rng.random() < 0.3:
                am = 0.0
            ops.append(['sub', t2, am])
            tcash += Fraction(am)
            t = t2
        elif r < 0.2:
            if known_cash:
                am = float(tcash) if (stream == 'boundary' and rng.random() < 0.5) else float(tcash) * rng.random() * 0.5
                if exact:
                    am = math.floor(am * 4) / 4
                if Fraction(am) <= tcash:
                    tcash -= Fraction(am)
            ops.append(['wd', t2, am])
            t = t2
        elif r < 0.7:
            if real_qty:
                q = rng.choice([rng.randint(-200, 200), dy(rng, 1, 200, 8), -dy(rng, 0.125, 200, 8), rng.uniform(1, 100), -rng.uniform(0.01, 100)])
                if exact and not float(q * 8).is_integer():
                    q = float(rng.randint(1, 100))
            else:
                q = rng.choice([rng.randint(-200, 200), rng.randint(-5, 5), rng.randint(1, 300)])
            if q == 0 and rng.random() < 0.8:
                q = 1
            if block:
                # block-sized positions cut back to a few units (never through zero), and heavy two-way turnover
                cur = blocknet.get(a, 0)
                if cur == 0:
                    q = rng.choice([1, -1]) * rng.choice([100000, 400000, 1000000, 250001])
                elif abs(cur) > 1000 and rng.random() < 0.6:
                    q = -(cur - (1 if cur > 0 else -1) * rng.randint(1, 5))
                else:
                    q = (1 if cur > 0 else -1) * rng.choice([100000, 999995, 50000])
                blocknet[a] = cur + q
            if exact:
                comm = rng.choice([0.0, dy(rng, 0, 50, 8)])
            else:
                comm = rng.choice([0.0, round(rng.uniform(0, 50), 2), rng.uniform(0, 50)])
            if rng.random() < 0.12:
                comm = -comm          # a rebate
            # (rarely) a fill at a price of exactly zero - bonus shares, only a fee is paid: an opening fill is not price-checked
            ops.append(['txn', a, q, t2, (0.0 if rng.random() < 0.04 else price[a]), comm])
            known_cash = False
            t = t2
        else:
            ops.append(['mark', a, price[a], t2])
    case = {'kind': 'portfolio', 'stream': stream + (':exact' if exact else ''), 'start': start, 'cash': cash,
            'ops': ops, 'exact': exact, 'tzmix': rng.random() < 0.2}
    if rng.random() < 0.12:
        case = rc.recase(case, rc.mapping(rng))
        case['stream'] += ':mixed-case-symbols'
    elif rng.random() < 0.06:
        case = rc.recase(case, {assets[0]: 'USD'})       # a ticker that reads like the portfolio's (default) currency code
        case['stream'] += ':currency-code-ticker'
    return case


def pscale_of(case):
    s = abs(case['cash']) + 1.0
    for op in case['ops']:
        if op[0] in ('sub', 'wd'):
            s += abs(op[2])
        elif op[0] == 'txn':
            s += abs(op[2] * op[4]) + abs(op[5])
        elif op[0] == 'mark':
            s += abs(op[2]) * 300
    return s


def portfolio_model_case(case):
    ops = []
    for op in case['ops']:
        if op[0] in ('sub', 'wd'):
            ops.append([op[0], int(op[1]), Fraction(op[2])])
        elif op[0] == 'txn':
            ops.append(['txn', op[1], Fraction(op[2]), int(op[3]), Fraction(op[4]), Fraction(op[5])])
        else:
            ops.append(['mark', op[1], Fraction(op[2]), int(op[3])])
    return ('portfolio_run', [int(case['start']), Fraction(case['cash']), ops])


def compare_portfolio(case, impl, mod, fields, j):
    out = j.disagreements
    tol = Fraction(1, 10**9) * Fraction(max(1.0, pscale_of(case)))
    if isinstance(mod, list) and mod and mod[0] == 'BAD_INPUT':
        out.append('model rejected the input encoding')
        return
    prev_cash = Fraction(case['cash'])
    for n, (ms, st) in enumerate(zip(mod[0], impl['steps'])):
        op = case['ops'][n]
        w = 'step %d %s' % (n, op)
        mres, mpf = ms
        ires = st['res']
        if mres[0] != ires[0] and op[0] == 'wd' and prev_cash is not None and not case.get('exact') and \
                abs(Fraction(op[2]) - prev_cash) <= KNIFE * Fraction(max(1.0, pscale_of(case))):
            j.knife += 1
            return
        prev_cash = mpf[1]
        if 'res' in fields and (mres[0] != ires[0] or (mres[0] == 'err' and mres[1] != ires[1])):
            out.append('%s: result model=%s impl=%s' % (w, mres[:3], ires))
            return
        amts = [mpf[1]]
        if op[0] in ('sub', 'wd'):
            amts.append(Fraction(op[2]))
        elif op[0] == 'txn':
            amts.append(Fraction(op[2]) * Fraction(op[4]) + Fraction(op[5]))
        cmp_pf(mpf, st['snap'], st['pub'], fields, tol, w, out, j, amts)
        if len(out) > 20:
            return
    if 'hist' in fields and len(mod[1]) != len(impl['hist']):
        out.append('final history length model=%d impl=%d' % (len(mod[1]), len(impl['hist'])))
