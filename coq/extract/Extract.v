From Coq Require Import Extraction ExtrOcamlBasic.
From QS Require Import theories.Val theories.Entry.
Extraction Language OCaml.
Extraction "qsmodel.ml" dispatch val_eqb.
