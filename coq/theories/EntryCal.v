From Coq Require Import ZArith QArith String Bool List.
From QS Require Import theories.Val theories.Position theories.Exchange theories.Calendar theories.Clock
  theories.Schedule theories.EntryBroker.
Import ListNotations.
Open Scope Z_scope.
Open Scope string_scope.

Definition enc_ekind (k : ekind) : val :=
  VS (match k with PreMarket => "pre_market" | MarketOpen => "market_open"
               | MarketClose => "market_close" | PostMarket => "post_market" end).

(** "sim_events": [start; stop; pre; post] *)
Definition entry_sim_events (v : val) : val :=
  match v with
  | VL [VZ start; VZ stop; pre; post] =>
      do pre <- dbool pre; do post <- dbool post;
      enc_res (vlist (fun e => VL [VZ (fst e); enc_ekind (snd e)])) (sim_events start stop pre post)
  | _ => bad_input
  end.

(** "schedule": [kind; start; stop; weekday; pre_market] *)
Definition entry_schedule (v : val) : val :=
  match v with
  | VL [VS "weekly"; VZ start; VZ stop; VS wd; pm] =>
      do pm <- dbool pm; enc_res (vlist VZ) (weekly start stop wd pm)
  | VL [VS "daily"; VZ start; VZ stop; pm] => do pm <- dbool pm; VL [VS "ok"; vlist VZ (daily start stop pm)]
  | VL [VS "end_of_month"; VZ start; VZ stop; pm] => do pm <- dbool pm; VL [VS "ok"; vlist VZ (end_of_month start stop pm)]
  | VL [VS "buy_and_hold"; VZ start] => VL [VS "ok"; vlist VZ (buy_and_hold start)]
  | _ => bad_input
  end.

(** "civil": list of day numbers -> [(y, m, d, weekday, month_index, iso_week)] *)
Definition entry_civil (v : val) : val :=
  do ds <- dlist dZ v;
  vlist (fun d => VL [VZ (year_of d); VZ (month_of d); VZ (dom_of d); VZ (weekday d); VZ (month_index d); VZ (iso_week d)]) ds.
