(** universes, alpha models, optimisers and qstrader/portcon/pcm.py *)
From Coq Require Import ZArith QArith Qround Qabs String Bool List.
From QS Require Import theories.Num theories.Position theories.Portfolio theories.Fees theories.Sizer theories.Broker.
Import ListNotations.
Open Scope Q_scope.

(** * Universes *)
Inductive universe :=
| StaticU (assets : list string)
| DynamicU (entries : list (string * option Z)).     (* asset -> entry time, dict order *)

Definition universe_assets (u : universe) (t : Z) : list string :=
  match u with
  | StaticU l => l
  | DynamicU es =>
      map fst (filter (fun ae => match snd ae with Some e => (e <=? t)%Z | None => false end) es)
  end.

(** * Alpha models *)
Inductive alpha :=
| FixedAlpha (w : weights)
| SingleSignal (u : universe) (signal : Q).

Definition alpha_weights (a : alpha) (t : Z) : weights :=
  match a with
  | FixedAlpha w => w
  | SingleSignal u s => map (fun x => (x, s)) (universe_assets u t)
  end.

(** * Optimisers *)
Definition opt_fixed (w : weights) : weights := w.
Definition opt_equal (scale : Q) (w : weights) : weights :=
  let n := inject_Z (Z.of_nat (length w)) in
  map (fun aw => (fst aw, scale * (1 / n))) w.

(** * Portfolio construction *)
Fixpoint dedup (l : list string) : list string :=
  match l with
  | [] => []
  | x :: r => if existsb (String.eqb x) r then dedup r else x :: dedup r
  end.
(** [sorted(list(set(held).union(set(universe))))] *)
Definition full_assets (held univ : list string) : list string :=
  map fst (sort_by_key (map (fun a => (a, tt)) (dedup (held ++ univ)))).

Fixpoint w_find (a : string) (w : weights) : option Q :=
  match w with [] => None | (b, x) :: r => if String.eqb a b then Some x else w_find a r end.
(** [{**zero, **optimised}]: keys of [zero] first (values overridden), then the new keys *)
Definition merge_weights (zero opt : weights) : weights :=
  map (fun aw => (fst aw, match w_find (fst aw) opt with Some x => x | None => snd aw end)) zero ++
  filter (fun aw => match w_find (fst aw) zero with Some _ => false | None => true end) opt.

Fixpoint z_find (a : string) (l : list (string * Z)) : Z :=
  match l with [] => 0%Z | (b, x) :: r => if String.eqb a b then x else z_find a r end.

(** [_generate_rebalance_orders]: target - current for every target asset, ascending, non-zero *)
Definition rebalance_orders (target current : list (string * Z)) : list (string * Z) :=
  filter (fun aq => negb (Z.eqb (snd aq) 0))
         (sort_by_key (map (fun aq => (fst aq, (snd aq - z_find (fst aq) current)%Z)) target)).

Record pcm_out := mkPcm { pc_alloc : weights; pc_target : list (string * Z); pc_orders : list (string * Z) }.

Definition pcm_call (sizer : weights -> res (list (string * Z)))
           (held : list (string * Z)) (univ : list string) (alpha_w : weights) : res pcm_out :=
  let fa := full_assets (map fst held) univ in
  let fw := merge_weights (map (fun a => (a, 0)) fa) (opt_fixed alpha_w) in
  match sizer fw with
  | Err e => Err e
  | Ok target => Ok (mkPcm fw target (rebalance_orders target held))
  end.

(** * Any optimiser.  As in [PortfolioConstructionModel.__call__], the optimiser is given the alpha weights ONLY; the zero
    vector over universe + holdings is merged in afterwards.  (The equal-weight optimiser divides by the number of
    weights it is given: an empty alpha dictionary is a ZeroDivisionError in the code and outside this model.) *)
Inductive optimiser := OptFixed | OptEqual (scale : Q).
Definition optimise (o : optimiser) (w : weights) : weights :=
  match o with OptFixed => opt_fixed w | OptEqual s => opt_equal s w end.

Definition pcm_call_opt (sizer : weights -> res (list (string * Z))) (o : optimiser)
           (held : list (string * Z)) (univ : list string) (alpha_w : weights) : res pcm_out :=
  match o, alpha_w with
  | OptEqual _, [] => Err BadInput
  | _, _ =>
    let fa := full_assets (map fst held) univ in
    let fw := merge_weights (map (fun a => (a, 0)) fa) (optimise o alpha_w) in
    match sizer fw with
    | Err e => Err e
    | Ok target => Ok (mkPcm fw target (rebalance_orders target held))
    end
  end.
