(** Numeric primitives of the Python code, over exact rationals. *)
From Coq Require Import ZArith QArith Qround Qabs Bool.
Open Scope Q_scope.

(** Reduced arithmetic for the executable paths (keeps numerators small). *)
Definition qadd (a b : Q) : Q := Qred (a + b).
Definition qsub (a b : Q) : Q := Qred (a - b).
Definition qmul (a b : Q) : Q := Qred (a * b).
Definition qdiv (a b : Q) : Q := Qred (a / b).
Definition qneg (a : Q) : Q := Qred (- a).
Definition qabs (a : Q) : Q := Qabs a.
Definition qz (z : Z) : Q := inject_Z z.

Definition qltb (a b : Q) : bool := negb (Qle_bool b a).
Definition qleb (a b : Q) : bool := Qle_bool a b.
Definition qeqb (a b : Q) : bool := Qeq_bool a b.

(** [int(x)] on a float: truncation toward zero. *)
Definition qtrunc (x : Q) : Z := Z.quot (Qnum x) (Zpos (Qden x)).

(** Python 3 [round(x)] : nearest integer, ties to even (on the exact value). *)
Definition round_he (x : Q) : Z :=
  let f := Qfloor x in
  let r := x - inject_Z f in           (* 0 <= r < 1 *)
  match Qcompare r (1 # 2) with
  | Lt => f
  | Gt => (f + 1)%Z
  | Eq => if Z.even f then f else (f + 1)%Z
  end.

(** Python 3 [round(x, 2)] (exact decimal rounding, ties to even). *)
Definition round2 (x : Q) : Q := Qred (inject_Z (round_he (x * 100)) / 100).

(** [np.isclose(x, 0.0)] : |x| <= atol + rtol * 0, where atol is the binary64 number nearest
    to 1e-8, i.e. 3022314549036573 / 2^78 (slightly above 10^-8). *)
Definition atol8 : Q := 3022314549036573 # 302231454903657293676544.
Definition isclose0 (x : Q) : bool := Qle_bool (Qabs x) atol8.

(** [np.copysign(1, x)] for a non-NaN x that is not -0.0. *)
Definition sign1 (x : Q) : Z := if Qle_bool 0 x then 1%Z else (-1)%Z.

(** [np.floor(x) if x >= 0 else np.ceil(x)] *)
Definition trunc_q (x : Q) : Z := if Qle_bool 0 x then Qfloor x else Qceiling x.
