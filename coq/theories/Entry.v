(** Single dispatch point: the extracted driver and the in-Coq cross-check both call this. *)
From Coq Require Import ZArith QArith String List.
From QS Require Import theories.Val theories.EntryBroker theories.EntryCal theories.EntryPcm theories.EntryData theories.EntrySignals theories.EntryStats theories.EntryBacktest.
Import ListNotations.
Open Scope string_scope.

Definition dispatch1 (name : string) (v : val) : val :=
  if String.eqb name "broker_run" then entry_broker_run v
  else if String.eqb name "portfolio_run" then entry_portfolio_run v
  else if String.eqb name "is_open" then entry_is_open v
  else if String.eqb name "num" then entry_num v
  else if String.eqb name "fee" then entry_fee v
  else if String.eqb name "sim_events" then entry_sim_events v
  else if String.eqb name "schedule" then entry_schedule v
  else if String.eqb name "civil" then entry_civil v
  else if String.eqb name "sizer" then entry_sizer v
  else if String.eqb name "universe" then entry_universe v
  else if String.eqb name "optimiser" then entry_optimiser v
  else if String.eqb name "pcm" then entry_pcm v
  else if String.eqb name "pcm_seq" then entry_pcm_seq v
  else if String.eqb name "pcm_opt_seq" then entry_pcm_opt_seq v
  else if String.eqb name "data" then entry_data v
  else if String.eqb name "data_multi" then entry_data_multi v
  else if String.eqb name "signals" then entry_signals v
  else if String.eqb name "stats" then entry_stats v
  else if String.eqb name "session" then entry_session v
  else if String.eqb name "spec" then entry_spec v
  else if String.eqb name "spec_rows" then entry_spec_rows v
  else if String.eqb name "alloc_table" then entry_alloc_table v
  else VL [VS "UNKNOWN_ENTRY"].

(** "multi": [[name; arg]; ...] -> [result; ...] *)
Definition dispatch (name : string) (v : val) : val :=
  if String.eqb name "multi" then
    match v with
    | VL l => VL (map (fun x => match x with VL [VS n; a] => dispatch1 n a | _ => VL [VS "BAD_INPUT"] end) l)
    | _ => VL [VS "BAD_INPUT"]
    end
  else dispatch1 name v.
