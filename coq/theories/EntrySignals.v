From Coq Require Import ZArith QArith String Bool List.
From QS Require Import theories.Val theories.Num theories.Signals theories.EntryBroker.
Import ListNotations.
Open Scope string_scope.

(** "signals": [assets; lookbacks; appends] where appends = [(asset, price)];
    after every append, for every asset and lookback N:
    [momentum over the (N+1)-window; sma over the N-window; 252 * popvar of returns over the (N+1)-window] *)
Definition sig_report (assets : list string) (lbs : list nat) (bm bs : buffers) : val :=
  vlist (fun a => vlist (fun n =>
    let wm := match buf_find a (S n) bm with Some w => w | None => [] end in
    let ws := match buf_find a n bs with Some w => w | None => [] end in
    VL [vq (momentum wm); vopt vq (sma ws); vq (vol_sq wm)]) lbs) assets.

Fixpoint sig_run (assets : list string) (lbs : list nat) (bm bs : buffers) (apps : list (string * Q)) : list val :=
  match apps with
  | [] => []
  | (a, x) :: r =>
      let bm' := buf_append (map S lbs) bm a x in
      let bs' := buf_append lbs bs a x in
      sig_report assets lbs bm' bs' :: sig_run assets lbs bm' bs' r
  end.

Definition entry_signals (v : val) : val :=
  match v with
  | VL [assets; lbs; apps] =>
      do assets <- dlist dS assets; do lbs <- dlist dZ lbs; do apps <- dlist (dpair dS dQ) apps;
      let lbs := map Z.to_nat lbs in
      let init (ls : list nat) := flat_map (fun a => map (fun n => ((a, n), @nil Q)) ls) assets in
      VL (sig_run assets lbs (init (map S lbs)) (init lbs) apps)
  | _ => bad_input
  end.
