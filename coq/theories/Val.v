(** Universal value type used at the boundary between the Coq model and the
    correspondence harness.  Every model entry point is [val -> val]; the same
    term is (a) printed as an s-expression for the extracted OCaml driver and
    (b) printed as a Coq term for the in-Coq [vm_compute] cross-check. *)
From Coq Require Import ZArith QArith List String Bool.
Import ListNotations.
Open Scope Z_scope.

Inductive val : Type :=
| VZ (z : Z)
| VQ (q : Q)
| VS (s : string)
| VL (l : list val).

Fixpoint val_eqb (a b : val) {struct a} : bool :=
  match a, b with
  | VZ x, VZ y => Z.eqb x y
  | VQ x, VQ y => Qeq_bool x y
  | VS x, VS y => String.eqb x y
  | VL xs, VL ys =>
      (fix go (xs ys : list val) {struct xs} : bool :=
         match xs, ys with
         | [], [] => true
         | x :: xs', y :: ys' => val_eqb x y && go xs' ys'
         | _, _ => false
         end) xs ys
  | _, _ => false
  end.

(** Encoders *)
Definition vbool (b : bool) : val := VZ (if b then 1 else 0).
Definition vopt {A} (f : A -> val) (o : option A) : val :=
  match o with None => VL [] | Some a => VL [f a] end.
Definition vlist {A} (f : A -> val) (l : list A) : val := VL (map f l).
Definition vpair {A B} (f : A -> val) (g : B -> val) (p : A * B) : val :=
  VL [f (fst p); g (snd p)].
Definition vq (q : Q) : val := VQ (Qred q).
Definition vtag (t : string) (args : list val) : val := VL (VS t :: args).

(** Decoders: total, [None] on a malformed value. *)
Definition dZ (v : val) : option Z := match v with VZ z => Some z | _ => None end.
Definition dQ (v : val) : option Q :=
  match v with VQ q => Some q | VZ z => Some (inject_Z z) | _ => None end.
Definition dS (v : val) : option string := match v with VS s => Some s | _ => None end.
Definition dbool (v : val) : option bool :=
  match v with VZ 0 => Some false | VZ 1 => Some true | _ => None end.
Definition dL (v : val) : option (list val) := match v with VL l => Some l | _ => None end.

Fixpoint dmap {A} (f : val -> option A) (l : list val) : option (list A) :=
  match l with
  | [] => Some []
  | x :: xs =>
      match f x, dmap f xs with
      | Some a, Some r => Some (a :: r)
      | _, _ => None
      end
  end.
Definition dlist {A} (f : val -> option A) (v : val) : option (list A) :=
  match v with VL l => dmap f l | _ => None end.
Definition dopt {A} (f : val -> option A) (v : val) : option (option A) :=
  match v with
  | VL [] => Some None
  | VL [x] => match f x with Some a => Some (Some a) | None => None end
  | _ => None
  end.
Definition dpair {A B} (f : val -> option A) (g : val -> option B) (v : val) : option (A * B) :=
  match v with
  | VL [a; b] => match f a, g b with Some x, Some y => Some (x, y) | _, _ => None end
  | _ => None
  end.

Definition bad_input : val := VL [VS "BAD_INPUT"].

Notation "'do' x <- e ; k" := (match e with Some x => k | None => bad_input end)
  (at level 200, x pattern, e at level 100, k at level 200, only parsing).
