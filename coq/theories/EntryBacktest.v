From Coq Require Import ZArith QArith String Bool List.
From QS Require Import theories.Val theories.Num theories.Position theories.Portfolio theories.Fees
  theories.Broker theories.Clock theories.Schedule theories.Sizer theories.PCM theories.Signals
  theories.Backtest theories.Spec theories.AllocTable theories.EntryBroker theories.EntryPcm.
Import ListNotations.
Open Scope string_scope.

Definition dec_alpha (v : val) : option alpha_kind :=
  match v with
  | VL [VS "fixed"; w] => option_map AFixed (dec_weights w)
  | VL [VS "single"; q] => option_map ASingle (dQ q)
  | VL [VS "topn"; VZ lb; VZ n] => Some (ATopN (Z.to_nat lb) (Z.to_nat n))
  | VL [VS "smatrend"; VZ lb] => Some (ASmaTrend (Z.to_nat lb))
  | _ => None
  end.
Definition dec_rebal (v : val) : option rebal :=
  match v with
  | VL [VS "weekly"; VS wd] => Some (RWeekly wd)
  | VL [VS "daily"] => Some RDaily
  | VL [VS "eom"] => Some REom
  | VL [VS "bah"] => Some RBah
  | _ => None
  end.

Definition dec_config (v : val) : option config :=
  match v with
  | VL [VZ start; VZ stop; u; a; cash; r; lo; param; fee; burn; lbs] =>
      match dec_universe u, dec_alpha a, dQ cash, dec_rebal r, dbool lo, dQ param, dec_fee fee, dopt dZ burn,
            dopt (dlist dZ) lbs with
      | Some u, Some a, Some cash, Some r, Some lo, Some param, Some fee, Some burn, Some lbs =>
          Some (mkCfg start stop u a cash r lo param fee burn (option_map (map Z.to_nat) lbs))
      | _, _, _, _, _, _, _, _, _ => None
      end
  | _ => None
  end.

(** market table: [(t, [(asset, price)])] *)
Definition dec_market (v : val) : option (list (Z * snapshot)) := dlist (dpair dZ (dlist (dpair dS dQ))) v.
Fixpoint market_lookup (tbl : list (Z * snapshot)) (t : Z) : snapshot :=
  match tbl with [] => [] | (u, s) :: r => if Z.eqb t u then s else market_lookup r t end.

Definition enc_output (o : Z * output) : val :=
  match snd o with
  | OFill tx => VL [VZ (fst o); VS "fill"; VL [VS (t_asset tx); vq (t_qty tx); vq (t_price tx); vq (t_comm tx)]]
  | OAlloc w => VL [VZ (fst o); VS "alloc"; enc_weights w]
  | OEquity q => VL [VZ (fst o); VS "equity"; vq q]
  | OErr e => VL [VZ (fst o); VS "error"; enc_err e]
  end.

(** "session": [config; market] *)
Definition entry_session (v : val) : val :=
  match v with
  | VL [cfg; mkt] =>
      do cfg <- dec_config cfg; do mkt <- dec_market mkt;
      enc_res (vlist enc_output) (run cfg (market_lookup mkt))
  | _ => bad_input
  end.

(** "spec": [start; stop; universe; weights; cash; rebal; long_only; param; fee; burn; market] *)
Definition enc_sfill (f : sfill) : val :=
  match f with SFill t a q p c => VL [VZ t; VS a; VZ q; vq p; vq c] end.
Definition entry_spec (v : val) : val :=
  match v with
  | VL [VZ start; VZ stop; univ; w; cash; r; lo; param; fee; burn; mkt] =>
      do univ <- dlist dS univ; do w <- dec_weights w; do cash <- dQ cash; do r <- dec_rebal r;
      do lo <- dbool lo; do param <- dQ param; do fee <- dec_fee fee; do burn <- dopt dZ burn;
      do mkt <- dec_market mkt;
      let sched := match r with
                   | RWeekly wd => match weekly start stop wd false with Ok l => l | Err _ => [] end
                   | RDaily => daily start stop false
                   | REom => end_of_month start stop false
                   | RBah => buy_and_hold start
                   end in
      match spec_run (mkSpec start stop univ w cash sched lo param fee burn) (market_lookup mkt) with
      | None => VL [VS "none"]
      | Some (st, days) =>
          VL [VS "ok"; vq (st_cash st); enc_qtys (st_hold st); enc_qtys (st_pending st);
              vlist (fun d => VL [vlist enc_sfill (d_fills d);
                                  vopt (fun e => VL [VZ (fst e); vq (snd e)]) (d_equity d)]) days]
      end
  | _ => bad_input
  end.

(** "spec_rows": [start; stop; cash; rebal; long_only; param; fee; burn; rows; market] - the rules driven by
    recorded target-allocation rows *)
Definition entry_spec_rows (v : val) : val :=
  match v with
  | VL [VZ start; VZ stop; cash; r; lo; param; fee; burn; rws; mkt] =>
      do cash <- dQ cash; do r <- dec_rebal r;
      do lo <- dbool lo; do param <- dQ param; do fee <- dec_fee fee; do burn <- dopt dZ burn;
      do rws <- dlist dec_weights rws;
      do mkt <- dec_market mkt;
      let sched := match r with
                   | RWeekly wd => match weekly start stop wd false with Ok l => l | Err _ => [] end
                   | RDaily => daily start stop false
                   | REom => end_of_month start stop false
                   | RBah => buy_and_hold start
                   end in
      match spec_run_rows (mkSpec start stop [] [] cash sched lo param fee burn) (market_lookup mkt) rws with
      | None => VL [VS "none"]
      | Some (st, rest, days) =>
          VL [VS "ok"; vq (st_cash st); enc_qtys (st_hold st); enc_qtys (st_pending st);
              vlist (fun d => VL [vlist enc_sfill (d_fills d);
                                  vopt (fun e => VL [VZ (fst e); vq (snd e)]) (d_equity d)]) days;
              VZ (Z.of_nat (length rest))]
      end
  | _ => bad_input
  end.

(** "alloc_table": [rows = [[t; weights]; ...]; equity days; burn-in?] -> [columns; [[day; row?]; ...]] *)
Definition entry_alloc_table (v : val) : val :=
  match v with
  | VL [rows; eq; burn] =>
      do rows <- dlist (dpair dZ dec_weights) rows; do eq <- dlist dZ eq; do burn <- dopt dZ burn;
      VL [vlist VS (alloc_columns rows);
          vlist (fun r => VL [VZ (fst r); vopt enc_weights (snd r)]) (alloc_table rows eq burn)]
  | _ => bad_input
  end.
