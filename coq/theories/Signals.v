(** qstrader/signals/{buffer,signal,momentum,sma,vol}.py over exact rationals. *)
From Coq Require Import ZArith QArith String Bool List.
From QS Require Import theories.Num theories.Portfolio.
Import ListNotations.
Open Scope Q_scope.

(** [collections.deque(maxlen=n)] *)
Definition lastn {A} (n : nat) (l : list A) : list A := skipn (length l - n) l.
Definition push (n : nat) (buf : list Q) (x : Q) : list Q := lastn n (buf ++ [x]).

(** AssetPriceBuffers: one bounded window per (asset, lookback) *)
Definition buffers := list ((string * nat) * list Q).

Fixpoint buf_find (a : string) (n : nat) (bs : buffers) : option (list Q) :=
  match bs with
  | [] => None
  | ((b, m), w) :: r => if String.eqb a b && Nat.eqb n m then Some w else buf_find a n r
  end.

(** [append(asset, price)]: windows for the asset are created on first use, then every
    lookback's window receives the price *)
Definition buf_has (a : string) (bs : buffers) : bool :=
  existsb (fun e => String.eqb a (fst (fst e))) bs.
Definition buf_append (lookbacks : list nat) (bs : buffers) (a : string) (x : Q) : buffers :=
  let bs1 := if buf_has a bs then bs else bs ++ map (fun n => ((a, n), [])) lookbacks in
  map (fun e => if String.eqb a (fst (fst e)) then (fst e, push (snd (fst e)) (snd e) x) else e) bs1.

(** simple returns of consecutive prices ([pct_change().dropna()]) *)
Fixpoint returns (w : list Q) : list Q :=
  match w with
  | x :: ((y :: _) as r) => qsub (qdiv y x) 1 :: returns r
  | _ => []
  end.
(** sums and products with reduction at every step (the executable paths) *)
Definition qsumr (l : list Q) : Q := fold_left qadd l 0.
Definition qprodr (l : list Q) : Q := fold_left qmul l 1.

(** MomentumSignal: cumulative return over the window (0 while no return exists) *)
Definition momentum (w : list Q) : Q :=
  match returns w with
  | [] => 0
  | rs => qsub (qprodr (map (fun r => qadd 1 r) rs)) 1
  end.
(** SMASignal: mean of the window (NaN on an empty window) *)
Definition mean (l : list Q) : Q := qdiv (qsumr l) (inject_Z (Z.of_nat (length l))).
Definition sma (w : list Q) : option Q :=
  match w with [] => None | _ => Some (mean w) end.
(** VolatilitySignal: population variance of the returns; the signal is sqrt(variance) * sqrt(252) *)
Definition popvar (l : list Q) : Q :=
  let m := mean l in mean (map (fun r => qmul (qsub r m) (qsub r m)) l).
Definition vol_sq (w : list Q) : Q :=
  match returns w with [] => 0 | rs => qmul 252 (popvar rs) end.
