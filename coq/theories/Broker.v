(** qstrader/broker/simulated_broker.py *)
From Coq Require Import ZArith QArith Qround Qabs String Bool List.
From QS Require Import theories.Num theories.Position theories.Portfolio theories.Fees theories.Exchange.
Import ListNotations.
Open Scope Q_scope.

Record order := mkOrd { o_id : Z; o_asset : string; o_qty : Z }.

Record acct := mkAcct { a_pf : portfolio; a_q : list order }.

Record broker := mkBr {
  b_dt : Z;
  b_base : string;             (* base currency *)
  b_cash : Q;                  (* master cash in the base currency *)
  b_fee : fee_model;
  b_accts : list (string * acct);   (* portfolios (+ their FIFO queues), creation order *)
  b_next : Z }.                (* ghost: next order id = number of accepted submits *)

Definition currencies : list string := ["USD"; "GBP"; "EUR"]%string.

Fixpoint acct_find (pid : string) (l : list (string * acct)) : option acct :=
  match l with
  | [] => None
  | (k, a) :: r => if String.eqb pid k then Some a else acct_find pid r
  end.
Fixpoint acct_set (pid : string) (a : acct) (l : list (string * acct)) : list (string * acct) :=
  match l with
  | [] => [(pid, a)]
  | (k, b) :: r => if String.eqb pid k then (k, a) :: r else (k, b) :: acct_set pid a r
  end.

Definition set_accts (b : broker) (l : list (string * acct)) : broker :=
  mkBr (b_dt b) (b_base b) (b_cash b) (b_fee b) l (b_next b).
Definition set_cash (b : broker) (c : Q) : broker :=
  mkBr (b_dt b) (b_base b) c (b_fee b) (b_accts b) (b_next b).
Definition set_now (b : broker) (t : Z) : broker :=
  mkBr t (b_base b) (b_cash b) (b_fee b) (b_accts b) (b_next b).

(** [SimulatedBroker.__init__] *)
Definition broker_init (start : Z) (base : string) (funds : Q) (fm : fee_model) : res broker :=
  if negb (existsb (String.eqb base) currencies) then Err BadCurrency
  else if qltb funds 0 then Err NegativeAmount
  else Ok (mkBr start base funds fm [] 0%Z).

Inductive op :=
| SubAcct (a : Q) | WdAcct (a : Q)
| Create (pid : string)
| SubPf (pid : string) (a : Q) | WdPf (pid : string) (a : Q)
| Submit (pid : string) (asset : string) (q : Z)
| Update (t : Z)
(* queries *)
| GetAcctCash (cur : option string)
| GetAcctTMV | GetAcctEquity
| GetPfCash (pid : string) | GetPfTMV (pid : string) | GetPfEquity (pid : string).

Inductive out :=
| ONone
| ONum (q : Q)
| ODict (l : list (string * Q)).

(** Ghost effect log: what an operation did to money, used to state the ledger (C01)
    and the fill discipline (C04, C05).  Nothing in the model reads it. *)
Inductive effect :=
| ExtIn (a : Q) | ExtOut (a : Q)
| XferIn (pid : string) (a : Q) (t : Z)    (* master -> portfolio, at broker time t *)
| XferOut (pid : string) (a : Q) (t : Z)   (* portfolio -> master *)
| Fill (pid : string) (tx : txn).

Section WithMarket.
  (** The data handler, as the broker sees it. *)
  Variable bidask : Z -> string -> option (Q * Q).
  Variable midp : Z -> string -> option Q.
  (** [true] = the repaired [update] (timestamps validated before anything is touched). *)
  Variable prevalidate : bool.

  (** [_execute_order] *)
  Definition execute (b : broker) (pid : string) (o : order) : broker * res unit * list effect :=
    match bidask (b_dt b) (o_asset o) with
    | None => (b, Err NoQuote, [])
    | Some (bid, ask) =>
        let q := inject_Z (o_qty o) in
        let price := if (0 <=? o_qty o)%Z then ask else bid in
        let consideration := inject_Z (round_he (price * q)) in
        let comm := Qred (fee_total (b_fee b) consideration) in
        let tx := mkTxn (o_asset o) q (b_dt b) price comm (o_id o) in
        match acct_find pid (b_accts b) with
        | None => (b, Err UnknownPortfolio, [])
        | Some a =>
            match pf_transact (a_pf a) tx with
            | (pf', Ok _) => (set_accts b (acct_set pid (mkAcct pf' (a_q a)) (b_accts b)), Ok tt, [Fill pid tx])
            | (pf', Err e) => (set_accts b (acct_set pid (mkAcct pf' (a_q a)) (b_accts b)), Err e, [])
            end
        end
    end.

  Fixpoint execute_all (b : broker) (l : list (string * order)) : broker * res unit * list effect :=
    match l with
    | [] => (b, Ok tt, [])
    | (pid, o) :: r =>
        match execute b pid o with
        | (b1, Ok _, e1) =>
            match execute_all b1 r with (b2, rr, e2) => (b2, rr, e1 ++ e2) end
        | (b1, Err e, e1) => (b1, Err e, e1)
        end
    end.

  (** marking loop of [update] for one portfolio *)
  Fixpoint mark_assets (pf : portfolio) (assets : list string) (t : Z) : portfolio * res unit :=
    match assets with
    | [] => (pf, Ok tt)
    | a :: r =>
        match midp t a with
        | None => (pf, Err NanMark)
        | Some m =>
            match pf_mark pf a m t with
            | (pf1, Ok _) => mark_assets pf1 r t
            | (pf1, Err e) => (pf1, Err e)
            end
        end
    end.

  Fixpoint mark_all (l : list (string * acct)) (t : Z) : list (string * acct) * res unit :=
    match l with
    | [] => ([], Ok tt)
    | (pid, a) :: r =>
        match mark_assets (a_pf a) (map fst (pf_pos (a_pf a))) t with
        | (pf1, Ok _) =>
            match mark_all r t with (r1, rr) => ((pid, mkAcct pf1 (a_q a)) :: r1, rr) end
        | (pf1, Err e) => ((pid, mkAcct pf1 (a_q a)) :: r, Err e)
        end
    end.

  Definition drained (l : list (string * acct)) : list (string * order) :=
    flat_map (fun pa => map (fun o => (fst pa, o)) (a_q (snd pa))) l.
  Definition empty_queues (l : list (string * acct)) : list (string * acct) :=
    map (fun pa => (fst pa, mkAcct (a_pf (snd pa)) [])) l.
  Definition is_sell (po : string * order) : bool := (o_qty (snd po) <? 0)%Z.
  (** [sorted(orders, key=direction)]: stable, sells (-1) before buys (+1). *)
  Definition sells_first (l : list (string * order)) : list (string * order) :=
    filter is_sell l ++ filter (fun po => negb (is_sell po)) l.

  (** timestamps the repaired [update] checks before touching anything *)
  Definition acct_clock_ok (t : Z) (opn : bool) (a : acct) : bool :=
    let pf := a_pf a in
    (match pf_pos pf, (opn && negb (match a_q a with [] => true | _ => false end)) with
     | [], false => true
     | _, _ => (pf_dt pf <=? t)%Z
     end)
    && forallb (fun ap => (p_dt (snd ap) <=? t)%Z) (pf_pos pf).

  (** [update(dt)] *)
  Definition update (b : broker) (t : Z) : broker * res unit * list effect :=
    if prevalidate && negb (forallb (fun pa => acct_clock_ok t (is_open t) (snd pa)) (b_accts b))
    then (b, Err EarlyTimestamp, [])
    else
    let b0 := set_now b t in
    match mark_all (b_accts b0) t with
    | (l1, Err e) => (set_accts b0 l1, Err e, [])
    | (l1, Ok _) =>
        if is_open t then
          let orders := sells_first (drained l1) in
          execute_all (set_accts b0 (empty_queues l1)) orders
        else (set_accts b0 l1, Ok tt, [])
    end.

  Definition step (b : broker) (o : op) : broker * res out * list effect :=
    match o with
    | SubAcct a =>
        if qltb a 0 then (b, Err NegativeAmount, [])
        else (set_cash b (qadd (b_cash b) a), Ok ONone, [ExtIn a])
    | WdAcct a =>
        if qltb a 0 then (b, Err NegativeAmount, [])
        else if qltb (b_cash b) a then (b, Err Overdraw, [])
        else (set_cash b (qsub (b_cash b) a), Ok ONone, [ExtOut a])
    | Create pid =>
        match acct_find pid (b_accts b) with
        | Some _ => (b, Err DuplicatePortfolio, [])
        | None => (set_accts b (b_accts b ++ [(pid, mkAcct (pf_init (b_dt b) 0) [])]), Ok ONone, [])
        end
    | SubPf pid a =>
        if qltb a 0 then (b, Err NegativeAmount, [])
        else match acct_find pid (b_accts b) with
        | None => (b, Err UnknownPortfolio, [])
        | Some ac =>
            if qltb (b_cash b) a then (b, Err Overdraw, [])
            else match pf_subscribe (a_pf ac) (b_dt b) a with
            | (pf', Ok _) =>
                (set_cash (set_accts b (acct_set pid (mkAcct pf' (a_q ac)) (b_accts b))) (qsub (b_cash b) a),
                 Ok ONone, [XferIn pid a (b_dt b)])
            | (pf', Err e) => (set_accts b (acct_set pid (mkAcct pf' (a_q ac)) (b_accts b)), Err e, [])
            end
        end
    | WdPf pid a =>
        if qltb a 0 then (b, Err NegativeAmount, [])
        else match acct_find pid (b_accts b) with
        | None => (b, Err UnknownPortfolio, [])
        | Some ac =>
            if qltb (pf_cash (a_pf ac)) a then (b, Err Overdraw, [])
            else match pf_withdraw (a_pf ac) (b_dt b) a with
            | (pf', Ok _) =>
                (set_cash (set_accts b (acct_set pid (mkAcct pf' (a_q ac)) (b_accts b))) (qadd (b_cash b) a),
                 Ok ONone, [XferOut pid a (b_dt b)])
            | (pf', Err e) => (set_accts b (acct_set pid (mkAcct pf' (a_q ac)) (b_accts b)), Err e, [])
            end
        end
    | Submit pid asset q =>
        match acct_find pid (b_accts b) with
        | None => (b, Err UnknownPortfolio, [])
        | Some ac =>
            let o := mkOrd (b_next b) asset q in
            (mkBr (b_dt b) (b_base b) (b_cash b) (b_fee b)
                  (acct_set pid (mkAcct (a_pf ac) (a_q ac ++ [o])) (b_accts b)) (b_next b + 1)%Z,
             Ok ONone, [])
        end
    | Update t =>
        match update b t with (b', Ok _, ef) => (b', Ok ONone, ef) | (b', Err e, ef) => (b', Err e, ef) end
    | GetAcctCash None =>
        (b, Ok (ODict (map (fun c => (c, if String.eqb c (b_base b) then b_cash b else 0)) currencies)), [])
    | GetAcctCash (Some c) =>
        if existsb (String.eqb c) currencies
        then (b, Ok (ONum (if String.eqb c (b_base b) then b_cash b else 0)), [])
        else (b, Err BadCurrency, [])
    | GetAcctTMV =>
        let l := map (fun pa => (fst pa, pf_total_mv (a_pf (snd pa)))) (b_accts b) in
        (b, Ok (ODict (l ++ [("master"%string, qsum (map snd l))])), [])
    | GetAcctEquity =>
        let l := map (fun pa => (fst pa, pf_total_equity (a_pf (snd pa)))) (b_accts b) in
        (b, Ok (ODict (l ++ [("master"%string, qsum (map snd l))])), [])
    | GetPfCash pid =>
        match acct_find pid (b_accts b) with
        | None => (b, Err UnknownPortfolioVE, [])
        | Some ac => (b, Ok (ONum (pf_cash (a_pf ac))), [])
        end
    | GetPfTMV pid =>
        match acct_find pid (b_accts b) with
        | None => (b, Err UnknownPortfolio, [])
        | Some ac => (b, Ok (ONum (pf_total_mv (a_pf ac))), [])
        end
    | GetPfEquity pid =>
        match acct_find pid (b_accts b) with
        | None => (b, Err UnknownPortfolio, [])
        | Some ac => (b, Ok (ONum (pf_total_equity (a_pf ac))), [])
        end
    end.

  (** Run a whole operation list, collecting per-step results and effects. *)
  Fixpoint run (b : broker) (ops : list op) : broker * list (res out) * list effect :=
    match ops with
    | [] => (b, [], [])
    | o :: r =>
        match step b o with
        | (b1, r1, e1) =>
            match run b1 r with (b2, rs, es) => (b2, r1 :: rs, e1 ++ es) end
        end
    end.
End WithMarket.
