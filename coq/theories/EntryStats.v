From Coq Require Import ZArith QArith String Bool List.
From QS Require Import theories.Val theories.Num theories.Stats theories.EntryBroker.
Import ListNotations.
Open Scope string_scope.

Definition enc_kv (l : list (Z * Q)) : val := vlist (fun kv => VL [VZ (fst kv); vq (snd kv)]) l.

(** "stats": [seed0; moments; curve = [(day, equity)]] *)
Definition entry_stats (v : val) : val :=
  match v with
  | VL [seed0; moments; curve] =>
      do seed0 <- dbool seed0; do moments <- dbool moments; do curve <- dlist (dpair dZ dQ) curve;
      let s := compute seed0 moments curve in
      VL [vlist vq (s_returns s); vlist vq (s_cum s); vlist vq (s_dd s); vq (s_maxdd s);
          VZ (Z.of_nat (s_duration s)); enc_kv (s_weekly s); enc_kv (s_monthly s); enc_kv (s_yearly s);
          vq (s_mean s); vq (s_var s); VZ (Z.of_nat (s_nneg s)); vq (s_var_neg s); vq (s_final s);
          VZ (Z.of_nat (s_n s))]
  | _ => bad_input
  end.
