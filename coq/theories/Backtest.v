(** qstrader/trading/backtest.py, system/qts.py, execution/execution_handler.py and
    signals/signals_collection.py: the event loop of a backtest session. *)
From Coq Require Import ZArith QArith Qround String Bool List.
From QS Require Import theories.Num theories.Position theories.Portfolio theories.Fees theories.Exchange
  theories.Broker theories.Calendar theories.Clock theories.Schedule theories.Sizer theories.PCM theories.Signals.
Import ListNotations.
Open Scope Z_scope.

Inductive rebal := RWeekly (wd : string) | RDaily | REom | RBah.

(** alpha models: the two shipped ones, the top-N momentum model of examples/momentum_taa.py and a
    moving-average trend model (weights 1 for assets whose last close is above their N-period SMA) *)
Inductive alpha_kind :=
| AFixed (w : weights)
| ASingle (signal : Q)
| ATopN (lookback top_n : nat)
| ASmaTrend (lookback : nat).

Record config := mkCfg {
  c_start : Z; c_end : Z;
  c_univ : universe;
  c_alpha : alpha_kind;
  c_cash : Q;
  c_rebal : rebal;
  c_long_only : bool;
  c_param : Q;                       (* cash buffer (long only) or gross leverage *)
  c_fee : fee_model;
  c_burn : option Z;
  c_lookbacks : option (list nat)    (* Some = a SignalsCollection with momentum and sma signals *)
}.

(** a price snapshot: what the data handler answers at one instant *)
Definition snapshot := list (string * Q).
Fixpoint snap_find (a : string) (s : snapshot) : option Q :=
  match s with [] => None | (b, p) :: r => if String.eqb a b then Some p else snap_find a r end.
Definition snap_bidask (s : snapshot) (_ : Z) (a : string) : option (Q * Q) :=
  match snap_find a s with Some p => Some (p, p) | None => None end.
Definition snap_mid (s : snapshot) (_ : Z) (a : string) : option Q := snap_find a s.

Record sigstate := mkSig {
  g_assets : list string;      (* Signal.assets: what alpha models iterate over *)
  g_mom : buffers;             (* momentum windows (lookback + 1) *)
  g_sma : buffers;             (* sma windows *)
  g_warm : nat }.

Record sess := mkSess { ss_broker : broker; ss_sig : sigstate }.

Definition pid : string := "000001".

Inductive output :=
| OFill (tx : txn)
| OAlloc (w : weights)
| OEquity (q : Q)
| OErr (e : err).

(** * Signals *)
Definition sig_init (cfg : config) : sigstate :=
  let assets := universe_assets (c_univ cfg) (c_start cfg) in
  match c_lookbacks cfg with
  | None => mkSig assets [] [] 0
  | Some lbs =>
      let init (ls : list nat) := flat_map (fun a => map (fun n => ((a, n), @nil Q)) ls) assets in
      mkSig assets (init (map S lbs)) (init lbs) 0
  end.

(** [Signal.update_assets] (repaired): new universe members are appended in universe order
    ([[a for a in universe_assets if a not in self.assets]]) *)
Definition update_assets (assets univ_now : list string) : list string :=
  assets ++ filter (fun a => negb (existsb (String.eqb a) assets)) univ_now.

Fixpoint append_all (lbs : list nat) (snap : snapshot) (assets : list string) (bm bs : buffers)
  : res (buffers * buffers) :=
  match assets with
  | [] => Ok (bm, bs)
  | a :: r =>
      match snap_find a snap with
      | None => Err NanMark           (* a NaN price would enter the windows: out of model *)
      | Some p =>
          if qleb p 0 then Err NonPositivePrice
          else append_all lbs snap r (buf_append (map S lbs) bm a p) (buf_append lbs bs a p)
      end
  end.

Definition signals_update (cfg : config) (g : sigstate) (t : Z) (snap : snapshot) : res sigstate :=
  match c_lookbacks cfg with
  | None => Ok g
  | Some lbs =>
      let assets := update_assets (g_assets g) (universe_assets (c_univ cfg) t) in
      match append_all lbs snap assets (g_mom g) (g_sma g) with
      | Err e => Err e
      | Ok (bm, bs) => Ok (mkSig assets bm bs (S (g_warm g)))
      end
  end.

(** * Alpha models *)
(** stable sort by momentum, descending ([sorted(items, key=momentum, reverse=True)]) *)
Fixpoint insert_desc (x : string * Q) (l : list (string * Q)) : list (string * Q) :=
  match l with
  | [] => [x]
  | y :: r => if qleb (snd y) (snd x) then x :: y :: r else y :: insert_desc x r
  end.
Definition sort_desc (l : list (string * Q)) : list (string * Q) := fold_right insert_desc [] l.

Fixpoint w_set (a : string) (x : Q) (w : weights) : weights :=
  match w with
  | [] => [(a, x)]
  | (b, y) :: r => if String.eqb a b then (b, x) :: r else (b, y) :: w_set a x r
  end.

Definition alpha_eval (cfg : config) (g : sigstate) (t : Z) : weights :=
  let univ := universe_assets (c_univ cfg) t in
  match c_alpha cfg with
  | AFixed w => w
  | ASingle s => map (fun a => (a, s)) univ
  | ATopN lb n =>
      let zero := fold_left (fun w a => w_set a 0%Q w) univ [] in
      if Nat.leb lb (g_warm g) then
        let moms := map (fun a => (a, match buf_find a (S lb) (g_mom g) with Some w => momentum w | None => 0%Q end))
                        (g_assets g) in
        let top := firstn n (map fst (sort_desc moms)) in
        fold_left (fun w a => w_set a (1 / inject_Z (Z.of_nat n))%Q w) top zero
      else zero
  | ASmaTrend lb =>
      fold_left (fun w a =>
        let last := match buf_find a 1 (g_sma g) with Some b => sma b | None => None end in
        let avg := match buf_find a lb (g_sma g) with Some b => sma b | None => None end in
        w_set a (match last, avg with Some x, Some y => if qltb y x then 1%Q else 0%Q | _, _ => 0%Q end) w) univ []
  end.

(** * One rebalance: portfolio construction, then submit-and-update per order *)
Definition held_of (b : broker) : list (string * Z) :=
  match acct_find pid (b_accts b) with
  | Some a => map (fun ap => (fst ap, Qfloor (pos_net (snd ap)))) (pf_pos (a_pf a))
  | None => []
  end.
Definition equity_of (b : broker) : Q :=
  match acct_find pid (b_accts b) with Some a => pf_total_equity (a_pf a) | None => 0%Q end.

Definition sizer_of (cfg : config) (b : broker) (snap : snapshot) (w : weights) : res (list (string * Z)) :=
  if c_long_only cfg
  then lo_size (equity_of b) (c_param cfg) (c_fee cfg) (fun a => snap_find a snap) w
  else ls_size (equity_of b) (c_param cfg) (c_fee cfg) (fun a => snap_find a snap) w.

Fixpoint submit_each (snap : snapshot) (b : broker) (t : Z) (orders : list (string * Z))
  : broker * list effect * option err :=
  match orders with
  | [] => (b, [], None)
  | (a, q) :: r =>
      match step (snap_bidask snap) (snap_mid snap) true b (Submit pid a q) with
      | (b1, Err e, _) => (b1, [], Some e)
      | (b1, Ok _, _) =>
          match step (snap_bidask snap) (snap_mid snap) true b1 (Update t) with
          | (b2, Err e, ef) => (b2, ef, Some e)
          | (b2, Ok _, ef) =>
              match submit_each snap b2 t r with (b3, ef2, e) => (b3, ef ++ ef2, e) end
          end
      end
  end.

Definition fills_of_effects (ef : list effect) : list output :=
  flat_map (fun e => match e with Fill _ tx => [OFill tx] | _ => [] end) ef.

Definition burn_ok (cfg : config) (t : Z) : bool :=
  match c_burn cfg with None => true | Some b => b <=? t end.

(** * One clock event *)
Definition event_step (cfg : config) (sched : list Z) (st : sess) (t : Z) (k : ekind) (snap : snapshot)
  : sess * list output * option err :=
  match step (snap_bidask snap) (snap_mid snap) true (ss_broker st) (Update t) with
  | (b1, Err e, ef) => (mkSess b1 (ss_sig st), fills_of_effects ef, Some e)
  | (b1, Ok _, ef) =>
      let out1 := fills_of_effects ef in
      let sig_r := match k with
                   | MarketClose => signals_update cfg (ss_sig st) t snap
                   | _ => Ok (ss_sig st)
                   end in
      match sig_r with
      | Err e => (mkSess b1 (ss_sig st), out1, Some e)
      | Ok g =>
          let reb := burn_ok cfg t && existsb (Z.eqb t) sched in
          let '(b2, out2, err2) :=
            if reb then
              let aw := alpha_eval cfg g t in
              let fa := full_assets (map fst (held_of b1)) (universe_assets (c_univ cfg) t) in
              let fw := merge_weights (map (fun a => (a, 0%Q)) fa) aw in
              match sizer_of cfg b1 snap fw with
              | Err e => (b1, [OAlloc fw], Some e)
              | Ok target =>
                  match submit_each snap b1 t (rebalance_orders target (held_of b1)) with
                  | (b2, ef2, e) => (b2, OAlloc fw :: fills_of_effects ef2, e)
                  end
              end
            else (b1, [], None) in
          match err2 with
          | Some e => (mkSess b2 g, out1 ++ out2, Some e)
          | None =>
              let out3 := match k with
                          | MarketClose => if burn_ok cfg t then [OEquity (equity_of b2)] else []
                          | _ => []
                          end in
              (mkSess b2 g, out1 ++ out2 ++ out3, None)
          end
      end
  end.

(** * The run: a fold over the clock events; every output is stamped with its event's time; the
      first error ends the run *)
Fixpoint run_from (cfg : config) (sched : list Z) (market : Z -> snapshot) (st : sess)
         (evs : list (Z * ekind)) : list (Z * output) :=
  match evs with
  | [] => []
  | (t, k) :: r =>
      match event_step cfg sched st t k (market t) with
      | (st', outs, Some e) => map (fun o => (t, o)) outs ++ [(t, OErr e)]
      | (st', outs, None) => map (fun o => (t, o)) outs ++ run_from cfg sched market st' r
      end
  end.

Definition schedule_of (cfg : config) : res (list Z) :=
  match c_rebal cfg with
  | RWeekly wd => weekly (c_start cfg) (c_end cfg) wd false
  | RDaily => Ok (daily (c_start cfg) (c_end cfg) false)
  | REom => Ok (end_of_month (c_start cfg) (c_end cfg) false)
  | RBah => Ok (buy_and_hold (c_start cfg))
  end.

(** [BacktestTradingSession.__init__] *)
Definition session_init (cfg : config) : res (sess * list (Z * ekind) * list Z) :=
  match broker_init (c_start cfg) "USD" (c_cash cfg) (c_fee cfg) with
  | Err e => Err e
  | Ok b0 =>
      let q (_ : Z) (_ : string) : option (Q * Q) := None in
      let m (_ : Z) (_ : string) : option Q := None in
      match step q m true b0 (Create pid) with
      | (b1, Err e, _) => Err e
      | (b1, Ok _, _) =>
          match step q m true b1 (SubPf pid (c_cash cfg)) with
          | (b2, Err e, _) => Err e
          | (b2, Ok _, _) =>
              match sim_events (c_start cfg) (c_end cfg) false false with
              | Err e => Err e
              | Ok evs =>
                  match schedule_of cfg with
                  | Err e => Err e
                  | Ok sched =>
                      match (if c_long_only cfg then lo_check_buffer (c_param cfg) else ls_check_leverage (c_param cfg)) with
                      | Err e => Err e
                      | Ok _ => Ok (mkSess b2 (sig_init cfg), evs, sched)
                      end
                  end
              end
          end
      end
  end.

Definition run (cfg : config) (market : Z -> snapshot) : res (list (Z * output)) :=
  match session_init cfg with
  | Err e => Err e
  | Ok (st, evs, sched) => Ok (run_from cfg sched market st evs)
  end.

(** everything stamped on or before T *)
Definition upto (T : Z) (tr : list (Z * output)) : list (Z * output) :=
  filter (fun o => fst o <=? T) tr.
