(** qstrader/system/rebalance/{weekly,daily,end_of_month,buy_and_hold}.py *)
From Coq Require Import ZArith Bool List String Ascii.
From QS Require Import theories.Exchange theories.Calendar theories.Position.
Import ListNotations.
Open Scope Z_scope.

Definition market_time (pre_market : bool) : Z := if pre_market then 52200 else 75600.

(** ['MON'..'FRI'] after [.upper()] *)
Definition upper_ascii (c : ascii) : ascii :=
  let n := nat_of_ascii c in
  if (Nat.leb 97 n && Nat.leb n 122)%bool then ascii_of_nat (n - 32) else c.
Fixpoint upper (s : string) : string :=
  match s with EmptyString => EmptyString | String c r => String (upper_ascii c) (upper r) end.
Definition parse_weekday (s : string) : option Z :=
  let u := upper s in
  if String.eqb u "MON" then Some 0 else if String.eqb u "TUE" then Some 1
  else if String.eqb u "WED" then Some 2 else if String.eqb u "THU" then Some 3
  else if String.eqb u "FRI" then Some 4 else None.

(** candidate days of a [pd.date_range(start, end, freq=...)] with an anchored offset: the
    stamps keep the start's time of day; a day qualifies if its stamp is <= end *)
Definition range_days (start stop : Z) (keep : Z -> bool) : list Z :=
  filter (fun d => keep d && (d * 86400 + tod start <=? stop)) (days_between (day start) (day stop)).

Definition weekly (start stop : Z) (wd : string) (pre_market : bool) : res (list Z) :=
  match parse_weekday wd with
  | None => Err BadWeekday
  | Some k => Ok (map (fun d => d * 86400 + market_time pre_market)
                      (range_days start stop (fun d => weekday d =? k)))
  end.

(** [pd.bdate_range(start, end)] normalises both ends to midnight *)
Definition daily (start stop : Z) (pre_market : bool) : list Z :=
  map (fun d => d * 86400 + market_time pre_market)
      (filter is_weekday (days_between (day start) (day stop))).

(** business month end: a weekday whose next weekday lies in another month *)
Definition is_bme (d : Z) : bool :=
  is_weekday d && negb (month_index (next_weekday d) =? month_index d).
Definition end_of_month (start stop : Z) (pre_market : bool) : list Z :=
  map (fun d => d * 86400 + market_time pre_market) (range_days start stop is_bme).

(** [start] if it falls on a business day, else [start + BusinessDay()] *)
Definition buy_and_hold (start : Z) : list Z :=
  if is_weekday (day start) then [start] else [next_weekday (day start) * 86400 + tod start].
