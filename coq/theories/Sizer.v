(** qstrader/portcon/order_sizer/{dollar_weighted,long_short}.py *)
From Coq Require Import ZArith QArith Qround Qabs String Bool List.
From QS Require Import theories.Num theories.Position theories.Portfolio theories.Fees.
Import ListNotations.
Open Scope Q_scope.

Definition weights := list (string * Q).      (* a dict: unique keys, insertion order *)

(** insertion sort on the asset name ([sorted(d.items())] for unique keys) *)
Fixpoint insert_by_key {A} (x : string * A) (l : list (string * A)) : list (string * A) :=
  match l with
  | [] => [x]
  | y :: r => if String.leb (fst x) (fst y) then x :: y :: r else y :: insert_by_key x r
  end.
Definition sort_by_key {A} (l : list (string * A)) : list (string * A) :=
  fold_right insert_by_key [] l.

(** * Long-only, cash-buffered *)
Definition lo_check_buffer (b : Q) : res Q :=
  if qltb b 0 || qltb 1 b then Err BadBuffer else Ok b.

Definition lo_normalise (w : weights) : res weights :=
  if existsb (fun aw => qltb (snd aw) 0) w then Err NegativeWeight
  else
    let s := qsum (map snd w) in
    if isclose0 s then Ok w else Ok (map (fun aw => (fst aw, snd aw / s)) w).

(** one asset: [int(np.floor((A - fee(A)) / price))] with [A = cash_buffered_equity * weight] *)
Definition lo_qty (E : Q) (fee : fee_model) (weight price : Q) : Z :=
  let pre := E * weight in
  Qfloor ((pre - fee_total fee pre) / price).

Fixpoint size_all (f : Q -> Q -> Z) (price : string -> option Q) (w : weights) : res (list (string * Z)) :=
  match w with
  | [] => Ok []
  | (a, x) :: r =>
      match price a with
      | None => Err NanPrice
      | Some p =>
          match size_all f price r with
          | Ok l => Ok ((a, f x p) :: l)
          | Err e => Err e
          end
      end
  end.

Definition lo_size (equity buffer : Q) (fee : fee_model) (price : string -> option Q) (w : weights)
  : res (list (string * Z)) :=
  match w with
  | [] => Ok []
  | _ =>
      match lo_normalise w with
      | Err e => Err e
      | Ok nw => size_all (lo_qty (equity * (1 - buffer)) fee) price (sort_by_key nw)
      end
  end.

(** * Long/short, leveraged *)
Definition ls_check_leverage (l : Q) : res Q := if qleb l 0 then Err BadLeverage else Ok l.

Definition ls_normalise (lev : Q) (w : weights) : weights :=
  let g := qsum (map (fun aw => Qabs (snd aw)) w) in
  if isclose0 g then w else map (fun aw => (fst aw, snd aw * (lev / g))) w.

(** one asset: truncate the after-cost dollars toward zero, divide by the price, truncate again *)
Definition ls_qty (E : Q) (fee : fee_model) (weight price : Q) : Z :=
  let pre := E * weight in
  let after := pre - fee_total fee pre in
  qtrunc (inject_Z (trunc_q after) / price).

Definition ls_size (equity lev : Q) (fee : fee_model) (price : string -> option Q) (w : weights)
  : res (list (string * Z)) :=
  match w with
  | [] => Ok []
  | _ => size_all (ls_qty equity fee) price (sort_by_key (ls_normalise lev w))
  end.
