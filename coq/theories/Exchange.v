(** qstrader/exchange/simulated_exchange.py — time is seconds since 1970-01-01T00:00Z. *)
From Coq Require Import ZArith Bool.
Open Scope Z_scope.

Definition day (t : Z) : Z := t / 86400.
Definition tod (t : Z) : Z := t mod 86400.
(** Monday = 0 … Sunday = 6 (1970-01-01 was a Thursday). *)
Definition weekday (d : Z) : Z := (d + 3) mod 7.

Definition open_tod : Z := 52200.   (* 14:30:00 *)
Definition close_tod : Z := 75600.  (* 21:00:00 *)

(** [SimulatedExchange.is_open_at_datetime] *)
Definition is_open (t : Z) : bool :=
  if 4 <? weekday (day t) then false
  else (open_tod <=? tod t) && (tod t <? close_tod).
