(** val-level entry points for the broker / portfolio / position models. *)
From Coq Require Import ZArith QArith Qround Qabs String Bool List.
From QS Require Import theories.Val theories.Num theories.Position theories.Portfolio
  theories.Fees theories.Exchange theories.Broker.
Import ListNotations.
Open Scope Z_scope.
Open Scope string_scope.

Definition enc_err (e : err) : val :=
  VL [VS "err"; VS (err_class e);
      VS (match e with
          | NegativeAmount => "NegativeAmount" | Overdraw => "Overdraw"
          | UnknownPortfolio => "UnknownPortfolio" | UnknownPortfolioVE => "UnknownPortfolio"
          | DuplicatePortfolio => "DuplicatePortfolio" | BadCurrency => "BadCurrency"
          | EarlyTimestamp => "EarlyTimestamp" | NegativeMark => "NegativeMark"
          | NonPositivePrice => "NonPositivePrice" | NoQuote => "NoQuote"
          | NegativeWeight => "NegativeWeight" | BadBuffer => "BadBuffer"
          | BadLeverage => "BadLeverage" | NanPrice => "NanPrice" | BadWeekday => "BadWeekday"
          | EndBeforeStart => "EndBeforeStart" | MissingAttr => "MissingAttr"
          | AssetMismatch => "AssetMismatch" | BadInput => "BadInput" | NanMark => "NanMark"
          end)].

Definition enc_res {A} (f : A -> val) (r : res A) : val :=
  match r with Ok a => VL [VS "ok"; f a] | Err e => enc_err e end.

Definition enc_pos (ap : string * position) : val :=
  let p := snd ap in
  VL [VS (fst ap); vq (pos_net p); vq (p_price p); VZ (p_dt p);
      vq (p_bq p); vq (p_sq p); vq (p_avgb p); vq (p_avgs p); vq (p_bc p); vq (p_sc p);
      vq (pos_market_value p); vq (pos_unrealised p); vq (pos_realised p); vq (pos_total_pnl p);
      vq (pos_avg_price p); VZ (pos_direction p)].

Definition enc_event (e : event) : val :=
  VL [VZ (e_dt e);
      VS (match e_kind e with ESub => "subscription" | EWd => "withdrawal" | ETxn => "asset_transaction" end);
      vbool (e_long e); VS (e_asset e); vq (e_qty e);
      vq (e_debit e); vq (e_credit e); vq (e_bal e)].

Definition enc_order (o : order) : val := VL [VZ (o_id o); VS (o_asset o); VZ (o_qty o)].

Definition enc_txn (tx : txn) : val :=
  VL [VS (t_asset tx); vq (t_qty tx); VZ (t_dt tx); vq (t_price tx); vq (t_comm tx); VZ (t_oid tx)].

Definition enc_effect (e : effect) : val :=
  match e with
  | ExtIn a => VL [VS "extin"; vq a]
  | ExtOut a => VL [VS "extout"; vq a]
  | XferIn pid a t => VL [VS "xferin"; VS pid; vq a; VZ t]
  | XferOut pid a t => VL [VS "xferout"; VS pid; vq a; VZ t]
  | Fill pid tx => VL [VS "fill"; VS pid; enc_txn tx]
  end.

Definition last_opt {A} (l : list A) : option A :=
  match rev l with [] => None | x :: _ => Some x end.

(** light snapshot of a portfolio: everything but the full history *)
Definition enc_pf_light (pf : portfolio) : val :=
  VL [VZ (pf_dt pf); vq (pf_cash pf); vlist enc_pos (pf_pos pf);
      VZ (Z.of_nat (length (pf_hist pf))); vopt enc_event (last_opt (pf_hist pf));
      vq (pf_total_mv pf); vq (pf_total_equity pf);
      vq (ph_total_unrealised (pf_pos pf)); vq (ph_total_realised (pf_pos pf)); vq (ph_total_pnl (pf_pos pf))].

Definition enc_acct_light (pa : string * acct) : val :=
  VL [VS (fst pa); enc_pf_light (a_pf (snd pa)); vlist enc_order (a_q (snd pa))].

Definition enc_broker_light (b : broker) : val :=
  VL [VZ (b_dt b); vq (b_cash b); vlist enc_acct_light (b_accts b)].

Definition enc_out (o : out) : val :=
  match o with
  | ONone => VL []
  | ONum q => VL [vq q]
  | ODict l => VL [VL (map (fun kv => VL [VS (fst kv); vq (snd kv)]) l)]
  end.

Definition dec_fee (v : val) : option fee_model :=
  match v with
  | VL [VS "zero"] => Some ZeroFee
  | VL [VS "pct"; c; t] =>
      match dQ c, dQ t with Some c, Some t => Some (PercentFee c t) | _, _ => None end
  | _ => None
  end.

Definition dec_op (v : val) : option op :=
  match v with
  | VL [VS "subacct"; a] => option_map SubAcct (dQ a)
  | VL [VS "wdacct"; a] => option_map WdAcct (dQ a)
  | VL [VS "create"; VS p] => Some (Create p)
  | VL [VS "subpf"; VS p; a] => option_map (SubPf p) (dQ a)
  | VL [VS "wdpf"; VS p; a] => option_map (WdPf p) (dQ a)
  | VL [VS "submit"; VS p; VS a; VZ q] => Some (Submit p a q)
  | VL [VS "update"; VZ t] => Some (Update t)
  | VL [VS "getacctcash"] => Some (GetAcctCash None)
  | VL [VS "getacctcash"; VS c] => Some (GetAcctCash (Some c))
  | VL [VS "getaccttmv"] => Some GetAcctTMV
  | VL [VS "getacctequity"] => Some GetAcctEquity
  | VL [VS "getpfcash"; VS p] => Some (GetPfCash p)
  | VL [VS "getpftmv"; VS p] => Some (GetPfTMV p)
  | VL [VS "getpfequity"; VS p] => Some (GetPfEquity p)
  | _ => None
  end.

(** quote table: [(t, asset, bid, ask)]; mid = (bid + ask) / 2 *)
Definition quote_row := (Z * string * Q * Q)%type.
Definition dec_quote (v : val) : option quote_row :=
  match v with
  | VL [VZ t; VS a; b; k] =>
      match dQ b, dQ k with Some b, Some k => Some (t, a, b, k) | _, _ => None end
  | _ => None
  end.
Fixpoint quote_lookup (tbl : list quote_row) (t : Z) (a : string) : option (Q * Q) :=
  match tbl with
  | [] => None
  | (t', a', b, k) :: r => if Z.eqb t t' && String.eqb a a' then Some (b, k) else quote_lookup r t a
  end.
Definition mid_lookup (tbl : list quote_row) (t : Z) (a : string) : option Q :=
  match quote_lookup tbl t a with
  | Some (b, k) => Some ((b + k) / 2)%Q
  | None => None
  end.

Fixpoint run_enc (bidask : Z -> string -> option (Q * Q)) (midp : Z -> string -> option Q)
         (pre : bool) (b : broker) (ops : list op) : list val * broker :=
  match ops with
  | [] => ([], b)
  | o :: r =>
      match step bidask midp pre b o with
      | (b1, r1, e1) =>
          let here := VL [enc_res enc_out r1; vlist enc_effect e1; enc_broker_light b1] in
          match run_enc bidask midp pre b1 r with (vs, bf) => (here :: vs, bf) end
      end
  end.

(** entry "broker_run": [cfg; quotes; ops] *)
Definition entry_broker_run (v : val) : val :=
  match v with
  | VL [VL [VZ start; VS base; funds; fee; VZ pre]; quotes; ops] =>
      do funds <- dQ funds;
      do fee <- dec_fee fee;
      do tbl <- dlist dec_quote quotes;
      do ops <- dlist dec_op ops;
      match broker_init start base funds fee with
      | Err e => VL [enc_err e]
      | Ok b0 =>
          match run_enc (quote_lookup tbl) (mid_lookup tbl) (Z.eqb pre 1) b0 ops with
          | (steps, bf) =>
              VL [VL [VS "ok"]; VL steps;
                  vlist (fun pa => VL [VS (fst pa); vlist enc_event (pf_hist (a_pf (snd pa)))]) (b_accts bf)]
          end
      end
  | _ => bad_input
  end.

(** entry "is_open": list of times -> list of bools *)
Definition entry_is_open (v : val) : val :=
  do ts <- dlist dZ v; vlist (fun t => vbool (is_open t)) ts.

(** entry "num": exercise the numeric primitives: [(name, x)] *)
Definition entry_num (v : val) : val :=
  match v with
  | VL [VS "round_he"; x] => do x <- dQ x; VZ (round_he x)
  | VL [VS "round2"; x] => do x <- dQ x; vq (round2 x)
  | VL [VS "trunc"; x] => do x <- dQ x; VZ (qtrunc x)
  | VL [VS "floor"; x] => do x <- dQ x; VZ (Qfloor x)
  | VL [VS "isclose0"; x] => do x <- dQ x; vbool (isclose0 x)
  | _ => bad_input
  end.

(** entry "fee": [fee; consideration] *)
Definition entry_fee (v : val) : val :=
  match v with
  | VL [fee; x] => do fee <- dec_fee fee; do x <- dQ x; vq (fee_total fee x)
  | _ => bad_input
  end.

(** Portfolio-level operations with explicit timestamps (C15, C02, C03). *)
Inductive pop :=
| PSub (dt : Z) (a : Q) | PWd (dt : Z) (a : Q)
| PTxn (tx : txn) | PMark (a : string) (price : Q) (dt : Z).

Definition dec_pop (v : val) : option pop :=
  match v with
  | VL [VS "sub"; VZ dt; a] => option_map (PSub dt) (dQ a)
  | VL [VS "wd"; VZ dt; a] => option_map (PWd dt) (dQ a)
  | VL [VS "txn"; VS a; q; VZ dt; p; c] =>
      match dQ q, dQ p, dQ c with
      | Some q, Some p, Some c => Some (PTxn (mkTxn a q dt p c 0))
      | _, _, _ => None
      end
  | VL [VS "mark"; VS a; p; VZ dt] => option_map (fun p => PMark a p dt) (dQ p)
  | _ => None
  end.

Definition pstep (pf : portfolio) (o : pop) : portfolio * res unit :=
  match o with
  | PSub dt a => pf_subscribe pf dt a
  | PWd dt a => pf_withdraw pf dt a
  | PTxn tx => pf_transact pf tx
  | PMark a p dt => pf_mark pf a p dt
  end.

Fixpoint prun_enc (pf : portfolio) (ops : list pop) : list val * portfolio :=
  match ops with
  | [] => ([], pf)
  | o :: r =>
      match pstep pf o with
      | (pf1, r1) =>
          let here := VL [enc_res (fun _ => VL []) r1; enc_pf_light pf1] in
          match prun_enc pf1 r with (vs, pff) => (here :: vs, pff) end
      end
  end.

(** entry "portfolio_run": [start; cash; ops] *)
Definition entry_portfolio_run (v : val) : val :=
  match v with
  | VL [VZ start; cash; ops] =>
      do cash <- dQ cash;
      do ops <- dlist dec_pop ops;
      match prun_enc (pf_init start cash) ops with
      | (steps, pff) => VL [VL steps; vlist enc_event (pf_hist pff)]
      end
  | _ => bad_input
  end.
