(** qstrader/broker/portfolio/{position_handler,portfolio,portfolio_event}.py *)
From Coq Require Import ZArith QArith Qround Qabs String Bool List.
From QS Require Import theories.Num theories.Position.
Import ListNotations.
Open Scope Q_scope.

(** PositionHandler: an OrderedDict, i.e. an association list in insertion order. *)
Definition positions := list (string * position).

Fixpoint pos_find (a : string) (ps : positions) : option position :=
  match ps with
  | [] => None
  | (b, p) :: r => if String.eqb a b then Some p else pos_find a r
  end.
Fixpoint pos_set (a : string) (p : position) (ps : positions) : positions :=
  match ps with
  | [] => [(a, p)]
  | (b, q) :: r => if String.eqb a b then (b, p) :: r else (b, q) :: pos_set a p r
  end.
Fixpoint pos_del (a : string) (ps : positions) : positions :=
  match ps with
  | [] => []
  | (b, q) :: r => if String.eqb a b then r else (b, q) :: pos_del a r
  end.

(** [PositionHandler.transact_position] *)
Definition ph_transact (ps : positions) (tx : txn) : positions * res unit :=
  let a := t_asset tx in
  match pos_find a ps with
  | Some p =>
      match pos_transact p tx with
      | (p', Ok _) =>
          let ps' := pos_set a p' ps in
          (if qeqb (pos_net p') 0 then pos_del a ps' else ps', Ok tt)
      | (p', Err e) => (pos_set a p' ps, Err e)
      end
  | None =>
      let p := pos_open tx in
      let ps' := pos_set a p ps in
      (if qeqb (pos_net p) 0 then pos_del a ps' else ps', Ok tt)
  end.

Definition qsum (l : list Q) : Q := fold_left Qplus l 0.
Definition ph_total_mv (ps : positions) : Q := qsum (map (fun ap => pos_market_value (snd ap)) ps).
Definition ph_total_unrealised (ps : positions) : Q := qsum (map (fun ap => pos_unrealised (snd ap)) ps).
Definition ph_total_realised (ps : positions) : Q := qsum (map (fun ap => pos_realised (snd ap)) ps).
Definition ph_total_pnl (ps : positions) : Q := qsum (map (fun ap => pos_total_pnl (snd ap)) ps).

(** PortfolioEvent *)
Inductive ekind := ESub | EWd | ETxn.
Record event := mkEv {
  e_dt : Z; e_kind : ekind;
  e_long : bool; e_asset : string; e_qty : Q;   (* description of a transaction *)
  e_debit : Q; e_credit : Q; e_bal : Q }.

Definition ev_sub (dt : Z) (credit bal : Q) : event :=
  mkEv dt ESub false "" 0 0 (round2 credit) (round2 bal).
Definition ev_wd (dt : Z) (debit bal : Q) : event :=
  mkEv dt EWd false "" 0 (round2 debit) 0 (round2 bal).

Record portfolio := mkPf {
  pf_dt : Z; pf_cash : Q; pf_pos : positions; pf_hist : list event }.

(** [Portfolio.__init__] *)
Definition pf_init (dt : Z) (cash : Q) : portfolio :=
  mkPf dt cash [] (if qltb 0 cash then [ev_sub dt cash cash] else []).

Definition pf_total_mv (pf : portfolio) : Q := ph_total_mv (pf_pos pf).
Definition pf_total_equity (pf : portfolio) : Q := pf_total_mv pf + pf_cash pf.

Definition pf_set_dt (pf : portfolio) (dt : Z) : portfolio :=
  mkPf dt (pf_cash pf) (pf_pos pf) (pf_hist pf).

(** [Portfolio.subscribe_funds(dt, amount)] *)
Definition pf_subscribe (pf : portfolio) (dt : Z) (amt : Q) : portfolio * res unit :=
  if (dt <? pf_dt pf)%Z then (pf, Err EarlyTimestamp)
  else
    let pf1 := pf_set_dt pf dt in
    if qltb amt 0 then (pf1, Err NegativeAmount)
    else
      let c := qadd (pf_cash pf) amt in
      (mkPf dt c (pf_pos pf) (pf_hist pf ++ [ev_sub dt amt c]), Ok tt).

(** [Portfolio.withdraw_funds(dt, amount)] *)
Definition pf_withdraw (pf : portfolio) (dt : Z) (amt : Q) : portfolio * res unit :=
  if (dt <? pf_dt pf)%Z then (pf, Err EarlyTimestamp)
  else
    let pf1 := pf_set_dt pf dt in
    if qltb amt 0 then (pf1, Err NegativeAmount)
    else if qltb (pf_cash pf) amt then (pf1, Err Overdraw)
    else
      let c := qsub (pf_cash pf) amt in
      (mkPf dt c (pf_pos pf) (pf_hist pf ++ [ev_wd dt amt c]), Ok tt).

(** [Portfolio.transact_asset(txn)] *)
Definition pf_transact (pf : portfolio) (tx : txn) : portfolio * res unit :=
  if (t_dt tx <? pf_dt pf)%Z then (pf, Err EarlyTimestamp)
  else
    let total := qadd (qmul (t_price tx) (t_qty tx)) (t_comm tx) in
    match ph_transact (pf_pos pf) tx with
    | (ps, Err e) => (mkPf (t_dt tx) (pf_cash pf) ps (pf_hist pf), Err e)
    | (ps, Ok _) =>
        let c := qsub (pf_cash pf) total in
        let long := Z.eqb (sign1 (t_qty tx)) 1 in
        let ev := if long
                  then mkEv (t_dt tx) ETxn true (t_asset tx) (t_qty tx) (round2 total) 0 (round2 c)
                  else mkEv (t_dt tx) ETxn false (t_asset tx) (t_qty tx) 0 (qneg (round2 total)) (round2 c) in
        (mkPf (t_dt tx) c ps (pf_hist pf ++ [ev]), Ok tt)
    end.

(** [Portfolio.update_market_value_of_asset(asset, price, dt)] *)
Definition pf_mark (pf : portfolio) (a : string) (price : Q) (dt : Z) : portfolio * res unit :=
  match pos_find a (pf_pos pf) with
  | None => (pf, Ok tt)
  | Some p =>
      if qltb price 0 then (pf, Err NegativeMark)
      else if (dt <? pf_dt pf)%Z then (pf, Err EarlyTimestamp)
      else
        match pos_update_price p price dt with
        | (p', r) => (mkPf (pf_dt pf) (pf_cash pf) (pos_set a p' (pf_pos pf)) (pf_hist pf), r)
        end
  end.
