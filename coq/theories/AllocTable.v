(** qstrader/trading/backtest.py, [get_target_allocations]: the recorded allocation rows re-indexed on the
    equity dates with [method='ffill'] - each equity date carries the WHOLE row of the latest rebalance dated on
    or before it (a weight the latest row does not have stays missing), nothing before the first rebalance -
    then cut at the burn-in date.  Columns: every asset any row names, in order of first appearance. *)
From Coq Require Import ZArith QArith String Bool List.
From QS Require Import theories.Num theories.Exchange theories.Sizer theories.PCM.
Import ListNotations.
Open Scope Z_scope.

(** the row of the latest rebalance whose date is <= d (rows are in recording order) *)
Fixpoint latest_row (rows : list (Z * weights)) (d : Z) : option weights :=
  match rows with
  | [] => None
  | (t, w) :: r =>
      match latest_row r d with
      | Some w' => Some w'
      | None => if day t <=? d then Some w else None
      end
  end.

(** first-appearance order, as pandas builds the columns of a frame from a list of dicts *)
Fixpoint first_seen (seen l : list string) : list string :=
  match l with
  | [] => []
  | x :: r => if existsb (String.eqb x) seen then first_seen seen r else x :: first_seen (x :: seen) r
  end.
Definition alloc_columns (rows : list (Z * weights)) : list string :=
  first_seen [] (flat_map (fun r => map fst (snd r)) rows).

Definition alloc_table (rows : list (Z * weights)) (equity_days : list Z) (burn : option Z)
  : list (Z * option weights) :=
  map (fun d => (d, latest_row rows d))
      (filter (fun d => match burn with Some b => day b <=? d | None => true end) equity_days).

(** one cell of the table: the weight the latest row gives the column, missing (NaN) otherwise *)
Definition alloc_cell (rows : list (Z * weights)) (d : Z) (col : string) : option Q :=
  match latest_row rows d with Some w => w_find col w | None => None end.
