(** qstrader/statistics/performance.py and the numeric part of json_statistics.py / tearsheet.py,
    over exact rationals.  sqrt / pow are applied outside the model (to variances, to the final
    cumulative return). *)
From Coq Require Import ZArith QArith String Bool List.
From QS Require Import theories.Num theories.Exchange theories.Calendar theories.Signals.
Import ListNotations.
Open Scope Q_scope.

(** period returns: first 0, then e_t / e_{t-1} - 1  ([pct_change().fillna(0.0)]) *)
Fixpoint rets_from (prev : Q) (es : list Q) : list Q :=
  match es with [] => [] | e :: r => qsub (qdiv e prev) 1 :: rets_from e r end.
Definition returns_of (es : list Q) : list Q :=
  match es with [] => [] | e0 :: r => 0 :: rets_from e0 r end.

(** cumulative returns: running product of (1 + r)  ([exp(log(1 + r).cumsum())]) *)
Fixpoint cum_from (acc : Q) (rs : list Q) : list Q :=
  match rs with [] => [] | r :: t => let c := qmul acc (qadd 1 r) in c :: cum_from c t end.
Definition cum_of (rs : list Q) : list Q := cum_from 1 rs.

(** high-water mark and drawdown; [seed0 = true] is the pinned loop (hwm seeded with 0 and the
    first observation skipped), [false] the repaired one (seeded with the first observation) *)
Definition qmaxq (a b : Q) : Q := if qleb a b then b else a.
Fixpoint hwm_from (h : Q) (cs : list Q) : list Q :=
  match cs with [] => [] | c :: t => let h' := qmaxq h c in h' :: hwm_from h' t end.
Definition hwms (seed0 : bool) (cs : list Q) : list Q :=
  match cs with
  | [] => []
  | c0 :: t => if seed0 then 0 :: hwm_from 0 t else c0 :: hwm_from c0 t
  end.
Fixpoint dd_tail (hs cs : list Q) : list Q :=
  match hs, cs with
  | h :: ht, c :: ct => qdiv (qsub h c) h :: dd_tail ht ct
  | _, _ => []
  end.
Definition drawdowns (seed0 : bool) (cs : list Q) : list Q :=
  match hwms seed0 cs, cs with
  | _ :: ht, _ :: ct => 0 :: dd_tail ht ct
  | _, _ => []
  end.
Definition qmax_list (l : list Q) : Q :=
  match l with [] => 0 | x :: r => fold_left qmaxq r x end.
(** longest run of consecutive non-zero entries *)
Fixpoint longest_run_from (cur best : nat) (l : list Q) : nat :=
  match l with
  | [] => Nat.max cur best
  | x :: r => if qeqb x 0 then longest_run_from 0 (Nat.max cur best) r
              else longest_run_from (S cur) best r
  end.
Definition longest_run (l : list Q) : nat := longest_run_from 0 0 l.

(** group-by with compounding: [returns.groupby(key).apply(lambda x: prod(1 + x) - 1)] *)
Fixpoint group_by (fuel : nat) (key : Z -> Z) (l : list (Z * Q)) : list (Z * list Q) :=
  match fuel, l with
  | S f, (d, r) :: rest =>
      let k := key d in
      (k, r :: map snd (filter (fun x => Z.eqb (key (fst x)) k) rest))
        :: group_by f key (filter (fun x => negb (Z.eqb (key (fst x)) k)) rest)
  | _, _ => []
  end.
Definition compound (rs : list Q) : Q := qsub (qprodr (map (fun r => qadd 1 r) rs)) 1.
Definition aggregate (key : Z -> Z) (dated : list (Z * Q)) : list (Z * Q) :=
  map (fun g => (fst g, compound (snd g))) (group_by (length dated) key dated).

Definition key_year (d : Z) : Z := year_of d.
Definition key_month (d : Z) : Z := year_of d * 100 + month_of d.
Definition key_week (d : Z) : Z := (year_of d * 100 + month_of d) * 100 + iso_week d.

Record stats := mkStats {
  s_returns : list Q; s_cum : list Q; s_dd : list Q; s_maxdd : Q; s_duration : nat;
  s_weekly : list (Z * Q); s_monthly : list (Z * Q); s_yearly : list (Z * Q);
  s_mean : Q; s_var : Q; s_nneg : nat; s_var_neg : Q; s_final : Q; s_n : nat }.

Definition compute (seed0 moments : bool) (curve : list (Z * Q)) : stats :=
  let es := map snd curve in
  let rs := returns_of es in
  let cs := cum_of rs in
  let dd := drawdowns seed0 cs in
  let dated := combine (map fst curve) rs in
  let neg := filter (fun r => qltb r 0) rs in
  mkStats rs cs dd (qmax_list dd) (longest_run dd)
          (aggregate key_week dated) (aggregate key_month dated) (aggregate key_year dated)
          (if moments then mean rs else 0) (if moments then popvar rs else 0)
          (length neg) (if moments then popvar neg else 0)
          (last cs 1) (length rs).
