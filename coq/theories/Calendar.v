(** Proleptic Gregorian calendar on day numbers (days since 1970-01-01), after H. Hinnant's
    [civil_from_days]; what pandas' month-end and ISO-week logic computes. *)
From Coq Require Import ZArith Bool List.
From QS Require Import theories.Exchange.
Import ListNotations.
Open Scope Z_scope.

Definition civil (d : Z) : Z * Z * Z :=
  let z := d + 719468 in
  let era := z / 146097 in
  let doe := z - era * 146097 in
  let yoe := (doe - doe / 1460 + doe / 36524 - doe / 146096) / 365 in
  let y := yoe + era * 400 in
  let doy := doe - (365 * yoe + yoe / 4 - yoe / 100) in
  let mp := (5 * doy + 2) / 153 in
  let dd := doy - (153 * mp + 2) / 5 + 1 in
  let m := if mp <? 10 then mp + 3 else mp - 9 in
  ((if m <=? 2 then y + 1 else y), m, dd).

Definition year_of (d : Z) : Z := fst (fst (civil d)).
Definition month_of (d : Z) : Z := snd (fst (civil d)).
Definition dom_of (d : Z) : Z := snd (civil d).
(** months since year 0 *)
Definition month_index (d : Z) : Z := year_of d * 12 + (month_of d - 1).

(** ISO 8601 week number of a day (what [x.isocalendar()[1]] returns):
    the week (Mon-Sun) belongs to the year that contains its Thursday. *)
Definition jan1 (y : Z) : Z :=      (* day number of y-01-01 *)
  let y' := y - 1 in
  365 * y' + y' / 4 - y' / 100 + y' / 400 - 719162.
Definition iso_week (d : Z) : Z :=
  let thu := d - weekday d + 3 in
  (thu - jan1 (year_of thu)) / 7 + 1.

(** consecutive integers *)
Definition zrange (lo : Z) (n : nat) : list Z := map (fun k => lo + Z.of_nat k) (seq 0 n).
Definition days_between (d0 d1 : Z) : list Z := zrange d0 (Z.to_nat (d1 - d0 + 1)).

Definition is_weekday (d : Z) : bool := weekday d <=? 4.
Definition next_weekday (d : Z) : Z :=
  let w := weekday d in if w <=? 3 then d + 1 else if w =? 4 then d + 3 else if w =? 5 then d + 2 else d + 1.
