(** qstrader/broker/portfolio/position.py and transaction.py *)
From Coq Require Import ZArith QArith Qround Qabs String Bool List.
From QS Require Import theories.Num.
Import ListNotations.
Open Scope Q_scope.

(** Error reasons (finer than the Python class; [err_class] gives the class). *)
Inductive err :=
| NegativeAmount | Overdraw | UnknownPortfolio | UnknownPortfolioVE | DuplicatePortfolio
| BadCurrency | EarlyTimestamp | NegativeMark | NonPositivePrice | NoQuote
| NegativeWeight | BadBuffer | BadLeverage | NanPrice | BadWeekday | EndBeforeStart
| MissingAttr | AssetMismatch | NanMark | BadInput.

Definition err_class (e : err) : string :=
  match e with
  | UnknownPortfolio => "KeyError"
  | MissingAttr => "AttributeError"
  | BadInput => "BadInput"
  | NanMark => "OutOfModel"
  | _ => "ValueError"
  end.

Inductive res (A : Type) := Ok (a : A) | Err (e : err).
Arguments Ok {A} a.
Arguments Err {A} e.

Record txn := mkTxn {
  t_asset : string; t_qty : Q; t_dt : Z; t_price : Q; t_comm : Q; t_oid : Z }.

Record position := mkPos {
  p_price : Q; p_dt : Z;
  p_bq : Q; p_sq : Q; p_avgb : Q; p_avgs : Q; p_bc : Q; p_sc : Q }.

Definition set_price (p : position) (x : Q) : position :=
  mkPos x (p_dt p) (p_bq p) (p_sq p) (p_avgb p) (p_avgs p) (p_bc p) (p_sc p).
Definition set_dt (p : position) (t : Z) : position :=
  mkPos (p_price p) t (p_bq p) (p_sq p) (p_avgb p) (p_avgs p) (p_bc p) (p_sc p).

(** [Position.open_from_transaction] *)
Definition pos_open (tx : txn) : position :=
  if qltb 0 (t_qty tx)
  then mkPos (t_price tx) (t_dt tx) (t_qty tx) 0 (t_price tx) 0 (t_comm tx) 0
  else mkPos (t_price tx) (t_dt tx) 0 (qneg (t_qty tx)) 0 (t_price tx) 0 (t_comm tx).

Definition pos_net (p : position) : Q := p_bq p - p_sq p.
Definition pos_direction (p : position) : Z :=
  if qeqb (pos_net p) 0 then 0%Z else sign1 (pos_net p).
Definition pos_market_value (p : position) : Q := p_price p * pos_net p.
Definition pos_avg_price (p : position) : Q :=
  if qeqb (pos_net p) 0 then 0
  else if qltb 0 (pos_net p)
       then (p_avgb p * p_bq p + p_bc p) / p_bq p
       else (p_avgs p * p_sq p - p_sc p) / p_sq p.
Definition pos_total_bought (p : position) : Q := p_avgb p * p_bq p.
Definition pos_total_sold (p : position) : Q := p_avgs p * p_sq p.
Definition pos_net_total (p : position) : Q := pos_total_sold p - pos_total_bought p.
Definition pos_commission (p : position) : Q := p_bc p + p_sc p.
Definition pos_net_incl_commission (p : position) : Q := pos_net_total p - pos_commission p.

Definition pos_realised (p : position) : Q :=
  match pos_direction p with
  | 1%Z =>
      if qeqb (p_sq p) 0 then 0
      else (p_avgs p - p_avgb p) * p_sq p - (p_sq p / p_bq p) * p_bc p - p_sc p
  | (-1)%Z =>
      if qeqb (p_bq p) 0 then 0
      else (p_avgs p - p_avgb p) * p_bq p - (p_bq p / p_sq p) * p_sc p - p_bc p
  | _ => pos_net_incl_commission p
  end.
Definition pos_unrealised (p : position) : Q :=
  (p_price p - pos_avg_price p) * pos_net p.
Definition pos_total_pnl (p : position) : Q := pos_realised p + pos_unrealised p.

(** [Position.update_current_price(market_price, dt)]: the clock is advanced
    *before* the price is validated (mutation-before-raise, as in the code). *)
Definition pos_update_price (p : position) (price : Q) (dt : Z) : position * res unit :=
  if (dt <? p_dt p)%Z then (p, Err EarlyTimestamp)
  else
    let p1 := set_dt p dt in
    if qleb price 0 then (p1, Err NonPositivePrice)
    else (set_price p1 price, Ok tt).

(** [int(floor(quantity)) == 0] *)
Definition qty_ignored (q : Q) : bool := Z.eqb (Qfloor q) 0.

Definition pos_buy (p : position) (q price comm : Q) : position :=
  mkPos (p_price p) (p_dt p)
        (qadd (p_bq p) q) (p_sq p)
        (qdiv (qadd (qmul (p_avgb p) (p_bq p)) (qmul q price)) (qadd (p_bq p) q))
        (p_avgs p) (qadd (p_bc p) comm) (p_sc p).
Definition pos_sell (p : position) (q price comm : Q) : position :=
  mkPos (p_price p) (p_dt p)
        (p_bq p) (qadd (p_sq p) q) (p_avgb p)
        (qdiv (qadd (qmul (p_avgs p) (p_sq p)) (qmul q price)) (qadd (p_sq p) q))
        (p_bc p) (qadd (p_sc p) comm).

(** [Position.transact] (asset equality is guaranteed by the handler). *)
Definition pos_transact (p : position) (tx : txn) : position * res unit :=
  if qty_ignored (t_qty tx) then (p, Ok tt)
  else
    let p1 := if qltb 0 (t_qty tx)
              then pos_buy p (t_qty tx) (t_price tx) (t_comm tx)
              else pos_sell p (qneg (t_qty tx)) (t_price tx) (t_comm tx) in
    match pos_update_price p1 (t_price tx) (t_dt tx) with
    | (p2, Ok _) => (set_dt p2 (t_dt tx), Ok tt)
    | (p2, Err e) => (p2, Err e)
    end.
