From Coq Require Import ZArith QArith String Bool List.
From QS Require Import theories.Val theories.Num theories.Position theories.Portfolio theories.Fees
  theories.Sizer theories.PCM theories.EntryBroker.
Import ListNotations.
Open Scope string_scope.

Definition dec_weights (v : val) : option weights := dlist (dpair dS dQ) v.
Definition dec_prices (v : val) : option (list (string * option Q)) := dlist (dpair dS (dopt dQ)) v.
Fixpoint price_lookup (tbl : list (string * option Q)) (a : string) : option Q :=
  match tbl with [] => None | (b, p) :: r => if String.eqb a b then p else price_lookup r a end.
Definition enc_qtys (l : list (string * Z)) : val := vlist (fun aq => VL [VS (fst aq); VZ (snd aq)]) l.
Definition enc_weights (w : weights) : val := vlist (fun aw => VL [VS (fst aw); vq (snd aw)]) w.

(** "sizer": [kind; param; equity; fee; prices; weights] *)
Definition entry_sizer (v : val) : val :=
  match v with
  | VL [VS kind; param; equity; fee; prices; w] =>
      do param <- dQ param; do equity <- dQ equity; do fee <- dec_fee fee;
      do prices <- dec_prices prices; do w <- dec_weights w;
      if String.eqb kind "long_only" then
        match lo_check_buffer param with
        | Err e => enc_err e
        | Ok b => enc_res enc_qtys (lo_size equity b fee (price_lookup prices) w)
        end
      else
        match ls_check_leverage param with
        | Err e => enc_err e
        | Ok l => enc_res enc_qtys (ls_size equity l fee (price_lookup prices) w)
        end
  | _ => bad_input
  end.

Definition dec_universe (v : val) : option universe :=
  match v with
  | VL [VS "static"; l] => option_map StaticU (dlist dS l)
  | VL [VS "dynamic"; l] => option_map DynamicU (dlist (dpair dS (dopt dZ)) l)
  | _ => None
  end.

(** "universe": [universe; times] *)
Definition entry_universe (v : val) : val :=
  match v with
  | VL [u; ts] => do u <- dec_universe u; do ts <- dlist dZ ts;
      vlist (fun t => vlist VS (universe_assets u t)) ts
  | _ => bad_input
  end.

(** "optimiser": [kind; scale; weights] *)
Definition entry_optimiser (v : val) : val :=
  match v with
  | VL [VS kind; scale; w] => do scale <- dQ scale; do w <- dec_weights w;
      if String.eqb kind "fixed" then enc_weights (opt_fixed w) else enc_weights (opt_equal scale w)
  | _ => bad_input
  end.

(** "pcm": [kind; param; equity; fee; prices; held; universe-assets; alpha-weights] *)
Definition entry_pcm (v : val) : val :=
  match v with
  | VL [VS kind; param; equity; fee; prices; held; univ; aw] =>
      do param <- dQ param; do equity <- dQ equity; do fee <- dec_fee fee;
      do prices <- dec_prices prices; do held <- dlist (dpair dS dZ) held;
      do univ <- dlist dS univ; do aw <- dec_weights aw;
      let sizer := if String.eqb kind "long_only"
                   then lo_size equity param fee (price_lookup prices)
                   else ls_size equity param fee (price_lookup prices) in
      enc_res (fun o => VL [enc_weights (pc_alloc o); enc_qtys (pc_target o); enc_qtys (pc_orders o)])
              (pcm_call sizer held univ aw)
  | _ => bad_input
  end.

(** "pcm_seq": a list of "pcm" inputs *)
Definition entry_pcm_seq (v : val) : val :=
  match v with VL l => VL (map entry_pcm l) | _ => bad_input end.

(** "pcm_opt": [optimiser-kind; scale; kind; param; equity; fee; prices; held; universe-assets; alpha-weights] *)
Definition entry_pcm_opt (v : val) : val :=
  match v with
  | VL [VS okind; scale; VS kind; param; equity; fee; prices; held; univ; aw] =>
      do scale <- dQ scale;
      do param <- dQ param; do equity <- dQ equity; do fee <- dec_fee fee;
      do prices <- dec_prices prices; do held <- dlist (dpair dS dZ) held;
      do univ <- dlist dS univ; do aw <- dec_weights aw;
      let sizer := if String.eqb kind "long_only"
                   then lo_size equity param fee (price_lookup prices)
                   else ls_size equity param fee (price_lookup prices) in
      let o := if String.eqb okind "equal" then OptEqual scale else OptFixed in
      enc_res (fun o => VL [enc_weights (pc_alloc o); enc_qtys (pc_target o); enc_qtys (pc_orders o)])
              (pcm_call_opt sizer o held univ aw)
  | _ => bad_input
  end.
Definition entry_pcm_opt_seq (v : val) : val :=
  match v with VL l => VL (map entry_pcm_opt l) | _ => bad_input end.
