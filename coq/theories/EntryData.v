From Coq Require Import ZArith QArith String Bool List.
From QS Require Import theories.Val theories.Num theories.Data theories.EntryBroker.
Import ListNotations.
Open Scope string_scope.

Definition dec_bar (v : val) : option bar :=
  match v with
  | VL [VZ d; o; c; a] =>
      match dopt dQ o, dopt dQ c, dopt dQ a with
      | Some o, Some c, Some a => Some (mkBar d o c a)
      | _, _, _ => None
      end
  | _ => None
  end.

(** "data": [wrap; adjust; rows; times] -> list of (option price) *)
Definition entry_data (v : val) : val :=
  match v with
  | VL [wrap; adjust; rows; ts] =>
      do wrap <- dbool wrap; do adjust <- dbool adjust;
      do rows <- dlist dec_bar rows; do ts <- dlist dZ ts;
      vlist (fun t => vopt vq (get_price wrap adjust rows t)) ts
  | _ => bad_input
  end.

(** "data_multi": a list of "data" inputs (one per asset file) *)
Definition entry_data_multi (v : val) : val :=
  match v with VL l => VL (map entry_data l) | _ => bad_input end.
