(** qstrader/data/daily_bar_csv.py and backtest_data_handler.py: point-in-time lookup. *)
From Coq Require Import ZArith QArith String Bool List.
From QS Require Import theories.Num theories.Exchange.
Import ListNotations.
Open Scope Z_scope.

(** one CSV row: day number, Open, Close, Adj Close (a missing cell is [None] = NaN) *)
Record bar := mkBar { bar_day : Z; bar_open : option Q; bar_close : option Q; bar_adj : option Q }.

(** insertion sort by date ([sort_index]) *)
Fixpoint insert_bar (b : bar) (l : list bar) : list bar :=
  match l with
  | [] => [b]
  | x :: r => if bar_day b <=? bar_day x then b :: x :: r else x :: insert_bar b r
  end.
Definition sort_bars (l : list bar) : list bar := fold_right insert_bar [] l.

Definition omap2 (f : Q -> Q -> Q) (a b : option Q) : option Q :=
  match a, b with Some x, Some y => Some (f x y) | _, _ => None end.

(** the two observations a bar contributes: (14:30, open') and (21:00, close') *)
Definition bar_obs (adjust : bool) (b : bar) : list (Z * option Q) :=
  let o := if adjust then omap2 Qmult (omap2 Qdiv (bar_adj b) (bar_close b)) (bar_open b) else bar_open b in
  let c := if adjust then bar_adj b else bar_close b in
  [(bar_day b * 86400 + 52200, o); (bar_day b * 86400 + 75600, c)].

(** [.ffill()]: a missing observation takes the previous one *)
Fixpoint ffill (prev : option Q) (l : list (Z * option Q)) : list (Z * option Q) :=
  match l with
  | [] => []
  | (t, v) :: r =>
      let v' := match v with Some _ => v | None => prev end in
      (t, v') :: ffill v' r
  end.

Definition series (adjust : bool) (rows : list bar) : list (Z * option Q) :=
  ffill None (flat_map (bar_obs adjust) (sort_bars rows)).

(** [get_indexer([t], method='pad')] then [iloc]: the value of the last observation at or before t.
    [wrap = true] is the pinned behaviour: index -1 (no observation yet) wraps to the LAST row. *)
Fixpoint pad_lookup (l : list (Z * option Q)) (t : Z) (acc : option (option Q)) : option (option Q) :=
  match l with
  | [] => acc
  | (u, v) :: r => if u <=? t then pad_lookup r t (Some v) else acc
  end.
Definition last_value (l : list (Z * option Q)) : option Q :=
  match rev l with [] => None | (_, v) :: _ => v end.

Definition get_price (wrap adjust : bool) (rows : list bar) (t : Z) : option Q :=
  let s := series adjust rows in
  match pad_lookup s t None with
  | Some v => v
  | None => if wrap then last_value s else None
  end.

(** BacktestDataHandler over a list of sources: the first source with a non-missing value *)
Fixpoint handler_bid (sources : list (Z -> option Q)) (t : Z) : option Q :=
  match sources with
  | [] => None
  | f :: r => match f t with Some x => Some x | None => handler_bid r t end
  end.
Definition handler_bid_ask (sources : list (Z -> option Q)) (t : Z) : option (Q * Q) :=
  match handler_bid sources t with Some b => Some (b, b) | None => None end.
Definition handler_mid (sources : list (Z -> option Q)) (t : Z) : option Q :=
  match handler_bid_ask sources t with Some (b, a) => Some ((b + a) / 2)%Q | None => None end.
