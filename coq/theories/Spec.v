(** The documented trading rules of a fixed-weight backtest, written as a deliberately naive
    simulator over business days.  It shares NOTHING with Broker.v / PCM.v / Backtest.v: only the
    calendar (Clock, Schedule), the numeric primitives and the fee formulas.  C08 says that a
    session reproduces what this computes. *)
From Coq Require Import ZArith QArith Qround Qabs String Bool List.
From QS Require Import theories.Num theories.Position theories.Fees theories.Exchange theories.Calendar
  theories.Clock theories.Schedule theories.Sizer.
Import ListNotations.
Open Scope Z_scope.

Record spec_cfg := mkSpec {
  sp_start : Z; sp_end : Z;
  sp_universe : list string;
  sp_weights : list (string * Q);
  sp_cash : Q;
  sp_schedule : list Z;            (* the rebalance instants *)
  sp_long_only : bool;
  sp_param : Q;                    (* cash buffer / gross leverage *)
  sp_fee : fee_model;
  sp_burn : option Z }.

Definition prices := list (string * Q).
Fixpoint price_of (a : string) (s : prices) : option Q :=
  match s with [] => None | (b, p) :: r => if String.eqb a b then Some p else price_of a r end.

Record sstate := mkS { st_cash : Q; st_hold : list (string * Z); st_pending : list (string * Z) }.

Fixpoint hold_of (a : string) (h : list (string * Z)) : Z :=
  match h with [] => 0 | (b, q) :: r => if String.eqb a b then q else hold_of a r end.
Fixpoint hold_set (a : string) (q : Z) (h : list (string * Z)) : list (string * Z) :=
  match h with
  | [] => if q =? 0 then [] else [(a, q)]
  | (b, x) :: r => if String.eqb a b then (if q =? 0 then r else (b, q) :: r) else (b, x) :: hold_set a q r
  end.

Inductive sfill := SFill (t : Z) (asset : string) (q : Z) (price comm : Q).

(** fill one order at the given prices *)
Definition fill_one (fee : fee_model) (t : Z) (s : prices) (st : sstate) (o : string * Z) : option (sstate * sfill) :=
  match price_of (fst o) s with
  | None => None
  | Some p =>
      let q := inject_Z (snd o) in
      let comm := Qred (fee_total fee (inject_Z (round_he (p * q)))) in
      Some (mkS (Qred (st_cash st - (p * q + comm))) (hold_set (fst o) (hold_of (fst o) (st_hold st) + snd o) (st_hold st))
                (st_pending st),
            SFill t (fst o) (snd o) p comm)
  end.
Fixpoint fill_all (fee : fee_model) (t : Z) (s : prices) (st : sstate) (os : list (string * Z))
  : option (sstate * list sfill) :=
  match os with
  | [] => Some (st, [])
  | o :: r =>
      match fill_one fee t s st o with
      | None => None
      | Some (st1, f) =>
          match fill_all fee t s st1 r with Some (st2, fs) => Some (st2, f :: fs) | None => None end
      end
  end.

(** equity = cash + holdings valued at the given prices *)
Fixpoint value_of (h : list (string * Z)) (s : prices) : option Q :=
  match h with
  | [] => Some 0%Q
  | (a, q) :: r =>
      match price_of a s, value_of r s with
      | Some p, Some v => Some (inject_Z q * p + v)%Q
      | _, _ => None
      end
  end.

(** the assets a rebalance looks at, ascending, without duplicates *)
Fixpoint uniq (l : list string) : list string :=
  match l with [] => [] | x :: r => if existsb (String.eqb x) r then uniq r else x :: uniq r end.
Definition assets_of (cfg : spec_cfg) (st : sstate) : list string :=
  map fst (sort_by_key (map (fun a => (a, tt)) (uniq (map fst (st_hold st) ++ sp_universe cfg ++ map fst (sp_weights cfg))))).

Definition weight_of (cfg : spec_cfg) (a : string) : Q :=
  match price_of a (sp_weights cfg) with Some w => w | None => 0%Q end.

(** the sizing rule, as documented *)
Definition size_long_only (cfg : spec_cfg) (equity : Q) (assets : list string) (s : prices) : option (list (string * Z)) :=
  let ws := map (weight_of cfg) assets in
  if existsb (fun w => qltb w 0) ws then None
  else
    let total := fold_left Qplus ws 0%Q in
    let norm (w : Q) := if isclose0 total then w else (w / total)%Q in
    let budget := (equity * (1 - sp_param cfg))%Q in
    fold_right (fun a acc =>
      match acc, price_of a s with
      | Some l, Some p =>
          let alloc := (budget * norm (weight_of cfg a))%Q in
          Some ((a, Qfloor ((alloc - fee_total (sp_fee cfg) alloc) / p)) :: l)
      | _, _ => None
      end) (Some []) assets.

Definition size_long_short (cfg : spec_cfg) (equity : Q) (assets : list string) (s : prices) : option (list (string * Z)) :=
  let ws := map (weight_of cfg) assets in
  let gross := fold_left Qplus (map Qabs ws) 0%Q in
  let scale (w : Q) := if isclose0 gross then w else (w * (sp_param cfg / gross))%Q in
  fold_right (fun a acc =>
    match acc, price_of a s with
    | Some l, Some p =>
        let dollars := (equity * scale (weight_of cfg a))%Q in
        let after := (dollars - fee_total (sp_fee cfg) dollars)%Q in
        Some ((a, qtrunc (inject_Z (trunc_q after) / p)) :: l)
    | _, _ => None
    end) (Some []) assets.

Definition burn_passed (cfg : spec_cfg) (t : Z) : bool :=
  match sp_burn cfg with None => true | Some b => b <=? t end.

(** a scheduled rebalance at instant t with prices s: orders = target - holdings, non-zero, ascending *)
Definition rebalance (cfg : spec_cfg) (st : sstate) (s : prices) : option (list (string * Z)) :=
  match value_of (st_hold st) s with
  | None => None
  | Some v =>
      let equity := (st_cash st + v)%Q in
      let assets := assets_of cfg st in
      if match assets with [] => true | _ => false end then Some []
      else
      match (if sp_long_only cfg then size_long_only cfg equity assets s else size_long_short cfg equity assets s) with
      | None => None
      | Some target =>
          Some (filter (fun o => negb (snd o =? 0))
                       (map (fun aq => (fst aq, snd aq - hold_of (fst aq) (st_hold st))) target))
      end
  end.

(** the same rebalance driven by an explicit target-allocation row (what any alpha model produced):
    the row is the weight dictionary and there is no separate universe *)
Definition with_alloc (cfg : spec_cfg) (fw : list (string * Q)) : spec_cfg :=
  mkSpec (sp_start cfg) (sp_end cfg) [] fw (sp_cash cfg) (sp_schedule cfg) (sp_long_only cfg) (sp_param cfg)
         (sp_fee cfg) (sp_burn cfg).

Record day_out := mkDay { d_fills : list sfill; d_equity : option (Z * Q) }.

(** one business day: open (fill pending, sells first; a rebalance scheduled at the open fills at
    once in asset order), then close (scheduled rebalance queues orders; equity is recorded) *)
Definition one_day (cfg : spec_cfg) (market : Z -> prices) (st : sstate) (d : Z) : option (sstate * day_out) :=
  let topen := d * 86400 + 52200 in
  let tclose := d * 86400 + 75600 in
  let so := market topen in
  let sc := market tclose in
  let sells := filter (fun o => snd o <? 0) (st_pending st) in
  let buys := filter (fun o => negb (snd o <? 0)) (st_pending st) in
  match fill_all (sp_fee cfg) topen so (mkS (st_cash st) (st_hold st) []) (sells ++ buys) with
  | None => None
  | Some (st1, f1) =>
      let at_open := burn_passed cfg topen && existsb (Z.eqb topen) (sp_schedule cfg) in
      match (if at_open then
               match rebalance cfg st1 so with
               | None => None
               | Some os => fill_all (sp_fee cfg) topen so st1 os
               end
             else Some (st1, [])) with
      | None => None
      | Some (st2, f2) =>
          let at_close := burn_passed cfg tclose && existsb (Z.eqb tclose) (sp_schedule cfg) in
          match (if at_close then rebalance cfg st2 sc else Some []) with
          | None => None
          | Some os =>
              let st3 := mkS (st_cash st2) (st_hold st2) os in
              match value_of (st_hold st3) sc with
              | None => None
              | Some v =>
                  Some (st3, mkDay (f1 ++ f2)
                                   (if burn_passed cfg tclose then Some (tclose, (st_cash st3 + v)%Q) else None))
              end
          end
      end
  end.

Fixpoint run_days (cfg : spec_cfg) (market : Z -> prices) (st : sstate) (days : list Z)
  : option (sstate * list day_out) :=
  match days with
  | [] => Some (st, [])
  | d :: r =>
      match one_day cfg market st d with
      | None => None
      | Some (st1, o) =>
          match run_days cfg market st1 r with Some (st2, os) => Some (st2, o :: os) | None => None end
      end
  end.

Definition spec_run (cfg : spec_cfg) (market : Z -> prices) : option (sstate * list day_out) :=
  run_days cfg market (mkS (sp_cash cfg) [] []) (bdays (sp_start cfg) (sp_end cfg)).

(** * The same rules driven by recorded target allocations
    Whatever alpha model produced them, the rows of the target-allocation table (one per scheduled
    rebalance, in order) determine every fill and equity value by the rules above. *)
Definition rows := list (list (string * Q)).

Definition rebalance_row (cfg : spec_cfg) (st : sstate) (s : prices) (rs : rows) : option (list (string * Z) * rows) :=
  match rs with
  | [] => None
  | fw :: rest => match rebalance (with_alloc cfg fw) st s with Some os => Some (os, rest) | None => None end
  end.

Definition one_day_rows (cfg : spec_cfg) (market : Z -> prices) (st : sstate) (rs : rows) (d : Z)
  : option (sstate * rows * day_out) :=
  let topen := d * 86400 + 52200 in
  let tclose := d * 86400 + 75600 in
  let so := market topen in
  let sc := market tclose in
  let sells := filter (fun o => snd o <? 0) (st_pending st) in
  let buys := filter (fun o => negb (snd o <? 0)) (st_pending st) in
  match fill_all (sp_fee cfg) topen so (mkS (st_cash st) (st_hold st) []) (sells ++ buys) with
  | None => None
  | Some (st1, f1) =>
      let at_open := burn_passed cfg topen && existsb (Z.eqb topen) (sp_schedule cfg) in
      match (if at_open then
               match rebalance_row cfg st1 so rs with
               | None => None
               | Some (os, rs1) =>
                   match fill_all (sp_fee cfg) topen so st1 os with Some (st2, f2) => Some (st2, f2, rs1) | None => None end
               end
             else Some (st1, [], rs)) with
      | None => None
      | Some (st2, f2, rs1) =>
          let at_close := burn_passed cfg tclose && existsb (Z.eqb tclose) (sp_schedule cfg) in
          match (if at_close then rebalance_row cfg st2 sc rs1 else Some ([], rs1)) with
          | None => None
          | Some (os, rs2) =>
              let st3 := mkS (st_cash st2) (st_hold st2) os in
              match value_of (st_hold st3) sc with
              | None => None
              | Some v =>
                  Some (st3, rs2, mkDay (f1 ++ f2)
                                        (if burn_passed cfg tclose then Some (tclose, (st_cash st3 + v)%Q) else None))
              end
          end
      end
  end.

Fixpoint run_days_rows (cfg : spec_cfg) (market : Z -> prices) (st : sstate) (rs : rows) (days : list Z)
  : option (sstate * rows * list day_out) :=
  match days with
  | [] => Some (st, rs, [])
  | d :: r =>
      match one_day_rows cfg market st rs d with
      | None => None
      | Some (st1, rs1, o) =>
          match run_days_rows cfg market st1 rs1 r with Some (st2, rs2, os) => Some (st2, rs2, o :: os) | None => None end
      end
  end.

Definition spec_run_rows (cfg : spec_cfg) (market : Z -> prices) (rs : rows) : option (sstate * rows * list day_out) :=
  run_days_rows cfg market (mkS (sp_cash cfg) [] []) rs (bdays (sp_start cfg) (sp_end cfg)).
