(** qstrader/simulation/daily_bday.py *)
From Coq Require Import ZArith Bool List.
From QS Require Import theories.Exchange theories.Calendar theories.Position.
Import ListNotations.
Open Scope Z_scope.

Inductive ekind := PreMarket | MarketOpen | MarketClose | PostMarket.

(** [pd.date_range(start, end, freq=BDay())]: roll the start forward to a weekday keeping its
    time of day, then step by business days while the stamp is <= end. *)
Definition bdays (start stop : Z) : list Z :=
  filter (fun d => is_weekday d && (d * 86400 + tod start <=? stop))
         (days_between (day start) (day stop)).

Definition day_events (pre post : bool) (d : Z) : list (Z * ekind) :=
  (if pre then [(d * 86400, PreMarket)] else []) ++
  [(d * 86400 + 52200, MarketOpen); (d * 86400 + 75600, MarketClose)] ++
  (if post then [(d * 86400 + 86340, PostMarket)] else []).

Definition sim_events (start stop : Z) (pre post : bool) : res (list (Z * ekind)) :=
  if stop <? start then Err EndBeforeStart
  else Ok (flat_map (day_events pre post) (bdays start stop)).
