(** qstrader/broker/fee_model/{zero,percent}_fee_model.py *)
From Coq Require Import ZArith QArith Qabs.
From QS Require Import theories.Num.
Open Scope Q_scope.

Inductive fee_model := ZeroFee | PercentFee (commission_pct tax_pct : Q).

(** [calc_total_cost(asset, quantity, consideration, broker)] — asset, quantity and
    broker are ignored by both shipped models. *)
Definition fee_total (fm : fee_model) (consideration : Q) : Q :=
  match fm with
  | ZeroFee => 0
  | PercentFee c t => c * Qabs consideration + t * Qabs consideration
  end.
