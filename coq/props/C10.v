From QS Require Import theories.Sizer.
