(** C10 — Long-only sizing never budgets more than the cash-buffered equity. *)
From Coq Require Import ZArith QArith Qabs String List.
From QS Require Import theories.Num theories.Position theories.Portfolio theories.Fees theories.Sizer
  proofs.SizerProofs.
Import ListNotations.
Open Scope Q_scope.

(** For every cash-buffered equity E >= 0, normalised weight w >= 0 and price > 0, with
    A = E x w the asset's share: the target quantity q is the whole number with
      q x price + fees(A) <= A < (q + 1) x price + fees(A)
    (cost plus estimated fees fits, one more share would not), and q >= 0 whenever the fees do
    not exceed the allocation. *)
Theorem qty_floor :
  forall E fee w price, 0 <= E -> 0 <= w -> 0 < price ->
    let A := E * w in
    inject_Z (lo_qty E fee w price) * price + fee_total fee A <= A /\
    A < (inject_Z (lo_qty E fee w price) + 1) * price + fee_total fee A /\
    (fee_total fee A <= A -> (0 <= lo_qty E fee w price)%Z).
Proof. exact lo_qty_spec. Qed.
Print Assumptions qty_floor.

(** the hypothesis the proof forces: fee rates summing to at most 100 % *)
Theorem percent_fee_within_allocation :
  forall c t A, 0 <= A -> 0 <= c -> 0 <= t -> c + t <= 1 -> fee_total (PercentFee c t) A <= A.
Proof. exact percent_fee_le. Qed.
Print Assumptions percent_fee_within_allocation.

(** the whole target costs (shares + estimated fees) at most E x (sum of the weights used) ... *)
Theorem budget :
  forall E fee price, 0 <= E -> forall w l,
    Forall (fun aw => 0 <= snd aw) w -> price_of_all price w ->
    size_all (lo_qty E fee) price w = Ok l ->
    spent E fee price w l <= E * qsum (map snd w) /\ map fst l = map fst w /\
    Forall2 (fun aw aq => exists p, price (fst aw) = Some p /\ snd aq = lo_qty E fee (snd aw) p) w l.
Proof. exact lo_budget_list. Qed.
Print Assumptions budget.

(** ... and the weights used sum to exactly 1 unless the raw sum is ~0 (|sum| <= binary64 1e-8),
    in which case the raw weights are used as they are (the documented "unless ~0" regime). *)
Theorem normalisation :
  forall w nw, lo_normalise w = Ok nw ->
    (nw = w /\ isclose0 (qsum (map snd w)) = true) \/
    (qsum (map snd nw) == 1 /\ isclose0 (qsum (map snd w)) = false /\
     nw = map (fun aw => (fst aw, snd aw / qsum (map snd w))) w).
Proof. exact lo_normalised_sum. Qed.
Print Assumptions normalisation.
Theorem accepted_weights_are_nonnegative :
  forall w nw, lo_normalise w = Ok nw -> Forall (fun aw => 0 <= snd aw) w.
Proof. exact lo_normalise_nonneg. Qed.
Print Assumptions accepted_weights_are_nonnegative.

Theorem zero_weight_zero_quantity : forall E fee p, 0 < p -> lo_qty E fee 0 p = 0%Z.
Proof. exact lo_zero_qty. Qed.
Print Assumptions zero_weight_zero_quantity.

(** rejections *)
Theorem negative_weight_rejected :
  forall equity buffer fee price w a x,
    In (a, x) w -> x < 0 -> lo_size equity buffer fee price w = Err NegativeWeight.
Proof. exact lo_rejects_negative. Qed.
Print Assumptions negative_weight_rejected.
Theorem buffer_outside_unit_interval_rejected : forall b, b < 0 \/ 1 < b -> lo_check_buffer b = Err BadBuffer.
Proof. exact lo_rejects_buffer. Qed.
Print Assumptions buffer_outside_unit_interval_rejected.
Theorem buffer_in_unit_interval_accepted : forall b, 0 <= b <= 1 -> lo_check_buffer b = Ok b.
Proof. exact lo_accepts_buffer. Qed.
Print Assumptions buffer_in_unit_interval_accepted.
Theorem unavailable_price_rejected :
  forall f price w, (exists a x, In (a, x) w /\ price a = None) -> exists e, size_all f price w = Err e.
Proof. exact size_all_nan. Qed.
Print Assumptions unavailable_price_rejected.
Theorem sizing_loop_fails_only_for_a_missing_price :
  forall f price w e, size_all f price w = Err e -> e = NanPrice.
Proof. exact size_all_err_is_nan. Qed.
Print Assumptions sizing_loop_fails_only_for_a_missing_price.

(** Without the hypothesis c + t <= 1 non-negativity is false (known finding K1). *)
Example fee_over_100_refuted :
  (lo_qty (1000000 # 1) (PercentFee (3 # 5) (3 # 5)) 1 (10 # 1) < 0)%Z.
Proof. vm_compute. reflexivity. Qed.
Print Assumptions fee_over_100_refuted.

(** Non-vacuity: the first parametrised case of the unit tests (1e6, 5% buffer, 3 assets). *)
Definition pr10 (a : string) : option Q :=
  if String.eqb a "EQ:SPY" then Some (250 # 1) else if String.eqb a "EQ:TLT" then Some (50 # 1)
  else if String.eqb a "EQ:GLD" then Some (100 # 1) else None.
Example sizing_nonvacuous :
  lo_size (1000000 # 1) (5 # 100) ZeroFee pr10
          [("EQ:SPY"%string, 1 # 2); ("EQ:TLT"%string, 1 # 4); ("EQ:GLD"%string, 1 # 4)] =
  Ok [("EQ:GLD"%string, 2375%Z); ("EQ:SPY"%string, 1900%Z); ("EQ:TLT"%string, 4750%Z)].
Proof. vm_compute. reflexivity. Qed.
Print Assumptions sizing_nonvacuous.
