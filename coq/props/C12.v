(** C12 — The simulation clock is strictly increasing and covers exactly business days. *)
From Coq Require Import ZArith List Sorted.
From QS Require Import theories.Exchange theories.Calendar theories.Position theories.Clock proofs.ClockProofs.
Import ListNotations.
Open Scope Z_scope.

Theorem end_before_start_is_rejected : forall start stop pre post,
  stop < start -> sim_events start stop pre post = Err EndBeforeStart.
Proof. exact end_before_start_rejected. Qed.
Print Assumptions end_before_start_is_rejected.

(** for start <= end with the end's time of day not before the start's: the business days of
    the clock are exactly the Monday-Friday dates of the range *)
Theorem business_days_exact : forall d start stop,
  start <= stop -> tod start <= tod stop ->
  (In d (bdays start stop) <-> (day start <= d <= day stop /\ weekday d <= 4)).
Proof. exact days_exact. Qed.
Print Assumptions business_days_exact.

Theorem business_days_increasing : forall start stop, StronglySorted Z.lt (bdays start stop).
Proof. exact bdays_sorted. Qed.
Print Assumptions business_days_increasing.

(** the event list is the concatenation over those days, in day order, of
    [00:00 pre]? ; 14:30 open ; 21:00 close ; [23:59 post]? *)
Theorem events_are_per_day_blocks : forall start stop pre post,
  start <= stop -> sim_events start stop pre post = Ok (flat_map (day_events pre post) (bdays start stop)).
Proof. exact events_exact. Qed.
Print Assumptions events_are_per_day_blocks.

Theorem event_membership : forall pre post ds t k,
  In (t, k) (flat_map (day_events pre post) ds) <->
  exists d, In d ds /\
    ((pre = true /\ t = d * 86400 /\ k = PreMarket) \/ (t = d * 86400 + 52200 /\ k = MarketOpen) \/
     (t = d * 86400 + 75600 /\ k = MarketClose) \/ (post = true /\ t = d * 86400 + 86340 /\ k = PostMarket)).
Proof. exact in_events. Qed.
Print Assumptions event_membership.

(** strictly increasing time order (hence no duplicate instants), all four flag combinations *)
Theorem clock_strictly_increasing : forall start stop pre post evs,
  sim_events start stop pre post = Ok evs -> StronglySorted Z.lt (map fst evs).
Proof. exact events_strictly_increasing. Qed.
Print Assumptions clock_strictly_increasing.

(** Non-vacuity: Fri 2020-02-28 14:30 .. Mon 2020-03-02 23:59 across a leap day and a weekend. *)
Example clock_nonvacuous :
  sim_events 1582900200 1583193540 true false =
  Ok [(1582848000, PreMarket); (1582900200, MarketOpen); (1582923600, MarketClose);
      (1583107200, PreMarket); (1583159400, MarketOpen); (1583182800, MarketClose)].
Proof. vm_compute. reflexivity. Qed.
Print Assumptions clock_nonvacuous.
