(** C19 — Assets trade only while they belong to the universe. *)
From Coq Require Import ZArith QArith String List.
From QS Require Import theories.Num theories.Position theories.Portfolio theories.Fees theories.Sizer theories.PCM
  theories.Broker theories.Backtest proofs.SizerProofs proofs.PcmProofs proofs.BacktestProofs proofs.SessionSignals
  proofs.Touch proofs.SessionUniverse.
Import ListNotations.
Open Scope Z_scope.

(** dynamic universe: member at t iff it has an entry time e with e <= t (inclusive); an asset
    with no entry date is never a member *)
Theorem dynamic_universe_membership : forall es t a,
  In a (universe_assets (DynamicU es) t) <-> exists e, In (a, Some e) es /\ e <= t.
Proof. exact dynamic_membership. Qed.
Print Assumptions dynamic_universe_membership.

Theorem static_universe_is_its_list : forall l t, universe_assets (StaticU l) t = l.
Proof. exact static_membership. Qed.
Print Assumptions static_universe_is_its_list.

(** with the universe-driven alpha model the weighted assets are exactly the members *)
Theorem single_signal_keys : forall u s t,
  map fst (alpha_weights (SingleSignal u s) t) = universe_assets u t /\
  Forall (fun aw => snd aw = s) (alpha_weights (SingleSignal u s) t).
Proof.
  intros u s t. simpl. split; [rewrite map_map; simpl; apply map_id|].
  apply Forall_forall. intros x I. apply in_map_iff in I. destruct I as (y & E & _). subst. reflexivity.
Qed.
Print Assumptions single_signal_keys.

Theorem fixed_weight_optimiser_is_identity : forall w, opt_fixed w = w.
Proof. exact fixed_weight_id. Qed.
Print Assumptions fixed_weight_optimiser_is_identity.

Theorem equal_weight_optimiser : forall scale w,
  w <> [] ->
  map fst (opt_equal scale w) = map fst w /\
  Forall (fun aw => (snd aw == scale / inject_Z (Z.of_nat (length w)))%Q) (opt_equal scale w) /\
  (qsum (map snd (opt_equal scale w)) == scale)%Q.
Proof. exact equal_weight_def. Qed.
Print Assumptions equal_weight_optimiser.

(** At a rebalance with the universe-driven alpha model: every universe member (entry <= t) gets
    the signal weight in the allocation row; an asset that is NOT a member appears in the row only if
    it is already held, and then with weight zero (so it can only be sold) - hence an asset cannot
    receive a positive target, an order or a first position before its entry. *)
Theorem members_get_the_signal_non_members_nothing :
  forall cfg g t s held a,
    c_alpha cfg = ASingle s ->
    let fw := merge_weights (map (fun x => (x, 0%Q)) (full_assets held (universe_assets (c_univ cfg) t))) (alpha_eval cfg g t) in
    (In a (universe_assets (c_univ cfg) t) -> w_find a fw = Some s) /\
    (~ In a (universe_assets (c_univ cfg) t) -> In a (map fst fw) -> In a held /\ w_find a fw = Some 0%Q).
Proof. exact single_signal_allocation. Qed.
Print Assumptions members_get_the_signal_non_members_nothing.

(** * Whole sessions (every configuration, schedule, sizing mode and market; the run may raise later) *)

(** a broker update - whatever its outcome - creates positions, pending orders and fills only in assets
    that already had a position or a pending order; a submission adds at most its own asset *)
Theorem an_update_touches_no_new_asset : forall bidask midp pre b t b1 r ef,
  update bidask midp pre b t = (b1, r, ef) ->
  (forall x, In x (pos_assets (b_accts b1)) -> In x (pos_assets (b_accts b)) \/ In x (q_assets (b_accts b))) /\
  (forall x, In x (q_assets (b_accts b1)) -> In x (q_assets (b_accts b))) /\
  (forall x, In x (fill_assets ef) -> In x (q_assets (b_accts b))).
Proof. exact update_touch. Qed.
Print Assumptions an_update_touches_no_new_asset.

(** with the universe-driven alpha model and a dynamic universe, no order is ever filled (so no
    position ever exists) in an asset before its entry time; an asset without entry date never trades *)
Theorem no_fill_before_entry : forall cfg s es market tr,
  c_alpha cfg = ASingle s -> c_univ cfg = DynamicU es -> run cfg market = Ok tr ->
  forall t tx, In (t, OFill tx) tr -> exists e, In (t_asset tx, Some e) es /\ e <= t.
Proof. exact dynamic_no_fill_before_entry. Qed.
Print Assumptions no_fill_before_entry.

(** the allocation row recorded at a rebalance instant t lists exactly the assets with entry <= t
    (inclusive), each with the signal weight *)
Theorem allocation_rows_list_exactly_the_entered_assets : forall cfg s es market tr,
  c_alpha cfg = ASingle s -> c_univ cfg = DynamicU es -> run cfg market = Ok tr ->
  forall t fw, In (t, OAlloc fw) tr ->
  forall a, (In a (map fst fw) <-> exists e, In (a, Some e) es /\ e <= t) /\
            (In a (map fst fw) -> w_find a fw = Some s).
Proof. exact dynamic_rows_are_the_members. Qed.
Print Assumptions allocation_rows_list_exactly_the_entered_assets.

(** included from the first rebalance at or after entry ONWARD: in a run that does not raise, every
    scheduled instant past the burn-in has a row, and it gives the signal weight to every member *)
Theorem members_are_weighted_at_every_rebalance : forall cfg s market st evs sched,
  c_alpha cfg = ASingle s -> session_init cfg = Ok (st, evs, sched) ->
  tr_noerr (run_from cfg sched market st evs) ->
  forall t, In t (map fst evs) -> reb_at cfg sched t = true ->
  exists fw, In (t, OAlloc fw) (run_from cfg sched market st evs) /\
             forall a, In a (universe_assets (c_univ cfg) t) -> w_find a fw = Some s.
Proof. exact members_weighted_at_every_rebalance. Qed.
Print Assumptions members_are_weighted_at_every_rebalance.

(** any universe (static too): every fill and every allocation key is an asset the universe listed at
    some instant up to then *)
Theorem sessions_touch_only_admitted_assets : forall cfg s market tr,
  c_alpha cfg = ASingle s -> run cfg market = Ok tr ->
  forall t o, In (t, o) tr ->
  match o with OFill tx => seen cfg t (t_asset tx) | OAlloc fw => RowOk cfg s t fw | _ => True end.
Proof. exact session_touches_only_admitted_assets. Qed.
Print Assumptions sessions_touch_only_admitted_assets.

(** Non-vacuity: daily rebalancing over two weeks, B enters on the second Monday's close, C never:
    A is bought after the first close, B only after its entry, C never; no error. *)
Definition cfg19 : config :=
  mkCfg (18267 * 86400) (18278 * 86400 + 86340)
        (DynamicU [("A"%string, Some (18260 * 86400)); ("B"%string, Some (18274 * 86400 + 75600)); ("C"%string, None)])
        (ASingle (1 # 2)%Q) (10000 # 1)%Q RDaily true 0%Q Fees.ZeroFee None None.
Example session_level_nonvacuous :
  exists tr, run cfg19 (fun _ => [("A"%string, (100 # 1)%Q); ("B"%string, (50 # 1)%Q); ("C"%string, (10 # 1)%Q)]) = Ok tr /\
    tr_noerr tr /\
    map (fun o => match snd o with OFill tx => (fst o, t_asset tx) | _ => (0, ""%string) end)
        (filter (fun o => o_fill (snd o)) tr) =
      [(18268 * 86400 + 52200, "A"%string); (18275 * 86400 + 52200, "A"%string); (18275 * 86400 + 52200, "B"%string)].
Proof.
  eexists. split; [vm_compute; reflexivity|]. split; [repeat constructor|]. vm_compute. reflexivity.
Qed.
Print Assumptions session_level_nonvacuous.

(** Non-vacuity *)
Example universe_nonvacuous :
  universe_assets (DynamicU [("A"%string, Some 100); ("B"%string, None); ("C"%string, Some 101)]) 100 = ["A"%string] /\
  universe_assets (DynamicU [("A"%string, Some 100); ("B"%string, None); ("C"%string, Some 101)]) 99 = [].
Proof. split; reflexivity. Qed.
Print Assumptions universe_nonvacuous.
