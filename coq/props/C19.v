(** C19 — Assets trade only while they belong to the universe. *)
From Coq Require Import ZArith QArith String List.
From QS Require Import theories.Num theories.Position theories.Portfolio theories.Fees theories.Sizer theories.PCM
  theories.Backtest proofs.SizerProofs proofs.PcmProofs proofs.SessionSignals.
Import ListNotations.
Open Scope Z_scope.

(** dynamic universe: member at t iff it has an entry time e with e <= t (inclusive); an asset
    with no entry date is never a member *)
Theorem dynamic_universe_membership : forall es t a,
  In a (universe_assets (DynamicU es) t) <-> exists e, In (a, Some e) es /\ e <= t.
Proof. exact dynamic_membership. Qed.
Print Assumptions dynamic_universe_membership.

Theorem static_universe_is_its_list : forall l t, universe_assets (StaticU l) t = l.
Proof. exact static_membership. Qed.
Print Assumptions static_universe_is_its_list.

(** with the universe-driven alpha model the weighted assets are exactly the members *)
Theorem single_signal_keys : forall u s t,
  map fst (alpha_weights (SingleSignal u s) t) = universe_assets u t /\
  Forall (fun aw => snd aw = s) (alpha_weights (SingleSignal u s) t).
Proof.
  intros u s t. simpl. split; [rewrite map_map; simpl; apply map_id|].
  apply Forall_forall. intros x I. apply in_map_iff in I. destruct I as (y & E & _). subst. reflexivity.
Qed.
Print Assumptions single_signal_keys.

Theorem fixed_weight_optimiser_is_identity : forall w, opt_fixed w = w.
Proof. exact fixed_weight_id. Qed.
Print Assumptions fixed_weight_optimiser_is_identity.

Theorem equal_weight_optimiser : forall scale w,
  w <> [] ->
  map fst (opt_equal scale w) = map fst w /\
  Forall (fun aw => (snd aw == scale / inject_Z (Z.of_nat (length w)))%Q) (opt_equal scale w) /\
  (qsum (map snd (opt_equal scale w)) == scale)%Q.
Proof. exact equal_weight_def. Qed.
Print Assumptions equal_weight_optimiser.

(** At a rebalance with the universe-driven alpha model: every universe member (entry <= t) gets
    the signal weight in the allocation row; an asset that is NOT a member appears in the row only if
    it is already held, and then with weight zero (so it can only be sold) - hence an asset cannot
    receive a positive target, an order or a first position before its entry. *)
Theorem members_get_the_signal_non_members_nothing :
  forall cfg g t s held a,
    c_alpha cfg = ASingle s ->
    let fw := merge_weights (map (fun x => (x, 0%Q)) (full_assets held (universe_assets (c_univ cfg) t))) (alpha_eval cfg g t) in
    (In a (universe_assets (c_univ cfg) t) -> w_find a fw = Some s) /\
    (~ In a (universe_assets (c_univ cfg) t) -> In a (map fst fw) -> In a held /\ w_find a fw = Some 0%Q).
Proof. exact single_signal_allocation. Qed.
Print Assumptions members_get_the_signal_non_members_nothing.

(** Non-vacuity *)
Example universe_nonvacuous :
  universe_assets (DynamicU [("A"%string, Some 100); ("B"%string, None); ("C"%string, Some 101)]) 100 = ["A"%string] /\
  universe_assets (DynamicU [("A"%string, Some 100); ("B"%string, None); ("C"%string, Some 101)]) 99 = [].
Proof. split; reflexivity. Qed.
Print Assumptions universe_nonvacuous.
