(** C07 — Backtest results up to any date do not depend on later market data. *)
From Coq Require Import ZArith QArith String List Permutation Sorted.
From QS Require Import theories.Num theories.Position theories.Exchange theories.Data theories.Clock theories.Backtest
  proofs.DataProofs proofs.BacktestProofs proofs.CausalData.
Import ListNotations.
Open Scope Z_scope.

(** For EVERY configuration (any universe, alpha model, rebalance kind, sizer, fee model, burn-in)
    and any two markets that agree at all instants t <= T: session construction succeeds or fails
    identically, and everything the run stamps on or before T - every equity point, fill, recorded
    allocation, and the error that aborts the run if there is one - is identical (Leibniz). *)
Theorem results_up_to_T_ignore_later_data :
  forall cfg m1 m2 T,
    (forall t, t <= T -> m1 t = m2 t) ->
    match run cfg m1, run cfg m2 with
    | Ok tr1, Ok tr2 => upto T tr1 = upto T tr2
    | Err e1, Err e2 => e1 = e2
    | _, _ => False
    end.
Proof. exact run_causal. Qed.
Print Assumptions results_up_to_T_ignore_later_data.

(** the loop-level statement, from any session state *)
Theorem event_loop_is_causal :
  forall cfg sched m1 m2 T,
    (forall t, t <= T -> m1 t = m2 t) ->
    forall evs st, StronglySorted ev_lt evs ->
    upto T (run_from cfg sched m1 st evs) = upto T (run_from cfg sched m2 st evs).
Proof. exact run_from_causal. Qed.
Print Assumptions event_loop_is_causal.

(** composed with C06: when the market is a set of daily-bar files served by the data source, it
    suffices that the files agree on the rows dated on or before day T - whatever happens to the
    later rows (arbitrary other values, removed altogether, new ones added) *)
Theorem results_up_to_day_T_ignore_later_rows :
  forall cfg adjust files1 files2 T,
    Forall2 (fun f1 f2 => fst f1 = fst f2 /\ same_until T (snd f1) (snd f2)) files1 files2 ->
    match run cfg (market_of adjust files1), run cfg (market_of adjust files2) with
    | Ok tr1, Ok tr2 => upto (T * 86400 + 86399) tr1 = upto (T * 86400 + 86399) tr2
    | Err e1, Err e2 => e1 = e2
    | _, _ => False
    end.
Proof. exact run_causal_csv. Qed.
Print Assumptions results_up_to_day_T_ignore_later_rows.

(** every output carries the time of the event that produced it *)
Theorem outputs_are_stamped_with_event_times :
  forall cfg sched market evs st o,
    In o (run_from cfg sched market st evs) -> In (fst o) (map fst evs).
Proof. exact run_from_stamps. Qed.
Print Assumptions outputs_are_stamped_with_event_times.

(** Non-vacuity: a three-day daily-rebalanced session; the two markets differ on the last day only *)
Definition cfg7 : config :=
  mkCfg (18267 * 86400) (18269 * 86400 + 86340) (PCM.StaticU ["A"%string]) (AFixed [("A"%string, 1%Q)])
        (10000 # 1)%Q RDaily true 0%Q Fees.ZeroFee None None.
Definition mk7 (last : Q) (t : Z) : snapshot :=
  if t <? 18269 * 86400 then [("A"%string, (100 # 1)%Q)] else [("A"%string, last)].
Example causal_nonvacuous :
  exists tr1 tr2, run cfg7 (mk7 (90 # 1)%Q) = Ok tr1 /\ run cfg7 (mk7 (150 # 1)%Q) = Ok tr2 /\
    tr1 <> tr2 /\ upto (18268 * 86400 + 86399) tr1 = upto (18268 * 86400 + 86399) tr2 /\
    length (upto (18268 * 86400 + 86399) tr1) = 5%nat.
Proof.
  eexists. eexists. split; [vm_compute; reflexivity|]. split; [vm_compute; reflexivity|].
  split; [discriminate|]. split; reflexivity.
Qed.
Print Assumptions causal_nonvacuous.
