From QS Require Import theories.Backtest.
