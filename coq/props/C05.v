(** C05 — Fills use the current quote and charge exactly the fee model's commission. *)
From Coq Require Import ZArith QArith Qabs String List.
From QS Require Import theories.Num theories.Position theories.Portfolio theories.Fees
  theories.Broker proofs.Fills.
Import ListNotations.
Open Scope Q_scope.

(** Every fill emitted by a clock update, in every broker state and for every data handler:
    stamped with the update time; priced at the handler's ask at that time for a buy and its
    bid for a sell; commission = fee model applied to price x quantity rounded half-even to
    a whole currency unit. *)
Theorem fill_uses_quote_and_fee :
  forall bidask midp pre b t b1 r e1,
    update bidask midp pre b t = (b1, r, e1) ->
    Forall (fun e =>
      match e with
      | Fill _ tx =>
          t_dt tx = t /\
          exists bid ask, bidask t (t_asset tx) = Some (bid, ask) /\
            (0 < t_qty tx -> t_price tx = ask) /\ (t_qty tx < 0 -> t_price tx = bid) /\
            t_comm tx == fee_total (b_fee b) (inject_Z (round_he (t_price tx * t_qty tx)))
      | _ => False
      end) e1.
Proof. exact update_fills_ok. Qed.
Print Assumptions fill_uses_quote_and_fee.

(** Fills happen in clock updates and nowhere else. *)
Theorem fills_only_in_updates :
  forall bidask midp pre b o b1 r e1 p tx,
    step bidask midp pre b o = (b1, r, e1) -> In (Fill p tx) e1 -> exists t, o = Update t.
Proof. exact step_fills_only_on_update. Qed.
Print Assumptions fills_only_in_updates.

Theorem fee_zero_model : forall x, fee_total ZeroFee x == 0.
Proof. exact fee_zero. Qed.
Print Assumptions fee_zero_model.

Theorem fee_percent_model : forall c t x, fee_total (PercentFee c t) x == (c + t) * Qabs x.
Proof. exact fee_percent. Qed.
Print Assumptions fee_percent_model.

Theorem fee_never_negative : forall fm x,
  match fm with ZeroFee => True | PercentFee c t => 0 <= c /\ 0 <= t end -> 0 <= fee_total fm x.
Proof. exact fee_nonneg. Qed.
Print Assumptions fee_never_negative.

(** identical for a buy and a sell of the same size (at the same price) *)
Theorem round_half_even_is_odd : forall x, round_he (- x) = (- round_he x)%Z.
Proof. exact round_he_opp. Qed.
Print Assumptions round_half_even_is_odd.

Theorem commission_same_for_buy_and_sell : forall fm price q,
  fee_total fm (inject_Z (round_he (price * inject_Z (- q)))) ==
  fee_total fm (inject_Z (round_he (price * inject_Z q))).
Proof. exact commission_buy_sell_equal. Qed.
Print Assumptions commission_same_for_buy_and_sell.

(** Non-vacuity: a sell and a buy filled in one update with bid <> ask and a percentage fee. *)
Definition q5 (t : Z) (a : string) : option (Q * Q) := Some (10 # 1, 21 # 2).
Definition m5 (t : Z) (a : string) : option Q := Some (41 # 4).
Definition s5 : broker :=
  mkBr 1578321000 "USD" 0 (PercentFee (1 # 100) (1 # 200))
       [("P"%string, mkAcct (mkPf 1578268800 (1000 # 1) [] []) [mkOrd 0 "A" 7; mkOrd 1 "A" (-3)])] 2.
Example fills_nonvacuous :
  exists b1 tx1 tx2,
    update q5 m5 true s5 1578321000 = (b1, Ok tt, [Fill "P" tx1; Fill "P" tx2]) /\
    t_qty tx1 == -3 # 1 /\ t_price tx1 == 10 # 1 /\ t_qty tx2 == 7 # 1 /\ t_price tx2 == 21 # 2 /\
    t_comm tx2 == 111 # 100.
Proof.
  eexists. eexists. eexists. split; [vm_compute; reflexivity|]. repeat split; reflexivity.
Qed.
Print Assumptions fills_nonvacuous.
