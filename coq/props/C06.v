(** C06 — Market data is point-in-time: a price query never sees a later bar. *)
From Coq Require Import ZArith QArith String List Permutation.
From QS Require Import theories.Num theories.Exchange theories.Data proofs.DataProofs.
Import ListNotations.
Open Scope Z_scope.

(** What a query returns, for every data set with distinct dates and every instant t: take the
    observations (14:30, open') and (21:00, close') of all bars in date order ("'" = scaled by
    adjusted-close / close when adjustment is on, missing if an operand is missing); keep those
    at or before t; the answer is the last non-missing one among them, and it is missing (NaN)
    if there is none - in particular if no bar opens at or before t. *)
Theorem lookup_is_last_observation_at_or_before :
  forall adjust rows t, NoDup (map bar_day rows) ->
    get_price false adjust rows t = lookup_spec (flat_map (bar_obs adjust) (sort_bars rows)) t.
Proof. exact get_price_is_spec. Qed.
Print Assumptions lookup_is_last_observation_at_or_before.

Theorem nan_before_the_first_open :
  forall adjust rows t, NoDup (map bar_day rows) ->
    (forall b, In b rows -> t < bar_day b * 86400 + 52200) ->
    get_price false adjust rows t = None.
Proof. exact none_before_first. Qed.
Print Assumptions nan_before_the_first_open.

(** The answer is a function of the rows dated on or before day(t) only: two data sets whose
    rows up to that day coincide (in any order) answer identically, whatever else they contain -
    later rows rewritten, removed or added. *)
Theorem answer_depends_on_earlier_rows_only :
  forall adjust rows1 rows2 t,
    NoDup (map bar_day rows1) -> NoDup (map bar_day rows2) ->
    Permutation (filter (fun b => bar_day b <=? day t) rows1) (filter (fun b => bar_day b <=? day t) rows2) ->
    get_price false adjust rows1 t = get_price false adjust rows2 t.
Proof. exact point_in_time. Qed.
Print Assumptions answer_depends_on_earlier_rows_only.

(** row order in the file does not matter *)
Theorem file_row_order_irrelevant :
  forall rows rows', Permutation rows rows' -> NoDup (map bar_day rows) -> sort_bars rows = sort_bars rows'.
Proof. exact row_order_irrelevant. Qed.
Print Assumptions file_row_order_irrelevant.

(** forward fill: once an asset has a price it keeps having one (used by C07) *)
Theorem price_stays_available :
  forall adjust rows t t' x, NoDup (map bar_day rows) -> t <= t' ->
    get_price false adjust rows t = Some x -> exists y, get_price false adjust rows t' = Some y.
Proof. exact availability_monotone. Qed.
Print Assumptions price_stays_available.

(** the data handler's bid, ask (pair) and mid agree with the source *)
Theorem handler_bid_ask_mid_agree :
  forall sources t,
    match handler_bid sources t with
    | Some b => handler_bid_ask sources t = Some (b, b) /\ exists m, handler_mid sources t = Some m /\ (m == b)%Q
    | None => handler_bid_ask sources t = None /\ handler_mid sources t = None
    end.
Proof. exact handler_agrees. Qed.
Print Assumptions handler_bid_ask_mid_agree.

(** The pinned lookup (index -1 wraps to the last row) violates point-in-time: with two bars, a
    query the day before the first bar returns the LAST close, and changing that later close
    changes the answer. *)
Definition r1 := [mkBar 18263 (Some (10 # 1)%Q) (Some (11 # 1)%Q) (Some (11 # 1)%Q);
                  mkBar 18264 (Some (12 # 1)%Q) (Some (13 # 1)%Q) (Some (13 # 1)%Q)].
Definition r2 := [mkBar 18263 (Some (10 # 1)%Q) (Some (11 # 1)%Q) (Some (11 # 1)%Q);
                  mkBar 18264 (Some (12 # 1)%Q) (Some (99 # 1)%Q) (Some (99 # 1)%Q)].
Example point_in_time_refuted :
  get_price true false r1 (18262 * 86400) = Some (13 # 1)%Q /\
  get_price true false r2 (18262 * 86400) = Some (99 # 1)%Q /\
  get_price false false r1 (18262 * 86400) = None /\ get_price false false r2 (18262 * 86400) = None.
Proof. repeat split; vm_compute; reflexivity. Qed.
Print Assumptions point_in_time_refuted.

(** Non-vacuity: a gap, a missing close, shuffled rows, adjusted prices. *)
Definition r3 := [mkBar 18267 (Some (20 # 1)%Q) None (Some (21 # 2)%Q);
                  mkBar 18263 (Some (10 # 1)%Q) (Some (12 # 1)%Q) (Some (6 # 1)%Q)].
Example lookup_nonvacuous :
  option_map Qred (get_price false true r3 (18263 * 86400 + 52200)) = Some (5 # 1)%Q /\
  option_map Qred (get_price false true r3 (18263 * 86400 + 75600)) = Some (6 # 1)%Q /\
  option_map Qred (get_price false true r3 (18267 * 86400 + 52200)) = Some (6 # 1)%Q /\
  option_map Qred (get_price false true r3 (18267 * 86400 + 75600)) = Some (21 # 2)%Q.
Proof. repeat split; vm_compute; reflexivity. Qed.
Print Assumptions lookup_nonvacuous.
