(** C18 — Identical inputs give identical results.
    [run] is a Gallina function, so within the model a backtest is trivially a function of its
    inputs; the theorems below are about what could make the CODE not be one: the enumeration order
    of sets and dicts (which the string-hash seed changes) and the memo in front of the data source. *)
From Coq Require Import ZArith QArith String List Permutation.
From QS Require Import theories.Num theories.Position theories.Portfolio theories.Fees theories.Sizer theories.PCM
  theories.Signals theories.Backtest proofs.PcmProofs proofs.Determinism.
Import ListNotations.
Open Scope Z_scope.

(** the asset list of a rebalance is invariant under any permutation of the holdings report and
    of the universe enumeration *)
Theorem rebalance_asset_list_ignores_enumeration_order :
  forall held held' univ univ',
    Permutation held held' -> Permutation univ univ' -> full_assets held univ = full_assets held' univ'.
Proof. exact full_assets_order_irrelevant. Qed.
Print Assumptions rebalance_asset_list_ignores_enumeration_order.

(** weight sums (normalisation) are invariant under permutation; per-asset sizing depends on the
    values only; the sizers iterate in sorted asset order and the orders are emitted sorted (C09) *)
Theorem sums_ignore_enumeration_order : forall l l', Permutation l l' -> (qsum l == qsum l')%Q.
Proof. exact qsum_perm. Qed.
Print Assumptions sums_ignore_enumeration_order.
Theorem sizing_depends_on_values_only : forall E E' fee w w' p p',
  (E == E')%Q -> (w == w')%Q -> (p == p')%Q -> lo_qty E fee w p = lo_qty E' fee w' p'.
Proof. exact lo_qty_proper. Qed.
Print Assumptions sizing_depends_on_values_only.
Theorem orders_sorted_whatever_the_target_order : forall (l : list (string * Z)),
  Permutation (sort_by_key l) l /\ Sorted.StronglySorted key_le (sort_by_key l).
Proof. intro l. exact (conj (sort_perm l) (sort_sorted l)). Qed.
Print Assumptions orders_sorted_whatever_the_target_order.

(** the asset list a signal exposes to alpha models is (old list) ++ (new entrants in universe
    order): a function of the configuration alone *)
Theorem signal_assets_deterministic : forall assets univ_now,
  update_assets assets univ_now = assets ++ filter (fun a => negb (existsb (String.eqb a) assets)) univ_now.
Proof. exact update_assets_def. Qed.
Print Assumptions signal_assets_deterministic.

(** a memoised lookup answers like the function it wraps after ANY history of earlier queries *)
Theorem memo_is_transparent :
  forall (K V : Type) (keq : K -> K -> bool) (f : K -> V),
    (forall a b, keq a b = true -> a = b) ->
    forall hist k,
      let c := fold_left (fun c k => snd (memo_get K V keq f c k)) hist [] in
      fst (memo_get K V keq f c k) = f k.
Proof.
  intros K V keq f H hist k c. apply (memo_transparent K V keq f H). apply memo_history_ok. exact H.
Qed.
Print Assumptions memo_is_transparent.

(** The pinned behaviour (new entrants appended in an order picked by the hash seed) leaks into the
    results: with the top-N momentum alpha of examples/momentum_taa.py and tied momenta, two
    different orders give different target weights. *)
Definition g_pinned (order : list string -> list string) : sigstate :=
  let assets := update_assets_pinned order [] ["B"; "A"; "C"]%string in
  mkSig assets (flat_map (fun a => [((a, 2%nat), [(10 # 1)%Q; (10 # 1)%Q])]) assets) [] 1.
Definition cfg18 : config :=
  mkCfg 0 0 (StaticU ["B"; "A"; "C"]%string) (ATopN 1 1) 0%Q RDaily true 0%Q ZeroFee None (Some [1%nat]).
Example assets_order_leak_refuted :
  alpha_eval cfg18 (g_pinned (fun l => l)) 0 <> alpha_eval cfg18 (g_pinned (@rev string)) 0.
Proof. vm_compute. discriminate. Qed.
Print Assumptions assets_order_leak_refuted.
