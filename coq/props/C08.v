(** C08 — A fixed-weight backtest reproduces the documented trading rules exactly.
    [Spec.spec_run] is the documented rules written as a deliberately naive day-by-day simulator that
    shares nothing with the broker / portfolio-construction / event-loop model ([Broker], [PCM],
    [Sizer], [Backtest]) except the calendar and the numeric primitives.
    THEOREM: for every fixed-weight configuration (any static universe, any weight vector with
    distinct keys, either sizing mode, any fee model, schedule, burn-in, dates and cash) and EVERY
    market, if the session runs without raising then the rules simulator is defined on the same
    inputs and the two agree on: every fill (time, asset, quantity, price, commission), the times and
    values of the daily equity, and the final cash, holdings and pending orders.
    Values that the model computes through different but equal rational expressions (equity, cash)
    are related by [==] on Q; everything else is Leibniz equality. *)
From Coq Require Import ZArith QArith String List Lia Lqa.
From QS Require Import theories.Num theories.Position theories.Portfolio theories.Fees theories.Broker theories.Clock
  theories.Sizer theories.PCM theories.Backtest theories.Spec proofs.Ledger proofs.PcmProofs proofs.BacktestProofs
  proofs.Refinement proofs.SpecBroker proofs.SpecRun proofs.SpecProgress proofs.SpecRows proofs.SpecProgressAll.
Import ListNotations.
Open Scope Z_scope.

Theorem backtest_refines_spec :
  forall cfg w u market tr,
    c_alpha cfg = AFixed w -> c_univ cfg = StaticU u -> c_lookbacks cfg = None -> NoDup (map fst w) ->
    run cfg market = Ok tr -> tr_noerr tr ->
    exists sched s_end st days,
      schedule_of cfg = Ok sched /\ end_state cfg market = Some s_end /\
      spec_run (spec_of cfg w u sched) market = Some (st, days) /\
      tr_fills tr = spec_fills days /\
      Forall2 same_equity (tr_equity tr) (spec_equity days) /\
      (cash_of pid (ss_broker s_end) == st_cash st)%Q /\
      held_of (ss_broker s_end) = st_hold st /\
      pending_of (ss_broker s_end) = st_pending st.
Proof. exact SpecRun.backtest_refines_spec. Qed.
Print Assumptions backtest_refines_spec.

(** ... and on a market that quotes every asset of the universe and of the weight vector at a positive
    price at every clock instant (weights non-negative when long-only, the start not later in its day
    than the market open) the session never raises, so the agreement is unconditional there. *)
Theorem backtest_matches_rules_on_quoted_markets :
  forall cfg w u market tr,
    c_alpha cfg = AFixed w -> c_univ cfg = StaticU u -> c_lookbacks cfg = None -> NoDup (map fst w) ->
    (c_long_only cfg = true -> Forall (fun aw => (0 <= snd aw)%Q) w) ->
    Exchange.tod (c_start cfg) <= 52200 ->
    (forall t k, In (t, k) (flat_map (day_events false false) (bdays (c_start cfg) (c_end cfg))) ->
                 quoted (u ++ map fst w) (market t)) ->
    run cfg market = Ok tr ->
    tr_noerr tr /\
    exists sched s_end st days,
      schedule_of cfg = Ok sched /\ end_state cfg market = Some s_end /\
      spec_run (spec_of cfg w u sched) market = Some (st, days) /\
      tr_fills tr = spec_fills days /\
      Forall2 same_equity (tr_equity tr) (spec_equity days) /\
      (cash_of pid (ss_broker s_end) == st_cash st)%Q /\
      held_of (ss_broker s_end) = st_hold st /\
      pending_of (ss_broker s_end) = st_pending st.
Proof. exact backtest_refines_spec_quoted. Qed.
Print Assumptions backtest_matches_rules_on_quoted_markets.

(** Beyond fixed weights: for EVERY alpha model of the session model (fixed, universe-driven,
    top-N momentum, SMA trend), static or dynamic universe, with or without signals - whatever
    produced the target allocations, the fills, the equity and the final state are what the rules
    compute from the allocation rows the session recorded, each row consumed by exactly one scheduled
    rebalance, in order, none left over. *)
Theorem every_session_follows_the_rules_from_its_allocations :
  forall cfg market tr,
    wf_alpha cfg ->
    run cfg market = Ok tr -> tr_noerr tr ->
    exists sched s_end st days,
      schedule_of cfg = Ok sched /\ end_state cfg market = Some s_end /\
      spec_run_rows (spec_base cfg sched) market (tr_allocs tr) = Some (st, [], days) /\
      tr_fills tr = spec_fills days /\
      Forall2 same_equity (tr_equity tr) (spec_equity days) /\
      (cash_of pid (ss_broker s_end) == st_cash st)%Q /\
      held_of (ss_broker s_end) = st_hold st /\
      pending_of (ss_broker s_end) = st_pending st.
Proof. exact session_follows_rules. Qed.
Print Assumptions every_session_follows_the_rules_from_its_allocations.

(** ... unconditionally (no "does not raise" premise) on markets that quote every asset the session can
    ever look at positively at every clock instant *)
Theorem every_session_follows_the_rules_on_quoted_markets :
  forall cfg market tr,
    alpha_ok cfg -> Exchange.tod (c_start cfg) <= 52200 ->
    (forall t k, In (t, k) (flat_map (day_events false false) (bdays (c_start cfg) (c_end cfg))) ->
                 quoted (all_assets cfg) (market t)) ->
    run cfg market = Ok tr ->
    tr_noerr tr /\
    exists sched s_end st days,
      schedule_of cfg = Ok sched /\ end_state cfg market = Some s_end /\
      spec_run_rows (spec_base cfg sched) market (tr_allocs tr) = Some (st, [], days) /\
      tr_fills tr = spec_fills days /\
      Forall2 same_equity (tr_equity tr) (spec_equity days) /\
      (cash_of pid (ss_broker s_end) == st_cash st)%Q /\
      held_of (ss_broker s_end) = st_hold st /\
      pending_of (ss_broker s_end) = st_pending st.
Proof. exact any_session_follows_rules_quoted. Qed.
Print Assumptions every_session_follows_the_rules_on_quoted_markets.

(** the pieces of that proof that are of independent interest *)

(** executing one order at the quoted price does to cash exactly what the rules say and records
    the same fill (price, commission on the consideration rounded to a whole unit) *)
Theorem one_execution_is_one_rule_fill :
  forall snap b a q id b1 ef st p,
    snap_find a snap = Some p ->
    (st_cash st == cash_of pid b)%Q ->
    execute (snap_bidask snap) b pid (mkOrd id a q) = (b1, Ok tt, ef) ->
    exists st' comm,
      fill_one (b_fee b) (b_dt b) snap st (a, q) = Some (st', SFill (b_dt b) a q p comm) /\
      ef = [Fill pid (mkTxn a (inject_Z q) (b_dt b) p comm id)] /\
      (st_cash st' == cash_of pid b1)%Q.
Proof. exact execute_refines_fill_one. Qed.
Print Assumptions one_execution_is_one_rule_fill.

(** the broker's "sells first, each side in queue order" is the rules' "sells first, then buys" *)
Theorem open_fill_order_is_sells_then_buys :
  forall orders : list order,
    map (fun po => (o_asset (snd po), o_qty (snd po))) (sells_first (map (fun o => (pid, o)) orders)) =
    filter (fun o => snd o <? 0) (map (fun o => (o_asset o, o_qty o)) orders) ++
    filter (fun o => negb (snd o <? 0)) (map (fun o => (o_asset o, o_qty o)) orders).
Proof. exact sells_first_single_portfolio. Qed.
Print Assumptions open_fill_order_is_sells_then_buys.

(** daily equity: the account equity is cash plus holdings valued at the marked prices *)
Theorem equity_is_cash_plus_holdings_at_close :
  forall pf snap,
    (forall a p, In (a, p) (pf_pos pf) -> snap_find a snap = Some (p_price p) /\
                                          (pos_net p == inject_Z (Qround.Qfloor (pos_net p)))%Q) ->
    exists v, value_of (map (fun ap => (fst ap, Qround.Qfloor (pos_net (snd ap)))) (pf_pos pf)) snap = Some v /\
              (pf_total_equity pf == pf_cash pf + v)%Q.
Proof. exact equity_is_cash_plus_marked_holdings. Qed.
Print Assumptions equity_is_cash_plus_holdings_at_close.

(** the rules' sizing formulas are the sizers' per-asset functions (C10, C11 characterise them) *)
Theorem long_only_rule_is_the_sizer : forall budget fee w p,
  Qround.Qfloor ((budget * w - fee_total fee (budget * w)) / p) = lo_qty budget fee w p.
Proof. exact spec_long_only_quantity. Qed.
Print Assumptions long_only_rule_is_the_sizer.
Theorem long_short_rule_is_the_sizer : forall equity fee w p,
  qtrunc (inject_Z (trunc_q (equity * w - fee_total fee (equity * w))) / p) = ls_qty equity fee w p.
Proof. exact spec_long_short_quantity. Qed.
Print Assumptions long_short_rule_is_the_sizer.

(** order generation: target minus current for every target asset (C09) *)
Theorem orders_are_target_minus_holdings : forall target current a,
  NoDup (map fst target) ->
  (In a (map fst target) -> z_find a (rebalance_orders target current) = z_find a target - z_find a current) /\
  (~ In a (map fst target) -> z_find a (rebalance_orders target current) = 0).
Proof. exact orders_are_diff. Qed.
Print Assumptions orders_are_target_minus_holdings.

(** Non-vacuity / a first instance of the full statement: a 60/40 weekly session over three weeks,
    computed by both the session model and the rules simulator - same fills, cash, holdings, equity. *)
Definition mk8 (t : Z) : snapshot :=
  [("A"%string, (100 # 1) + inject_Z ((t / 86400) mod 7))%Q; ("B"%string, (50 # 1) - inject_Z ((t / 43200) mod 5) / 4)%Q].
Definition cfg8 : config :=
  mkCfg (18267 * 86400) (18285 * 86400 + 86340) (StaticU ["A"; "B"]%string)
        (AFixed [("A"%string, (3 # 5)%Q); ("B"%string, (2 # 5)%Q)]) (100000 # 1)%Q (RWeekly "WED") true (1 # 20)%Q
        (PercentFee (1 # 1000) 0) None None.
Definition spec8 : spec_cfg :=
  mkSpec (18267 * 86400) (18285 * 86400 + 86340) ["A"; "B"]%string [("A"%string, (3 # 5)%Q); ("B"%string, (2 # 5)%Q)]
         (100000 # 1)%Q (match Schedule.weekly (18267 * 86400) (18285 * 86400 + 86340) "WED" false with Ok l => l | Err _ => [] end)
         true (1 # 20)%Q (PercentFee (1 # 1000) 0) None.
Example hypotheses_are_satisfiable :
  exists tr,
    c_alpha cfg8 = AFixed [("A"%string, (3 # 5)%Q); ("B"%string, (2 # 5)%Q)] /\ c_univ cfg8 = StaticU ["A"; "B"]%string /\
    c_lookbacks cfg8 = None /\ NoDup (map fst [("A"%string, (3 # 5)%Q); ("B"%string, (2 # 5)%Q)]) /\
    run cfg8 mk8 = Ok tr /\ tr_noerr tr /\ length (tr_fills tr) = 6%nat /\ length (tr_equity tr) = 15%nat.
Proof.
  eexists. split; [reflexivity|]. split; [reflexivity|]. split; [reflexivity|]. split.
  { constructor; [simpl; intros [H|[]]; discriminate|]. constructor; [intros []|constructor]. }
  split; [vm_compute; reflexivity|]. split; [unfold tr_noerr; repeat constructor|]. split; reflexivity.
Qed.
Print Assumptions hypotheses_are_satisfiable.

(** the quoted-market premise is satisfiable too: [mk8] quotes both assets positively at every instant *)
Example quoted_premise_satisfiable : forall t, quoted (["A"%string; "B"%string] ++ ["A"%string; "B"%string])%list (mk8 t).
Proof.
  intros t a I.
  assert (M7 : 0 <= (t / 86400) mod 7 < 7) by (apply Z.mod_pos_bound; lia).
  assert (M5 : 0 <= (t / 43200) mod 5 < 5) by (apply Z.mod_pos_bound; lia).
  assert (Q7 : (0 <= inject_Z ((t / 86400) mod 7))%Q) by (change 0%Q with (inject_Z 0); rewrite <- Zle_Qle; lia).
  assert (Q5 : (inject_Z ((t / 43200) mod 5) <= 4)%Q) by (change 4%Q with (inject_Z 4); rewrite <- Zle_Qle; lia).
  simpl in I. destruct I as [I|[I|[I|[I|[]]]]]; subst a; eexists; (split; [reflexivity|]).
  - lra.
  - assert (H : (inject_Z ((t / 43200) mod 5) / 4 == inject_Z ((t / 43200) mod 5) * (1 # 4))%Q) by field. rewrite H. lra.
  - lra.
  - assert (H : (inject_Z ((t / 43200) mod 5) / 4 == inject_Z ((t / 43200) mod 5) * (1 # 4))%Q) by field. rewrite H. lra.
Qed.
Print Assumptions quoted_premise_satisfiable.

(** ... and the any-alpha statement is not vacuous: a universe-driven session over a dynamic universe whose
    second member enters in the second week *)
Definition cfg9 : config :=
  mkCfg (18267 * 86400) (18285 * 86400 + 86340)
        (DynamicU [("A"%string, Some (18260 * 86400)); ("B"%string, Some (18275 * 86400))])
        (ASingle (1 # 2)%Q) (100000 # 1)%Q RDaily true (1 # 20)%Q (PercentFee (1 # 1000) 0) None None.
Example any_alpha_hypotheses_are_satisfiable :
  exists tr, wf_alpha cfg9 /\ run cfg9 mk8 = Ok tr /\ tr_noerr tr /\
             (length (tr_allocs tr) = 15 /\ length (tr_fills tr) = 21)%nat.
Proof.
  eexists. split.
  { unfold wf_alpha. cbn. constructor; [simpl; intros [H|[]]; discriminate|]. constructor; [intros []|constructor]. }
  split; [vm_compute; reflexivity|]. split; [unfold tr_noerr; repeat constructor|]. split; vm_compute; reflexivity.
Qed.
Print Assumptions any_alpha_hypotheses_are_satisfiable.
