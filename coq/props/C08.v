(** C08 — A fixed-weight backtest reproduces the documented trading rules exactly.
    FULL STATEMENT (not yet a theorem): for every fixed-weight configuration and every fully quoted
    market, the fills (time, asset, quantity, price, commission), final cash and holdings, and daily
    equity of [Backtest.run] equal those of [Spec.spec_run].
    PROVED below: the per-step commutation lemmas of that refinement ([..._partial] marks the
    theorem that stands for the missing composition).  The composition itself is exercised on every
    run by the correspondence check, which compares the real sessions with [Spec.spec_run]. *)
From Coq Require Import ZArith QArith String List.
From QS Require Import theories.Num theories.Position theories.Portfolio theories.Fees theories.Broker
  theories.Sizer theories.PCM theories.Backtest theories.Spec proofs.Ledger proofs.PcmProofs proofs.Refinement.
Import ListNotations.
Open Scope Z_scope.

(** executing one order at the quoted price does to cash exactly what the rules say and records
    the same fill (price, commission on the consideration rounded to a whole unit) *)
Theorem backtest_refines_spec_partial :
  forall snap b a q id b1 ef st p,
    snap_find a snap = Some p ->
    (st_cash st == cash_of pid b)%Q ->
    execute (snap_bidask snap) b pid (mkOrd id a q) = (b1, Ok tt, ef) ->
    exists st' comm,
      fill_one (b_fee b) (b_dt b) snap st (a, q) = Some (st', SFill (b_dt b) a q p comm) /\
      ef = [Fill pid (mkTxn a (inject_Z q) (b_dt b) p comm id)] /\
      (st_cash st' == cash_of pid b1)%Q.
Proof. exact execute_refines_fill_one. Qed.
Print Assumptions backtest_refines_spec_partial.

(** the broker's "sells first, each side in queue order" is the rules' "sells first, then buys" *)
Theorem open_fill_order_is_sells_then_buys :
  forall orders : list order,
    map (fun po => (o_asset (snd po), o_qty (snd po))) (sells_first (map (fun o => (pid, o)) orders)) =
    filter (fun o => snd o <? 0) (map (fun o => (o_asset o, o_qty o)) orders) ++
    filter (fun o => negb (snd o <? 0)) (map (fun o => (o_asset o, o_qty o)) orders).
Proof. exact sells_first_single_portfolio. Qed.
Print Assumptions open_fill_order_is_sells_then_buys.

(** daily equity: the account equity is cash plus holdings valued at the marked prices *)
Theorem equity_is_cash_plus_holdings_at_close :
  forall pf snap,
    (forall a p, In (a, p) (pf_pos pf) -> snap_find a snap = Some (p_price p) /\
                                          (pos_net p == inject_Z (Qround.Qfloor (pos_net p)))%Q) ->
    exists v, value_of (map (fun ap => (fst ap, Qround.Qfloor (pos_net (snd ap)))) (pf_pos pf)) snap = Some v /\
              (pf_total_equity pf == pf_cash pf + v)%Q.
Proof. exact equity_is_cash_plus_marked_holdings. Qed.
Print Assumptions equity_is_cash_plus_holdings_at_close.

(** the rules' sizing formulas are the sizers' per-asset functions (C10, C11 characterise them) *)
Theorem long_only_rule_is_the_sizer : forall budget fee w p,
  Qround.Qfloor ((budget * w - fee_total fee (budget * w)) / p) = lo_qty budget fee w p.
Proof. exact spec_long_only_quantity. Qed.
Print Assumptions long_only_rule_is_the_sizer.
Theorem long_short_rule_is_the_sizer : forall equity fee w p,
  qtrunc (inject_Z (trunc_q (equity * w - fee_total fee (equity * w))) / p) = ls_qty equity fee w p.
Proof. exact spec_long_short_quantity. Qed.
Print Assumptions long_short_rule_is_the_sizer.

(** order generation: target minus current for every target asset (C09) *)
Theorem orders_are_target_minus_holdings : forall target current a,
  NoDup (map fst target) ->
  (In a (map fst target) -> z_find a (rebalance_orders target current) = z_find a target - z_find a current) /\
  (~ In a (map fst target) -> z_find a (rebalance_orders target current) = 0).
Proof. exact orders_are_diff. Qed.
Print Assumptions orders_are_target_minus_holdings.

(** Non-vacuity / a first instance of the full statement: a 60/40 weekly session over three weeks,
    computed by both the session model and the rules simulator - same fills, cash, holdings, equity. *)
Definition mk8 (t : Z) : snapshot :=
  [("A"%string, (100 # 1) + inject_Z ((t / 86400) mod 7))%Q; ("B"%string, (50 # 1) - inject_Z ((t / 43200) mod 5) / 4)%Q].
Definition cfg8 : config :=
  mkCfg (18267 * 86400) (18285 * 86400 + 86340) (StaticU ["A"; "B"]%string)
        (AFixed [("A"%string, (3 # 5)%Q); ("B"%string, (2 # 5)%Q)]) (100000 # 1)%Q (RWeekly "WED") true (1 # 20)%Q
        (PercentFee (1 # 1000) 0) None None.
Definition spec8 : spec_cfg :=
  mkSpec (18267 * 86400) (18285 * 86400 + 86340) ["A"; "B"]%string [("A"%string, (3 # 5)%Q); ("B"%string, (2 # 5)%Q)]
         (100000 # 1)%Q (match Schedule.weekly (18267 * 86400) (18285 * 86400 + 86340) "WED" false with Ok l => l | Err _ => [] end)
         true (1 # 20)%Q (PercentFee (1 # 1000) 0) None.
Definition session_fills (tr : list (Z * output)) : list (Z * string * Q * Q * Q) :=
  flat_map (fun o => match snd o with OFill tx => [(fst o, t_asset tx, t_qty tx, t_price tx, t_comm tx)] | _ => [] end) tr.
Definition spec_fills (days : list day_out) : list (Z * string * Q * Q * Q) :=
  flat_map (fun d => map (fun f => match f with SFill t a q p c => (t, a, inject_Z q, p, c) end) (d_fills d)) days.
Example instance_of_the_full_statement :
  exists tr st days,
    run cfg8 mk8 = Ok tr /\ spec_run spec8 mk8 = Some (st, days) /\
    session_fills tr = spec_fills days /\ length (session_fills tr) = 6%nat /\
    map (fun o => fst o) (filter (fun o => match snd o with OEquity _ => true | _ => false end) tr) =
    flat_map (fun d => match d_equity d with Some e => [fst e] | None => [] end) days.
Proof.
  eexists. eexists. eexists. split; [vm_compute; reflexivity|]. split; [vm_compute; reflexivity|].
  split; [vm_compute; reflexivity|]. split; reflexivity.
Qed.
Print Assumptions instance_of_the_full_statement.
