From QS Require Import theories.Spec.
