(** C02 — Holdings equal the net of all fills and are valued at the latest price. *)
From Coq Require Import ZArith QArith String List.
From QS Require Import theories.Num theories.Position theories.Portfolio theories.EntryBroker
  proofs.PnL proofs.Holdings.
Import ListNotations.
Open Scope Q_scope.

(** For every sequence of accepted fills (integer non-zero quantities are [effective]) and price
    marks on a portfolio that starts empty, and every asset [a]: the asset is listed iff the
    signed sum of its fills is non-zero; its reported quantity is that sum; its price is the most
    recent fill or (accepted, while held) mark; the holdings list never has duplicate keys. *)
Theorem qty_is_net_fills_and_price_is_latest :
  forall a ops start cash pf',
    Forall op_effective ops -> prun (pf_init start cash) ops = Some pf' ->
    match pos_find a (pf_pos pf') with
    | Some p => pos_net p == net_fills a ops /\ ~ net_fills a ops == 0 /\ p_price p = snd (track a ops (0, 0))
    | None => net_fills a ops == 0
    end /\ NoDup (map fst (pf_pos pf')).
Proof. exact holdings_from_empty. Qed.
Print Assumptions qty_is_net_fills_and_price_is_latest.

(** The same as an invariant from any consistent state (so it also covers portfolios that
    already hold positions, e.g. between the fills of successive broker updates). *)
Theorem holdings_invariant :
  forall a ops pf pf' st,
    NoDup (map fst (pf_pos pf)) -> hinv a (pf_pos pf) st -> Forall op_effective ops ->
    prun pf ops = Some pf' ->
    NoDup (map fst (pf_pos pf')) /\ hinv a (pf_pos pf') (track a ops st).
Proof. exact holdings_track. Qed.
Print Assumptions holdings_invariant.

Theorem tracked_net_is_sum_of_fills :
  forall a ops st, fst (track a ops st) == fst st + net_fills a ops.
Proof. exact track_net. Qed.
Print Assumptions tracked_net_is_sum_of_fills.

(** Market value is the sum over listed holdings of quantity x that price; equity = cash + it. *)
Theorem market_value_is_sum :
  forall pf, pf_total_mv pf = qsum (map (fun ap => p_price (snd ap) * pos_net (snd ap)) (pf_pos pf)).
Proof. exact mv_is_sum. Qed.
Print Assumptions market_value_is_sum.
Theorem equity_is_cash_plus_market_value : forall pf, pf_total_equity pf == pf_cash pf + pf_total_mv pf.
Proof. exact equity_def. Qed.
Print Assumptions equity_is_cash_plus_market_value.

(** Non-vacuity: buy 5, mark, sell 5 (exactly zero: delisted), a mark while flat (ignored),
    re-open short 3 at another price, flip to long 4 in one fill. *)
Definition tx2 a q t p := PTxn (mkTxn a (q # 1) t (p # 1) 0 0).
Definition ops2 : list pop :=
  [tx2 "A" 5 10 100; PMark "A" (101 # 1) 11; tx2 "A" (-5) 12 102; PMark "A" (1 # 1) 13;
   tx2 "A" (-3) 14 90; tx2 "B" 2 14 7; tx2 "A" 7 15 95].
Example holdings_nonvacuous :
  exists pf', prun (pf_init 0 (1000 # 1)) ops2 = Some pf' /\ Forall op_effective ops2 /\
    net_fills "A" ops2 == 4 # 1 /\ snd (track "A" ops2 (0, 0)) == 95 # 1 /\
    map fst (pf_pos pf') = ["A"%string; "B"%string] /\ pf_total_mv pf' == 394 # 1.
Proof.
  eexists. split; [vm_compute; reflexivity|]. split.
  - unfold ops2, tx2.
    repeat (apply Forall_cons;
            [first [exact I | left; reflexivity | right; unfold Qle; simpl; discriminate]|]).
    apply Forall_nil.
  - repeat split; reflexivity.
Qed.
Print Assumptions holdings_nonvacuous.
