(** C09 — Rebalancing trades the portfolio exactly onto its target. *)
From Coq Require Import ZArith QArith String List Sorted Permutation.
From QS Require Import theories.Num theories.Position theories.Portfolio theories.Fees theories.Sizer theories.PCM
  proofs.SizerProofs proofs.PcmProofs theories.Spec proofs.SpecTarget.
Import ListNotations.
Open Scope Z_scope.

(** the recorded target allocation covers exactly held + universe + alpha keys, with weight zero
    wherever the alpha model is silent *)
Theorem allocation_key_set : forall held univ alpha_w a,
  let fw := merge_weights (map (fun a => (a, 0%Q)) (full_assets held univ)) alpha_w in
  (In a (map fst fw) <-> (In a held \/ In a univ \/ In a (map fst alpha_w))) /\
  ((In a held \/ In a univ) -> ~ In a (map fst alpha_w) -> w_find a fw = Some 0%Q).
Proof. exact weight_keys. Qed.
Print Assumptions allocation_key_set.

Theorem full_asset_list : forall held univ a,
  (In a (full_assets held univ) <-> (In a held \/ In a univ)) /\ NoDup (full_assets held univ).
Proof. exact full_assets_spec. Qed.
Print Assumptions full_asset_list.

(** the orders: exactly target minus current for every target asset, nothing for any other
    asset (for targets with unique keys, as every dict has) *)
Theorem orders_are_target_minus_current : forall target current a,
  NoDup (map fst target) ->
  (In a (map fst target) -> z_find a (rebalance_orders target current) = z_find a target - z_find a current) /\
  (~ In a (map fst target) -> z_find a (rebalance_orders target current) = 0).
Proof. exact orders_are_diff. Qed.
Print Assumptions orders_are_target_minus_current.

(** ascending asset order, no zero-quantity order, no duplicate *)
Theorem orders_ascending_nonzero : forall target current,
  StronglySorted key_le (rebalance_orders target current) /\
  Forall (fun aq => snd aq <> 0) (rebalance_orders target current).
Proof. exact orders_sorted_nonzero. Qed.
Print Assumptions orders_ascending_nonzero.
Theorem orders_no_duplicates : forall target current,
  NoDup (map fst target) -> NoDup (map fst (rebalance_orders target current)).
Proof. exact orders_nodup. Qed.
Print Assumptions orders_no_duplicates.

(** once every order is filled in full (C04) and holdings are the net of fills (C02), the
    holding of each asset is its target *)
Theorem filling_the_orders_reaches_the_target : forall target current a,
  NoDup (map fst target) -> In a (map fst target) ->
  z_find a current + z_find a (rebalance_orders target current) = z_find a target.
Proof. exact fills_reach_target. Qed.
Print Assumptions filling_the_orders_reaches_the_target.

(** a held asset that receives no weight has weight 0 (above) and a zero weight sizes to a zero
    target under both sizers, so it is fully liquidated *)
Theorem zero_weight_target_long_only : forall E fee p, (0 < p)%Q -> lo_qty E fee 0 p = 0.
Proof. exact lo_zero_qty. Qed.
Print Assumptions zero_weight_target_long_only.
Theorem zero_weight_target_long_short : forall E fee p, (0 < p)%Q -> ls_qty E fee 0 p = 0.
Proof. exact ls_zero_qty. Qed.
Print Assumptions zero_weight_target_long_short.

(** ... and in the rules simulator that sessions refine (C08): when the pending orders of a rebalance
    are filled at the next open - sells first, i.e. in another order than generated - the holdings of
    EVERY asset equal the target (0 for assets outside it) *)
Theorem after_the_next_open_holdings_equal_the_target :
  forall fee t s st target st' fs a,
    NoDup (map fst (st_hold st)) -> NoDup (map fst target) ->
    (forall x, In x (map fst (st_hold st)) -> In x (map fst target)) ->
    st_pending st = rebalance_orders target (st_hold st) ->
    Spec.fill_all fee t s (mkS (st_cash st) (st_hold st) [])
      (filter (fun o => snd o <? 0) (st_pending st) ++ filter (fun o => negb (snd o <? 0)) (st_pending st)) = Some (st', fs) ->
    hold_of a (st_hold st') = z_find a target.
Proof. exact next_open_reaches_target. Qed.
Print Assumptions after_the_next_open_holdings_equal_the_target.

(** [sorted(...)] as modelled: a permutation, ascending *)
Theorem sort_is_sorted_permutation : forall (l : list (string * Z)),
  Permutation (sort_by_key l) l /\ StronglySorted key_le (sort_by_key l).
Proof. intro l. exact (conj (sort_perm l) (sort_sorted l)). Qed.
Print Assumptions sort_is_sorted_permutation.

(** Non-vacuity: holdings long B, short Z (outside the universe); universe {A, B}; alpha {A, C}. *)
Definition pr9 (a : string) : option Q := Some (10 # 1)%Q.
Example pcm_nonvacuous :
  exists o, pcm_call (lo_size (100000 # 1) 0 ZeroFee pr9)
                     [("B"%string, 40); ("Z"%string, -7)] ["A"%string; "B"%string]
                     [("C"%string, 1 # 4)%Q; ("A"%string, 3 # 4)%Q] = Ok o /\
    map fst (pc_alloc o) = ["A"; "B"; "Z"; "C"]%string /\
    pc_orders o = [("A"%string, 7500); ("B"%string, -40); ("C"%string, 2500); ("Z"%string, 7)].
Proof. eexists. split; [vm_compute; reflexivity|]. split; reflexivity. Qed.
Print Assumptions pcm_nonvacuous.

(** the construction model with ANY optimiser (fixed-weight pass-through or equal weight): the optimiser is given the alpha
    weights only, so (i) the recorded allocation covers held + universe + alpha keys, (ii) an asset the alpha model names gets
    the optimiser's figure - with the equal-weight optimiser, the scale divided by the number of assets THE ALPHA MODEL NAMES,
    not by the size of the universe or of the holdings -, (iii) every other held or universe asset is targeted at exactly 0 *)
Theorem the_optimiser_sees_only_the_alpha_weights : forall sizer o held univ alpha_w out a,
  pcm_call_opt sizer o held univ alpha_w = Ok out ->
  (In a (map fst (pc_alloc out)) <-> (In a (map fst held) \/ In a univ \/ In a (map fst alpha_w))) /\
  (In a (map fst alpha_w) ->
     match o with
     | OptFixed => w_find a (pc_alloc out) = w_find a alpha_w
     | OptEqual s => w_find a (pc_alloc out) = Some (s * (1 / inject_Z (Z.of_nat (length alpha_w))))%Q
     end) /\
  (~ In a (map fst alpha_w) -> (In a (map fst held) \/ In a univ) -> w_find a (pc_alloc out) = Some 0%Q).
Proof. exact alloc_with_optimiser. Qed.
Print Assumptions the_optimiser_sees_only_the_alpha_weights.

Theorem fixed_optimiser_is_the_plain_construction : forall sizer held univ alpha_w,
  pcm_call_opt sizer OptFixed held univ alpha_w = pcm_call sizer held univ alpha_w.
Proof. exact pcm_call_opt_fixed. Qed.
Print Assumptions fixed_optimiser_is_the_plain_construction.

(** Non-vacuity: the alpha model names A and C (signals 1/4 and 3/4); B is in the universe, Z is held.  Equal weight, scale 1:
    A and C get 1/2 each (not 1/4), B and Z are sold out. *)
Example pcm_equal_nonvacuous :
  exists o, pcm_call_opt (lo_size (100000 # 1) 0 ZeroFee pr9) (OptEqual 1)
                     [("B"%string, 40); ("Z"%string, -7)] ["A"%string; "B"%string]
                     [("C"%string, 1 # 4)%Q; ("A"%string, 3 # 4)%Q] = Ok o /\
    map fst (pc_alloc o) = ["A"; "B"; "Z"; "C"]%string /\
    pc_orders o = [("A"%string, 5000); ("B"%string, -40); ("C"%string, 5000); ("Z"%string, 7)].
Proof. eexists. split; [vm_compute; reflexivity|]. split; reflexivity. Qed.
Print Assumptions pcm_equal_nonvacuous.
