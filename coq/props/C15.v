From QS Require Import theories.Broker.
