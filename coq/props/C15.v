(** C15 — Rejected operations change nothing.  Property theorems only. *)
From Coq Require Import ZArith QArith String List.
From QS Require Import theories.Num theories.Position theories.Portfolio theories.Fees theories.Exchange
  theories.Broker theories.EntryBroker proofs.Noop proofs.NoopUpdate.
Import ListNotations.
Open Scope Q_scope.

(** Broker level, for EVERY state [b] (reachable or not — hence at every point of every
    interleaving): any request other than a clock update that is refused leaves master cash,
    every portfolio's cash, every position record (quantities, averages, commissions, price),
    every pending-order queue and every history list exactly as they were, and records no
    cash movement.  (Clocks are not in the property's list and are not part of [broker_obs].) *)
Theorem rejected_is_noop :
  forall bidask midp b o b' e ef,
    (forall t, o <> Update t) ->
    step bidask midp true b o = (b', Err e, ef) ->
    broker_obs b' = broker_obs b /\ ef = [].
Proof. exact step_rejected_noop. Qed.
Print Assumptions rejected_is_noop.

(** A clock update earlier than the clock of a portfolio that holds a position, or that has
    a pending order the (open) exchange would fill, is refused with the whole state untouched
    (Leibniz-equal, queues included) — the repaired behaviour. *)
Theorem backwards_update_is_noop :
  forall bidask midp b t pid ac,
    In (pid, ac) (b_accts b) ->
    (t < pf_dt (a_pf ac))%Z ->
    (pf_pos (a_pf ac) <> [] \/ (is_open t = true /\ a_q ac <> [])) ->
    step bidask midp true b (Update t) = (b, Err EarlyTimestamp, []).
Proof. exact update_refused_when_early. Qed.
Print Assumptions backwards_update_is_noop.

(** THE COMPLETE STATEMENT for every state reachable from a freshly constructed broker, after any
    operation history: any request refused with an error - including a clock update refused for a
    timestamp earlier than a portfolio's (or position's) clock - leaves every cash balance, position
    record, pending-order queue and history list exactly as it was and records no cash movement.
    (A clock update can also fail for a reason the property does not list - an asset without a
    quote, a non-positive price from the data handler - hence the side condition on updates.) *)
Theorem reachable_rejected_is_noop :
  forall bidask midp start base funds fee b0 ops b rs es o b' e ef,
    broker_init start base funds fee = Ok b0 ->
    run bidask midp true b0 ops = (b, rs, es) ->
    step bidask midp true b o = (b', Err e, ef) ->
    (forall t, o = Update t -> e = EarlyTimestamp) ->
    broker_obs b' = broker_obs b /\ ef = [].
Proof. exact NoopUpdate.reachable_rejected_is_noop. Qed.
Print Assumptions reachable_rejected_is_noop.

(** once the up-front validation of the repaired update has passed, nothing deeper in the update
    (re-marking, order execution) can still refuse the timestamp: the refusal always comes first *)
Theorem validated_update_never_refuses_the_timestamp :
  forall bidask midp b t b1 e ef,
    NoDup (map fst (b_accts b)) ->
    forallb (fun pa => acct_clock_ok t (is_open t) (snd pa)) (b_accts b) = true ->
    update bidask midp true b t = (b1, Err e, ef) -> e <> EarlyTimestamp.
Proof. exact update_validated_never_early. Qed.
Print Assumptions validated_update_never_refuses_the_timestamp.

(** ... and more generally whenever the up-front timestamp validation fails. *)
Theorem update_validation_is_noop :
  forall bidask midp b t,
    forallb (fun pa => acct_clock_ok t (is_open t) (snd pa)) (b_accts b) = false ->
    update bidask midp true b t = (b, Err EarlyTimestamp, []).
Proof. exact update_refused_early. Qed.
Print Assumptions update_validation_is_noop.

(** Portfolio level (explicit timestamps), for every portfolio state: a refused subscription,
    withdrawal or price mark, and a transaction refused for an early timestamp, change no
    cash, position record or history entry. *)
Theorem portfolio_rejected_is_noop :
  forall pf o pf' e,
    pstep pf o = (pf', Err e) ->
    match o with
    | PTxn _ => e = EarlyTimestamp /\
                (t_dt (match o with PTxn tx => tx | _ => mkTxn "" 0 0 0 0 0 end) <? pf_dt pf)%Z = true
    | _ => True
    end ->
    pf_obs pf' = pf_obs pf.
Proof. exact pstep_rejected_noop. Qed.
Print Assumptions portfolio_rejected_is_noop.

(** Refusal table — both directions, so an invalid request is never silently accepted. *)
Theorem refusal_subacct : forall bidask midp b a,
  (exists b' e ef, step bidask midp true b (SubAcct a) = (b', Err e, ef)) <-> a < 0.
Proof. exact subacct_refused. Qed.
Print Assumptions refusal_subacct.
Theorem refusal_wdacct : forall bidask midp b a,
  (exists b' e ef, step bidask midp true b (WdAcct a) = (b', Err e, ef)) <-> (a < 0 \/ b_cash b < a).
Proof. exact wdacct_refused. Qed.
Print Assumptions refusal_wdacct.
Theorem refusal_create : forall bidask midp b pid,
  (exists b' e ef, step bidask midp true b (Create pid) = (b', Err e, ef)) <-> acct_find pid (b_accts b) <> None.
Proof. exact create_refused. Qed.
Print Assumptions refusal_create.
Theorem refusal_submit : forall bidask midp b pid a q,
  (exists b' e ef, step bidask midp true b (Submit pid a q) = (b', Err e, ef)) <-> acct_find pid (b_accts b) = None.
Proof. exact submit_refused. Qed.
Print Assumptions refusal_submit.
Theorem refusal_subpf : forall bidask midp b pid a,
  (exists b' e ef, step bidask midp true b (SubPf pid a) = (b', Err e, ef)) <->
  (a < 0 \/ acct_find pid (b_accts b) = None \/ b_cash b < a \/
   exists ac, acct_find pid (b_accts b) = Some ac /\ (b_dt b < pf_dt (a_pf ac))%Z).
Proof. exact subpf_refused. Qed.
Print Assumptions refusal_subpf.
Theorem refusal_wdpf : forall bidask midp b pid a,
  (exists b' e ef, step bidask midp true b (WdPf pid a) = (b', Err e, ef)) <->
  (a < 0 \/ acct_find pid (b_accts b) = None \/
   exists ac, acct_find pid (b_accts b) = Some ac /\ (pf_cash (a_pf ac) < a \/ (b_dt b < pf_dt (a_pf ac))%Z)).
Proof. exact wdpf_refused. Qed.
Print Assumptions refusal_wdpf.
Theorem refusal_pf_subscribe : forall pf dt a,
  (exists pf' e, pf_subscribe pf dt a = (pf', Err e)) <-> ((dt < pf_dt pf)%Z \/ a < 0).
Proof. exact pf_subscribe_refused. Qed.
Print Assumptions refusal_pf_subscribe.
Theorem refusal_pf_withdraw : forall pf dt a,
  (exists pf' e, pf_withdraw pf dt a = (pf', Err e)) <-> ((dt < pf_dt pf)%Z \/ a < 0 \/ pf_cash pf < a).
Proof. exact pf_withdraw_refused. Qed.
Print Assumptions refusal_pf_withdraw.
Theorem refusal_pf_mark : forall pf a price dt p,
  pos_find a (pf_pos pf) = Some p ->
  (exists pf' e, pf_mark pf a price dt = (pf', Err e)) <->
  (price < 0 \/ (dt < pf_dt pf)%Z \/ (dt < p_dt p)%Z \/ price <= 0).
Proof. exact pf_mark_refused. Qed.
Print Assumptions refusal_pf_mark.

(** The pinned (pre-repair) [update] is kept in the model as [prevalidate = false]; on it the
    property is false: a refused backwards update at an exchange-open time loses the queue. *)
Definition w_quote (t : Z) (a : string) : option (Q * Q) := Some (10 # 1, 11 # 1).
Definition w_mid (t : Z) (a : string) : option Q := Some (21 # 2).
Definition w_state : broker :=
  mkBr 1578416453 "USD" 0 ZeroFee
       [("P1"%string, mkAcct (mkPf 1578416453 0 [] []) [mkOrd 0 "AAA" 148; mkOrd 1 "AAA" (-3)])] 2.
Example update_backwards_refuted :
  exists b' e ef, step w_quote w_mid false w_state (Update 1578415553) = (b', Err e, ef) /\
                  listed e = true /\ broker_obs b' <> broker_obs w_state.
Proof.
  eexists. eexists. eexists. split; [vm_compute; reflexivity|]. split; [reflexivity|].
  vm_compute. discriminate.
Qed.
Print Assumptions update_backwards_refuted.
(** ... while the repaired one refuses it cleanly (non-vacuity of [backwards_update_is_noop]). *)
Example update_backwards_repaired :
  step w_quote w_mid true w_state (Update 1578415553) = (w_state, Err EarlyTimestamp, []).
Proof. vm_compute. reflexivity. Qed.
Print Assumptions update_backwards_repaired.
