(** C14 — A session trades only at scheduled rebalances after burn-in; equity is daily. *)
From Coq Require Import ZArith QArith String List Sorted.
From QS Require Import theories.Num theories.Position theories.Exchange theories.Broker theories.Clock theories.Backtest
  theories.Sizer theories.PCM theories.AllocTable proofs.Orders proofs.BacktestProofs proofs.AllocTableProofs.
Import ListNotations.
Open Scope Z_scope.

(** In every run that ends without an error: the recorded allocation rows (one per portfolio
    construction) are stamped with exactly the clock instants that are scheduled and not earlier
    than the burn-in, in order; the equity points with exactly the market-close events not earlier
    than the burn-in, in order. *)
Theorem construction_and_equity_times :
  forall cfg sched market evs st,
    tr_noerr (run_from cfg sched market st evs) ->
    map fst (filter (fun o => o_alloc (snd o)) (run_from cfg sched market st evs)) =
      filter (reb_at cfg sched) (map fst evs) /\
    map fst (filter (fun o => o_equity (snd o)) (run_from cfg sched market st evs)) =
      map fst (filter (fun e => match snd e with MarketClose => burn_ok cfg (fst e) | _ => false end) evs).
Proof. exact run_alloc_and_equity_times. Qed.
Print Assumptions construction_and_equity_times.

(** per event: exactly one allocation row iff it is a rebalance instant, exactly one equity point
    iff it is a market close (burn-in permitting) *)
Theorem one_event :
  forall cfg sched st t k snap st' outs,
    event_step cfg sched st t k snap = (st', outs, None) ->
    length (filter o_alloc outs) = (if reb_at cfg sched t then 1 else 0)%nat /\
    length (filter o_equity outs) = (match k with MarketClose => if burn_ok cfg t then 1 else 0 | _ => 0 end)%nat /\
    Forall o_noerr outs.
Proof. exact event_step_shape. Qed.
Print Assumptions one_event.

(** fills occur only at instants inside exchange hours - among the clock's events these are the
    market-open events (C04: 14:30 is open, 21:00 / 00:00 / 23:59 are closed) *)
Theorem fills_only_when_exchange_open :
  forall cfg sched market evs st t tx,
    In (t, OFill tx) (run_from cfg sched market st evs) -> is_open t = true.
Proof. exact fills_only_in_exchange_hours. Qed.
Print Assumptions fills_only_when_exchange_open.

(** no fill ever precedes the first portfolio construction *)
Theorem no_fill_before_the_first_rebalance :
  forall cfg sched market evs st,
    StronglySorted ev_lt evs -> qids (b_accts (ss_broker st)) = [] ->
    tr_noerr (run_from cfg sched market st evs) ->
    forall t tx, In (t, OFill tx) (run_from cfg sched market st evs) ->
    exists ta w, In (ta, OAlloc w) (run_from cfg sched market st evs) /\ ta <= t.
Proof. exact no_fill_before_first_rebalance. Qed.
Print Assumptions no_fill_before_the_first_rebalance.

(** * The target-allocation table ([get_target_allocations], model: AllocTable.v) *)

(** its dates are exactly the equity dates not before the burn-in date, in order *)
Theorem allocation_table_dates : forall rows eq burn,
  map fst (alloc_table rows eq burn) =
  filter (fun d => match burn with Some b => day b <=? d | None => true end) eq.
Proof. exact alloc_table_dates. Qed.
Print Assumptions allocation_table_dates.

(** each date carries THE row of the latest rebalance dated on or before it (rows recorded in time order, at
    most one per day - which construction_and_equity_times gives), and no row at all before the first one *)
Theorem allocation_table_carries_the_latest_rebalance : forall rows eq burn d o,
  StronglySorted row_day_lt rows ->
  In (d, o) (alloc_table rows eq burn) ->
  match o with
  | Some w => exists t, In (t, w) rows /\ day t <= d /\
                        forall t' w', In (t', w') rows -> day t' <= d -> day t' <= day t
  | None => Forall (fun r => d < day (fst r)) rows
  end.
Proof.
  intros rows eq burn d o S I. apply alloc_table_rows in I. subst o.
  destruct (latest_row rows d) as [w|] eqn:L.
  - apply (latest_row_spec rows d S w). exact L.
  - apply latest_row_none. exact L.
Qed.
Print Assumptions allocation_table_carries_the_latest_rebalance.

(** whole rows are carried forward, not columns: a cell is the latest row's own weight for that column and
    stays missing when the latest row lacks the column, whatever earlier rows said; the columns are every
    asset that some row names *)
Theorem allocation_cells_and_columns : forall rows d col w a,
  (latest_row rows d = Some w -> alloc_cell rows d col = w_find col w) /\
  (In a (alloc_columns rows) <-> exists t w', In (t, w') rows /\ In a (map fst w')).
Proof. intros. split; [apply cell_is_the_latest_rows_own|apply alloc_columns_spec]. Qed.
Print Assumptions allocation_cells_and_columns.

Example allocation_table_nonvacuous :
  alloc_table [(18276 * 86400 + 75600, [("A"%string, 1%Q); ("B"%string, 0%Q)]); (18283 * 86400 + 75600, [("A"%string, (1 # 2)%Q)])]
              [18275; 18276; 18277; 18283; 18284] (Some (18276 * 86400)) =
  [(18276, Some [("A"%string, 1%Q); ("B"%string, 0%Q)]); (18277, Some [("A"%string, 1%Q); ("B"%string, 0%Q)]);
   (18283, Some [("A"%string, (1 # 2)%Q)]); (18284, Some [("A"%string, (1 # 2)%Q)])] /\
  alloc_cell [(18276 * 86400 + 75600, [("A"%string, 1%Q); ("B"%string, 0%Q)]); (18283 * 86400 + 75600, [("A"%string, (1 # 2)%Q)])]
             18284 "B" = None.
Proof. split; vm_compute; reflexivity. Qed.
Print Assumptions allocation_table_nonvacuous.

(** Non-vacuity: weekly (Wednesday) rebalancing with a burn-in on the second Wednesday's close:
    construction runs once, the fill comes at Thursday's open, equity is daily from the burn-in on. *)
Definition cfg14 : config :=
  mkCfg (18267 * 86400) (18277 * 86400 + 86340) (PCM.StaticU ["A"%string]) (AFixed [("A"%string, 1%Q)])
        (10000 # 1)%Q (RWeekly "WED") true 0%Q Fees.ZeroFee (Some (18276 * 86400 + 75600)) None.
Example session_nonvacuous :
  exists tr, run cfg14 (fun _ => [("A"%string, (100 # 1)%Q)]) = Ok tr /\ tr_noerr tr /\
    map fst (filter (fun o => o_alloc (snd o)) tr) = [18276 * 86400 + 75600] /\
    map fst (filter (fun o => o_fill (snd o)) tr) = [18277 * 86400 + 52200] /\
    map fst (filter (fun o => o_equity (snd o)) tr) = [18276 * 86400 + 75600; 18277 * 86400 + 75600].
Proof.
  eexists. split; [vm_compute; reflexivity|]. split; [repeat constructor|]. repeat split; reflexivity.
Qed.
Print Assumptions session_nonvacuous.
