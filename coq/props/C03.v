(** C03 — Position P&L reconciles exactly to the cash flows of its fills. *)
From Coq Require Import ZArith QArith String List.
From QS Require Import theories.Num theories.Position theories.Portfolio proofs.PnL.
Import ListNotations.
Open Scope Q_scope.

(** Real-valued quantities, prices and commissions: a position opened by any effective fill
    [tx] (negative, or >= 1 unit - every non-zero integer qualifies), followed by any list of
    effective fills that the position accepts, then marked at any accepted price [c]:
    total P&L = c x net - sum(price x signed quantity) - sum(commissions)
              = realised + unrealised,
    unrealised = (c - average cost) x net, net = sum of signed quantities - in every sign
    regime (long, short, flipped, flat). *)
Theorem pnl_reconciles_to_cash_flows :
  forall tx fs p c dt p' u,
    effective tx -> Forall effective fs ->
    build (pos_open tx) fs = Some p ->
    pos_update_price p c dt = (p', Ok u) ->
    pos_total_pnl p' == c * netq (rev fs ++ [tx]) - flows (rev fs ++ [tx]) - comms (rev fs ++ [tx]) /\
    pos_total_pnl p' == pos_realised p' + pos_unrealised p' /\
    pos_unrealised p' == (c - pos_avg_price p') * pos_net p' /\
    pos_net p' == netq (rev fs ++ [tx]).
Proof. exact position_pnl_reconciles. Qed.
Print Assumptions pnl_reconciles_to_cash_flows.

(** The invariant behind it, usable from any state that satisfies it. *)
Theorem pnl_reconciles_invariant :
  forall p fs, pinv p fs -> pos_total_pnl p == pos_market_value p - flows fs - comms fs.
Proof. exact pnl_reconciles. Qed.
Print Assumptions pnl_reconciles_invariant.
Theorem invariant_preserved :
  forall p fs tx p', pinv p fs -> effective tx -> pos_transact p tx = (p', Ok tt) -> pinv p' (tx :: fs).
Proof. exact pos_transact_inv. Qed.
Print Assumptions invariant_preserved.
Theorem invariant_established : forall tx, effective tx -> pinv (pos_open tx) [tx].
Proof. exact pos_open_inv. Qed.
Print Assumptions invariant_established.

(** average cost includes the open side's commission *)
Theorem average_cost_long : forall p fs, pinv p fs -> 0 < pos_net p ->
  pos_avg_price p == (bpq_of fs + bc_of fs) / bq_of fs.
Proof. exact avg_price_long. Qed.
Print Assumptions average_cost_long.
Theorem average_cost_short : forall p fs, pinv p fs -> pos_net p < 0 ->
  pos_avg_price p == (spq_of fs - sc_of fs) / sq_of fs.
Proof. exact avg_price_short. Qed.
Print Assumptions average_cost_short.

(** Re-marking changes the price (hence market value and unrealised P&L) and nothing else:
    realised P&L, net quantity and every accounting field are Leibniz-equal. *)
Theorem remark_changes_price_only :
  forall p price dt p' u,
    pos_update_price p price dt = (p', Ok u) ->
    p_price p' = price /\ pos_realised p' = pos_realised p /\ pos_net p' = pos_net p /\
    (p_bq p', p_sq p', p_avgb p', p_avgs p', p_bc p', p_sc p') = (p_bq p, p_sq p, p_avgb p, p_avgs p, p_bc p, p_sc p).
Proof. exact remark_frame. Qed.
Print Assumptions remark_changes_price_only.

(** portfolio totals are the sums over positions (definitional) *)
Theorem portfolio_totals_are_sums : forall ps,
  ph_total_pnl ps = qsum (map (fun ap => pos_total_pnl (snd ap)) ps) /\
  ph_total_realised ps = qsum (map (fun ap => pos_realised (snd ap)) ps) /\
  ph_total_unrealised ps = qsum (map (fun ap => pos_unrealised (snd ap)) ps).
Proof. intro ps. exact (conj eq_refl (conj eq_refl eq_refl)). Qed.
Print Assumptions portfolio_totals_are_sums.

(** Out-of-contract observation forced out by the proof: a buy of a fraction of one unit is
    ignored by the position (while the portfolio would still debit cash). *)
Example subunit_buy_ignored :
  let p := pos_open (mkTxn "A" (5 # 1) 0 (10 # 1) 0 0) in
  pos_transact p (mkTxn "A" (1 # 2) 1 (10 # 1) 0 1) = (p, Ok tt).
Proof. vm_compute. reflexivity. Qed.
Print Assumptions subunit_buy_ignored.

(** Non-vacuity: long 10 @ 100 (commission 1), sell 15 @ 110 (flip to short, commission 2),
    buy 2.5 @ 105 (real-valued quantity), marked at 108. *)
Definition f3 q p c t := mkTxn "A" q t p c 0.
Example pnl_nonvacuous :
  exists p p',
    build (pos_open (f3 (10 # 1) (100 # 1) (1 # 1) 0)) [f3 (-15 # 1) (110 # 1) (2 # 1) 1; f3 (5 # 2) (105 # 1) (1 # 2) 2] = Some p /\
    pos_update_price p (108 # 1) 3 = (p', Ok tt) /\
    pos_net p' == -5 # 2 /\ pos_total_pnl p' == 114 # 1.
Proof. eexists. eexists. split; [vm_compute; reflexivity|]. split; [vm_compute; reflexivity|]. split; reflexivity. Qed.
Print Assumptions pnl_nonvacuous.
