(** C13 — Rebalance schedules hold exactly the intended dates and meet a clock event. *)
From Coq Require Import ZArith List String Sorted.
From QS Require Import theories.Exchange theories.Calendar theories.Position theories.Clock theories.Schedule
  proofs.ClockProofs proofs.MonthSweep proofs.ScheduleProofs.
Import ListNotations.
Open Scope Z_scope.

Theorem weekly_schedule_exact : forall start stop wd pm k t,
  parse_weekday wd = Some k -> start <= stop -> tod start <= tod stop ->
  exists l, weekly start stop wd pm = Ok l /\
    (In t l <-> exists d, t = d * 86400 + market_time pm /\ day start <= d <= day stop /\ weekday d = k) /\
    StronglySorted Z.lt l.
Proof. exact weekly_exact. Qed.
Print Assumptions weekly_schedule_exact.

Theorem weekday_names : forall wd k, parse_weekday wd = Some k ->
  (k = 0 /\ upper wd = "MON"%string) \/ (k = 1 /\ upper wd = "TUE"%string) \/ (k = 2 /\ upper wd = "WED"%string) \/
  (k = 3 /\ upper wd = "THU"%string) \/ (k = 4 /\ upper wd = "FRI"%string).
Proof. exact parse_weekday_spec. Qed.
Print Assumptions weekday_names.

Theorem unknown_weekday_is_rejected : forall start stop wd pm,
  parse_weekday wd = None -> weekly start stop wd pm = Err BadWeekday.
Proof. exact unknown_weekday_rejected. Qed.
Print Assumptions unknown_weekday_is_rejected.

Theorem daily_schedule_exact : forall start stop pm t,
  (In t (daily start stop pm) <->
     exists d, t = d * 86400 + market_time pm /\ day start <= d <= day stop /\ weekday d <= 4) /\
  StronglySorted Z.lt (daily start stop pm).
Proof. exact daily_exact. Qed.
Print Assumptions daily_schedule_exact.

(** end of month = the LAST Monday-Friday date of its month: a weekday with no later weekday in
    the same month (months via the proleptic Gregorian [month_index], for every day number) *)
Theorem end_of_month_schedule_exact : forall start stop pm t,
  start <= stop -> tod start <= tod stop ->
  (In t (end_of_month start stop pm) <->
     exists d, t = d * 86400 + market_time pm /\ day start <= d <= day stop /\ weekday d <= 4 /\
               forall x, d < x -> weekday x <= 4 -> month_index x <> month_index d) /\
  StronglySorted Z.lt (end_of_month start stop pm).
Proof. exact eom_exact. Qed.
Print Assumptions end_of_month_schedule_exact.

Theorem month_index_steps : forall d, month_index d <= month_index (d + 1) <= month_index d + 1.
Proof. exact month_step. Qed.
Print Assumptions month_index_steps.

Theorem buy_and_hold_exact : forall start,
  (weekday (day start) <= 4 -> buy_and_hold start = [start]) /\
  (5 <= weekday (day start) ->
     exists d, buy_and_hold start = [d * 86400 + tod start] /\ day start < d /\ weekday d <= 4 /\
               forall x, day start < x < d -> 5 <= weekday x).
Proof. exact bah_exact. Qed.
Print Assumptions buy_and_hold_exact.

(** no scheduled rebalance is silently skipped: each instant is a market-close (market-open when
    pre-market) event of the clock built for the same range *)
Theorem weekly_meets_clock : forall start stop wd pm l t,
  start <= stop -> weekly start stop wd pm = Ok l -> In t l ->
  exists evs, sim_events start stop false false = Ok evs /\ In (t, if pm then MarketOpen else MarketClose) evs.
Proof. exact meets_clock_weekly. Qed.
Print Assumptions weekly_meets_clock.
Theorem end_of_month_meets_clock : forall start stop pm t,
  start <= stop -> In t (end_of_month start stop pm) ->
  exists evs, sim_events start stop false false = Ok evs /\ In (t, if pm then MarketOpen else MarketClose) evs.
Proof. exact meets_clock_eom. Qed.
Print Assumptions end_of_month_meets_clock.
Theorem daily_meets_clock : forall start stop pm t,
  start <= stop -> tod start <= tod stop -> In t (daily start stop pm) ->
  exists evs, sim_events start stop false false = Ok evs /\ In (t, if pm then MarketOpen else MarketClose) evs.
Proof. exact meets_clock_daily. Qed.
Print Assumptions daily_meets_clock.

(** Non-vacuity: 2020-02-10 .. 2020-06-01 - February ends on a Saturday (BME = Fri 28th), May on a Sunday. *)
Example eom_nonvacuous :
  end_of_month 1581292800 1591055940 false = [1582923600; 1585688400; 1588280400; 1590786000].
Proof. vm_compute. reflexivity. Qed.
Print Assumptions eom_nonvacuous.
Example weekly_nonvacuous :
  weekly 1581292800 1583020740 "wed" true = Ok [1581517800; 1582122600; 1582727400].
Proof. vm_compute. reflexivity. Qed.
Print Assumptions weekly_nonvacuous.
