(** C01 — Cash is conserved across master account, portfolios and fills.
    Property theorems only; every proof is [exact <lemma>]. *)
From Coq Require Import ZArith QArith String List.
From QS Require Import theories.Num theories.Position theories.Portfolio theories.Fees
  theories.Broker proofs.Ledger proofs.LedgerHist.
Import ListNotations.
Open Scope Q_scope.

(** For every data handler ([bidask], [midp]), every constructor argument and every finite
    operation list: each portfolio's cash is its transfers in minus transfers out minus,
    for every fill, price x signed quantity + commission; the master account is initial
    funds + external subscriptions - withdrawals - net transfers. *)
Theorem pf_cash_ledger :
  forall bidask midp pre start base funds fee b0 ops b1 rs es pid,
    broker_init start base funds fee = Ok b0 ->
    run bidask midp pre b0 ops = (b1, rs, es) ->
    cash_of pid b1 == xfer_sum pid es - fill_sum pid es /\
    b_cash b1 == funds + ext_sum es - xfer_all es.
Proof. exact ledger_from_init. Qed.
Print Assumptions pf_cash_ledger.

(** The same from any state (not only a fresh broker): the ledger is an invariant of [step]. *)
Theorem cash_ledger_invariant :
  forall bidask midp pre ops b b1 rs es pid,
    run bidask midp pre b ops = (b1, rs, es) ->
    b_cash b1 == b_cash b + ext_sum es - xfer_all es /\
    cash_of pid b1 == cash_of pid b + xfer_sum pid es - fill_sum pid es.
Proof. exact run_ledger. Qed.
Print Assumptions cash_ledger_invariant.

(** Every transfer is zero-sum between the two accounts and touches no third one. *)
Theorem transfer_is_zero_sum :
  forall bidask midp pre b pid a b1 r t,
    step bidask midp pre b (SubPf pid a) = (b1, r, [XferIn pid a t]) ->
    b_cash b1 == b_cash b - a /\ cash_of pid b1 == cash_of pid b + a /\
    forall q, String.eqb q pid = false -> cash_of q b1 == cash_of q b.
Proof. exact transfer_zero_sum. Qed.
Print Assumptions transfer_is_zero_sum.

Theorem transfer_back_is_zero_sum :
  forall bidask midp pre b pid a b1 r t,
    step bidask midp pre b (WdPf pid a) = (b1, r, [XferOut pid a t]) ->
    b_cash b1 == b_cash b + a /\ cash_of pid b1 == cash_of pid b - a /\
    forall q, String.eqb q pid = false -> cash_of q b1 == cash_of q b.
Proof. exact transfer_back_zero_sum. Qed.
Print Assumptions transfer_back_is_zero_sum.

(** Nothing else ever changes a cash balance: an operation that records no cash movement
    (a refused request, an order submission, a clock update without fills, any getter)
    leaves master cash and every portfolio's cash identical (Leibniz equality). *)
Theorem cash_frame :
  forall bidask midp pre b o b1 r,
    step bidask midp pre b o = (b1, r, []) ->
    b_cash b1 = b_cash b /\ forall pid, cash_of pid b1 = cash_of pid b.
Proof. exact step_frame. Qed.
Print Assumptions cash_frame.

(** Account-level totals are obtainable in every state (they return [Ok]), carry one entry
    per portfolio equal to that portfolio's own figure, and "master" is their sum. *)
Theorem account_totals_obtainable :
  forall bidask midp pre b,
    step bidask midp pre b GetAcctTMV =
      (b, Ok (ODict (map (fun pa => (fst pa, pf_total_mv (a_pf (snd pa)))) (b_accts b) ++
                     [("master"%string, qsum (map (fun pa => pf_total_mv (a_pf (snd pa))) (b_accts b)))])), []) /\
    step bidask midp pre b GetAcctEquity =
      (b, Ok (ODict (map (fun pa => (fst pa, pf_total_equity (a_pf (snd pa)))) (b_accts b) ++
                     [("master"%string, qsum (map (fun pa => pf_total_equity (a_pf (snd pa))) (b_accts b)))])), []).
Proof. exact account_totals. Qed.
Print Assumptions account_totals_obtainable.

Theorem per_portfolio_figures :
  forall bidask midp pre b pid ac,
    acct_find pid (b_accts b) = Some ac ->
    step bidask midp pre b (GetPfTMV pid) = (b, Ok (ONum (pf_total_mv (a_pf ac))), []) /\
    step bidask midp pre b (GetPfEquity pid) = (b, Ok (ONum (pf_total_equity (a_pf ac))), []) /\
    step bidask midp pre b (GetPfCash pid) = (b, Ok (ONum (pf_cash (a_pf ac))), []) /\
    pf_total_equity (a_pf ac) == pf_total_mv (a_pf ac) + pf_cash (a_pf ac).
Proof. exact per_portfolio_getters. Qed.
Print Assumptions per_portfolio_figures.

(** The event history of a portfolio is exactly its ledger: one event per cash movement,
    in order, amounts and running true balance rounded half-even to cents, nothing else
    (Leibniz equality of the event lists). *)
Theorem history_is_ledger :
  forall bidask midp pre start base funds fee b0 ops b1 rs es pid,
    broker_init start base funds fee = Ok b0 ->
    run bidask midp pre b0 ops = (b1, rs, es) ->
    hist_of pid b1 = ledger_hist pid es 0.
Proof. exact history_from_init. Qed.
Print Assumptions history_is_ledger.

(** Non-vacuity: a concrete run with a transfer, a short sale that flips to a long, a
    percentage fee and an overdrawn balance meets the hypotheses and has a non-empty ledger. *)
Definition ex_quote (t : Z) (a : string) : option (Q * Q) := Some (10 # 1, 11 # 1).
Definition ex_mid (t : Z) (a : string) : option Q := Some (21 # 2).
Definition ex_ops : list op :=
  [Create "P"; SubPf "P" (1000 # 1); Submit "P" "A" (-5); Update 1578321000;
   Submit "P" "A" 200; Update 1578321060; WdPf "P" (1 # 4)].
Example ledger_nonvacuous :
  exists b0 b1 rs es,
    broker_init 1578268800 "USD" (5000 # 1) (PercentFee (1 # 100) (1 # 200)) = Ok b0 /\
    run ex_quote ex_mid true b0 ex_ops = (b1, rs, es) /\
    length es = 3%nat /\ Qlt (cash_of "P" b1) 0 /\ length (hist_of "P" b1) = 3%nat.
Proof.
  eexists. eexists. eexists. eexists.
  split; [reflexivity|]. split; [vm_compute; reflexivity|].
  split; [reflexivity|]. split; [reflexivity|]. reflexivity.
Qed.
Print Assumptions ledger_nonvacuous.
