(** C17 — Performance statistics match their definitions for every equity curve. *)
From Coq Require Import ZArith QArith String List.
From QS Require Import theories.Num theories.Portfolio theories.Signals theories.Stats
  proofs.SignalProofs proofs.StatsProofs.
Import ListNotations.
Open Scope Q_scope.

(** cumulative returns compound consistently: cum_t == e_t / e_0 for every non-vanishing curve *)
Theorem cumulative_returns_telescope : forall e0 es,
  ~ e0 == 0 -> Forall (fun e => ~ e == 0) es ->
  Forall2 (fun c e => c == e / e0) (cum_of (returns_of (e0 :: es))) (e0 :: es).
Proof. exact cum_telescopes. Qed.
Print Assumptions cumulative_returns_telescope.

(** weekly / monthly / yearly (any key function) aggregates compound to the same total as the
    per-period series *)
Theorem aggregates_compound_to_the_total : forall key fuel dated,
  (length dated <= fuel)%nat ->
  prod_plain (map (fun g => 1 + compound (snd g)) (group_by fuel key dated)) ==
  prod_plain (map (fun r => 1 + r) (map snd dated)).
Proof. exact aggregates_compound. Qed.
Print Assumptions aggregates_compound_to_the_total.

(** drawdown at t+1 = (hwm - value) / hwm where hwm is the maximum of the observations up to and
    including that date AND the first observation; 0 at the first date *)
Theorem drawdown_is_one_minus_value_over_running_max : forall c0 cs t,
  (t < length cs)%nat ->
  let h := nth t (hwm_from c0 cs) 0 in
  nth (S t) (drawdowns false (c0 :: cs)) 0 == (h - nth t cs 0) / h /\
  is_max h (c0 :: firstn (S t) cs).
Proof. exact drawdown_def. Qed.
Print Assumptions drawdown_is_one_minus_value_over_running_max.

Theorem max_drawdown_is_the_maximum : forall x l, is_max (qmax_list (x :: l)) (x :: l).
Proof. exact maxdd_def. Qed.
Print Assumptions max_drawdown_is_the_maximum.

(** duration = the longest consecutive under-water run: it bounds every run of non-zero
    drawdowns, and it is attained by one (or is 0) *)
Theorem duration_bounds_runs : forall pre run post,
  Forall (fun x => ~ x == 0) run -> (length run <= longest_run (pre ++ run ++ post))%nat.
Proof. exact duration_bounds_every_run. Qed.
Print Assumptions duration_bounds_runs.
Theorem duration_is_attained : forall l,
  longest_run l = 0%nat \/
  exists pre run post, l = pre ++ run ++ post /\ Forall (fun x => ~ x == 0) run /\ longest_run l = length run.
Proof.
  intro l. unfold longest_run.
  destruct (longest_run_from_attained l 0 0) as [H|(pre & run & post & L & F & [H|[P H]])].
  - left. exact H.
  - right. exists pre, run, post. auto.
  - right. exists pre, run, post. auto.
Qed.
Print Assumptions duration_is_attained.

(** mean / population variance (inputs of Sharpe, Sortino, annualised volatility) *)
Theorem mean_and_population_variance : forall l,
  mean l == qsum l / inject_Z (Z.of_nat (length l)) /\ popvar l == popvar_plain l.
Proof. exact moments_def. Qed.
Print Assumptions mean_and_population_variance.

(** every statistic is unchanged when equity is multiplied by a non-zero constant: the returns
    are identical, and all statistics are computed from the returns and the dates *)
Theorem returns_unchanged_by_scaling : forall k es, ~ k == 0 -> returns_of (map (Qmult k) es) = returns_of es.
Proof. exact returns_scale_invariant. Qed.
Print Assumptions returns_unchanged_by_scaling.
Theorem all_statistics_unchanged_by_scaling : forall seed0 moments k curve,
  ~ k == 0 ->
  compute seed0 moments (map (fun de => (fst de, k * snd de)) curve) = compute seed0 moments curve.
Proof. exact statistics_scale_invariant. Qed.
Print Assumptions all_statistics_unchanged_by_scaling.

(** the pinned loop (high-water mark seeded with 0, first observation skipped) under-reports the
    drawdown of a curve whose first point is its peak *)
Definition peak_first : list Q := [1; 9 # 10; 8 # 10; 85 # 100; 95 # 100].
Example drawdown_def_refuted :
  qmax_list (drawdowns true peak_first) == 1 # 9 /\ longest_run (drawdowns true peak_first) = 2%nat /\
  qmax_list (drawdowns false peak_first) == 1 # 5 /\ longest_run (drawdowns false peak_first) = 4%nat.
Proof. repeat split; vm_compute; reflexivity. Qed.
Print Assumptions drawdown_def_refuted.

(** Non-vacuity: a curve across a month end and a year end *)
Example stats_nonvacuous :
  let s := compute false true [(18260%Z, 100 # 1); (18261%Z, 110 # 1); (18262%Z, 99 # 1); (18263%Z, 99 # 1); (18264%Z, 121 # 1)] in
  s_final s == 121 # 100 /\ s_maxdd s == 1 # 10 /\ s_duration s = 2%nat /\
  map fst (s_yearly s) = [2019%Z; 2020%Z] /\ length (s_monthly s) = 2%nat.
Proof. repeat split; vm_compute; reflexivity. Qed.
Print Assumptions stats_nonvacuous.
