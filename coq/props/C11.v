(** C11 — Long/short sizing respects gross leverage and the sign of every weight. *)
From Coq Require Import ZArith QArith Qabs String List.
From QS Require Import theories.Num theories.Position theories.Portfolio theories.Fees theories.Sizer
  proofs.SizerProofs.
Import ListNotations.
Open Scope Q_scope.

(** With D = equity x scaled weight and after-cost dollars [after = D - fees(D)]: the target is a
    whole number obtained by truncation toward zero; it has the sign of [after] (or is zero); its
    cost |q| x price never exceeds |after|; and one more share would not fit within |after| to
    within one currency unit. *)
Theorem qty_trunc_affordable_signed :
  forall E fee w price, 0 < price ->
    let D := E * w in
    let after := D - fee_total fee D in
    let q := ls_qty E fee w price in
    (0 <= after -> (0 <= q)%Z /\ inject_Z q * price <= after /\ after - 1 < (inject_Z q + 1) * price) /\
    (after < 0 -> (q <= 0)%Z /\ after <= inject_Z q * price /\ (inject_Z q - 1) * price < after + 1).
Proof. exact ls_qty_spec. Qed.
Print Assumptions qty_trunc_affordable_signed.

(** the sign of the after-cost dollars is the sign of the weight, and |after| <= (1 + f) |D|,
    for fee rates f = c + t <= 1 (the hypothesis the proof forces; see K2) *)
Theorem sign_kept_and_cost_bounded :
  forall E c t w, 0 < E -> 0 <= c -> 0 <= t -> c + t <= 1 ->
    let D := E * w in
    let after := D - fee_total (PercentFee c t) D in
    (0 <= w -> 0 <= after) /\ (w < 0 -> after < 0) /\ Qabs after <= (1 + (c + t)) * Qabs D.
Proof. exact ls_after_sign. Qed.
Print Assumptions sign_kept_and_cost_bounded.

(** after normalisation the gross exposure of the scaled weights is exactly the leverage - so
    sum |D_i| = L x equity and, with the two theorems above, sum |q_i| price_i <= L x equity x (1 + f) -
    provided the raw gross exposure is not ~0 (|.| <= binary64 1e-8; see K3) *)
Theorem normalised_gross_is_leverage :
  forall lev w, 0 < lev -> isclose0 (qsum (map (fun aw => Qabs (snd aw)) w)) = false ->
    qsum (map (fun aw => Qabs (snd aw)) (ls_normalise lev w)) == lev.
Proof. exact ls_normalised_gross. Qed.
Print Assumptions normalised_gross_is_leverage.

Theorem non_positive_leverage_rejected : forall l, l <= 0 -> ls_check_leverage l = Err BadLeverage.
Proof. exact ls_rejects_leverage. Qed.
Print Assumptions non_positive_leverage_rejected.
Theorem positive_leverage_accepted : forall l, 0 < l -> ls_check_leverage l = Ok l.
Proof. exact ls_accepts_leverage. Qed.
Print Assumptions positive_leverage_accepted.
Theorem unavailable_price_rejected :
  forall f price w, (exists a x, In (a, x) w /\ price a = None) -> exists e, size_all f price w = Err e.
Proof. exact size_all_nan. Qed.
Print Assumptions unavailable_price_rejected.

(** truncation toward zero = floor of a non-negative, ceiling of a non-positive *)
Theorem int_of_nonnegative_is_floor : forall x, 0 <= x -> qtrunc x = Qround.Qfloor x.
Proof. exact qtrunc_nonneg. Qed.
Print Assumptions int_of_nonnegative_is_floor.
Theorem int_of_nonpositive_is_ceiling : forall x, x <= 0 -> qtrunc x = Qround.Qceiling x.
Proof. exact qtrunc_neg. Qed.
Print Assumptions int_of_nonpositive_is_ceiling.

(** the two corner findings as refutations of the unguarded statements *)
Example fee_over_100_sign_refuted :
  (ls_qty (1000000 # 1) (PercentFee (3 # 5) (3 # 5)) 1 (10 # 1) < 0)%Z.
Proof. vm_compute. reflexivity. Qed.
Print Assumptions fee_over_100_sign_refuted.
Example tiny_leverage_refuted :
  let w := [("A"%string, 5 # 1000000000)] in
  ls_normalise (1 # 1000000000) w = w /\
  (1 # 1000000000) * (1000000000000 # 1) < inject_Z (ls_qty (1000000000000 # 1) ZeroFee (5 # 1000000000) (10 # 1)) * (10 # 1).
Proof. split; vm_compute; reflexivity. Qed.
Print Assumptions tiny_leverage_refuted.

(** Non-vacuity: signed weights, leverage 2, a 0.1% fee. *)
Definition pr11 (a : string) : option Q :=
  if String.eqb a "A" then Some (250 # 1) else if String.eqb a "B" then Some (50 # 1) else None.
Example sizing_nonvacuous :
  ls_size (1000000 # 1) (2 # 1) (PercentFee (1 # 1000) 0) pr11 [("B"%string, - (1 # 4)); ("A"%string, 3 # 4)] =
  Ok [("A"%string, 5994%Z); ("B"%string, (-10010)%Z)].
Proof. vm_compute. reflexivity. Qed.
Print Assumptions sizing_nonvacuous.
