(** C16 — Signals equal their definitions over the trailing window of supplied closes. *)
From Coq Require Import ZArith QArith String List.
From QS Require Import theories.Num theories.Position theories.Portfolio theories.Clock theories.PCM theories.Signals theories.Backtest
  proofs.SignalProofs proofs.SessionSignals proofs.BacktestProofs proofs.SpecRun proofs.SessionSignalsRun.
Import ListNotations.
Open Scope Q_scope.

(** after ANY stream of prices the N-window holds exactly the most recent N of them *)
Theorem window_is_most_recent : forall n (xs : list Q), fold_left (push n) xs [] = lastn n xs.
Proof. exact buffer_is_suffix. Qed.
Print Assumptions window_is_most_recent.

(** N-period momentum over the (N+1)-window = last / first - 1 (telescoping product of the
    simple returns), for positive prices; 0 while fewer than two prices have been seen *)
Theorem momentum_is_last_over_first : forall x y w,
  0 < x -> all_pos (y :: w) -> momentum (x :: y :: w) == last (y :: w) x / x - 1.
Proof. exact momentum_def. Qed.
Print Assumptions momentum_is_last_over_first.
Theorem momentum_warming_up : forall x, momentum [] = 0 /\ momentum [x] = 0.
Proof. exact momentum_warmup. Qed.
Print Assumptions momentum_warming_up.

(** moving average = arithmetic mean of the window (shorter window while warming up) *)
Theorem sma_is_mean : forall x w,
  sma (x :: w) = Some (mean (x :: w)) /\
  mean (x :: w) == qsum (x :: w) / inject_Z (Z.of_nat (length (x :: w))).
Proof. exact sma_def. Qed.
Print Assumptions sma_is_mean.

(** volatility^2 = 252 x population variance of the simple returns of the window, 0 when no
    return exists yet; the window of N+1 prices has N returns *)
Theorem volatility_squared : forall w,
  vol_sq w == match returns w with [] => 0 | rs => 252 * popvar_plain rs end.
Proof. exact vol_def. Qed.
Print Assumptions volatility_squared.
Theorem window_returns_count : forall w, length (returns w) = (length w - 1)%nat.
Proof. exact returns_length. Qed.
Print Assumptions window_returns_count.

(** different lookbacks and assets never influence each other: whatever interleaving of appends
    for whatever assets happened, the window the buffers hold for (a, N) is the most recent N
    prices of a's own stream *)
Theorem windows_are_independent : forall lbs assets apps a n w,
  let bs0 := flat_map (fun b => map (fun m => ((b, m), @nil Q)) lbs) assets in
  buf_find a n (fold_left (fun bs p => buf_append lbs bs (fst p) (snd p)) apps bs0) = Some w ->
  w = lastn n (stream_of a apps).
Proof. exact windows_independent. Qed.
Print Assumptions windows_are_independent.

(** During a backtest: the signals are touched at market-close events and by nothing else ... *)
Theorem signals_change_only_at_market_close :
  forall cfg sched st t k snap st' outs,
    event_step cfg sched st t k snap = (st', outs, None) ->
    match k with
    | MarketClose => signals_update cfg (ss_sig st) t snap = Ok (ss_sig st')
    | _ => ss_sig st' = ss_sig st
    end.
Proof. exact event_step_signals. Qed.
Print Assumptions signals_change_only_at_market_close.

(** ... and one close does exactly this: the tracked asset list becomes (old list) ++ (universe
    members not yet tracked); EVERY tracked asset receives exactly one observation - that close's
    price - into every window (so a newly tracked asset starts from an empty window); the warm-up
    counter advances by one. *)
Theorem one_observation_per_asset_per_close :
  forall cfg g t snap g' lbs hist,
    c_lookbacks cfg = Some lbs ->
    windows_ok (map S lbs) (g_mom g) hist -> windows_ok lbs (g_sma g) hist ->
    signals_update cfg g t snap = Ok g' ->
    g_assets g' = update_assets (g_assets g) (universe_assets (c_univ cfg) t) /\
    g_warm g' = S (g_warm g) /\
    windows_ok (map S lbs) (g_mom g') (hist ++ obs_of snap (g_assets g')) /\
    windows_ok lbs (g_sma g') (hist ++ obs_of snap (g_assets g')) /\
    length (obs_of snap (g_assets g')) = length (g_assets g').
Proof. exact signals_update_spec. Qed.
Print Assumptions one_observation_per_asset_per_close.

Theorem tracked_iff_member_now_or_before :
  forall assets univ a, In a (update_assets assets univ) <-> In a assets \/ In a univ.
Proof. exact update_assets_in. Qed.
Print Assumptions tracked_iff_member_now_or_before.

(** * Whole sessions.  In every run that has not raised after its first n clock events - any configuration,
      schedule, alpha model, sizing mode, market - every momentum window (N+1 prices) and every moving-average
      window (N prices) is the most recent part of ITS OWN asset's stream in [spec_obs]: the history built from
      the universe and the market alone (at each business-day close the new universe members join the tracked
      list in universe order, then each tracked asset receives that close's price); the tracked list and the
      warm-up counter are the inputs' too.  Fills, cash, the schedule and the alpha model cannot influence them. *)
Theorem session_windows_are_the_assets_own_closes :
  forall cfg market st evs sched lbs,
    c_lookbacks cfg = Some lbs -> session_init cfg = Ok (st, evs, sched) ->
    forall n, tr_noerr (run_from cfg sched market st (firstn n evs)) ->
    let g' := ss_sig (end_from cfg sched market st (firstn n evs)) in
    let closes := closes_of (firstn n evs) in
    let hist := spec_obs cfg market (universe_assets (c_univ cfg) (c_start cfg)) closes in
    (forall a m w, buf_find a (S m) (g_mom g') = Some w -> w = lastn (S m) (stream_of a hist)) /\
    (forall a m w, buf_find a m (g_sma g') = Some w -> w = lastn m (stream_of a hist)) /\
    g_assets g' = spec_tracked cfg (universe_assets (c_univ cfg) (c_start cfg)) closes /\
    g_warm g' = length closes.
Proof. exact session_signals. Qed.
Print Assumptions session_windows_are_the_assets_own_closes.

(** one close contributes to an asset's stream exactly its own price, once, if the asset is tracked
    (and quoted) - and nothing otherwise: no other asset's price, nothing twice *)
Theorem one_close_one_own_price :
  forall a snap l,
    (~ In a l -> stream_of a (obs_of snap l) = []) /\
    (NoDup l -> In a l -> stream_of a (obs_of snap l) = match snap_find a snap with Some p => [p] | None => [] end).
Proof. intros a snap l. split; [apply stream_of_obs_notin|apply stream_of_obs_in]. Qed.
Print Assumptions one_close_one_own_price.

(** Non-vacuity: a one-week daily top-1 momentum session (lookback 2) over two assets whose prices depend on the
    day; after the whole run the momentum window of B holds its last three closes and the counter is 5. *)
Definition cfg16 : config :=
  mkCfg (18267 * 86400) (18271 * 86400 + 86340) (PCM.StaticU ["A"%string; "B"%string]) (ATopN 2 1)
        (100000 # 1)%Q RDaily true 0%Q Fees.ZeroFee None (Some [2%nat]).
Definition mk16 (t : Z) : snapshot :=
  [("A"%string, inject_Z (100 + (t / 86400 - 18267))); ("B"%string, inject_Z (50 + 2 * (t / 86400 - 18267)))].
Example session_signals_nonvacuous :
  exists st evs sched, session_init cfg16 = Ok (st, evs, sched) /\
    tr_noerr (run_from cfg16 sched mk16 st evs) /\
    buf_find "B" 3 (g_mom (ss_sig (end_from cfg16 sched mk16 st evs))) = Some [inject_Z 54; inject_Z 56; inject_Z 58] /\
    g_warm (ss_sig (end_from cfg16 sched mk16 st evs)) = 5%nat /\
    length (filter (fun o => o_fill (snd o)) (run_from cfg16 sched mk16 st evs)) = 3%nat.
Proof.
  eexists. eexists. eexists. split; [vm_compute; reflexivity|]. split; [vm_compute; repeat constructor|].
  split; [vm_compute; reflexivity|]. split; vm_compute; reflexivity.
Qed.
Print Assumptions session_signals_nonvacuous.

(** Non-vacuity *)
Example signals_nonvacuous :
  momentum [100 # 1; 110 # 1; 121 # 1] == 21 # 100 /\
  sma [100 # 1; 110 # 1; 121 # 1] = Some (331 # 3) /\
  vol_sq [100 # 1; 110 # 1; 99 # 1] == 252 # 100 /\
  fold_left (push 2) [1; 2; 3; 4] [] = [3; 4].
Proof. repeat split; vm_compute; reflexivity. Qed.
Print Assumptions signals_nonvacuous.
