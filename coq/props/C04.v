(** C04 — Orders fill exactly once, in full, only in exchange hours, sells first. *)
From Coq Require Import ZArith QArith String List Permutation.
From QS Require Import theories.Num theories.Position theories.Portfolio theories.Fees theories.Exchange
  theories.Broker proofs.Fills proofs.Orders.
Import ListNotations.
Open Scope Z_scope.

(** Exchange hours: Monday-Friday, 14:30 <= t < 21:00 UTC, for every instant. *)
Theorem open_iff : forall t,
  is_open t = true <-> (weekday (day t) <= 4 /\ 52200 <= tod t < 75600).
Proof. exact is_open_iff. Qed.
Print Assumptions open_iff.
Theorem boundary_1430_open : forall d, weekday d <= 4 -> is_open (d * 86400 + 52200) = true.
Proof. exact open_at_1430. Qed.
Print Assumptions boundary_1430_open.
Theorem boundary_2100_closed : forall d, is_open (d * 86400 + 75600) = false.
Proof. exact closed_at_2100. Qed.
Print Assumptions boundary_2100_closed.
Theorem boundary_142959_closed : forall d, is_open (d * 86400 + 52199) = false.
Proof. exact closed_at_142959. Qed.
Print Assumptions boundary_142959_closed.
Theorem weekend_closed : forall t, 5 <= weekday (day t) -> is_open t = false.
Proof. exact closed_on_weekend. Qed.
Print Assumptions weekend_closed.

(** Submitting by itself never changes cash or holdings: every portfolio record is identical,
    no cash movement is recorded, the order joins the tail of its queue with a fresh id
    (or, for an unknown portfolio, the broker is unchanged). *)
Theorem submit_changes_nothing_else :
  forall bidask midp pre b pid asset q b1 r ef,
    step bidask midp pre b (Submit pid asset q) = (b1, r, ef) ->
    ef = [] /\ b_cash b1 = b_cash b /\ pfs (b_accts b1) = pfs (b_accts b) /\
    match r with
    | Ok _ => Permutation (qids (b_accts b1)) (b_next b :: qids (b_accts b)) /\ b_next b1 = b_next b + 1
    | Err _ => b1 = b
    end.
Proof. exact submit_frame. Qed.
Print Assumptions submit_changes_nothing_else.

(** An update outside exchange hours leaves every queue, every cash balance, every history and
    every quantity untouched (only marks move) and fills nothing. *)
Theorem pending_through_closed_update :
  forall bidask midp pre b t b1 r ef,
    is_open t = false ->
    update bidask midp pre b t = (b1, r, ef) ->
    ef = [] /\ b_cash b1 = b_cash b /\ b_next b1 = b_next b /\
    queues (b_accts b1) = queues (b_accts b) /\
    map (fun pa => (fst pa, pf_qty (a_pf (snd pa)))) (b_accts b1) =
    map (fun pa => (fst pa, pf_qty (a_pf (snd pa)))) (b_accts b).
Proof. exact closed_update_frame. Qed.
Print Assumptions pending_through_closed_update.

(** A successful update inside exchange hours emits exactly one fill per pending order -
    [fills_of] maps the order list one-to-one, and each fill carries the order's id, asset
    and full quantity and the update time - in the order "all sells, then all buys, each in
    queue (= submission) order", and afterwards no queue holds anything. *)
Theorem open_update_fills_everything_once :
  forall bidask midp pre b t b1 u ef,
    is_open t = true ->
    update bidask midp pre b t = (b1, Ok u, ef) ->
    fills_of bidask (b_fee b) t (sells_first (drained (b_accts b))) = Some ef /\
    qids (b_accts b1) = [] /\ b_next b1 = b_next b.
Proof. exact open_update_fills_all. Qed.
Print Assumptions open_update_fills_everything_once.

Theorem fills_are_the_orders :
  forall bidask fee t l ef, fills_of bidask fee t l = Some ef ->
    fill_ids ef = map (fun po => o_id (snd po)) l /\
    Forall2 (fun po e => match e with
                         | Fill p tx => p = fst po /\ t_oid tx = o_id (snd po) /\ t_asset tx = o_asset (snd po) /\
                                        t_qty tx = inject_Z (o_qty (snd po)) /\ t_dt tx = t
                         | _ => False end) l ef.
Proof. exact fills_of_ids. Qed.
Print Assumptions fills_are_the_orders.

(** [sorted(orders, key=direction)] as the model writes it: a permutation (nothing dropped or
    duplicated), every sell before every buy, each side in its original order. *)
Theorem sells_first_is_a_permutation : forall l : list (string * order), Permutation (sells_first l) l.
Proof. exact sells_first_perm. Qed.
Print Assumptions sells_first_is_a_permutation.
Theorem sells_first_shape : forall l : list (string * order),
  sells_first l = filter is_sell l ++ filter (fun po => negb (is_sell po)) l.
Proof. intro l. exact eq_refl. Qed.
Print Assumptions sells_first_shape.

(** Conservation over whole histories: along any sequence of accepted operations, the ids
    of all fills so far together with the ids still queued are exactly (a permutation of) the
    ids that were queued initially plus the ids handed out to accepted submissions - so no
    order is ever filled twice, filled and still pending, or dropped. *)
Theorem orders_conserved :
  forall bidask midp pre ops b b1 rs es,
    run bidask midp pre b ops = (b1, rs, es) -> all_ok rs ->
    Permutation (fill_ids es ++ qids (b_accts b1))
                (qids (b_accts b) ++ map (fun k => b_next b + Z.of_nat k) (seq 0 (Z.to_nat (b_next b1 - b_next b)))) /\
    b_next b <= b_next b1.
Proof. exact run_ok_orders. Qed.
Print Assumptions orders_conserved.

(** Non-vacuity: two orders submitted on a Saturday stay queued through a weekend update and a
    Monday 14:29:59 update and are both filled, the sell first, at Monday 14:30:00. *)
Definition q4 (t : Z) (a : string) : option (Q * Q) := Some (10 # 1, 11 # 1)%Q.
Definition m4 (t : Z) (a : string) : option Q := Some (21 # 2)%Q.
Definition ops4 : list op :=
  [Create "P"; SubPf "P" (1000 # 1)%Q; Submit "P" "A" 5; Submit "P" "B" (-2);
   Update 1578787200; Update 1578925799; Update 1578925800].
Example orders_nonvacuous :
  exists b0 b1 rs es,
    broker_init 1578700800 "USD" (5000 # 1)%Q ZeroFee = Ok b0 /\
    run q4 m4 true b0 ops4 = (b1, rs, es) /\ all_ok rs /\
    fill_ids es = [1; 0] /\ qids (b_accts b1) = [] /\ is_open 1578925799 = false /\ is_open 1578925800 = true.
Proof.
  eexists. eexists. eexists. eexists. split; [reflexivity|]. split; [vm_compute; reflexivity|].
  split; [repeat constructor; eexists; reflexivity|]. repeat split; reflexivity.
Qed.
Print Assumptions orders_nonvacuous.
