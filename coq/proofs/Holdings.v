(** C02: holdings are the net of fills, valued at the latest price. *)
From Coq Require Import ZArith QArith Qround Qabs String Bool List Lia Lqa.
From QS Require Import theories.Val theories.Num theories.Position theories.Portfolio theories.Fees
  theories.Exchange theories.Broker theories.EntryBroker proofs.QLemmas proofs.PnL.
Import ListNotations.
Open Scope Q_scope.

(** * Association-list facts *)
Lemma pos_find_set_same a p ps : pos_find a (pos_set a p ps) = Some p.
Proof.
  induction ps as [|[b q] r IH]; simpl.
  - rewrite String.eqb_refl. reflexivity.
  - destruct (String.eqb a b) eqn:E; simpl; rewrite E; auto.
Qed.
Lemma pos_find_set_other a b p ps : String.eqb a b = false -> pos_find a (pos_set b p ps) = pos_find a ps.
Proof.
  intro N. induction ps as [|[c q] r IH]; simpl.
  - rewrite N. reflexivity.
  - destruct (String.eqb b c) eqn:E; simpl.
    + apply String.eqb_eq in E. subst c. rewrite N. reflexivity.
    + destruct (String.eqb a c); auto.
Qed.
Lemma pos_find_del_other a b ps : String.eqb a b = false -> pos_find a (pos_del b ps) = pos_find a ps.
Proof.
  intro N. induction ps as [|[c q] r IH]; simpl; auto.
  destruct (String.eqb b c) eqn:E; simpl.
  - apply String.eqb_eq in E. subst c. rewrite N. reflexivity.
  - destruct (String.eqb a c); auto.
Qed.
Lemma pos_find_none_notin a ps : pos_find a ps = None <-> ~ In a (map fst ps).
Proof.
  induction ps as [|[c q] r IH]; simpl; [tauto|].
  destruct (String.eqb a c) eqn:E.
  - apply String.eqb_eq in E. subst. split; [discriminate|]. intro H. exfalso. apply H. auto.
  - apply String.eqb_neq in E. rewrite IH. split; intro H.
    + intros [X|X]; [apply E; auto|contradiction].
    + intro X. apply H. auto.
Qed.
Lemma pos_find_del_same a ps : NoDup (map fst ps) -> pos_find a (pos_del a ps) = None.
Proof.
  induction ps as [|[c q] r IH]; simpl; auto. intro ND. inversion ND as [|? ? NI ND']; subst.
  destruct (String.eqb a c) eqn:E; simpl.
  - apply String.eqb_eq in E. subst c. apply pos_find_none_notin. exact NI.
  - rewrite E. apply IH. exact ND'.
Qed.
Lemma keys_set a p ps :
  map fst (pos_set a p ps) = if pos_find a ps then map fst ps else (map fst ps ++ [a])%list.
Proof.
  induction ps as [|[c q] r IH]; simpl; auto.
  destruct (String.eqb a c) eqn:E; simpl; auto. rewrite IH. destruct (pos_find a r); reflexivity.
Qed.
Lemma keys_del_incl a ps x : In x (map fst (pos_del a ps)) -> In x (map fst ps).
Proof.
  induction ps as [|[c q] r IH]; simpl; auto. destruct (String.eqb a c); simpl; [auto|]. intros [H|H]; auto.
Qed.
Lemma nodup_del a ps : NoDup (map fst ps) -> NoDup (map fst (pos_del a ps)).
Proof.
  induction ps as [|[c q] r IH]; simpl; auto. intro ND. inversion ND as [|? ? NI ND']; subst.
  destruct (String.eqb a c); simpl; auto. constructor; [|auto].
  intro H. apply NI. eapply keys_del_incl; eauto.
Qed.
Lemma nodup_snoc (l : list string) a : NoDup l -> ~ In a l -> NoDup (l ++ [a])%list.
Proof.
  induction l as [|x xs IH]; simpl; intros ND NI.
  - constructor; [intros []|constructor].
  - inversion ND as [|? ? NX ND']; subst. constructor.
    + rewrite in_app_iff. simpl. intros [H|[H|[]]]; [contradiction|]. subst. apply NI. auto.
    + apply IH; auto.
Qed.
Lemma nodup_set a p ps : NoDup (map fst ps) -> NoDup (map fst (pos_set a p ps)).
Proof.
  intro ND. rewrite keys_set. destruct (pos_find a ps) eqn:F; auto.
  apply pos_find_none_notin in F. apply nodup_snoc; assumption.
Qed.

(** * One transaction *)
Lemma pos_transact_net p tx p' :
  effective tx -> pos_transact p tx = (p', Ok tt) ->
  pos_net p' == pos_net p + t_qty tx /\ p_price p' = t_price tx.
Proof.
  intros E. unfold pos_transact. rewrite (effective_not_ignored _ E).
  destruct (qltb 0 (t_qty tx)) eqn:C.
  - destruct (pos_update_price (pos_buy p (t_qty tx) (t_price tx) (t_comm tx)) (t_price tx) (t_dt tx)) as [p2 [u|e]] eqn:U;
      [|intro H; inversion H].
    intro H; inversion H; subst; clear H. unfold pos_update_price in U. simpl in U.
    destruct (t_dt tx <? p_dt p)%Z; [inversion U|]. destruct (qleb (t_price tx) 0); inversion U; subst; clear U.
    unfold pos_net. simpl. qn. split; [ring|reflexivity].
  - destruct (pos_update_price (pos_sell p (qneg (t_qty tx)) (t_price tx) (t_comm tx)) (t_price tx) (t_dt tx)) as [p2 [u|e]] eqn:U;
      [|intro H; inversion H].
    intro H; inversion H; subst; clear H. unfold pos_update_price in U. simpl in U.
    destruct (t_dt tx <? p_dt p)%Z; [inversion U|]. destruct (qleb (t_price tx) 0); inversion U; subst; clear U.
    unfold pos_net. simpl. qn. split; [ring|reflexivity].
Qed.
Lemma pos_open_net tx : pos_net (pos_open tx) == t_qty tx /\ p_price (pos_open tx) = t_price tx.
Proof.
  unfold pos_open, pos_net. destruct (qltb 0 (t_qty tx)); simpl; qn; split; try reflexivity; ring.
Qed.

(** * The tracked abstract state of one asset: (net of fills, latest price) *)
Definition track_step (a : string) (o : pop) (st : Q * Q) : Q * Q :=
  match o with
  | PTxn tx => if String.eqb a (t_asset tx) then (fst st + t_qty tx, t_price tx) else st
  | PMark b p _ => if String.eqb a b && negb (qeqb (fst st) 0) then (fst st, p) else st
  | _ => st
  end.

Definition hinv (a : string) (ps : positions) (st : Q * Q) : Prop :=
  match pos_find a ps with
  | Some p => pos_net p == fst st /\ ~ fst st == 0 /\ p_price p = snd st
  | None => fst st == 0
  end.

Definition op_effective (o : pop) : Prop :=
  match o with PTxn tx => effective tx | _ => True end.

Lemma pstep_hinv a pf o pf' st :
  NoDup (map fst (pf_pos pf)) -> hinv a (pf_pos pf) st -> op_effective o ->
  pstep pf o = (pf', Ok tt) ->
  NoDup (map fst (pf_pos pf')) /\ hinv a (pf_pos pf') (track_step a o st).
Proof.
  intros ND I E. destruct o; simpl.
  - unfold pf_subscribe. destruct (dt <? pf_dt pf)%Z; [intro H; inversion H|].
    destruct (qltb a0 0); intro H; inversion H; subst; simpl. split; assumption.
  - unfold pf_withdraw. destruct (dt <? pf_dt pf)%Z; [intro H; inversion H|].
    destruct (qltb a0 0); [intro H; inversion H|].
    destruct (qltb (pf_cash pf) a0); intro H; inversion H; subst; simpl. split; assumption.
  - unfold pf_transact. destruct (t_dt tx <? pf_dt pf)%Z; [intro H; inversion H|].
    destruct (ph_transact (pf_pos pf) tx) as [ps [u|e]] eqn:T; intro H; inversion H; subst; clear H. simpl.
    unfold ph_transact in T. simpl in E.
    destruct (pos_find (t_asset tx) (pf_pos pf)) as [p|] eqn:F.
    + destruct (pos_transact p tx) as [p' [[]|e]] eqn:PT; inversion T; subst; clear T.
      destruct (pos_transact_net _ _ _ E PT) as [N P].
      split.
      * destruct (qeqb (pos_net p') 0); [apply nodup_del|]; apply nodup_set; assumption.
      * unfold hinv in *. destruct (String.eqb a (t_asset tx)) eqn:EQ.
        -- apply String.eqb_eq in EQ. subst a. rewrite F in I. destruct I as (I1 & I2 & I3). simpl.
           destruct (qeqb (pos_net p') 0) eqn:Z.
           ++ apply qeqb_eq in Z. rewrite pos_find_del_same by (apply nodup_set; assumption).
              rewrite <- I1, <- N. exact Z.
           ++ apply qeqb_neq in Z. rewrite pos_find_set_same. rewrite <- I1, <- N. repeat split; auto.
        -- destruct (qeqb (pos_net p') 0); [rewrite pos_find_del_other by assumption|];
             rewrite pos_find_set_other by assumption; exact I.
    + inversion T; subst; clear T. destruct (pos_open_net tx) as [N P].
      split.
      * destruct (qeqb (pos_net (pos_open tx)) 0); [apply nodup_del|]; apply nodup_set; assumption.
      * unfold hinv in *. destruct (String.eqb a (t_asset tx)) eqn:EQ.
        -- apply String.eqb_eq in EQ. subst a. rewrite F in I. simpl.
           destruct (qeqb (pos_net (pos_open tx)) 0) eqn:Z.
           ++ apply qeqb_eq in Z. rewrite pos_find_del_same by (apply nodup_set; assumption).
              rewrite I, <- N, Z. ring.
           ++ apply qeqb_neq in Z. rewrite pos_find_set_same. rewrite I. repeat split; auto.
              ** rewrite N. ring.
              ** intro X. apply Z. rewrite N. rewrite <- X. ring.
        -- destruct (qeqb (pos_net (pos_open tx)) 0); [rewrite pos_find_del_other by assumption|];
             rewrite pos_find_set_other by assumption; exact I.
  - unfold pf_mark. destruct (pos_find a0 (pf_pos pf)) as [p|] eqn:F.
    2:{ intro H; inversion H; subst. split; [assumption|]. unfold hinv in *.
        destruct (String.eqb a a0) eqn:EQ; simpl; [|exact I].
        apply String.eqb_eq in EQ. subst a0. rewrite F in I.
        assert (Z : qeqb (fst st) 0 = true) by (apply qeqb_eq; exact I). rewrite Z. simpl. rewrite F. exact I. }
    destruct (qltb price 0); [intro H; inversion H|].
    destruct (dt <? pf_dt pf)%Z; [intro H; inversion H|].
    destruct (pos_update_price p price dt) as [p' [u|e]] eqn:U; intro H; inversion H; subst; clear H. simpl.
    split; [apply nodup_set; assumption|].
    destruct (remark_frame _ _ _ _ _ U) as (P & _ & N & _).
    unfold hinv in *. destruct (String.eqb a a0) eqn:EQ; simpl.
    + apply String.eqb_eq in EQ. subst a0. rewrite F in I. destruct I as (I1 & I2 & I3).
      assert (Z : qeqb (fst st) 0 = false) by (apply qeqb_neq; exact I2). rewrite Z. simpl.
      rewrite pos_find_set_same. rewrite N. repeat split; auto.
    + rewrite pos_find_set_other by assumption. exact I.
Qed.

(** * Whole sequences *)
Fixpoint prun (pf : portfolio) (ops : list pop) : option portfolio :=
  match ops with
  | [] => Some pf
  | o :: r => match pstep pf o with (pf', Ok _) => prun pf' r | (_, Err _) => None end
  end.
Fixpoint track (a : string) (ops : list pop) (st : Q * Q) : Q * Q :=
  match ops with [] => st | o :: r => track a r (track_step a o st) end.

Theorem holdings_track a ops : forall pf pf' st,
  NoDup (map fst (pf_pos pf)) -> hinv a (pf_pos pf) st -> Forall op_effective ops ->
  prun pf ops = Some pf' ->
  NoDup (map fst (pf_pos pf')) /\ hinv a (pf_pos pf') (track a ops st).
Proof.
  induction ops as [|o r IH]; intros pf pf' st ND I E; simpl.
  - intro H; inversion H; subst. split; assumption.
  - inversion E as [|? ? E1 E2]; subst.
    destruct (pstep pf o) as [pf1 [[]|e]] eqn:S; [|discriminate].
    intro R. destruct (pstep_hinv a _ _ _ _ ND I E1 S) as [ND1 I1].
    eapply IH; eauto.
Qed.

(** the tracked net is the signed sum of the quantities filled in that asset *)
Fixpoint net_fills (a : string) (ops : list pop) : Q :=
  match ops with
  | [] => 0
  | PTxn tx :: r => (if String.eqb a (t_asset tx) then t_qty tx else 0) + net_fills a r
  | _ :: r => net_fills a r
  end.
Lemma track_net a ops : forall st, fst (track a ops st) == fst st + net_fills a ops.
Proof.
  induction ops as [|o r IH]; intro st; simpl; [ring|].
  rewrite IH. destruct o; simpl; try ring.
  - destruct (String.eqb a (t_asset tx)); simpl; ring.
  - destruct (String.eqb a a0 && negb (qeqb (fst st) 0)); simpl; ring.
Qed.

(** market value and equity, by definition of the getters *)
Lemma mv_is_sum pf : pf_total_mv pf = qsum (map (fun ap => p_price (snd ap) * pos_net (snd ap)) (pf_pos pf)).
Proof. reflexivity. Qed.
Lemma equity_def pf : pf_total_equity pf == pf_cash pf + pf_total_mv pf.
Proof. unfold pf_total_equity. ring. Qed.

Theorem holdings_from_empty a ops start cash pf' :
  Forall op_effective ops -> prun (pf_init start cash) ops = Some pf' ->
  match pos_find a (pf_pos pf') with
  | Some p => pos_net p == net_fills a ops /\ ~ net_fills a ops == 0 /\ p_price p = snd (track a ops (0, 0))
  | None => net_fills a ops == 0
  end /\ NoDup (map fst (pf_pos pf')).
Proof.
  intros E R.
  destruct (holdings_track a ops (pf_init start cash) pf' (0, 0)) as [ND I]; auto.
  - simpl. constructor.
  - unfold hinv. simpl. reflexivity.
  - split; [|exact ND]. unfold hinv in I. pose proof (track_net a ops (0, 0)) as T. simpl in T.
    destruct (pos_find a (pf_pos pf')).
    + destruct I as (I1 & I2 & I3). rewrite T in I1, I2. repeat split; auto.
      * rewrite I1. ring.
      * intro X. apply I2. rewrite X. ring.
    + rewrite T in I. rewrite <- I. ring.
Qed.
