(** C12: the simulation clock. *)
From Coq Require Import ZArith Bool List Lia Sorted.
From QS Require Import theories.Exchange theories.Calendar theories.Position theories.Clock.
Import ListNotations.
Open Scope Z_scope.
Ltac Zify.zify_post_hook ::= Z.div_mod_to_equations.

Lemma in_zrange d lo n : In d (zrange lo n) <-> lo <= d < lo + Z.of_nat n.
Proof.
  unfold zrange. rewrite in_map_iff. split.
  - intros (k & E & I). apply in_seq in I. lia.
  - intro H. exists (Z.to_nat (d - lo)). split; [lia|]. apply in_seq. lia.
Qed.
Lemma in_days_between d d0 d1 : In d (days_between d0 d1) <-> d0 <= d <= d1.
Proof. unfold days_between. rewrite in_zrange. lia. Qed.

Lemma zrange_sorted lo n : StronglySorted Z.lt (zrange lo n).
Proof.
  unfold zrange. revert lo. generalize 0%nat as s. induction n as [|n IH]; intros s lo; simpl; [constructor|].
  constructor; [apply IH|]. apply Forall_forall. intros x I. apply in_map_iff in I.
  destruct I as (k & E & I). apply in_seq in I. lia.
Qed.
Lemma filter_sorted {A} (R : A -> A -> Prop) f l : StronglySorted R l -> StronglySorted R (filter f l).
Proof.
  induction 1 as [|x l S IH F]; simpl; [constructor|]. destruct (f x); [|assumption].
  constructor; [assumption|]. apply Forall_forall. intros y I. apply filter_In in I. destruct I as [I _].
  rewrite Forall_forall in F. auto.
Qed.

(** * Exactly the Monday-Friday dates of the range *)
Lemma in_bdays d start stop :
  In d (bdays start stop) <-> (day start <= d <= day stop /\ weekday d <= 4 /\ d * 86400 + tod start <= stop).
Proof.
  unfold bdays, is_weekday. rewrite filter_In, in_days_between, andb_true_iff, Z.leb_le, Z.leb_le. tauto.
Qed.

Lemma days_exact d start stop :
  start <= stop -> tod start <= tod stop ->
  (In d (bdays start stop) <-> (day start <= d <= day stop /\ weekday d <= 4)).
Proof.
  intros L T. rewrite in_bdays. unfold day, tod in *. split; [tauto|]. intros [R W]. repeat split; try tauto. lia.
Qed.

Lemma bdays_sorted start stop : StronglySorted Z.lt (bdays start stop).
Proof. unfold bdays. apply filter_sorted. apply zrange_sorted. Qed.

Lemma end_before_start_rejected start stop pre post :
  stop < start -> sim_events start stop pre post = Err EndBeforeStart.
Proof. intro H. unfold sim_events. apply Z.ltb_lt in H. rewrite H. reflexivity. Qed.

Lemma events_exact start stop pre post :
  start <= stop -> sim_events start stop pre post = Ok (flat_map (day_events pre post) (bdays start stop)).
Proof. intro H. unfold sim_events. apply Z.ltb_ge in H. rewrite H. reflexivity. Qed.

(** * Strictly increasing event times *)
Lemma day_events_bounds pre post d x : In x (map fst (day_events pre post d)) -> d * 86400 <= x < (d + 1) * 86400.
Proof.
  unfold day_events. destruct pre, post; simpl; intros H;
    repeat (destruct H as [H|H]; [subst; lia|]); contradiction.
Qed.
Lemma day_events_sorted pre post d : StronglySorted Z.lt (map fst (day_events pre post d)).
Proof.
  unfold day_events. destruct pre, post; simpl;
    repeat (constructor; [|repeat (constructor; try lia)]); constructor.
Qed.

Lemma sorted_app (l1 l2 : list Z) :
  StronglySorted Z.lt l1 -> StronglySorted Z.lt l2 -> (forall x y, In x l1 -> In y l2 -> x < y) ->
  StronglySorted Z.lt (l1 ++ l2).
Proof.
  induction 1 as [|x l S IH F]; simpl; intros S2 H; [assumption|].
  constructor; [apply IH; auto|]. apply Forall_forall. intros y I. apply in_app_iff in I.
  destruct I as [I|I]; [rewrite Forall_forall in F; auto|auto].
Qed.

Lemma flat_events_sorted pre post ds :
  StronglySorted Z.lt ds -> StronglySorted Z.lt (map fst (flat_map (day_events pre post) ds)).
Proof.
  induction 1 as [|d ds S IH F]; simpl; [constructor|].
  rewrite map_app. apply sorted_app; [apply day_events_sorted|exact IH|].
  intros x y Ix Iy. apply day_events_bounds in Ix.
  apply in_map_iff in Iy. destruct Iy as (e & E & Ie). apply in_flat_map in Ie. destruct Ie as (d' & Id' & Ie).
  assert (Iy : In y (map fst (day_events pre post d'))) by (subst y; apply in_map; exact Ie).
  apply day_events_bounds in Iy. rewrite Forall_forall in F. specialize (F _ Id'). lia.
Qed.

Lemma events_strictly_increasing start stop pre post evs :
  sim_events start stop pre post = Ok evs -> StronglySorted Z.lt (map fst evs).
Proof.
  unfold sim_events. destruct (stop <? start); [discriminate|]. intro H; inversion H; subst.
  apply flat_events_sorted. apply bdays_sorted.
Qed.

(** every event belongs to a business day of the range and has one of the four shapes *)
Lemma in_events pre post ds t k :
  In (t, k) (flat_map (day_events pre post) ds) <->
  exists d, In d ds /\
    ((pre = true /\ t = d * 86400 /\ k = PreMarket) \/ (t = d * 86400 + 52200 /\ k = MarketOpen) \/
     (t = d * 86400 + 75600 /\ k = MarketClose) \/ (post = true /\ t = d * 86400 + 86340 /\ k = PostMarket)).
Proof.
  rewrite in_flat_map. split; intros (d & I & H); exists d; (split; [exact I|]).
  - unfold day_events in H. destruct pre, post; simpl in H;
      repeat (destruct H as [H|H]; [inversion H; subst; tauto|]); contradiction.
  - unfold day_events. destruct pre, post; simpl;
      destruct H as [(P & T & K)|[(T & K)|[(T & K)|(P & T & K)]]]; try discriminate; subst; tauto.
Qed.
