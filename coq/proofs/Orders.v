(** C04: the order queue discipline. *)
From Coq Require Import ZArith QArith Qround Qabs String Bool List Lia Lqa Permutation.
From QS Require Import theories.Num theories.Position theories.Portfolio theories.Fees
  theories.Exchange theories.Broker proofs.QLemmas proofs.Ledger proofs.Fills.
Import ListNotations.
Open Scope Z_scope.
Ltac Zify.zify_post_hook ::= Z.div_mod_to_equations.

(** * Exchange hours *)
Lemma is_open_iff t :
  is_open t = true <-> (weekday (day t) <= 4 /\ 52200 <= tod t < 75600).
Proof.
  unfold is_open, open_tod, close_tod.
  destruct (4 <? weekday (day t)) eqn:W.
  - apply Z.ltb_lt in W. split; [discriminate|]. lia.
  - apply Z.ltb_ge in W. rewrite andb_true_iff, Z.leb_le, Z.ltb_lt. lia.
Qed.
Lemma weekday_range d : 0 <= weekday d <= 6.
Proof. unfold weekday. pose proof (Z.mod_pos_bound (d + 3) 7). lia. Qed.
Lemma open_at_1430 d : weekday d <= 4 -> is_open (d * 86400 + 52200) = true.
Proof. intro W. apply is_open_iff. unfold day, tod, weekday in *. lia. Qed.
Lemma closed_at_2100 d : is_open (d * 86400 + 75600) = false.
Proof. apply not_true_is_false. intro H. apply is_open_iff in H. unfold tod in H. lia. Qed.
Lemma closed_at_142959 d : is_open (d * 86400 + 52199) = false.
Proof. apply not_true_is_false. intro H. apply is_open_iff in H. unfold tod in H. lia. Qed.
Lemma closed_on_weekend t : 5 <= weekday (day t) -> is_open t = false.
Proof. intro W. apply not_true_is_false. intro H. apply is_open_iff in H. lia. Qed.

(** * Views *)
Definition queues (l : list (string * acct)) := map (fun pa => (fst pa, a_q (snd pa))) l.
Definition qids (l : list (string * acct)) : list Z := flat_map (fun pa => map o_id (a_q (snd pa))) l.
Definition pfs (l : list (string * acct)) := map (fun pa => (fst pa, a_pf (snd pa))) l.
Definition fill_ids (es : list effect) : list Z :=
  flat_map (fun e => match e with Fill _ tx => [t_oid tx] | _ => [] end) es.

(** everything about a position except its mark (price, clock) *)
Definition pos_qty (p : position) := (p_bq p, p_sq p, p_avgb p, p_avgs p, p_bc p, p_sc p).
Definition pf_qty (pf : portfolio) :=
  (pf_cash pf, pf_hist pf, map (fun ap => (fst ap, pos_qty (snd ap))) (pf_pos pf)).

Lemma fill_ids_app a b : fill_ids (a ++ b) = fill_ids a ++ fill_ids b.
Proof. unfold fill_ids. apply flat_map_app. Qed.

Lemma queues_qids l l' : queues l = queues l' -> qids l = qids l'.
Proof.
  revert l'. induction l as [|[k a] l IH]; intros [|[k' a'] l']; simpl; try discriminate; auto.
  intro H; inversion H; subst. rewrite (IH _ H3). congruence.
Qed.

Lemma queues_set_same pid a a' l :
  acct_find pid l = Some a -> a_q a' = a_q a -> queues (acct_set pid a' l) = queues l.
Proof.
  induction l as [|[k x] l IH]; simpl; [discriminate|].
  destruct (String.eqb pid k) eqn:E.
  - intros H Q; inversion H; subst. simpl. rewrite Q. reflexivity.
  - intros H Q. simpl. rewrite IH by assumption. reflexivity.
Qed.
Lemma pfs_set_same pid a a' l :
  acct_find pid l = Some a -> a_pf a' = a_pf a -> pfs (acct_set pid a' l) = pfs l.
Proof.
  induction l as [|[k x] l IH]; simpl; [discriminate|].
  destruct (String.eqb pid k) eqn:E.
  - intros H Q; inversion H; subst. simpl. rewrite Q. reflexivity.
  - intros H Q. simpl. rewrite IH by assumption. reflexivity.
Qed.
Lemma qids_submit pid a pf o l :
  acct_find pid l = Some a ->
  Permutation (qids (acct_set pid (mkAcct pf (a_q a ++ [o])) l)) (o_id o :: qids l).
Proof.
  induction l as [|[k x] l IH]; simpl; [discriminate|].
  destruct (String.eqb pid k) eqn:E.
  - intro H; inversion H; subst. simpl. rewrite map_app. simpl.
    rewrite <- app_assoc. simpl.
    apply Permutation_sym. apply Permutation_middle.
  - intro H. simpl. specialize (IH H).
    eapply perm_trans; [apply Permutation_app_head; exact IH|].
    apply Permutation_sym. apply Permutation_middle.
Qed.

(** * Marks touch neither queues, cash, history nor quantities *)
Lemma pos_update_price_qty p price dt p' r : pos_update_price p price dt = (p', r) -> pos_qty p' = pos_qty p.
Proof.
  unfold pos_update_price. destruct (dt <? p_dt p); [intro H; inversion H; reflexivity|].
  destruct (qleb price 0); intro H; inversion H; reflexivity.
Qed.
Lemma pos_set_qty a p p' ps : pos_find a ps = Some p -> pos_qty p' = pos_qty p ->
  map (fun ap => (fst ap, pos_qty (snd ap))) (pos_set a p' ps) = map (fun ap => (fst ap, pos_qty (snd ap))) ps.
Proof.
  induction ps as [|[b q] r IH]; simpl; [discriminate|].
  destruct (String.eqb a b) eqn:E.
  - intros H O; inversion H; subst. simpl. rewrite O. reflexivity.
  - intros H O. simpl. rewrite IH by assumption. reflexivity.
Qed.
Lemma pf_mark_qty pf a p t pf' r : pf_mark pf a p t = (pf', r) -> pf_qty pf' = pf_qty pf.
Proof.
  unfold pf_mark. destruct (pos_find a (pf_pos pf)) as [p0|] eqn:F; [|intro H; inversion H; reflexivity].
  destruct (qltb p 0); [intro H; inversion H; reflexivity|].
  destruct (t <? pf_dt pf); [intro H; inversion H; reflexivity|].
  destruct (pos_update_price p0 p t) as [p' r'] eqn:U. intro H; inversion H; subst.
  unfold pf_qty. simpl. rewrite (pos_set_qty _ _ _ _ F (pos_update_price_qty _ _ _ _ _ U)). reflexivity.
Qed.

Section Orders.
  Variable bidask : Z -> string -> option (Q * Q).
  Variable midp : Z -> string -> option Q.
  Variable pre : bool.

  Lemma mark_assets_qty pf assets t pf' r :
    mark_assets midp pf assets t = (pf', r) -> pf_qty pf' = pf_qty pf.
  Proof.
    revert pf. induction assets as [|a l IH]; intros pf; simpl.
    - intro H; inversion H; reflexivity.
    - destruct (midp t a); [|intro H; inversion H; reflexivity].
      destruct (pf_mark pf a q t) as [pf1 [u|e]] eqn:M.
      + intro H. rewrite (IH _ H). eapply pf_mark_qty; eauto.
      + intro H; inversion H; subst. eapply pf_mark_qty; eauto.
  Qed.

  Lemma mark_all_frame l t l1 r :
    mark_all midp l t = (l1, r) ->
    queues l1 = queues l /\
    map (fun pa => (fst pa, pf_qty (a_pf (snd pa)))) l1 = map (fun pa => (fst pa, pf_qty (a_pf (snd pa)))) l.
  Proof.
    revert l1 r. induction l as [|[k a] l IH]; intros l1 r; simpl.
    - intro H; inversion H; split; reflexivity.
    - destruct (mark_assets midp (a_pf a) (map fst (pf_pos (a_pf a))) t) as [pf1 [u|e]] eqn:M.
      + destruct (mark_all midp l t) as [r1 rr] eqn:MA. intro H; inversion H; subst.
        destruct (IH _ _ eq_refl) as [A B]. simpl. rewrite A, B, (mark_assets_qty _ _ _ _ _ M). split; reflexivity.
      + intro H; inversion H; subst. simpl. rewrite (mark_assets_qty _ _ _ _ _ M). split; reflexivity.
  Qed.

  (** * Submitting by itself changes no cash, holding or history *)
  Lemma submit_frame b pid asset q b1 r ef :
    step bidask midp pre b (Submit pid asset q) = (b1, r, ef) ->
    ef = [] /\ b_cash b1 = b_cash b /\ pfs (b_accts b1) = pfs (b_accts b) /\
    match r with
    | Ok _ => Permutation (qids (b_accts b1)) (b_next b :: qids (b_accts b)) /\ b_next b1 = b_next b + 1
    | Err _ => b1 = b
    end.
  Proof.
    simpl. destruct (acct_find pid (b_accts b)) as [ac|] eqn:F; intro H; inversion H; subst; simpl.
    - split; [reflexivity|]. split; [reflexivity|]. split.
      + apply (pfs_set_same _ ac); auto.
      + split; [|reflexivity].
        apply (qids_submit pid ac (a_pf ac) (mkOrd (b_next b) asset q) _ F).
    - repeat split; reflexivity.
  Qed.

  (** * A clock update outside exchange hours: marks only *)
  Lemma closed_update_frame b t b1 r ef :
    is_open t = false ->
    update bidask midp pre b t = (b1, r, ef) ->
    ef = [] /\ b_cash b1 = b_cash b /\ b_next b1 = b_next b /\
    queues (b_accts b1) = queues (b_accts b) /\
    map (fun pa => (fst pa, pf_qty (a_pf (snd pa)))) (b_accts b1) =
    map (fun pa => (fst pa, pf_qty (a_pf (snd pa)))) (b_accts b).
  Proof.
    intros C. unfold update. rewrite C.
    destruct (pre && negb (forallb (fun pa => acct_clock_ok t false (snd pa)) (b_accts b)));
      [intro H; inversion H; subst; repeat split; reflexivity|].
    destruct (mark_all midp (b_accts (set_now b t)) t) as [l1 [u|e]] eqn:M;
      intro H; inversion H; subst; simpl; destruct (mark_all_frame _ _ _ _ M) as [A B];
      repeat split; assumption.
  Qed.

  (** * Executions never touch a queue *)
  Lemma execute_queues b p o b1 r e1 :
    execute bidask b p o = (b1, r, e1) -> queues (b_accts b1) = queues (b_accts b).
  Proof.
    unfold execute. destruct (bidask (b_dt b) (o_asset o)) as [[bid ask]|]; [|intro H; inversion H; auto].
    destruct (acct_find p (b_accts b)) as [a|] eqn:F; [|intro H; inversion H; auto].
    match goal with |- context [pf_transact ?pf ?tx] => destruct (pf_transact pf tx) as [pf' [u|e]] end;
      intro H; inversion H; subst; simpl; apply (queues_set_same _ a); auto.
  Qed.
  Lemma execute_all_queues l : forall b b1 r e1,
    execute_all bidask b l = (b1, r, e1) -> queues (b_accts b1) = queues (b_accts b).
  Proof.
    induction l as [|[p o] l IH]; intros b b1 r e1; simpl.
    - intro H; inversion H; reflexivity.
    - destruct (execute bidask b p o) as [[bx [u|e]] ex] eqn:X.
      + destruct (execute_all bidask bx l) as [[b2 rr] e2] eqn:XA. intro H; inversion H; subst.
        rewrite (IH _ _ _ _ XA). eapply execute_queues; eauto.
      + intro H; inversion H; subst. eapply execute_queues; eauto.
  Qed.

  Lemma qids_empty l : qids (empty_queues l) = [].
  Proof. unfold qids, empty_queues. induction l as [|[k a] l IH]; simpl; auto. Qed.
  Lemma drained_ids l : map (fun po => o_id (snd po)) (drained l) = qids l.
  Proof.
    unfold drained, qids. induction l as [|[k a] l IH]; simpl; auto.
    rewrite map_app, IH, map_map. reflexivity.
  Qed.
  Lemma drained_queues l l' : queues l = queues l' -> drained l = drained l'.
  Proof.
    revert l'. induction l as [|[k a] l IH]; intros [|[k' a'] l']; simpl; try discriminate; auto.
    intro H; inversion H; subst. unfold drained in *. simpl. rewrite (IH _ H3). congruence.
  Qed.

  Lemma sells_first_perm (l : list (string * order)) : Permutation (sells_first l) l.
  Proof.
    unfold sells_first. induction l as [|x l IH]; simpl; [constructor|].
    destruct (is_sell x); simpl.
    - constructor. exact IH.
    - eapply perm_trans; [apply Permutation_sym; apply Permutation_middle|]. constructor. exact IH.
  Qed.

  Lemma fills_of_ids fee t l ef : fills_of bidask fee t l = Some ef ->
    fill_ids ef = map (fun po => o_id (snd po)) l /\
    Forall2 (fun po e => match e with
                         | Fill p tx => p = fst po /\ t_oid tx = o_id (snd po) /\ t_asset tx = o_asset (snd po) /\
                                        t_qty tx = inject_Z (o_qty (snd po)) /\ t_dt tx = t
                         | _ => False end) l ef.
  Proof.
    revert ef. induction l as [|[p o] l IH]; intros ef; simpl.
    - intro H; inversion H; split; [reflexivity|constructor].
    - destruct (order_txn bidask fee t o) as [tx|] eqn:OT; [|discriminate].
      destruct (fills_of bidask fee t l) as [fs|]; [|discriminate].
      intro H; inversion H; subst. destruct (IH _ eq_refl) as [A B]. simpl.
      unfold order_txn in OT. destruct (bidask t (o_asset o)) as [[bid ask]|]; [|discriminate].
      inversion OT; subst; simpl. split; [rewrite A; reflexivity|].
      constructor; [repeat split; reflexivity|exact B].
  Qed.

  (** * A successful update inside exchange hours fills every pending order exactly once,
        in full, sells first / submission order, and leaves every queue empty *)
  Lemma open_update_fills_all b t b1 u ef :
    is_open t = true ->
    update bidask midp pre b t = (b1, Ok u, ef) ->
    fills_of bidask (b_fee b) t (sells_first (drained (b_accts b))) = Some ef /\
    qids (b_accts b1) = [] /\ b_next b1 = b_next b.
  Proof.
    intros O. unfold update. rewrite O.
    destruct (pre && negb (forallb (fun pa => acct_clock_ok t true (snd pa)) (b_accts b))); [intro H; inversion H|].
    destruct (mark_all midp (b_accts (set_now b t)) t) as [l1 [u'|e]] eqn:M; [|intro H; inversion H].
    intro H. destruct (mark_all_frame _ _ _ _ M) as [A _]. simpl in A.
    split; [|split].
    - apply execute_all_ok in H. simpl in H. rewrite (drained_queues _ _ A) in H. exact H.
    - apply execute_all_queues in H. simpl in H. apply queues_qids in H. rewrite H. apply qids_empty.
    - assert (K : forall l b b1 r e1, execute_all bidask b l = (b1, r, e1) -> b_next b1 = b_next b).
      { clear. induction l as [|[p o] l IH]; intros b b1 r e1; simpl.
        - intro H; inversion H; reflexivity.
        - destruct (execute bidask b p o) as [[bx [u|e]] ex] eqn:X.
          + destruct (execute_all bidask bx l) as [[b2 rr] e2] eqn:XA. intro H; inversion H; subst.
            rewrite (IH _ _ _ _ XA). eapply execute_keeps; eauto.
          + intro H; inversion H; subst. eapply execute_keeps; eauto. }
      rewrite (K _ _ _ _ _ H). reflexivity.
  Qed.

  (** * Conservation of orders across any sequence of accepted operations *)
  Lemma step_ok_orders b o b1 out ef :
    step bidask midp pre b o = (b1, Ok out, ef) ->
    Permutation (fill_ids ef ++ qids (b_accts b1))
                (qids (b_accts b) ++ map (fun k => b_next b + Z.of_nat k) (seq 0 (Z.to_nat (b_next b1 - b_next b)))) /\
    b_next b <= b_next b1.
  Proof.
    assert (SAME : forall b1 : broker, forall ef : list effect,
              fill_ids ef = [] -> qids (b_accts b1) = qids (b_accts b) -> b_next b1 = b_next b ->
              Permutation (fill_ids ef ++ qids (b_accts b1))
                (qids (b_accts b) ++ map (fun k => b_next b + Z.of_nat k) (seq 0 (Z.to_nat (b_next b1 - b_next b)))) /\
              b_next b <= b_next b1).
    { intros b' ef' F Q N. rewrite F, Q, N, Z.sub_diag. simpl. rewrite app_nil_r. split; [apply Permutation_refl|lia]. }
    destruct o.
    - simpl. destruct (qltb a 0); intro H; inversion H; subst. apply SAME; reflexivity.
    - simpl. destruct (qltb a 0); [intro H; inversion H|].
      destruct (qltb (b_cash b) a); intro H; inversion H; subst. apply SAME; reflexivity.
    - simpl. destruct (acct_find pid (b_accts b)); intro H; inversion H; subst. apply SAME; try reflexivity.
      simpl. unfold qids. rewrite flat_map_app. simpl. rewrite app_nil_r. reflexivity.
    - simpl. destruct (qltb a 0); [intro H; inversion H|].
      destruct (acct_find pid (b_accts b)) as [ac|] eqn:F; [|intro H; inversion H].
      destruct (qltb (b_cash b) a); [intro H; inversion H|].
      destruct (pf_subscribe (a_pf ac) (b_dt b) a) as [pf' [u|e']]; intro H; inversion H; subst.
      apply SAME; try reflexivity. simpl. apply queues_qids. apply (queues_set_same _ ac); auto.
    - simpl. destruct (qltb a 0); [intro H; inversion H|].
      destruct (acct_find pid (b_accts b)) as [ac|] eqn:F; [|intro H; inversion H].
      destruct (qltb (pf_cash (a_pf ac)) a); [intro H; inversion H|].
      destruct (pf_withdraw (a_pf ac) (b_dt b) a) as [pf' [u|e']]; intro H; inversion H; subst.
      apply SAME; try reflexivity. simpl. apply queues_qids. apply (queues_set_same _ ac); auto.
    - intro H. destruct (submit_frame _ _ _ _ _ _ _ H) as (E & _ & _ & P & N). subst ef. simpl.
      rewrite N. replace (b_next b + 1 - b_next b) with 1 by lia. simpl. rewrite Z.add_0_r.
      split; [|lia]. eapply perm_trans; [exact P|]. apply Permutation_cons_append.
    - simpl. destruct (update bidask midp pre b t) as [[b' [u|e]] ef'] eqn:U; intro H; inversion H; subst.
      destruct (is_open t) eqn:O.
      + destruct (open_update_fills_all _ _ _ _ _ O U) as (F & Q & N).
        apply fills_of_ids in F. destruct F as [F _].
        rewrite Q, N, Z.sub_diag, app_nil_r. simpl. rewrite app_nil_r. split; [|lia].
        rewrite F, <- drained_ids. apply Permutation_map. apply sells_first_perm.
      + destruct (closed_update_frame _ _ _ _ _ O U) as (E & _ & N & Q & _). subst ef.
        apply SAME; try reflexivity; [apply queues_qids; exact Q|exact N].
    - simpl. destruct cur as [c|]; [match goal with |- (if ?x then _ else _) = _ -> _ => destruct x end|];
        intro H; inversion H; subst; apply SAME; reflexivity.
    - simpl. intro H; inversion H; subst; apply SAME; reflexivity.
    - simpl. intro H; inversion H; subst; apply SAME; reflexivity.
    - simpl. destruct (acct_find pid (b_accts b)); intro H; inversion H; subst; apply SAME; reflexivity.
    - simpl. destruct (acct_find pid (b_accts b)); intro H; inversion H; subst; apply SAME; reflexivity.
    - simpl. destruct (acct_find pid (b_accts b)); intro H; inversion H; subst; apply SAME; reflexivity.
  Qed.

  Definition all_ok (rs : list (res out)) : Prop := Forall (fun r => exists o, r = Ok o) rs.

  Lemma map_seq_from {A} (f : nat -> A) m : forall s,
    map f (seq s m) = map (fun k => f (s + k)%nat) (seq 0 m).
  Proof.
    induction m as [|m IH]; intro s; simpl; [reflexivity|].
    rewrite Nat.add_0_r. apply f_equal. rewrite (IH (S s)), <- seq_shift, map_map.
    apply map_ext. intro k. apply f_equal. lia.
  Qed.
  Lemma zseq_split a n m :
    map (fun k => a + Z.of_nat k) (seq 0 (n + m)) =
    map (fun k => a + Z.of_nat k) (seq 0 n) ++ map (fun k => (a + Z.of_nat n) + Z.of_nat k) (seq 0 m).
  Proof.
    rewrite seq_app, map_app. apply f_equal. simpl. rewrite map_seq_from.
    apply map_ext. intro k. lia.
  Qed.

  Lemma run_ok_orders ops : forall b b1 rs es,
    run bidask midp pre b ops = (b1, rs, es) -> all_ok rs ->
    Permutation (fill_ids es ++ qids (b_accts b1))
                (qids (b_accts b) ++ map (fun k => b_next b + Z.of_nat k) (seq 0 (Z.to_nat (b_next b1 - b_next b)))) /\
    b_next b <= b_next b1.
  Proof.
    induction ops as [|o ops IH]; intros b b1 rs es; simpl.
    - intros H _; inversion H; subst. rewrite Z.sub_diag. simpl. rewrite app_nil_r. split; [apply Permutation_refl|lia].
    - destruct (step bidask midp pre b o) as [[bx r1] e1] eqn:S.
      destruct (run bidask midp pre bx ops) as [[b2 rs2] e2] eqn:R.
      intros H A; inversion H; subst. inversion A as [|? ? [out E] A']; subst.
      destruct (step_ok_orders _ _ _ _ _ S) as [P1 N1].
      destruct (IH _ _ _ _ R A') as [P2 N2]. split; [|lia].
      rewrite fill_ids_app, <- app_assoc.
      replace (Z.to_nat (b_next b1 - b_next b)) with (Z.to_nat (b_next bx - b_next b) + Z.to_nat (b_next b1 - b_next bx))%nat by lia.
      rewrite zseq_split. rewrite Z2Nat.id by lia. replace (b_next b + (b_next bx - b_next b)) with (b_next bx) by lia.
      eapply perm_trans; [apply Permutation_app_head; exact P2|].
      rewrite !app_assoc. apply Permutation_app_tail. exact P1.
  Qed.
End Orders.
