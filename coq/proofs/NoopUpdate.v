(** C15, the clock update: once the up-front timestamp validation of the repaired [update] has
    passed, no later step of the update can still refuse the timestamp - so a refusal for an early
    timestamp always happens before anything is touched. *)
From Coq Require Import ZArith QArith Qround Qabs String Bool List Lia.
From QS Require Import theories.Num theories.Position theories.Portfolio theories.Fees theories.Exchange
  theories.Broker proofs.QLemmas proofs.Ledger proofs.Fills proofs.Orders proofs.Noop.
Import ListNotations.
Open Scope Z_scope.

Definition pos_clocks_ok (t : Z) (ps : positions) : Prop := Forall (fun ap => p_dt (snd ap) <= t) ps.
Definition clk (t : Z) (pf : portfolio) : Prop :=
  (pf_pos pf <> [] -> pf_dt pf <= t) /\ pos_clocks_ok t (pf_pos pf).

(** * Marking *)
Lemma pos_set_clocks t a p ps : pos_clocks_ok t ps -> p_dt p <= t -> pos_clocks_ok t (pos_set a p ps).
Proof.
  unfold pos_clocks_ok. induction ps as [|[b q] r IH]; simpl; intros F L.
  - constructor; [exact L|constructor].
  - inversion F as [|? ? Fq Fr]; subst. destruct (String.eqb a b).
    + constructor; [exact L|exact Fr].
    + constructor; [exact Fq|apply IH; assumption].
Qed.
Lemma pos_find_clock t a p ps : pos_clocks_ok t ps -> pos_find a ps = Some p -> p_dt p <= t.
Proof.
  unfold pos_clocks_ok. induction ps as [|[b q] r IH]; simpl; intros F H; [discriminate|].
  inversion F as [|? ? Fq Fr]; subst. destruct (String.eqb a b); [inversion H; subst; exact Fq|auto].
Qed.
Lemma pos_set_nonempty a p ps : pos_set a p ps <> [].
Proof. destruct ps as [|[b q] r]; simpl; [discriminate|]. destruct (String.eqb a b); discriminate. Qed.

Lemma pos_update_price_not_early p price t p' r :
  p_dt p <= t -> pos_update_price p price t = (p', r) -> r <> Err EarlyTimestamp /\ p_dt p' <= t.
Proof.
  intro L. unfold pos_update_price. assert (E : (t <? p_dt p) = false) by (apply Z.ltb_ge; lia). rewrite E.
  destruct (qleb price 0); intro H; inversion H; subst; simpl; split; try discriminate; lia.
Qed.

Lemma pf_mark_not_early t pf a m pf' r :
  clk t pf -> pf_mark pf a m t = (pf', r) ->
  r <> Err EarlyTimestamp /\ clk t pf' /\ pf_dt pf' = pf_dt pf /\ (pf_pos pf = [] -> pf_pos pf' = []).
Proof.
  intros [C1 C2]. unfold pf_mark. destruct (pos_find a (pf_pos pf)) as [p|] eqn:F.
  2:{ intro H; inversion H; subst. split; [discriminate|]. split; [split; assumption|]. split; auto. }
  assert (NE : pf_pos pf <> []) by (destruct (pf_pos pf); [discriminate|discriminate]).
  destruct (qltb m 0); [intro H; inversion H; subst; split; [discriminate|]; split; [split; assumption|]; split; auto|].
  assert (E : (t <? pf_dt pf) = false) by (apply Z.ltb_ge; apply C1; exact NE). rewrite E.
  destruct (pos_update_price p m t) as [p' r'] eqn:U. intro H; inversion H; subst; clear H.
  destruct (pos_update_price_not_early _ _ _ _ _ (pos_find_clock _ _ _ _ C2 F) U) as [N L].
  split; [exact N|]. split; [|split; [reflexivity|]].
  - split; simpl; [intros _; apply C1; exact NE|apply pos_set_clocks; assumption].
  - intro Z. congruence.
Qed.

Section Upd.
  Variable bidask : Z -> string -> option (Q * Q).
  Variable midp : Z -> string -> option Q.

  Lemma mark_assets_not_early t : forall assets pf pf' r,
    clk t pf -> mark_assets midp pf assets t = (pf', r) ->
    r <> Err EarlyTimestamp /\ (r = Ok tt -> clk t pf' /\ pf_dt pf' = pf_dt pf).
  Proof.
    induction assets as [|a l IH]; intros pf pf' r C; simpl.
    - intro H; inversion H; subst. split; [discriminate|]. intros _. split; [exact C|reflexivity].
    - destruct (midp t a) as [m|]; [|intro H; inversion H; subst; split; [discriminate|discriminate]].
      destruct (pf_mark pf a m t) as [pf1 [[]|e]] eqn:M.
      + destruct (pf_mark_not_early _ _ _ _ _ _ C M) as (_ & C1 & D & _). intro H.
        destruct (IH _ _ _ C1 H) as [N K]. split; [exact N|]. intro E. destruct (K E) as [K1 K2]. split; [exact K1|congruence].
      + destruct (pf_mark_not_early _ _ _ _ _ _ C M) as (N & _). intro H; inversion H; subst. split; [exact N|discriminate].
  Qed.

  (** the state the accounts are in once validation has passed *)
  Definition acct_ok (t : Z) (opn : bool) (a : acct) : Prop :=
    clk t (a_pf a) /\ (opn = true -> a_q a <> [] -> pf_dt (a_pf a) <= t).

  Lemma clock_ok_acct_ok t opn a : acct_clock_ok t opn a = true -> acct_ok t opn a.
  Proof.
    unfold acct_clock_ok, acct_ok, clk, pos_clocks_ok. rewrite andb_true_iff, forallb_forall. intros [A B].
    split; [split|].
    - intro NE. destruct (pf_pos (a_pf a)) as [|x xs]; [contradiction|]. apply Z.leb_le. exact A.
    - apply Forall_forall. intros x I. apply Z.leb_le. apply B. exact I.
    - intros O NQ. subst opn. destruct (a_q a) as [|o os]; [contradiction|]. simpl in A.
      destruct (pf_pos (a_pf a)); apply Z.leb_le; exact A.
  Qed.

  Lemma mark_all_not_early t opn : forall l l1 r,
    Forall (fun pa => acct_ok t opn (snd pa)) l -> mark_all midp l t = (l1, r) ->
    r <> Err EarlyTimestamp /\
    (r = Ok tt -> Forall (fun pa => acct_ok t opn (snd pa)) l1 /\ map fst l1 = map fst l).
  Proof.
    induction l as [|[k a] l IH]; intros l1 r F; simpl.
    - intro H; inversion H; subst. split; [discriminate|]. intros _. split; [constructor|reflexivity].
    - inversion F as [|? ? Fa Fl]; subst. simpl in Fa. destruct Fa as [C Q].
      destruct (mark_assets midp (a_pf a) (map fst (pf_pos (a_pf a))) t) as [pf1 [[]|e]] eqn:M.
      + destruct (mark_assets_not_early t _ _ _ _ C M) as [_ K]. destruct (K eq_refl) as [K1 K2].
        destruct (mark_all midp l t) as [r1 rr] eqn:MA. intro H; inversion H; subst.
        destruct (IH _ _ Fl eq_refl) as [N KK]. split; [exact N|]. intro E. destruct (KK E) as [G1 G2].
        split; [|simpl; rewrite G2; reflexivity]. constructor; [|exact G1]. simpl. split; [exact K1|].
        intros O NQ. simpl in *. rewrite K2. apply Q; assumption.
      + destruct (mark_assets_not_early t _ _ _ _ C M) as [N _]. intro H; inversion H; subst. split; [exact N|discriminate].
  Qed.

  (** * Executing the drained orders *)
  Definition ready (t : Z) (pids : list string) (l : list (string * acct)) : Prop :=
    forall pid a, acct_find pid l = Some a -> clk t (a_pf a) /\ (In pid pids -> pf_dt (a_pf a) <= t).

  Lemma pos_transact_clock t p tx p' r :
    p_dt p <= t -> t_dt tx = t -> pos_transact p tx = (p', r) -> r <> Err EarlyTimestamp /\ p_dt p' <= t.
  Proof.
    intros L D. unfold pos_transact. destruct (qty_ignored (t_qty tx)); [intro H; inversion H; subst; split; [discriminate|exact L]|].
    set (p1 := if qltb 0 (t_qty tx) then pos_buy p (t_qty tx) (t_price tx) (t_comm tx)
               else pos_sell p (qneg (t_qty tx)) (t_price tx) (t_comm tx)).
    assert (L1 : p_dt p1 <= t) by (unfold p1; destruct (qltb 0 (t_qty tx)); simpl; exact L).
    rewrite D. destruct (pos_update_price p1 (t_price tx) t) as [p2 [u|e]] eqn:U;
      destruct (pos_update_price_not_early _ _ _ _ _ L1 U) as [N L2]; intro H; inversion H; subst; simpl.
    - split; [discriminate|lia].
    - split; [exact N|exact L2].
  Qed.

  Lemma pos_del_clocks t a ps : pos_clocks_ok t ps -> pos_clocks_ok t (pos_del a ps).
  Proof.
    unfold pos_clocks_ok. induction ps as [|[b q] r IH]; simpl; intro F; [constructor|].
    inversion F; subst. destruct (String.eqb a b); [assumption|constructor; auto].
  Qed.

  Lemma pf_transact_clock t pf tx pf' r :
    clk t pf -> pf_dt pf <= t -> t_dt tx = t -> pf_transact pf tx = (pf', r) ->
    r <> Err EarlyTimestamp /\ clk t pf' /\ pf_dt pf' <= t.
  Proof.
    intros [C1 C2] L D. unfold pf_transact. assert (E : (t_dt tx <? pf_dt pf) = false) by (apply Z.ltb_ge; lia). rewrite E.
    unfold ph_transact. destruct (pos_find (t_asset tx) (pf_pos pf)) as [p|] eqn:F.
    - destruct (pos_transact p tx) as [p' [[]|e]] eqn:PT;
        destruct (pos_transact_clock t _ _ _ _ (pos_find_clock _ _ _ _ C2 F) D PT) as [N L'].
      + intro H; inversion H; subst; clear H. split; [discriminate|]. simpl. split; [|lia].
        split; simpl; [intros _; lia|].
        destruct (qeqb (pos_net p') 0); [apply pos_del_clocks|]; apply pos_set_clocks; assumption.
      + intro H; inversion H; subst; clear H. split; [exact N|]. simpl. split; [|lia].
        split; simpl; [intros _; lia|apply pos_set_clocks; assumption].
    - intro H; inversion H; subst; clear H. split; [discriminate|]. simpl. split; [|lia].
      assert (LO : p_dt (pos_open tx) <= t_dt tx) by (unfold pos_open; destruct (qltb 0 (t_qty tx)); simpl; lia).
      split; simpl; [intros _; lia|].
      destruct (qeqb (pos_net (pos_open tx)) 0); [apply pos_del_clocks|]; apply pos_set_clocks; assumption.
  Qed.

  Lemma execute_not_early t pids b p o b1 r e1 :
    b_dt b = t -> In p pids -> ready t pids (b_accts b) -> execute bidask b p o = (b1, r, e1) ->
    r <> Err EarlyTimestamp /\ ready t pids (b_accts b1) /\ b_dt b1 = t.
  Proof.
    intros D I R. unfold execute.
    destruct (bidask (b_dt b) (o_asset o)) as [[bid ask]|]; [|intro H; inversion H; subst; split; [discriminate|split; [assumption|reflexivity]]].
    destruct (acct_find p (b_accts b)) as [a|] eqn:F; [|intro H; inversion H; subst; split; [discriminate|split; [assumption|reflexivity]]].
    destruct (R p a F) as [C L]. specialize (L I).
    match goal with |- context [pf_transact ?pf ?tx] =>
      destruct (pf_transact pf tx) as [pf' [[]|e]] eqn:T;
      assert (DT : t_dt tx = t) by (simpl; exact D);
      destruct (pf_transact_clock t _ _ _ _ C L DT T) as (N & C' & L') end;
      intro H; inversion H; subst; clear H; (split; [first [discriminate|exact N]|]); (split; [|reflexivity]);
      intros q a' F'; simpl in F';
      (destruct (String.eqb q p) eqn:E;
       [apply String.eqb_eq in E; subst q; rewrite acct_find_set_same in F'; inversion F'; subst; simpl; split; [exact C'|intros _; exact L']
       |rewrite acct_find_set_other in F' by exact E; apply R; exact F']).
  Qed.

  Lemma execute_all_not_early t pids : forall l b b1 r e1,
    b_dt b = t -> (forall po, In po l -> In (fst po) pids) -> ready t pids (b_accts b) ->
    execute_all bidask b l = (b1, r, e1) -> r <> Err EarlyTimestamp.
  Proof.
    induction l as [|[p o] l IH]; intros b b1 r e1 D S R; simpl.
    - intro H; inversion H; discriminate.
    - destruct (execute bidask b p o) as [[bx [u|e]] ex] eqn:X;
        destruct (execute_not_early t pids _ _ _ _ _ _ D (S (p, o) (or_introl eq_refl)) R X) as (N & R' & D').
      + destruct (execute_all bidask bx l) as [[b2 rr] e2] eqn:XA. intro H; inversion H; subst.
        eapply IH; eauto. intros po I. apply S. right. exact I.
      + intro H; inversion H; subst. exact N.
  Qed.

  Lemma acct_find_in pid a (l : list (string * acct)) : acct_find pid l = Some a -> In (pid, a) l.
  Proof.
    induction l as [|[k x] l IH]; simpl; [discriminate|]. destruct (String.eqb pid k) eqn:E.
    - apply String.eqb_eq in E. subst. intro H; inversion H; subst. left. reflexivity.
    - intro H. right. apply IH. exact H.
  Qed.
  Lemma in_acct_find pid a (l : list (string * acct)) : NoDup (map fst l) -> In (pid, a) l -> acct_find pid l = Some a.
  Proof.
    induction l as [|[k x] l IH]; simpl; intros ND I; [contradiction|]. inversion ND as [|? ? NI ND']; subst.
    destruct I as [I|I].
    - inversion I; subst. rewrite String.eqb_refl. reflexivity.
    - destruct (String.eqb pid k) eqn:E; [|apply IH; assumption].
      apply String.eqb_eq in E. subst. exfalso. apply NI. apply in_map_iff. exists (k, a). auto.
  Qed.

  Lemma drained_pids l po : In po (drained l) -> exists a, In (fst po, a) l /\ a_q a <> [].
  Proof.
    unfold drained. intro I. apply in_flat_map in I. destruct I as ([k a] & Ia & Io). simpl in Io.
    apply in_map_iff in Io. destruct Io as (o & E & Io). subst. simpl. exists a. split; [exact Ia|]. intro Z. rewrite Z in Io. exact Io.
  Qed.

  (** * The theorem *)
  Theorem update_validated_never_early b t b1 e ef :
    NoDup (map fst (b_accts b)) ->
    forallb (fun pa => acct_clock_ok t (is_open t) (snd pa)) (b_accts b) = true ->
    update bidask midp true b t = (b1, Err e, ef) -> e <> EarlyTimestamp.
  Proof.
    intros ND V. unfold update. rewrite V. simpl.
    assert (A0 : Forall (fun pa => acct_ok t (is_open t) (snd pa)) (b_accts b)).
    { apply Forall_forall. intros pa I. apply clock_ok_acct_ok. rewrite forallb_forall in V. apply V. exact I. }
    destruct (mark_all midp (b_accts b) t) as [l1 [[]|e1]] eqn:M.
    - destruct (mark_all_not_early t (is_open t) _ _ _ A0 M) as [_ K]. destruct (K eq_refl) as [A1 KEYS].
      destruct (is_open t) eqn:O; [|intro H; inversion H].
      intro H. intro E. subst e.
      set (pids := map fst (drained l1)).
      assert (R : ready t pids (b_accts (set_accts (set_now b t) (empty_queues l1)))).
      { simpl. intros q a F. apply acct_find_in in F. unfold empty_queues in F. apply in_map_iff in F.
        destruct F as ([k x] & E & I). simpl in E. inversion E. subst a. simpl.
        rewrite Forall_forall in A1. destruct (A1 (k, x) I) as [C Q]. simpl in C, Q. split; [exact C|].
        intro IP. unfold pids in IP. apply in_map_iff in IP. destruct IP as (po & E2 & IP).
        destruct (drained_pids _ _ IP) as (a' & Ia & NQ). rewrite E2 in Ia. subst q.
        assert (ND' : NoDup (map fst l1)) by (rewrite KEYS; exact ND).
        assert (X : a' = x).
        { pose proof (in_acct_find _ _ _ ND' Ia) as F1. pose proof (in_acct_find _ _ _ ND' I) as F2. congruence. }
        subst a'. apply Q; [reflexivity|exact NQ]. }
      apply (execute_all_not_early t pids _ _ _ _ _ (eq_refl : b_dt (set_accts (set_now b t) (empty_queues l1)) = t)) in H; [congruence| |exact R].
      intros po I. apply (Permutation.Permutation_in _ (sells_first_perm _)) in I. unfold pids. apply in_map. exact I.
    - destruct (mark_all_not_early t (is_open t) _ _ _ A0 M) as [N _]. intro H; inversion H; subst.
      intro E. apply N. rewrite E. reflexivity.
  Qed.
End Upd.

(** * Consequences *)
Section UpdNoop.
  Variable bidask : Z -> string -> option (Q * Q).
  Variable midp : Z -> string -> option Q.

  (** a clock update refused for an early timestamp has touched nothing at all *)
  Theorem update_rejected_early_is_noop b t b1 ef :
    NoDup (map fst (b_accts b)) ->
    update bidask midp true b t = (b1, Err EarlyTimestamp, ef) -> b1 = b /\ ef = [].
  Proof.
    intros ND U.
    destruct (forallb (fun pa => acct_clock_ok t (is_open t) (snd pa)) (b_accts b)) eqn:V.
    - exfalso. exact (update_validated_never_early bidask midp b t b1 EarlyTimestamp ef ND V U eq_refl).
    - rewrite (update_refused_early bidask midp b t V) in U. inversion U; subst. split; reflexivity.
  Qed.

  (** portfolio ids stay distinct along every run from a fresh broker *)
  Lemma acct_set_keys pid a a' (l : list (string * acct)) :
    acct_find pid l = Some a -> map fst (acct_set pid a' l) = map fst l.
  Proof.
    induction l as [|[k x] l IH]; simpl; [discriminate|]. destruct (String.eqb pid k) eqn:E.
    - intros _. reflexivity.
    - intro H. simpl. rewrite IH by exact H. reflexivity.
  Qed.
  Lemma mark_all_keys l t : forall l1 r, mark_all midp l t = (l1, r) -> map fst l1 = map fst l.
  Proof.
    induction l as [|[k a] l IH]; intros l1 r; simpl.
    - intro H; inversion H; reflexivity.
    - destruct (mark_assets midp (a_pf a) (map fst (pf_pos (a_pf a))) t) as [pf1 [[]|e]].
      + destruct (mark_all midp l t) as [r1 rr] eqn:MA. intro H; inversion H; subst. simpl. rewrite (IH _ _ eq_refl). reflexivity.
      + intro H; inversion H; subst. reflexivity.
  Qed.
  Lemma execute_keys b p o b1 r e1 : execute bidask b p o = (b1, r, e1) -> map fst (b_accts b1) = map fst (b_accts b).
  Proof.
    unfold execute. destruct (bidask (b_dt b) (o_asset o)) as [[bid ask]|]; [|intro H; inversion H; reflexivity].
    destruct (acct_find p (b_accts b)) as [a|] eqn:F; [|intro H; inversion H; reflexivity].
    match goal with |- context [pf_transact ?pf ?tx] => destruct (pf_transact pf tx) as [pf' [u|e]] end;
      intro H; inversion H; subst; simpl; apply (acct_set_keys _ a); exact F.
  Qed.
  Lemma execute_all_keys l : forall b b1 r e1,
    execute_all bidask b l = (b1, r, e1) -> map fst (b_accts b1) = map fst (b_accts b).
  Proof.
    induction l as [|[p o] l IH]; intros b b1 r e1; simpl.
    - intro H; inversion H; reflexivity.
    - destruct (execute bidask b p o) as [[bx [u|e]] ex] eqn:X.
      + destruct (execute_all bidask bx l) as [[b2 rr] e2] eqn:XA. intro H; inversion H; subst.
        rewrite (IH _ _ _ _ XA). eapply execute_keys; eauto.
      + intro H; inversion H; subst. eapply execute_keys; eauto.
  Qed.
  Lemma update_keys pre b t b1 r ef : update bidask midp pre b t = (b1, r, ef) -> map fst (b_accts b1) = map fst (b_accts b).
  Proof.
    unfold update. destruct (pre && negb (forallb (fun pa => acct_clock_ok t (is_open t) (snd pa)) (b_accts b)));
      [intro H; inversion H; reflexivity|].
    destruct (mark_all midp (b_accts (set_now b t)) t) as [l1 [u|e]] eqn:M; pose proof (mark_all_keys _ _ _ _ M) as K; simpl in K.
    - destruct (is_open t).
      + intro H. rewrite (execute_all_keys _ _ _ _ _ H). simpl. unfold empty_queues. rewrite map_map. simpl.
        rewrite <- K. clear. induction l1 as [|x r IH]; simpl; congruence.
      + intro H; inversion H; subst. simpl. exact K.
    - intro H; inversion H; subst. simpl. exact K.
  Qed.

  Lemma acct_find_none_notin pid (l : list (string * acct)) : acct_find pid l = None -> ~ In pid (map fst l).
  Proof.
    induction l as [|[k x] l IH]; simpl; [tauto|]. destruct (String.eqb pid k) eqn:E; [discriminate|].
    apply String.eqb_neq in E. intros H [X|X]; [congruence|exact (IH H X)].
  Qed.

  Lemma step_nodup pre b o b1 r ef :
    NoDup (map fst (b_accts b)) -> step bidask midp pre b o = (b1, r, ef) -> NoDup (map fst (b_accts b1)).
  Proof.
    intro ND. destruct o; simpl.
    - destruct (qltb a 0); intro H; inversion H; subst; exact ND.
    - destruct (qltb a 0); [intro H; inversion H; subst; exact ND|].
      destruct (qltb (b_cash b) a); intro H; inversion H; subst; exact ND.
    - destruct (acct_find pid (b_accts b)) eqn:F; intro H; inversion H; subst; [exact ND|].
      simpl. rewrite map_app. simpl. apply acct_find_none_notin in F.
      clear - ND F. induction (map fst (b_accts b)) as [|x xs IH]; simpl.
      + constructor; [intros []|constructor].
      + inversion ND; subst. constructor.
        * rewrite in_app_iff. simpl. intros [H|[H|[]]]; [contradiction|]. subst. apply F. left. reflexivity.
        * apply IH; [assumption|]. intro H. apply F. right. exact H.
    - destruct (qltb a 0); [intro H; inversion H; subst; exact ND|].
      destruct (acct_find pid (b_accts b)) as [ac|] eqn:F; [|intro H; inversion H; subst; exact ND].
      destruct (qltb (b_cash b) a); [intro H; inversion H; subst; exact ND|].
      destruct (pf_subscribe (a_pf ac) (b_dt b) a) as [pf' [u|e]]; intro H; inversion H; subst; simpl;
        rewrite (acct_set_keys _ ac _ _ F); exact ND.
    - destruct (qltb a 0); [intro H; inversion H; subst; exact ND|].
      destruct (acct_find pid (b_accts b)) as [ac|] eqn:F; [|intro H; inversion H; subst; exact ND].
      destruct (qltb (pf_cash (a_pf ac)) a); [intro H; inversion H; subst; exact ND|].
      destruct (pf_withdraw (a_pf ac) (b_dt b) a) as [pf' [u|e]]; intro H; inversion H; subst; simpl;
        rewrite (acct_set_keys _ ac _ _ F); exact ND.
    - destruct (acct_find pid (b_accts b)) as [ac|] eqn:F; intro H; inversion H; subst; [|exact ND].
      simpl. rewrite (acct_set_keys _ ac _ _ F). exact ND.
    - destruct (update bidask midp pre b t) as [[b' [u|e]] ef'] eqn:U; intro H; inversion H; subst;
        rewrite (update_keys _ _ _ _ _ _ U); exact ND.
    - destruct cur as [c|]; [match goal with |- (if ?x then _ else _) = _ -> _ => destruct x end|];
        intro H; inversion H; subst; exact ND.
    - intro H; inversion H; subst; exact ND.
    - intro H; inversion H; subst; exact ND.
    - destruct (acct_find pid (b_accts b)); intro H; inversion H; subst; exact ND.
    - destruct (acct_find pid (b_accts b)); intro H; inversion H; subst; exact ND.
    - destruct (acct_find pid (b_accts b)); intro H; inversion H; subst; exact ND.
  Qed.

  Lemma run_nodup pre ops : forall b b1 rs es,
    NoDup (map fst (b_accts b)) -> run bidask midp pre b ops = (b1, rs, es) -> NoDup (map fst (b_accts b1)).
  Proof.
    induction ops as [|o ops IH]; intros b b1 rs es ND; simpl.
    - intro H; inversion H; subst; exact ND.
    - destruct (step bidask midp pre b o) as [[bx r1] e1] eqn:S.
      destruct (run bidask midp pre bx ops) as [[b2 rs2] e2] eqn:R. intro H; inversion H; subst.
      eapply IH; [eapply step_nodup; eauto|exact R].
  Qed.

  (** the complete statement for every state reachable from a fresh broker: ANY request refused for
      one of the listed reasons leaves all observables unchanged and records no cash movement *)
  Theorem reachable_rejected_is_noop start base funds fee b0 ops b rs es o b' e ef :
    broker_init start base funds fee = Ok b0 ->
    run bidask midp true b0 ops = (b, rs, es) ->
    step bidask midp true b o = (b', Err e, ef) ->
    (forall t, o = Update t -> e = EarlyTimestamp) ->
    broker_obs b' = broker_obs b /\ ef = [].
  Proof.
    intros I R S L.
    assert (ND : NoDup (map fst (b_accts b))).
    { eapply run_nodup; [|exact R]. unfold broker_init in I.
      destruct (negb (existsb (String.eqb base) currencies)); [discriminate|]. destruct (qltb funds 0); [discriminate|].
      inversion I; subst. simpl. constructor. }
    destruct o as [a|a|p|p a|p a|p a q|tu|c| | |p|p|p];
      try (refine (step_rejected_noop bidask midp b _ b' e ef _ S); intros t0 X; discriminate).
    specialize (L tu eq_refl). subst e. simpl in S.
    destruct (update bidask midp true b tu) as [[bx [u|e2]] efx] eqn:U; inversion S; subst.
    destruct (update_rejected_early_is_noop _ _ _ _ ND U) as [E1 E2]. subst. split; reflexivity.
  Qed.
End UpdNoop.
