(** C10 / C11: order sizing. *)
From Coq Require Import ZArith QArith Qround Qabs Qfield String Bool List Lia Lqa Permutation Sorted.
From QS Require Import theories.Num theories.Position theories.Portfolio theories.Fees theories.Sizer
  proofs.QLemmas proofs.Fills.
Import ListNotations.
Open Scope Q_scope.

(** * floor / truncation facts *)
Lemma floor_sandwich x : inject_Z (Qfloor x) <= x /\ x < inject_Z (Qfloor x) + 1.
Proof.
  split; [apply Qfloor_le|]. pose proof (Qlt_floor x) as H. rewrite inject_Z_plus in H.
  change (inject_Z 1) with 1 in H. exact H.
Qed.
Lemma ceiling_sandwich x : inject_Z (Qceiling x) - 1 < x /\ x <= inject_Z (Qceiling x).
Proof.
  split; [|apply Qle_ceiling]. pose proof (Qceiling_lt x) as H. unfold Z.sub in H.
  rewrite inject_Z_plus, inject_Z_opp in H. change (inject_Z 1) with 1 in H. lra.
Qed.
Lemma floor_nonneg x : 0 <= x -> (0 <= Qfloor x)%Z.
Proof.
  intro H. destruct (floor_sandwich x) as [_ U].
  assert (L : (-1 < Qfloor x)%Z).
  { rewrite Zlt_Qlt. change (inject_Z (-1)) with (- (1)). lra. }
  lia.
Qed.
Lemma ceiling_nonpos x : x <= 0 -> (Qceiling x <= 0)%Z.
Proof.
  intro H. destruct (ceiling_sandwich x) as [L _].
  assert (U : (Qceiling x < 1)%Z).
  { rewrite Zlt_Qlt. change (inject_Z 1) with 1. lra. }
  lia.
Qed.

(** [int(x)] (truncation toward zero) is the floor of a non-negative and the ceiling of a negative *)
Lemma qtrunc_nonneg x : 0 <= x -> qtrunc x = Qfloor x.
Proof.
  destruct x as [n d]. unfold Qle, qtrunc, Qfloor. simpl. intro H.
  rewrite Z.mul_1_r in H. apply Z.quot_div_nonneg; lia.
Qed.
Lemma qtrunc_neg x : x <= 0 -> qtrunc x = Qceiling x.
Proof.
  destruct x as [n d]. unfold Qle, qtrunc, Qceiling, Qfloor, Qopp. simpl. intro H.
  rewrite Z.mul_1_r in H.
  replace n with (- - n)%Z at 1 by lia. rewrite Z.quot_opp_l by lia.
  rewrite Z.quot_div_nonneg by lia. reflexivity.
Qed.

(** * C10: one asset of the long-only sizer *)
Section LongOnly.
  Variables (A price : Q) (fee : fee_model).
  Hypothesis HA : 0 <= A.
  Hypothesis Hp : 0 < price.
  Let q := Qfloor ((A - fee_total fee A) / price).

  Lemma lo_floor_bounds :
    inject_Z q * price + fee_total fee A <= A /\ A < (inject_Z q + 1) * price + fee_total fee A.
  Proof.
    destruct (floor_sandwich ((A - fee_total fee A) / price)) as [L U]. fold q in L, U.
    assert (NZ : ~ price == 0) by lra.
    split.
    - apply Qmult_le_r with (z := price) in L; [|exact Hp].
      assert (E : (A - fee_total fee A) / price * price == A - fee_total fee A) by (field; exact NZ).
      rewrite E in L. lra.
    - apply Qmult_lt_r with (z := price) in U; [|exact Hp].
      assert (E : (A - fee_total fee A) / price * price == A - fee_total fee A) by (field; exact NZ).
      rewrite E in U. lra.
  Qed.

  Lemma lo_qty_nonneg : fee_total fee A <= A -> (0 <= q)%Z.
  Proof.
    intro F. apply floor_nonneg. apply Qle_shift_div_l; [exact Hp|]. lra.
  Qed.
End LongOnly.

Lemma percent_fee_le c t A : 0 <= A -> 0 <= c -> 0 <= t -> c + t <= 1 -> fee_total (PercentFee c t) A <= A.
Proof.
  intros HA Hc Ht S. simpl. assert (EA : Qabs A == A) by (apply Qabs_pos; exact HA). rewrite EA.
  assert (E : c * A + t * A == (c + t) * A) by ring. rewrite E.
  assert (X : (c + t) * A <= 1 * A) by (apply Qmult_le_compat_r; assumption). lra.
Qed.
Lemma zero_fee_le A : 0 <= A -> fee_total ZeroFee A <= A.
Proof. intro H. simpl. exact H. Qed.

Theorem lo_qty_spec E fee w price :
  0 <= E -> 0 <= w -> 0 < price ->
  let A := E * w in
  inject_Z (lo_qty E fee w price) * price + fee_total fee A <= A /\
  A < (inject_Z (lo_qty E fee w price) + 1) * price + fee_total fee A /\
  (fee_total fee A <= A -> (0 <= lo_qty E fee w price)%Z).
Proof.
  intros HE Hw Hp A. assert (HA : 0 <= A) by (unfold A; apply Qmult_le_0_compat; assumption).
  unfold lo_qty. fold A. destruct (lo_floor_bounds A price fee Hp) as [L U].
  split; [exact L|]. split; [exact U|]. intro F. apply lo_qty_nonneg; assumption.
Qed.

(** the whole target: what [size_all] spends is at most the sum of the allocations *)
Fixpoint price_of_all (price : string -> option Q) (w : weights) : Prop :=
  match w with [] => True | (a, _) :: r => (exists p, price a = Some p /\ 0 < p) /\ price_of_all price r end.
Fixpoint spent (E : Q) (fee : fee_model) (price : string -> option Q) (w : weights) (l : list (string * Z)) : Q :=
  match w, l with
  | (a, x) :: r, (_, q) :: l' =>
      (inject_Z q * match price a with Some p => p | None => 0 end + fee_total fee (E * x)) + spent E fee price r l'
  | _, _ => 0
  end.

Lemma lo_budget_list E fee price : 0 <= E -> forall w l,
  Forall (fun aw => 0 <= snd aw) w -> price_of_all price w ->
  size_all (lo_qty E fee) price w = Ok l ->
  spent E fee price w l <= E * qsum (map snd w) /\ map fst l = map fst w /\
  Forall2 (fun aw aq => exists p, price (fst aw) = Some p /\ snd aq = lo_qty E fee (snd aw) p) w l.
Proof.
  intros HE. induction w as [|[a x] r IH]; intros l F P; simpl.
  - intro H; inversion H; subst. simpl. split; [unfold qsum; simpl; rewrite Qmult_0_r; apply Qle_refl|].
    split; [reflexivity|constructor].
  - inversion F as [|? ? Fx Fr]; subst. simpl in Fx. destruct P as [(p & Pa & Pp) Pr].
    rewrite Pa. destruct (size_all (lo_qty E fee) price r) as [l'|e] eqn:S; [|intro H; inversion H].
    intro H; inversion H; subst; clear H. destruct (IH l' Fr Pr eq_refl) as (B & K & V).
    simpl. rewrite qsum_cons. split; [|split; [rewrite K; reflexivity|]].
    + destruct (lo_qty_spec E fee x p HE Fx Pp) as (L & _ & _). simpl in L.
      rewrite Qmult_plus_distr_r. lra.
    + constructor; [exists p; split; [exact Pa|reflexivity]|exact V].
Qed.

(** normalised weights sum to one *)
Lemma qsum_scale (w : weights) s : qsum (map snd (map (fun aw => (fst aw, snd aw / s)) w)) == qsum (map snd w) / s.
Proof.
  induction w as [|[a x] r IH]; simpl.
  - unfold qsum. simpl. unfold Qdiv. ring.
  - rewrite !qsum_cons, IH. simpl. unfold Qdiv. ring.
Qed.
Lemma lo_normalised_sum w nw :
  lo_normalise w = Ok nw ->
  (nw = w /\ isclose0 (qsum (map snd w)) = true) \/
  (qsum (map snd nw) == 1 /\ isclose0 (qsum (map snd w)) = false /\
   nw = map (fun aw => (fst aw, snd aw / qsum (map snd w))) w).
Proof.
  unfold lo_normalise. destruct (existsb _ w); [discriminate|].
  destruct (isclose0 (qsum (map snd w))) eqn:C; intro H; inversion H; subst; [left; auto|right].
  split; [|auto]. rewrite qsum_scale. unfold isclose0 in C.
  assert (NZ : ~ qsum (map snd w) == 0).
  { intro Z. rewrite Z in C. simpl in C. discriminate. }
  field. exact NZ.
Qed.
Lemma lo_normalise_nonneg w nw : lo_normalise w = Ok nw -> Forall (fun aw => 0 <= snd aw) w.
Proof.
  unfold lo_normalise. destruct (existsb (fun aw => qltb (snd aw) 0) w) eqn:X; [discriminate|]. intros _.
  apply Forall_forall. intros aw I. destruct (qltb (snd aw) 0) eqn:N; [|apply qltb_ge; exact N].
  exfalso. assert (T : existsb (fun aw => qltb (snd aw) 0) w = true) by (apply existsb_exists; eauto). congruence.
Qed.

(** rejections *)
Lemma lo_rejects_negative equity buffer fee price w a x :
  In (a, x) w -> x < 0 -> lo_size equity buffer fee price w = Err NegativeWeight.
Proof.
  intros I N. unfold lo_size. destruct w as [|y r]; [contradiction|]. unfold lo_normalise.
  assert (T : existsb (fun aw => qltb (snd aw) 0) (y :: r) = true).
  { apply existsb_exists. exists (a, x). split; [exact I|]. apply qltb_lt. exact N. }
  rewrite T. reflexivity.
Qed.
Lemma lo_rejects_buffer b : b < 0 \/ 1 < b -> lo_check_buffer b = Err BadBuffer.
Proof.
  intro H. unfold lo_check_buffer.
  assert (T : qltb b 0 || qltb 1 b = true).
  { apply orb_true_iff. destruct H; [left|right]; apply qltb_lt; assumption. }
  rewrite T. reflexivity.
Qed.
Lemma lo_accepts_buffer b : 0 <= b <= 1 -> lo_check_buffer b = Ok b.
Proof.
  intros [L U]. unfold lo_check_buffer.
  assert (T : qltb b 0 || qltb 1 b = false).
  { apply orb_false_iff. split; apply qltb_ge; assumption. }
  rewrite T. reflexivity.
Qed.
Lemma size_all_nan f price w :
  (exists a x, In (a, x) w /\ price a = None) -> exists e, size_all f price w = Err e.
Proof.
  induction w as [|[b y] r IH]; intros (a & x & I & N); [contradiction|]. simpl.
  destruct (price b) as [p|] eqn:P; [|eauto].
  destruct I as [I|I].
  - inversion I; subst. congruence.
  - destruct IH as [e E]; [eauto|]. rewrite E. eauto.
Qed.
Lemma size_all_err_is_nan f price w e : size_all f price w = Err e -> e = NanPrice.
Proof.
  induction w as [|[b y] r IH]; simpl; [discriminate|].
  destruct (price b); [|intro H; inversion H; reflexivity].
  destruct (size_all f price r); [discriminate|]. intro H; inversion H; subst. apply IH. reflexivity.
Qed.

(** all-zero weights give an all-zero target *)
Lemma lo_zero_qty E fee p : 0 < p -> lo_qty E fee 0 p = 0%Z.
Proof.
  intro Hp. unfold lo_qty.
  assert (Z : (E * 0 - fee_total fee (E * 0)) / p == 0).
  { assert (F : fee_total fee (E * 0) == 0).
    { destruct fee; simpl; [reflexivity|]. assert (A0 : Qabs (E * 0) == 0) by (rewrite Qmult_0_r; reflexivity).
      rewrite A0. ring. }
    rewrite F. unfold Qdiv. ring. }
  rewrite Z. reflexivity.
Qed.

(** * C11: one asset of the long/short sizer *)
Lemma trunc_q_bounds x :
  (0 <= x -> 0 <= inject_Z (trunc_q x) <= x /\ x < inject_Z (trunc_q x) + 1) /\
  (x < 0 -> x <= inject_Z (trunc_q x) <= 0 /\ inject_Z (trunc_q x) - 1 < x).
Proof.
  unfold trunc_q. split; intro H.
  - assert (B : Qle_bool 0 x = true) by (apply Qle_bool_iff; exact H). rewrite B.
    destruct (floor_sandwich x) as [L U]. pose proof (floor_nonneg x H) as N.
    rewrite Zle_Qle in N. change (inject_Z 0) with 0 in N. repeat split; assumption.
  - assert (B : Qle_bool 0 x = false).
    { destruct (Qle_bool 0 x) eqn:E; auto. apply Qle_bool_iff in E. lra. }
    rewrite B. destruct (ceiling_sandwich x) as [L U].
    assert (N : (Qceiling x <= 0)%Z) by (apply ceiling_nonpos; lra).
    rewrite Zle_Qle in N. change (inject_Z 0) with 0 in N. repeat split; assumption.
Qed.

Theorem ls_qty_spec E fee w price :
  0 < price ->
  let D := E * w in
  let after := D - fee_total fee D in
  let q := ls_qty E fee w price in
  (0 <= after -> (0 <= q)%Z /\ inject_Z q * price <= after /\ after - 1 < (inject_Z q + 1) * price) /\
  (after < 0 -> (q <= 0)%Z /\ after <= inject_Z q * price /\ (inject_Z q - 1) * price < after + 1).
Proof.
  intros Hp D after q. unfold q, ls_qty. fold D. fold after.
  assert (NZ : ~ price == 0) by lra.
  destruct (trunc_q_bounds after) as [TP TN]. set (T := inject_Z (trunc_q after)) in *.
  split; intro H.
  - destruct (TP H) as ((T0 & T1) & T2).
    assert (Y : 0 <= T / price) by (apply Qle_shift_div_l; [exact Hp|lra]).
    rewrite (qtrunc_nonneg _ Y). destruct (floor_sandwich (T / price)) as [L U].
    set (k := inject_Z (Qfloor (T / price))) in *.
    assert (E1 : T / price * price == T) by (field; exact NZ).
    split; [apply floor_nonneg; exact Y|].
    apply Qmult_le_r with (z := price) in L; [|exact Hp]. apply Qmult_lt_r with (z := price) in U; [|exact Hp].
    rewrite E1 in L, U. split; lra.
  - destruct (TN H) as ((T0 & T1) & T2).
    assert (Y : T / price <= 0) by (apply Qle_shift_div_r; [exact Hp|lra]).
    rewrite (qtrunc_neg _ Y). destruct (ceiling_sandwich (T / price)) as [L U].
    set (k := inject_Z (Qceiling (T / price))) in *.
    assert (E1 : T / price * price == T) by (field; exact NZ).
    split; [apply ceiling_nonpos; exact Y|].
    apply Qmult_lt_r with (z := price) in L; [|exact Hp]. apply Qmult_le_r with (z := price) in U; [|exact Hp].
    rewrite E1 in L, U. split; lra.
Qed.

(** the sign of the after-cost dollars is the sign of the weight when fees are at most 100 % *)
Lemma ls_after_sign E c t w :
  0 < E -> 0 <= c -> 0 <= t -> c + t <= 1 ->
  let D := E * w in
  let after := D - fee_total (PercentFee c t) D in
  (0 <= w -> 0 <= after) /\ (w < 0 -> after < 0) /\ Qabs after <= (1 + (c + t)) * Qabs D.
Proof.
  intros HE Hc Ht S D after. unfold after. cbn [fee_total].
  assert (DP : 0 <= w -> 0 <= D) by (intro; unfold D; apply Qmult_le_0_compat; lra).
  assert (DN : w < 0 -> D < 0).
  { intro Hw. unfold D. assert (X : E * w < E * 0) by (apply Qmult_lt_l; assumption). lra. }
  clearbody D. clear after.
  assert (F : c * Qabs D + t * Qabs D == (c + t) * Qabs D) by ring.
  split; [|split].
  - intro Hw. assert (HD : 0 <= D) by auto.
    assert (EA : Qabs D == D) by (apply Qabs_pos; exact HD). rewrite EA.
    assert (X : (c + t) * D <= 1 * D) by (apply Qmult_le_compat_r; assumption). lra.
  - intro Hw. assert (HD : D < 0) by auto.
    assert (EA : Qabs D == - D) by (apply Qabs_neg; lra). rewrite EA.
    assert (X : 0 <= (c + t) * - D) by (apply Qmult_le_0_compat; lra). lra.
  - rewrite F. destruct (Qlt_le_dec D 0) as [N|P].
    + assert (EA : Qabs D == - D) by (apply Qabs_neg; lra). rewrite EA.
      assert (X : 0 <= (c + t) * - D) by (apply Qmult_le_0_compat; lra).
      assert (EB : Qabs (D - (c + t) * - D) == - (D - (c + t) * - D)) by (apply Qabs_neg; lra). rewrite EB. lra.
    + assert (EA : Qabs D == D) by (apply Qabs_pos; exact P). rewrite EA.
      assert (X : (c + t) * D <= 1 * D) by (apply Qmult_le_compat_r; assumption).
      assert (X2 : 0 <= (c + t) * D) by (apply Qmult_le_0_compat; lra).
      assert (EB : Qabs (D - (c + t) * D) == D - (c + t) * D) by (apply Qabs_pos; lra). rewrite EB. lra.
Qed.

Lemma ls_rejects_leverage l : l <= 0 -> ls_check_leverage l = Err BadLeverage.
Proof. intro H. unfold ls_check_leverage. assert (T : qleb l 0 = true) by (apply qleb_le; exact H). rewrite T. reflexivity. Qed.
Lemma ls_accepts_leverage l : 0 < l -> ls_check_leverage l = Ok l.
Proof. intro H. unfold ls_check_leverage. assert (T : qleb l 0 = false) by (apply qleb_gt; exact H). rewrite T. reflexivity. Qed.

(** normalised gross exposure equals the leverage *)
Lemma qsum_abs_scale (w : weights) k :
  qsum (map (fun aw => Qabs (snd aw)) (map (fun aw => (fst aw, snd aw * k)) w)) ==
  qsum (map (fun aw => Qabs (snd aw)) w) * Qabs k.
Proof.
  induction w as [|[a x] r IH]; simpl.
  - unfold qsum. simpl. ring.
  - rewrite !qsum_cons, IH. cbn [snd fst].
    assert (EA : Qabs (x * k) == Qabs x * Qabs k) by apply Qabs_Qmult. rewrite EA. ring.
Qed.
Lemma qsum_abs_nonneg (w : weights) : 0 <= qsum (map (fun aw => Qabs (snd aw)) w).
Proof.
  induction w as [|[a x] r IH]; simpl; [unfold qsum; simpl; lra|].
  rewrite qsum_cons. simpl. pose proof (Qabs_nonneg x). lra.
Qed.
Lemma ls_normalised_gross lev w :
  0 < lev -> isclose0 (qsum (map (fun aw => Qabs (snd aw)) w)) = false ->
  qsum (map (fun aw => Qabs (snd aw)) (ls_normalise lev w)) == lev.
Proof.
  intros HL C. unfold ls_normalise. rewrite C. rewrite qsum_abs_scale.
  set (g := qsum (map (fun aw => Qabs (snd aw)) w)) in *.
  assert (G : 0 < g).
  { pose proof (qsum_abs_nonneg w) as N. fold g in N. apply Qle_lteq in N. destruct N as [N|N]; [exact N|].
    exfalso. unfold isclose0 in C. rewrite <- N in C. simpl in C. discriminate. }
  assert (P : 0 < lev / g) by (apply Qlt_shift_div_l; lra).
  assert (EA : Qabs (lev / g) == lev / g) by (apply Qabs_pos; lra). rewrite EA. field. lra.
Qed.
