(** C07 / C14 / C16 / C18: properties of the backtest event loop. *)
From Coq Require Import ZArith QArith Qround String Bool List Lia Sorted Permutation.
From QS Require Import theories.Num theories.Position theories.Portfolio theories.Fees theories.Exchange
  theories.Broker theories.Calendar theories.Clock theories.Schedule theories.Sizer theories.PCM theories.Signals
  theories.Backtest proofs.QLemmas proofs.Ledger proofs.Fills proofs.Orders proofs.ClockProofs.
Import ListNotations.
Open Scope Z_scope.

Definition ev_lt (a b : Z * ekind) : Prop := fst a < fst b.

(** * Every output is stamped with the time of an event of the run *)
Lemma run_from_stamps cfg sched market : forall evs st o,
  In o (run_from cfg sched market st evs) -> In (fst o) (map fst evs).
Proof.
  induction evs as [|[t k] r IH]; intros st o I; simpl in *; [contradiction|].
  destruct (event_step cfg sched st t k (market t)) as [[st' outs] [e|]].
  - apply in_app_iff in I. destruct I as [I|I].
    + apply in_map_iff in I. destruct I as (x & E & _). subst. left. reflexivity.
    + destruct I as [I|[]]. subst. left. reflexivity.
  - apply in_app_iff in I. destruct I as [I|I].
    + apply in_map_iff in I. destruct I as (x & E & _). subst. left. reflexivity.
    + right. eapply IH. exact I.
Qed.

Lemma upto_nil_if_later cfg sched market T evs st :
  (forall e, In e evs -> T < fst e) -> upto T (run_from cfg sched market st evs) = [].
Proof.
  intro H. unfold upto.
  assert (A : forall o, In o (run_from cfg sched market st evs) -> (fst o <=? T) = false).
  { intros o I. apply run_from_stamps in I. apply in_map_iff in I. destruct I as (e & E & Ie).
    specialize (H e Ie). apply Z.leb_gt. lia. }
  induction (run_from cfg sched market st evs) as [|o l IH]; simpl; [reflexivity|].
  rewrite (A o (or_introl eq_refl)). apply IH. intros x I. apply A. right. exact I.
Qed.

Lemma upto_app T a b : upto T (a ++ b) = upto T a ++ upto T b.
Proof. unfold upto. apply filter_app. Qed.

(** * Causality: what is stamped on or before T depends on the market up to T only *)
Theorem run_from_causal cfg sched m1 m2 T :
  (forall t, t <= T -> m1 t = m2 t) ->
  forall evs st, StronglySorted ev_lt evs ->
  upto T (run_from cfg sched m1 st evs) = upto T (run_from cfg sched m2 st evs).
Proof.
  intros H. induction evs as [|[t k] r IH]; intros st S; [reflexivity|].
  inversion S as [|? ? S' F]; subst.
  destruct (Z_le_gt_dec t T) as [L|G].
  - simpl. rewrite (H t L).
    destruct (event_step cfg sched st t k (m2 t)) as [[st' outs] [e|]]; [reflexivity|].
    rewrite !upto_app. f_equal. apply IH. exact S'.
  - rewrite !upto_nil_if_later; [reflexivity| |].
    + intros e [E|I]; [subst; simpl; lia|]. rewrite Forall_forall in F. specialize (F e I). unfold ev_lt in F. simpl in F. lia.
    + intros e [E|I]; [subst; simpl; lia|]. rewrite Forall_forall in F. specialize (F e I). unfold ev_lt in F. simpl in F. lia.
Qed.

Lemma sorted_fst_pairs (evs : list (Z * ekind)) :
  StronglySorted Z.lt (map fst evs) -> StronglySorted ev_lt evs.
Proof.
  induction evs as [|e r IH]; simpl; intro S; [constructor|]. inversion S as [|? ? S' F]; subst.
  constructor; [apply IH; exact S'|]. rewrite Forall_forall in *. intros x I. apply F. apply in_map. exact I.
Qed.

Lemma session_events_sorted cfg st evs sched :
  session_init cfg = Ok (st, evs, sched) -> StronglySorted ev_lt evs.
Proof.
  unfold session_init.
  destruct (broker_init _ _ _ _) as [b0|]; [|discriminate].
  destruct (step _ _ true b0 (Create pid)) as [[b1 [o1|]] e1]; [|discriminate].
  destruct (step _ _ true b1 (SubPf pid (c_cash cfg))) as [[b2 [o2|]] e2]; [|discriminate].
  destruct (sim_events (c_start cfg) (c_end cfg) false false) as [evs'|] eqn:SE; [|discriminate].
  destruct (schedule_of cfg) as [sc|]; [|discriminate].
  destruct (if c_long_only cfg then lo_check_buffer (c_param cfg) else ls_check_leverage (c_param cfg)); [|discriminate].
  intro H; inversion H; subst. apply sorted_fst_pairs. eapply events_strictly_increasing; eauto.
Qed.

Theorem run_causal cfg m1 m2 T :
  (forall t, t <= T -> m1 t = m2 t) ->
  match run cfg m1, run cfg m2 with
  | Ok tr1, Ok tr2 => upto T tr1 = upto T tr2
  | Err e1, Err e2 => e1 = e2
  | _, _ => False
  end.
Proof.
  intro H. unfold run. destruct (session_init cfg) as [[[st evs] sched]|e] eqn:I; [|reflexivity].
  apply run_from_causal; [exact H|]. eapply session_events_sorted; eauto.
Qed.

(** * C14: when portfolio construction runs, when equity is recorded, when fills can happen *)
Definition is_alloc (o : Z * output) : bool := match snd o with OAlloc _ => true | _ => false end.
Definition is_equity (o : Z * output) : bool := match snd o with OEquity _ => true | _ => false end.
Definition is_fill (o : Z * output) : bool := match snd o with OFill _ => true | _ => false end.
Definition is_err (o : Z * output) : bool := match snd o with OErr _ => true | _ => false end.

Lemma fills_of_effects_only_fills ef : forall o, In o (fills_of_effects ef) -> exists tx, o = OFill tx.
Proof.
  intros o I. unfold fills_of_effects in I. apply in_flat_map in I. destruct I as (e & _ & I).
  destruct e; simpl in I; try contradiction. destruct I as [I|[]]. eauto.
Qed.

Lemma filter_map_stamp (f : Z * output -> bool) (g : output -> bool) t outs :
  (forall o, f (t, o) = g o) ->
  map fst (filter f (map (fun o => (t, o)) outs)) = map (fun _ => t) (filter g outs).
Proof.
  intro H. induction outs as [|o r IH]; simpl; [reflexivity|]. rewrite H. destruct (g o); simpl; rewrite IH; reflexivity.
Qed.

Definition reb_at (cfg : config) (sched : list Z) (t : Z) : bool := burn_ok cfg t && existsb (Z.eqb t) sched.

Definition o_alloc (o : output) : bool := match o with OAlloc _ => true | _ => false end.
Definition o_equity (o : output) : bool := match o with OEquity _ => true | _ => false end.
Definition o_noerr (o : output) : Prop := match o with OErr _ => False | _ => True end.

Lemma fills_no_alloc ef : filter o_alloc (fills_of_effects ef) = [].
Proof. induction ef as [|e r IH]; simpl; [reflexivity|]. destruct e; simpl; auto. Qed.
Lemma fills_no_equity ef : filter o_equity (fills_of_effects ef) = [].
Proof. induction ef as [|e r IH]; simpl; [reflexivity|]. destruct e; simpl; auto. Qed.
Lemma fills_noerr ef : Forall o_noerr (fills_of_effects ef).
Proof.
  apply Forall_forall. intros o H. apply fills_of_effects_only_fills in H. destruct H as [tx E]. subst. exact Logic.I.
Qed.

Definition close_equity (cfg : config) (t : Z) (k : ekind) (b : broker) : list output :=
  match k with MarketClose => if burn_ok cfg t then [OEquity (equity_of b)] else [] | _ => [] end.
Lemma close_equity_counts cfg t k b :
  filter o_alloc (close_equity cfg t k b) = [] /\
  length (filter o_equity (close_equity cfg t k b)) = (match k with MarketClose => if burn_ok cfg t then 1 else 0 | _ => 0 end)%nat /\
  Forall o_noerr (close_equity cfg t k b).
Proof.
  unfold close_equity. destruct k; simpl; try (repeat split; constructor).
  destruct (burn_ok cfg t); simpl; repeat split; repeat constructor.
Qed.

(** what one error-free event emits: one allocation row iff it is a rebalance instant not before
    burn-in; one equity point iff it is a market close not before burn-in; no error entry *)
Lemma event_step_shape cfg sched st t k snap st' outs :
  event_step cfg sched st t k snap = (st', outs, None) ->
  length (filter o_alloc outs) = (if reb_at cfg sched t then 1 else 0)%nat /\
  length (filter o_equity outs) = (match k with MarketClose => if burn_ok cfg t then 1 else 0 | _ => 0 end)%nat /\
  Forall o_noerr outs.
Proof.
  unfold event_step, reb_at.
  destruct (step (snap_bidask snap) (snap_mid snap) true (ss_broker st) (Update t)) as [[b1 [u|e]] ef]; [|intro H; inversion H].
  destruct (match k with MarketClose => signals_update cfg (ss_sig st) t snap | _ => Ok (ss_sig st) end) as [g|e]; [|intro H; inversion H].
  destruct (burn_ok cfg t && existsb (Z.eqb t) sched) eqn:R.
  - destruct (sizer_of cfg b1 snap _) as [target|e]; [|intro H; inversion H].
    destruct (submit_each snap b1 t (rebalance_orders target (held_of b1))) as [[b2 ef2] [e|]]; [intro H; inversion H|].
    intro H; inversion H; subst; clear H. fold (close_equity cfg t k b2).
    destruct (close_equity_counts cfg t k b2) as (C1 & C2 & C3).
    split; [|split].
    + rewrite filter_app, fills_no_alloc. cbn [filter o_alloc app]. rewrite filter_app, fills_no_alloc, C1. reflexivity.
    + rewrite filter_app, fills_no_equity. cbn [filter o_equity app]. rewrite filter_app, fills_no_equity. simpl. exact C2.
    + apply Forall_app. split; [apply fills_noerr|]. constructor; [exact Logic.I|].
      apply Forall_app. split; [apply fills_noerr|exact C3].
  - intro H; inversion H; subst; clear H. fold (close_equity cfg t k b1).
    destruct (close_equity_counts cfg t k b1) as (C1 & C2 & C3).
    split; [|split].
    + rewrite !filter_app, fills_no_alloc, C1. reflexivity.
    + rewrite !filter_app, fills_no_equity. simpl. exact C2.
    + apply Forall_app. split; [apply fills_noerr|]. simpl. exact C3.
Qed.

(** * Lifting to whole runs *)
Definition tr_noerr (tr : list (Z * output)) : Prop := Forall (fun o => o_noerr (snd o)) tr.

Lemma stamped_filter (g : output -> bool) (t : Z) (outs : list output) :
  map fst (filter (fun o => g (snd o)) (map (fun o => (t, o)) outs)) = repeat t (length (filter g outs)).
Proof.
  induction outs as [|o r IH]; simpl; [reflexivity|]. destruct (g o); simpl; rewrite IH; reflexivity.
Qed.

Theorem run_alloc_and_equity_times cfg sched market : forall evs st,
  tr_noerr (run_from cfg sched market st evs) ->
  map fst (filter (fun o => o_alloc (snd o)) (run_from cfg sched market st evs)) =
    filter (reb_at cfg sched) (map fst evs) /\
  map fst (filter (fun o => o_equity (snd o)) (run_from cfg sched market st evs)) =
    map fst (filter (fun e => match snd e with MarketClose => burn_ok cfg (fst e) | _ => false end) evs).
Proof.
  induction evs as [|[t k] r IH]; intros st NE; [split; reflexivity|].
  simpl in *. destruct (event_step cfg sched st t k (market t)) as [[st' outs] [e|]] eqn:ES.
  - exfalso. unfold tr_noerr in NE. rewrite Forall_forall in NE.
    specialize (NE (t, OErr e)). apply NE. apply in_app_iff. right. left. reflexivity.
  - unfold tr_noerr in NE. apply Forall_app in NE. destruct NE as [_ NE].
    destruct (IH st' NE) as [A B]. destruct (event_step_shape _ _ _ _ _ _ _ _ ES) as (S1 & S2 & _).
    split.
    + rewrite filter_app, map_app, stamped_filter, S1, A. destruct (reb_at cfg sched t); reflexivity.
    + rewrite filter_app, map_app, stamped_filter, S2, B. destruct k; simpl; try reflexivity.
      destruct (burn_ok cfg t); reflexivity.
Qed.

(** fills happen only while the exchange is open *)
Lemma step_update_closed_no_effects bidask midp b t b1 r ef :
  is_open t = false -> step bidask midp true b (Update t) = (b1, r, ef) -> ef = [].
Proof.
  intros C. simpl. destruct (update bidask midp true b t) as [[b' [u|e]] ef'] eqn:U; intro H; inversion H; subst;
    destruct (closed_update_frame _ _ _ _ _ _ _ _ C U) as (E & _); exact E.
Qed.

Lemma submit_each_closed_no_effects snap t : is_open t = false -> forall orders b b' ef e,
  submit_each snap b t orders = (b', ef, e) -> ef = [].
Proof.
  intros C. induction orders as [|[a q] r IH]; intros b b' ef e; cbn [submit_each].
  - intro H; inversion H; reflexivity.
  - destruct (step (snap_bidask snap) (snap_mid snap) true b (Submit pid a q)) as [[b1 [o1|e1]] ef1]; [|intro H; inversion H; reflexivity].
    destruct (step (snap_bidask snap) (snap_mid snap) true b1 (Update t)) as [[b2 [o2|e2]] ef2] eqn:U.
    + destruct (submit_each snap b2 t r) as [[b3 ef3] e3] eqn:SE. intro H; inversion H; subst.
      rewrite (step_update_closed_no_effects _ _ _ _ _ _ _ C U), (IH _ _ _ _ SE). reflexivity.
    + intro H; inversion H; subst. exact (step_update_closed_no_effects _ _ _ _ _ _ _ C U).
Qed.

Definition o_fill (o : output) : bool := match o with OFill _ => true | _ => false end.

Lemma event_step_closed_no_fills cfg sched st t k snap st' outs e :
  is_open t = false -> event_step cfg sched st t k snap = (st', outs, e) -> filter o_fill outs = [].
Proof.
  intros C. unfold event_step.
  destruct (step (snap_bidask snap) (snap_mid snap) true (ss_broker st) (Update t)) as [[b1 [u|e1]] ef] eqn:U;
    rewrite (step_update_closed_no_effects _ _ _ _ _ _ _ C U); [|intro H; inversion H; reflexivity].
  destruct (match k with MarketClose => signals_update cfg (ss_sig st) t snap | _ => Ok (ss_sig st) end) as [g|e2];
    [|intro H; inversion H; reflexivity].
  destruct (burn_ok cfg t && existsb (Z.eqb t) sched).
  - destruct (sizer_of cfg b1 snap _) as [target|e3]; [|intro H; inversion H; reflexivity].
    destruct (submit_each snap b1 t (rebalance_orders target (held_of b1))) as [[b2 ef2] e4] eqn:SE.
    rewrite (submit_each_closed_no_effects snap t C _ _ _ _ _ SE).
    destruct e4; intro H; inversion H; subst; simpl; [reflexivity|].
    destruct k; simpl; try reflexivity. destruct (burn_ok cfg t); reflexivity.
  - intro H; inversion H; subst. simpl. destruct k; simpl; try reflexivity. destruct (burn_ok cfg t); reflexivity.
Qed.

Theorem fills_only_in_exchange_hours cfg sched market : forall evs st t tx,
  In (t, OFill tx) (run_from cfg sched market st evs) -> is_open t = true.
Proof.
  induction evs as [|[u k] r IH]; intros st t tx I; simpl in I; [contradiction|].
  destruct (event_step cfg sched st u k (market u)) as [[st' outs] e] eqn:ES.
  assert (Here : In (t, OFill tx) (map (fun o => (u, o)) outs) -> is_open t = true).
  { intro J. apply in_map_iff in J. destruct J as (o & E & J). inversion E; subst.
    destruct (is_open t) eqn:O; [reflexivity|]. exfalso.
    pose proof (event_step_closed_no_fills _ _ _ _ _ _ _ _ _ O ES) as N.
    assert (X : In (OFill tx) (filter o_fill outs)) by (apply filter_In; split; [exact J|reflexivity]).
    rewrite N in X. exact X. }
  destruct e as [e|]; apply in_app_iff in I; destruct I as [I|I]; auto.
  - destruct I as [I|[]]. inversion I.
  - eapply IH; eauto.
Qed.

(** with nothing queued, an event that is not a rebalance fills nothing and queues nothing *)
Lemma drained_nil l : qids l = [] -> drained l = [].
Proof. intro H. rewrite <- drained_ids in H. apply map_eq_nil in H. exact H. Qed.

Lemma step_update_empty_queue bidask midp b t b1 u ef :
  qids (b_accts b) = [] -> step bidask midp true b (Update t) = (b1, Ok u, ef) ->
  ef = [] /\ qids (b_accts b1) = [].
Proof.
  intros Q. simpl. destruct (update bidask midp true b t) as [[b' [u'|e]] ef'] eqn:U; intro H; inversion H; subst.
  destruct (is_open t) eqn:O.
  - destruct (open_update_fills_all _ _ _ _ _ _ _ _ O U) as (F & Q1 & _).
    rewrite (drained_nil _ Q) in F. simpl in F. inversion F. split; [reflexivity|exact Q1].
  - destruct (closed_update_frame _ _ _ _ _ _ _ _ O U) as (E & _ & _ & Q1 & _).
    split; [exact E|]. rewrite (queues_qids _ _ Q1). exact Q.
Qed.

Lemma event_step_idle cfg sched st t k snap st' outs :
  qids (b_accts (ss_broker st)) = [] -> reb_at cfg sched t = false ->
  event_step cfg sched st t k snap = (st', outs, None) ->
  filter o_fill outs = [] /\ qids (b_accts (ss_broker st')) = [].
Proof.
  intros Q R. unfold event_step. unfold reb_at in R.
  destruct (step (snap_bidask snap) (snap_mid snap) true (ss_broker st) (Update t)) as [[b1 [u|e1]] ef] eqn:U; [|intro H; inversion H].
  destruct (step_update_empty_queue _ _ _ _ _ _ _ Q U) as [E Q1]. subst ef.
  destruct (match k with MarketClose => signals_update cfg (ss_sig st) t snap | _ => Ok (ss_sig st) end) as [g|e2]; [|intro H; inversion H].
  rewrite R. intro H; inversion H; subst. simpl. split; [|exact Q1].
  destruct k; simpl; try reflexivity. destruct (burn_ok cfg t); reflexivity.
Qed.

Theorem no_fill_before_first_rebalance cfg sched market : forall evs st,
  StronglySorted ev_lt evs -> qids (b_accts (ss_broker st)) = [] ->
  tr_noerr (run_from cfg sched market st evs) ->
  forall t tx, In (t, OFill tx) (run_from cfg sched market st evs) ->
  exists ta w, In (ta, OAlloc w) (run_from cfg sched market st evs) /\ ta <= t.
Proof.
  induction evs as [|[u k] r IH]; intros st S Q NE t tx I; simpl in *; [contradiction|].
  inversion S as [|? ? S' F]; subst.
  destruct (event_step cfg sched st u k (market u)) as [[st' outs] [e|]] eqn:ES.
  - exfalso. unfold tr_noerr in NE. rewrite Forall_forall in NE.
    specialize (NE (u, OErr e)). apply NE. apply in_app_iff. right. left. reflexivity.
  - assert (LATER : forall o, In o (run_from cfg sched market st' r) -> u < fst o).
    { intros o J. apply run_from_stamps in J. apply in_map_iff in J. destruct J as (ev & E & J).
      rewrite Forall_forall in F. specialize (F ev J). unfold ev_lt in F. simpl in F. lia. }
    destruct (reb_at cfg sched u) eqn:R.
    + (* a rebalance happens here: its allocation row is stamped u <= every later stamp *)
      destruct (event_step_shape _ _ _ _ _ _ _ _ ES) as (S1 & _ & _). rewrite R in S1.
      destruct (filter o_alloc outs) as [|a l] eqn:FA; [discriminate|].
      assert (IA : In a outs /\ o_alloc a = true) by (apply filter_In; rewrite FA; left; reflexivity).
      destruct IA as [IA OA]. destruct a; try discriminate.
      exists u, w. split; [apply in_app_iff; left; apply in_map_iff; exists (OAlloc w); auto|].
      apply in_app_iff in I. destruct I as [I|I].
      * apply in_map_iff in I. destruct I as (o & E & _). inversion E; subst. lia.
      * specialize (LATER _ I). simpl in LATER. lia.
    + destruct (event_step_idle _ _ _ _ _ _ _ _ Q R ES) as [NF Q'].
      apply in_app_iff in I. destruct I as [I|I].
      * exfalso. apply in_map_iff in I. destruct I as (o & E & J). inversion E; subst.
        assert (X : In (OFill tx) (filter o_fill outs)) by (apply filter_In; split; [exact J|reflexivity]).
        rewrite NF in X. exact X.
      * unfold tr_noerr in NE. apply Forall_app in NE. destruct NE as [_ NE].
        destruct (IH st' S' Q' NE t tx I) as (ta & w & IA & L).
        exists ta, w. split; [apply in_app_iff; right; exact IA|exact L].
Qed.
