(** C19 at the level of whole sessions: with the universe-driven alpha model an asset gets a
    weight, an order, a fill (hence a position) only from the first rebalance at which the universe
    lists it - for every configuration, schedule, sizing mode and market, whether or not the run
    raises later.  The invariant: every asset with a position or a pending order has been a
    universe member at some instant up to now ([Touch]: updates and submissions cannot touch any
    other asset). *)
From Coq Require Import ZArith QArith String Bool List Lia Permutation Sorted.
From QS Require Import theories.Num theories.Position theories.Portfolio theories.Fees theories.Exchange
  theories.Broker theories.Calendar theories.Clock theories.Schedule theories.Sizer theories.PCM theories.Signals
  theories.Backtest theories.Spec
  proofs.QLemmas proofs.Holdings proofs.Orders proofs.PcmProofs proofs.ClockProofs proofs.BacktestProofs proofs.SessionSignals
  proofs.SpecSizing proofs.SpecRun proofs.SpecProgress proofs.Touch.
Import ListNotations.
Open Scope Z_scope.

Definition seen (cfg : config) (t : Z) (x : string) : Prop :=
  exists t0, t0 <= t /\ In x (universe_assets (c_univ cfg) t0).
Definition Known (cfg : config) (t : Z) (b : broker) : Prop :=
  forall x, In x (pos_assets (b_accts b)) \/ In x (q_assets (b_accts b)) -> seen cfg t x.

(** what an allocation row of a universe-driven session looks like *)
Definition RowOk (cfg : config) (s : Q) (t : Z) (fw : weights) : Prop :=
  (forall a, In a (universe_assets (c_univ cfg) t) -> w_find a fw = Some s) /\
  (forall a, ~ In a (universe_assets (c_univ cfg) t) -> In a (map fst fw) -> w_find a fw = Some 0%Q) /\
  (forall a, In a (map fst fw) -> seen cfg t a).
Definition OutsOk (cfg : config) (s : Q) (t : Z) (outs : list output) : Prop :=
  (forall tx, In (OFill tx) outs -> seen cfg t (t_asset tx)) /\
  (forall fw, In (OAlloc fw) outs -> RowOk cfg s t fw).

Lemma seen_mono cfg t t' x : t <= t' -> seen cfg t x -> seen cfg t' x.
Proof. intros L (t0 & L0 & I). exists t0. split; [lia|exact I]. Qed.
Lemma Known_mono cfg t t' b : t <= t' -> Known cfg t b -> Known cfg t' b.
Proof. intros L K x I. eapply seen_mono; [exact L|apply K; exact I]. Qed.

Lemma OutsOk_nil cfg s t : OutsOk cfg s t [].
Proof. split; intros ? []. Qed.
Lemma OutsOk_app cfg s t a b : OutsOk cfg s t a -> OutsOk cfg s t b -> OutsOk cfg s t (a ++ b).
Proof.
  intros [A1 A2] [B1 B2]. split; intros x I; apply in_app_iff in I; destruct I as [I|I]; auto.
Qed.
Lemma fills_of_effects_assets ef tx : In (OFill tx) (fills_of_effects ef) -> In (t_asset tx) (fill_assets ef).
Proof.
  unfold fills_of_effects, fill_assets. rewrite !in_flat_map. intros (e & I & J). exists e. split; [exact I|].
  destruct e; simpl in *; try contradiction. destruct J as [J|[]]. inversion J; subst. left; reflexivity.
Qed.
Lemma OutsOk_fills cfg s t ef :
  (forall x, In x (fill_assets ef) -> seen cfg t x) -> OutsOk cfg s t (fills_of_effects ef).
Proof.
  intro F. split.
  - intros tx I. apply F. apply fills_of_effects_assets. exact I.
  - intros fw I. apply fills_of_effects_only_fills in I. destruct I as (tx & E). discriminate.
Qed.
Lemma OutsOk_alloc cfg s t fw outs : RowOk cfg s t fw -> OutsOk cfg s t outs -> OutsOk cfg s t (OAlloc fw :: outs).
Proof.
  intros R [A B]. split.
  - intros tx [I|I]; [discriminate|auto].
  - intros fw' [I|I]; [inversion I; subst; exact R|auto].
Qed.
Lemma OutsOk_equity cfg s t (l : list output) :
  (forall o, In o l -> exists q, o = OEquity q) -> OutsOk cfg s t l.
Proof.
  intro E. split; intros x I; destruct (E _ I) as (q & D); discriminate.
Qed.

Lemma held_in_pos b x : In x (map fst (held_of b)) -> In x (pos_assets (b_accts b)).
Proof.
  unfold held_of. destruct (acct_find pid (b_accts b)) as [a|] eqn:F; [|intros []].
  rewrite map_map. cbn [fst]. intro I. eapply acct_find_pos_in; eauto.
Qed.

Lemma sizer_keys cfg b snap fw target x :
  sizer_of cfg b snap fw = Ok target -> In x (map fst target) -> In x (map fst fw).
Proof.
  unfold sizer_of. destruct (c_long_only cfg).
  - unfold lo_size. destruct fw as [|y r] eqn:EW; [intro H; inversion H; subst; intros []|].
    rewrite <- EW. destruct (lo_normalise fw) as [nw|e] eqn:N; [|discriminate].
    assert (K : map fst nw = map fst fw).
    { revert N. unfold lo_normalise. destruct (existsb _ fw); [discriminate|].
      destruct (isclose0 _); intro H; inversion H; subst; [reflexivity|]. rewrite map_map. reflexivity. }
    intros H I. apply size_all_keys in H. rewrite H in I.
    apply (Permutation_in _ (sort_keys_perm nw)) in I. rewrite K in I. exact I.
  - unfold ls_size. destruct fw as [|y r] eqn:EW; [intro H; inversion H; subst; intros []|].
    rewrite <- EW.
    assert (K : map fst (ls_normalise (c_param cfg) fw) = map fst fw).
    { unfold ls_normalise. destruct (isclose0 _); [reflexivity|]. rewrite map_map. reflexivity. }
    intros H I. apply size_all_keys in H. rewrite H in I.
    apply (Permutation_in _ (sort_keys_perm _)) in I. rewrite K in I. exact I.
Qed.

(** the order loop of a rebalance *)
Lemma submit_each_known cfg snap t : forall orders b b' ef e,
  submit_each snap b t orders = (b', ef, e) ->
  Known cfg t b -> (forall x, In x (map fst orders) -> seen cfg t x) ->
  Known cfg t b' /\ (forall x, In x (fill_assets ef) -> seen cfg t x).
Proof.
  induction orders as [|[a q] r IH]; intros b b' ef e; cbn [submit_each].
  - intro H; inversion H; subst. intros K _. split; [exact K|intros x []].
  - intros H K OS.
    destruct (step (snap_bidask snap) (snap_mid snap) true b (Submit pid a q)) as [[b1 r1] ef1] eqn:S1.
    destruct (submit_touch _ _ _ _ _ _ _ _ _ _ S1) as (_ & P1 & Q1).
    assert (K1 : Known cfg t b1).
    { intros x [I|I]; [apply K; left; rewrite <- P1; exact I|].
      destruct (Q1 x I) as [E|J]; [subst; apply OS; left; reflexivity|apply K; right; exact J]. }
    destruct r1 as [o1|e1]; [|inversion H; subst; split; [exact K1|intros x []]].
    destruct (step (snap_bidask snap) (snap_mid snap) true b1 (Update t)) as [[b2 r2] ef2] eqn:S2.
    destruct (step_update_touch _ _ _ _ _ _ _ _ S2) as (P2 & Q2 & F2).
    assert (K2 : Known cfg t b2).
    { intros x [I|I]; [destruct (P2 x I) as [J|J]; apply K1; auto|apply K1; right; apply Q2; exact I]. }
    assert (FS : forall x, In x (fill_assets ef2) -> seen cfg t x) by (intros x I; apply K1; right; apply F2; exact I).
    destruct r2 as [o2|e2]; [|inversion H; subst; split; [exact K2|exact FS]].
    destruct (submit_each snap b2 t r) as [[b3 ef3] e3] eqn:SE. inversion H; subst.
    destruct (IH _ _ _ _ SE K2) as [K3 F3]; [intros x I; apply OS; right; exact I|].
    split; [exact K3|]. intros x I. rewrite fill_assets_app in I. apply in_app_iff in I. destruct I; auto.
Qed.

(** one clock event *)
Lemma event_step_known cfg s sched st t0 t k snap st' outs e :
  c_alpha cfg = ASingle s ->
  Known cfg t0 (ss_broker st) -> t0 <= t ->
  event_step cfg sched st t k snap = (st', outs, e) ->
  Known cfg t (ss_broker st') /\ OutsOk cfg s t outs.
Proof.
  intros ALPHA K0 L. apply (Known_mono _ _ _ _ L) in K0. unfold event_step.
  destruct (step (snap_bidask snap) (snap_mid snap) true (ss_broker st) (Update t)) as [[b1 r1] ef1] eqn:S1.
  destruct (step_update_touch _ _ _ _ _ _ _ _ S1) as (P1 & Q1 & F1).
  assert (K1 : Known cfg t b1).
  { intros x [I|I]; [destruct (P1 x I) as [J|J]; apply K0; auto|apply K0; right; apply Q1; exact I]. }
  assert (O1 : OutsOk cfg s t (fills_of_effects ef1)).
  { apply OutsOk_fills. intros x I. apply K0. right. apply F1. exact I. }
  destruct r1 as [o1|e1]; [|intro H; inversion H; subst; split; [exact K1|exact O1]].
  match goal with |- context [match ?X with Ok g0 => _ | Err e0 => _ end] => destruct X as [g|e2] end;
    [|intro H; inversion H; subst; split; [exact K1|exact O1]].
  set (fw := merge_weights (map (fun a => (a, 0%Q)) (full_assets (map fst (held_of b1)) (universe_assets (c_univ cfg) t)))
                           (alpha_eval cfg g t)).
  assert (ROW : RowOk cfg s t fw).
  { split; [|split].
    - intros a I. apply (proj1 (single_signal_allocation cfg g t s (map fst (held_of b1)) a ALPHA)). exact I.
    - intros a N I. apply (proj2 (single_signal_allocation cfg g t s (map fst (held_of b1)) a ALPHA)); assumption.
    - intros a I. destruct (in_dec string_dec a (universe_assets (c_univ cfg) t)) as [M|N].
      + exists t. split; [lia|exact M].
      + destruct (proj2 (single_signal_allocation cfg g t s (map fst (held_of b1)) a ALPHA) N I) as [H _].
        apply K1. left. apply held_in_pos. exact H. }
  assert (EQ : forall b2, OutsOk cfg s t (match k with MarketClose => if burn_ok cfg t then [OEquity (equity_of b2)] else [] | _ => [] end)).
  { intro b2. apply OutsOk_equity. intros o I. destruct k; try contradiction.
    destruct (burn_ok cfg t); [destruct I as [I|[]]; eauto|contradiction]. }
  destruct (burn_ok cfg t && existsb (Z.eqb t) sched).
  - destruct (sizer_of cfg b1 snap fw) as [target|es] eqn:SZ.
    + destruct (submit_each snap b1 t (rebalance_orders target (held_of b1))) as [[b2 ef2] e2] eqn:SE.
      destruct (submit_each_known cfg snap t _ _ _ _ _ SE K1) as [K2 F2].
      { intros x I. apply orders_keys in I. apply (sizer_keys _ _ _ _ _ _ SZ) in I. apply ROW. exact I. }
      assert (O2 : OutsOk cfg s t (OAlloc fw :: fills_of_effects ef2)) by (apply OutsOk_alloc; [exact ROW|apply OutsOk_fills; exact F2]).
      destruct e2 as [e2|]; intro H; inversion H; subst; cbn [ss_broker]; (split; [exact K2|]).
      * apply OutsOk_app; assumption.
      * exact (OutsOk_app _ _ _ _ _ O1 (OutsOk_app cfg s t (OAlloc fw :: fills_of_effects ef2) _ O2 (EQ b2))).
    + intro H; inversion H; subst. cbn [ss_broker]. split; [exact K1|].
      apply OutsOk_app; [exact O1|]. apply OutsOk_alloc; [exact ROW|apply OutsOk_nil].
  - intro H; inversion H; subst. cbn [ss_broker]. split; [exact K1|].
    exact (OutsOk_app _ _ _ _ _ O1 (EQ b1)).
Qed.

(** the whole run *)
Lemma run_from_known cfg s sched market :
  c_alpha cfg = ASingle s ->
  forall evs st t0,
  StronglySorted ev_lt evs -> Forall (fun ev => t0 <= fst ev) evs -> Known cfg t0 (ss_broker st) ->
  forall t o, In (t, o) (run_from cfg sched market st evs) ->
  match o with OFill tx => seen cfg t (t_asset tx) | OAlloc fw => RowOk cfg s t fw | _ => True end.
Proof.
  intro ALPHA. induction evs as [|[u k] r IH]; intros st t0 S F K t o I; cbn [run_from] in I; [contradiction|].
  inversion S as [|? ? S' F']; subst. inversion F as [|? ? L FR]; subst. cbn [fst] in L.
  destruct (event_step cfg sched st u k (market u)) as [[st' outs] e] eqn:ES.
  destruct (event_step_known cfg s sched st t0 u k (market u) st' outs e ALPHA K L ES) as [K' [OF OA]].
  assert (HERE : In (t, o) (map (fun o => (u, o)) outs) ->
                 match o with OFill tx => seen cfg t (t_asset tx) | OAlloc fw => RowOk cfg s t fw | _ => True end).
  { intro J. apply in_map_iff in J. destruct J as (o' & E & J). inversion E; subst.
    destruct o; auto. }
  destruct e as [e|]; apply in_app_iff in I; destruct I as [I|I].
  - exact (HERE I).
  - destruct I as [I|[]]. inversion I; subst. exact Logic.I.
  - exact (HERE I).
  - apply (IH st' u S'); [|exact K'|exact I].
    rewrite Forall_forall in *. intros ev J. specialize (F' ev J). unfold ev_lt in F'. cbn [fst] in F'. lia.
Qed.

Lemma init_untouched cfg st evs sched :
  session_init cfg = Ok (st, evs, sched) ->
  pos_assets (b_accts (ss_broker st)) = [] /\ q_assets (b_accts (ss_broker st)) = [] /\
  Forall (fun ev => day (c_start cfg) * 86400 <= fst ev) evs.
Proof.
  intro SI. destruct (init_good cfg st evs sched [] SI) as [(pf & q & A & _ & W1 & W2) EV].
  rewrite A. unfold pos_assets, q_assets. cbn [flat_map snd a_pf a_q]. rewrite !app_nil_r.
  split; [|split].
  - destruct (map fst (pf_pos pf)) as [|x l] eqn:E; [reflexivity|]. exfalso. apply (W1 x). left; reflexivity.
  - destruct q as [|o l]; [reflexivity|]. exfalso. apply (W2 o). left; reflexivity.
  - subst evs. apply Forall_forall. intros ev I. apply in_flat_map in I. destruct I as (d & ID & I).
    apply in_bdays in ID. destruct ID as ((L1 & _) & _).
    pose proof (day_events_bounds false false d (fst ev) (in_map fst _ _ I)) as B. lia.
Qed.

(** * Whole sessions, from construction *)
Theorem session_touches_only_admitted_assets cfg s market tr :
  c_alpha cfg = ASingle s -> run cfg market = Ok tr ->
  forall t o, In (t, o) tr ->
  match o with OFill tx => seen cfg t (t_asset tx) | OAlloc fw => RowOk cfg s t fw | _ => True end.
Proof.
  intros ALPHA R. unfold run in R. destruct (session_init cfg) as [[[st evs] sched]|e] eqn:SI; [|discriminate].
  inversion R; subst. destruct (init_untouched _ _ _ _ SI) as (P & Qq & F).
  apply (run_from_known cfg s sched market ALPHA evs st _ (session_events_sorted _ _ _ _ SI) F).
  intros x [I|I]; [rewrite P in I|rewrite Qq in I]; destruct I.
Qed.

Lemma seen_dynamic cfg es t x :
  c_univ cfg = DynamicU es -> (seen cfg t x <-> exists e, In (x, Some e) es /\ e <= t).
Proof.
  intro U. unfold seen. rewrite U. split.
  - intros (t0 & L & I). apply dynamic_membership in I. destruct I as (e & I & Le). exists e. split; [exact I|lia].
  - intros (e & I & Le). exists t. split; [lia|]. apply dynamic_membership. eauto.
Qed.

(** no order is filled - hence no position exists - in an asset before its entry time *)
Theorem dynamic_no_fill_before_entry cfg s es market tr :
  c_alpha cfg = ASingle s -> c_univ cfg = DynamicU es -> run cfg market = Ok tr ->
  forall t tx, In (t, OFill tx) tr -> exists e, In (t_asset tx, Some e) es /\ e <= t.
Proof.
  intros ALPHA U R t tx I. apply (seen_dynamic cfg es t _ U).
  exact (session_touches_only_admitted_assets cfg s market tr ALPHA R t (OFill tx) I).
Qed.

(** the allocation row recorded at t lists exactly the assets whose entry time is <= t, each with
    the signal weight *)
Theorem dynamic_rows_are_the_members cfg s es market tr :
  c_alpha cfg = ASingle s -> c_univ cfg = DynamicU es -> run cfg market = Ok tr ->
  forall t fw, In (t, OAlloc fw) tr ->
  forall a, (In a (map fst fw) <-> exists e, In (a, Some e) es /\ e <= t) /\
            (In a (map fst fw) -> w_find a fw = Some s).
Proof.
  intros ALPHA U R t fw I a.
  destruct (session_touches_only_admitted_assets cfg s market tr ALPHA R t (OAlloc fw) I) as (M & _ & SN).
  assert (MEM : (exists e, In (a, Some e) es /\ e <= t) -> In a (universe_assets (c_univ cfg) t))
    by (intro X; rewrite U; apply dynamic_membership; exact X).
  split; [split|].
  - intro K. apply (seen_dynamic cfg es t a U). apply SN. exact K.
  - intro X. apply w_find_in_keys. exists s. apply M. apply MEM. exact X.
  - intro K. apply M. apply MEM. apply (seen_dynamic cfg es t a U). apply SN. exact K.
Qed.

(** ... and it is included from the first rebalance at or after its entry onward: in a run that does
    not raise, EVERY scheduled instant past the burn-in has a row, and that row gives the signal
    weight to every asset that is a member at that instant *)
Theorem members_weighted_at_every_rebalance cfg s market st evs sched :
  c_alpha cfg = ASingle s -> session_init cfg = Ok (st, evs, sched) ->
  tr_noerr (run_from cfg sched market st evs) ->
  forall t, In t (map fst evs) -> reb_at cfg sched t = true ->
  exists fw, In (t, OAlloc fw) (run_from cfg sched market st evs) /\
             forall a, In a (universe_assets (c_univ cfg) t) -> w_find a fw = Some s.
Proof.
  intros ALPHA SI NE t IT RB.
  destruct (run_alloc_and_equity_times cfg sched market evs st NE) as [A _].
  assert (J : In t (map fst (filter (fun o => o_alloc (snd o)) (run_from cfg sched market st evs)))).
  { rewrite A. apply filter_In. split; assumption. }
  apply in_map_iff in J. destruct J as ([t' o] & E & J). cbn [fst] in E. subst t'.
  apply filter_In in J. destruct J as [J OA]. cbn [snd] in OA. destruct o as [| fw | |]; try discriminate.
  exists fw. split; [exact J|].
  assert (R : run cfg market = Ok (run_from cfg sched market st evs)) by (unfold run; rewrite SI; reflexivity).
  destruct (session_touches_only_admitted_assets cfg s market _ ALPHA R t (OAlloc fw) J) as (M & _ & _). exact M.
Qed.
