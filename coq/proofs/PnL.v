(** C03: position P&L reconciles to the cash flows of its fills. *)
From Coq Require Import ZArith QArith Qround Qabs Qfield String Bool List Lia Lqa.
From QS Require Import theories.Num theories.Position theories.Portfolio proofs.QLemmas.
Import ListNotations.
Open Scope Q_scope.

(** a fill the position does not ignore: any negative quantity, or at least one unit *)
Definition effective (tx : txn) : Prop := t_qty tx < 0 \/ 1 <= t_qty tx.

(** sums over the fills since the position was opened (latest first) *)
Fixpoint bq_of (fs : list txn) : Q :=
  match fs with [] => 0 | tx :: r => (if qltb 0 (t_qty tx) then t_qty tx else 0) + bq_of r end.
Fixpoint bpq_of (fs : list txn) : Q :=
  match fs with [] => 0 | tx :: r => (if qltb 0 (t_qty tx) then t_qty tx * t_price tx else 0) + bpq_of r end.
Fixpoint bc_of (fs : list txn) : Q :=
  match fs with [] => 0 | tx :: r => (if qltb 0 (t_qty tx) then t_comm tx else 0) + bc_of r end.
Fixpoint sq_of (fs : list txn) : Q :=
  match fs with [] => 0 | tx :: r => (if qltb 0 (t_qty tx) then 0 else - t_qty tx) + sq_of r end.
Fixpoint spq_of (fs : list txn) : Q :=
  match fs with [] => 0 | tx :: r => (if qltb 0 (t_qty tx) then 0 else - t_qty tx * t_price tx) + spq_of r end.
Fixpoint sc_of (fs : list txn) : Q :=
  match fs with [] => 0 | tx :: r => (if qltb 0 (t_qty tx) then 0 else t_comm tx) + sc_of r end.
(** the raw cash flows *)
Fixpoint flows (fs : list txn) : Q :=
  match fs with [] => 0 | tx :: r => t_price tx * t_qty tx + flows r end.
Fixpoint comms (fs : list txn) : Q :=
  match fs with [] => 0 | tx :: r => t_comm tx + comms r end.
Fixpoint netq (fs : list txn) : Q :=
  match fs with [] => 0 | tx :: r => t_qty tx + netq r end.

Lemma flows_split fs : flows fs == bpq_of fs - spq_of fs.
Proof. induction fs as [|tx r IH]; simpl; [ring|]. rewrite IH. destruct (qltb 0 (t_qty tx)); ring. Qed.
Lemma comms_split fs : comms fs == bc_of fs + sc_of fs.
Proof. induction fs as [|tx r IH]; simpl; [ring|]. rewrite IH. destruct (qltb 0 (t_qty tx)); ring. Qed.
Lemma netq_split fs : netq fs == bq_of fs - sq_of fs.
Proof. induction fs as [|tx r IH]; simpl; [ring|]. rewrite IH. destruct (qltb 0 (t_qty tx)); ring. Qed.

Lemma bq_nonneg fs : 0 <= bq_of fs.
Proof.
  induction fs as [|tx r IH]; simpl; [lra|]. destruct (qltb 0 (t_qty tx)) eqn:E; [|lra].
  apply qltb_lt in E. lra.
Qed.
Lemma sq_nonneg fs : Forall effective fs -> 0 <= sq_of fs.
Proof.
  induction fs as [|tx r IH]; simpl; intro F; [lra|]. inversion F as [|? ? E F']; subst. specialize (IH F').
  destruct (qltb 0 (t_qty tx)) eqn:C; [lra|]. apply qltb_ge in C. lra.
Qed.
Lemma sq_zero_sc_zero fs : Forall effective fs -> sq_of fs == 0 -> sc_of fs == 0 /\ spq_of fs == 0.
Proof.
  induction fs as [|tx r IH]; simpl; intros F; [intros _; split; reflexivity|].
  inversion F as [|? ? E F']; subst. pose proof (sq_nonneg _ F') as N.
  destruct (qltb 0 (t_qty tx)) eqn:C; intro Z.
  - destruct IH as [A B]; [assumption|lra|]. rewrite A, B. split; ring.
  - apply qltb_ge in C. destruct E as [E|E]; [|lra]. exfalso. lra.
Qed.
Lemma bq_zero_bc_zero fs : bq_of fs == 0 -> bc_of fs == 0 /\ bpq_of fs == 0.
Proof.
  induction fs as [|tx r IH]; simpl; [intros _; split; reflexivity|].
  pose proof (bq_nonneg r) as N.
  destruct (qltb 0 (t_qty tx)) eqn:C; intro Z.
  - apply qltb_lt in C. exfalso. lra.
  - destruct IH as [A B]; [lra|]. rewrite A, B. split; ring.
Qed.

(** the accounting invariant of a position relative to the fills since it was opened *)
Definition pinv (p : position) (fs : list txn) : Prop :=
  Forall effective fs /\
  p_avgb p * p_bq p == bpq_of fs /\ p_bq p == bq_of fs /\ p_bc p == bc_of fs /\
  p_avgs p * p_sq p == spq_of fs /\ p_sq p == sq_of fs /\ p_sc p == sc_of fs.

Lemma pos_open_inv tx : effective tx -> pinv (pos_open tx) [tx].
Proof.
  intro E. unfold pinv, pos_open. split; [constructor; [exact E|constructor]|].
  destruct (qltb 0 (t_qty tx)) eqn:C; simpl; rewrite C; qn; repeat split; ring.
Qed.

Lemma effective_not_ignored tx : effective tx -> qty_ignored (t_qty tx) = false.
Proof.
  intros [N|P]; unfold qty_ignored; apply Z.eqb_neq; intro Z.
  - pose proof (Qfloor_le (t_qty tx)) as L. rewrite Z in L. change (inject_Z 0) with 0 in L. lra.
  - pose proof (Qlt_floor (t_qty tx)) as U. rewrite Z in U.
    change (inject_Z (0 + 1)) with 1 in U. lra.
Qed.

Lemma pos_transact_inv p fs tx p' :
  pinv p fs -> effective tx -> pos_transact p tx = (p', Ok tt) -> pinv p' (tx :: fs).
Proof.
  intros (F & A1 & A2 & A3 & A4 & A5 & A6) E. unfold pos_transact.
  rewrite (effective_not_ignored _ E).
  pose proof (bq_nonneg fs) as NB. pose proof (sq_nonneg _ F) as NS.
  destruct (qltb 0 (t_qty tx)) eqn:C.
  - apply qltb_lt in C.
    destruct (pos_update_price (pos_buy p (t_qty tx) (t_price tx) (t_comm tx)) (t_price tx) (t_dt tx)) as [p2 [u|e]] eqn:U;
      [|intro H; inversion H].
    intro H; inversion H; subst; clear H.
    unfold pos_update_price in U. simpl in U.
    destruct (t_dt tx <? p_dt p)%Z; [inversion U|]. destruct (qleb (t_price tx) 0); inversion U; subst; clear U.
    unfold pinv. simpl. assert (C' : qltb 0 (t_qty tx) = true) by (apply qltb_lt; exact C). rewrite C'.
    split; [constructor; assumption|].
    qn. split; [|split; [|split; [|split; [|split]]]];
      [|rewrite A2; ring|rewrite A3; ring|rewrite A4; ring|rewrite A5; ring|rewrite A6; ring].
    rewrite <- A1. field. rewrite A2. lra.
  - apply qltb_ge in C. destruct E as [E|E]; [|lra].
    destruct (pos_update_price (pos_sell p (qneg (t_qty tx)) (t_price tx) (t_comm tx)) (t_price tx) (t_dt tx)) as [p2 [u|e]] eqn:U;
      [|intro H; inversion H].
    intro H; inversion H; subst; clear H.
    unfold pos_update_price in U. simpl in U.
    destruct (t_dt tx <? p_dt p)%Z; [inversion U|]. destruct (qleb (t_price tx) 0); inversion U; subst; clear U.
    unfold pinv. simpl.
    assert (C' : qltb 0 (t_qty tx) = false) by (apply qltb_ge; lra). rewrite C'.
    split; [constructor; [left; assumption|assumption]|].
    qn. split; [|split; [|split; [|split; [|split]]]];
      [rewrite A1; ring|rewrite A2; ring|rewrite A3; ring| |rewrite A5; ring|rewrite A6; ring].
    rewrite <- A4. field. rewrite A5. lra.
Qed.

(** * Reconciliation *)
Theorem pnl_reconciles p fs :
  pinv p fs ->
  pos_total_pnl p == pos_market_value p - flows fs - comms fs.
Proof.
  intros (F & A1 & A2 & A3 & A4 & A5 & A6).
  rewrite flows_split, comms_split, <- A1, <- A3, <- A4, <- A6.
  pose proof (bq_nonneg fs) as NB. pose proof (sq_nonneg _ F) as NS. rewrite <- A2 in NB. rewrite <- A5 in NS.
  unfold pos_total_pnl, pos_unrealised, pos_realised, pos_avg_price, pos_direction, pos_market_value,
    pos_net_incl_commission, pos_net_total, pos_total_sold, pos_total_bought, pos_commission, pos_net.
  destruct (qeqb (p_bq p - p_sq p) 0) eqn:Z.
  - apply qeqb_eq in Z. ring_simplify. ring.
  - apply qeqb_neq in Z. unfold sign1.
    destruct (Qle_bool 0 (p_bq p - p_sq p)) eqn:S.
    + apply Qle_bool_iff in S. assert (P : 0 < p_bq p - p_sq p) by (apply Qle_lteq in S; destruct S as [S|S]; [exact S|exfalso; apply Z; symmetry; exact S]).
      assert (Q1 : qltb 0 (p_bq p - p_sq p) = true) by (apply qltb_lt; exact P). rewrite Q1.
      assert (NZ : ~ p_bq p == 0) by lra.
      destruct (qeqb (p_sq p) 0) eqn:SZ.
      * apply qeqb_eq in SZ. rewrite SZ in A5.
        destruct (sq_zero_sc_zero _ F) as [X1 X2]; [symmetry; exact A5|].
        rewrite <- A6 in X1. rewrite SZ. rewrite X1. field. exact NZ.
      * field. exact NZ.
    + assert (NG : p_bq p - p_sq p < 0).
      { apply Qnot_le_lt. intro L. apply Qle_bool_iff in L. congruence. }
      assert (Q1 : qltb 0 (p_bq p - p_sq p) = false) by (apply qltb_ge; lra). rewrite Q1.
      assert (NZ : ~ p_sq p == 0) by lra.
      destruct (qeqb (p_bq p) 0) eqn:BZ.
      * apply qeqb_eq in BZ. rewrite BZ in A2.
        destruct (bq_zero_bc_zero fs) as [X1 X2]; [symmetry; exact A2|].
        rewrite <- A3 in X1. rewrite BZ. rewrite X1. field. exact NZ.
      * field. exact NZ.
Qed.

Lemma total_is_realised_plus_unrealised p : pos_total_pnl p == pos_realised p + pos_unrealised p.
Proof. reflexivity. Qed.

Lemma unrealised_def p : pos_unrealised p == (p_price p - pos_avg_price p) * pos_net p.
Proof. reflexivity. Qed.

(** average cost carries the open side's commission *)
Lemma avg_price_long p fs : pinv p fs -> 0 < pos_net p ->
  pos_avg_price p == (bpq_of fs + bc_of fs) / bq_of fs.
Proof.
  intros (F & A1 & A2 & A3 & _) P. unfold pos_avg_price.
  assert (Z : qeqb (pos_net p) 0 = false) by (apply qeqb_neq; lra). rewrite Z.
  assert (Q1 : qltb 0 (pos_net p) = true) by (apply qltb_lt; exact P). rewrite Q1.
  rewrite A1, A2, A3. reflexivity.
Qed.
Lemma avg_price_short p fs : pinv p fs -> pos_net p < 0 ->
  pos_avg_price p == (spq_of fs - sc_of fs) / sq_of fs.
Proof.
  intros (F & _ & _ & _ & A4 & A5 & A6) P. unfold pos_avg_price.
  assert (Z : qeqb (pos_net p) 0 = false) by (apply qeqb_neq; lra). rewrite Z.
  assert (Q1 : qltb 0 (pos_net p) = false) by (apply qltb_ge; lra). rewrite Q1.
  rewrite A4, A5, A6. reflexivity.
Qed.
Lemma net_is_sum p fs : pinv p fs -> pos_net p == netq fs.
Proof. intros (F & _ & A2 & _ & _ & A5 & _). unfold pos_net. rewrite netq_split, A2, A5. reflexivity. Qed.

(** * Re-marking changes the mark only *)
Lemma remark_frame p price dt p' u :
  pos_update_price p price dt = (p', Ok u) ->
  p_price p' = price /\ pos_realised p' = pos_realised p /\ pos_net p' = pos_net p /\
  (p_bq p', p_sq p', p_avgb p', p_avgs p', p_bc p', p_sc p') = (p_bq p, p_sq p, p_avgb p, p_avgs p, p_bc p, p_sc p).
Proof.
  unfold pos_update_price. destruct (dt <? p_dt p)%Z; [intro H; inversion H|].
  destruct (qleb price 0); intro H; inversion H; subst. destruct p; simpl. repeat split; reflexivity.
Qed.

(** * A position built by any sequence of effective fills satisfies the invariant *)
Fixpoint build (p : position) (fs : list txn) : option position :=
  match fs with
  | [] => Some p
  | tx :: r =>
      match pos_transact p tx with
      | (p', Ok _) => build p' r
      | (_, Err _) => None
      end
  end.

Lemma build_inv fs : forall p done p',
  pinv p done -> Forall effective fs -> build p fs = Some p' -> pinv p' (rev fs ++ done).
Proof.
  induction fs as [|tx r IH]; intros p done p' I F; simpl.
  - intro H; inversion H; subst. exact I.
  - inversion F as [|? ? E F']; subst.
    destruct (pos_transact p tx) as [p1 [[]|e]] eqn:T; [|discriminate].
    intro B. rewrite <- app_assoc. simpl. apply (IH p1 (tx :: done) p'); auto.
    eapply pos_transact_inv; eauto.
Qed.

Theorem position_pnl_reconciles tx fs p c dt p' u :
  effective tx -> Forall effective fs ->
  build (pos_open tx) fs = Some p ->
  pos_update_price p c dt = (p', Ok u) ->
  pos_total_pnl p' == c * netq (rev fs ++ [tx]) - flows (rev fs ++ [tx]) - comms (rev fs ++ [tx]) /\
  pos_total_pnl p' == pos_realised p' + pos_unrealised p' /\
  pos_unrealised p' == (c - pos_avg_price p') * pos_net p' /\
  pos_net p' == netq (rev fs ++ [tx]).
Proof.
  intros E F B U.
  pose proof (build_inv fs _ [tx] p (pos_open_inv tx E) F B) as I.
  destruct (remark_frame _ _ _ _ _ U) as (P & R & N & Q).
  assert (I' : pinv p' (rev fs ++ [tx])).
  { destruct I as (F0 & A1 & A2 & A3 & A4 & A5 & A6). inversion Q as [[Q1 Q2 Q3 Q4 Q5 Q6]].
    unfold pinv. rewrite Q1, Q2, Q3, Q4, Q5, Q6. repeat split; assumption. }
  split; [|split; [reflexivity|split]].
  - rewrite (pnl_reconciles _ _ I'). unfold pos_market_value. rewrite P, (net_is_sum _ _ I'). reflexivity.
  - unfold pos_unrealised. rewrite P. reflexivity.
  - apply net_is_sum. exact I'.
Qed.
