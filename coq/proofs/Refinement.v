(** C08: the session model against the documented-rules simulator [Spec].
    First commutation lemmas (order execution, the sells-first discipline, equity, the sizing
    rules).  The whole-run refinement theorem is built on them in SpecLists / SpecSizing /
    SpecBroker / SpecRun ([SpecRun.backtest_refines_spec]). *)
From Coq Require Import ZArith QArith Qround Qabs String Bool List Lia Lqa Permutation.
From QS Require Import theories.Num theories.Position theories.Portfolio theories.Fees theories.Exchange
  theories.Broker theories.Sizer theories.PCM theories.Backtest theories.Spec
  proofs.QLemmas proofs.Ledger proofs.Fills proofs.Orders proofs.SizerProofs proofs.PcmProofs.
Import ListNotations.
Open Scope Z_scope.

(** * Executing one order = the spec's [fill_one] on cash, and the same fill record *)
Theorem execute_refines_fill_one snap b a q id b1 ef st p :
  snap_find a snap = Some p ->
  (st_cash st == cash_of pid b)%Q ->
  execute (snap_bidask snap) b pid (mkOrd id a q) = (b1, Ok tt, ef) ->
  exists st' comm,
    fill_one (b_fee b) (b_dt b) snap st (a, q) = Some (st', SFill (b_dt b) a q p comm) /\
    ef = [Fill pid (mkTxn a (inject_Z q) (b_dt b) p comm id)] /\
    (st_cash st' == cash_of pid b1)%Q.
Proof.
  intros P C X.
  destruct (execute_ok_fill _ _ _ _ _ _ _ X) as (tx & OT & E).
  unfold order_txn, snap_bidask in OT. simpl in OT. rewrite P in OT.
  assert (PR : (if (0 <=? q) then p else p) = p) by (destruct (0 <=? q); reflexivity). rewrite PR in OT.
  inversion OT; subst tx; clear OT.
  destruct (execute_ledger _ _ _ _ _ _ _ pid X) as (_ & L & _).
  unfold fill_one. cbn [fst snd].
  assert (PO : price_of a snap = Some p).
  { clear - P. induction snap as [|[b0 x] r IH]; simpl in *; [discriminate|]. destruct (String.eqb a b0); auto. }
  rewrite PO. eexists. eexists. split; [reflexivity|]. split; [exact E|].
  cbn [st_cash]. rewrite Qred_correct, C, L, E. cbn [fill_sum]. rewrite String.eqb_refl.
  unfold fill_cost. cbn [t_price t_qty t_comm]. ring.
Qed.

(** * The spec's open fills pending orders "sells first, each side in order" exactly like the broker *)
Lemma sells_first_single_portfolio (orders : list order) :
  map (fun po => (o_asset (snd po), o_qty (snd po))) (sells_first (map (fun o => (pid, o)) orders)) =
  filter (fun o => snd o <? 0) (map (fun o => (o_asset o, o_qty o)) orders) ++
  filter (fun o => negb (snd o <? 0)) (map (fun o => (o_asset o, o_qty o)) orders).
Proof.
  unfold sells_first. rewrite map_app. f_equal.
  - induction orders as [|o r IH]; simpl; [reflexivity|]. unfold is_sell at 1. simpl.
    destruct (o_qty o <? 0); simpl; rewrite IH; reflexivity.
  - induction orders as [|o r IH]; simpl; [reflexivity|]. unfold is_sell at 1. simpl.
    destruct (o_qty o <? 0); simpl; rewrite IH; reflexivity.
Qed.

(** * The spec's equity is the broker's: cash + sum of net quantity x current price *)
Lemma qsum_mv_cons a p ps :
  (ph_total_mv ((a, p) :: ps) == pos_market_value p + ph_total_mv ps)%Q.
Proof. unfold ph_total_mv. simpl. apply qsum_cons. Qed.

Theorem equity_is_cash_plus_marked_holdings pf snap :
  (forall a p, In (a, p) (pf_pos pf) -> snap_find a snap = Some (p_price p) /\ (pos_net p == inject_Z (Qfloor (pos_net p)))%Q) ->
  exists v, value_of (map (fun ap => (fst ap, Qfloor (pos_net (snd ap)))) (pf_pos pf)) snap = Some v /\
            (pf_total_equity pf == pf_cash pf + v)%Q.
Proof.
  intro H. unfold pf_total_equity, pf_total_mv.
  assert (G : exists v, value_of (map (fun ap => (fst ap, Qfloor (pos_net (snd ap)))) (pf_pos pf)) snap = Some v /\
                        (ph_total_mv (pf_pos pf) == v)%Q).
  { induction (pf_pos pf) as [|[a p] r IH].
    - exists 0%Q. split; reflexivity.
    - destruct IH as (v & V & E); [intros a' p' I; apply H; right; exact I|].
      destruct (H a p (or_introl eq_refl)) as [PR INT].
      assert (PO : price_of a snap = Some (p_price p)).
      { clear - PR. induction snap as [|[b0 x] s IHs]; simpl in *; [discriminate|]. destruct (String.eqb a b0); auto. }
      cbn [map value_of fst snd]. rewrite PO, V. eexists. split; [reflexivity|].
      rewrite qsum_mv_cons, E. unfold pos_market_value. rewrite INT at 1. ring. }
  destruct G as (v & V & E). exists v. split; [exact V|]. rewrite E. ring.
Qed.

(** * The spec's sizing rule is the sizer's per-asset rule *)
Theorem spec_long_only_quantity budget fee w p :
  Qfloor ((budget * w - fee_total fee (budget * w)) / p) = lo_qty budget fee w p.
Proof. reflexivity. Qed.
Theorem spec_long_short_quantity equity fee w p :
  qtrunc (inject_Z (trunc_q (equity * w - fee_total fee (equity * w))) / p) = ls_qty equity fee w p.
Proof. reflexivity. Qed.

(** the spec's orders are target minus holdings, non-zero, for every sized asset *)
Lemma hold_of_is_z_find a h : hold_of a h = z_find a h.
Proof. induction h as [|[b q] r IH]; simpl; [reflexivity|]. destruct (String.eqb a b); auto. Qed.
