(** C16: signal buffers and signal definitions. *)
From Coq Require Import ZArith QArith Qfield String Bool List Lia Lqa.
From QS Require Import theories.Num theories.Portfolio theories.Signals proofs.QLemmas.
Import ListNotations.
Open Scope Q_scope.

(** * Bounded windows *)
Lemma lastn_all {A} n (l : list A) : (length l <= n)%nat -> lastn n l = l.
Proof. intro H. unfold lastn. replace (length l - n)%nat with 0%nat by lia. reflexivity. Qed.

Lemma skipn_skipn' {A} a : forall b (l : list A), skipn a (skipn b l) = skipn (b + a) l.
Proof.
  intros b. induction b as [|b IH]; intro l; simpl; [reflexivity|].
  destruct l as [|y r]; [destruct a; reflexivity|]. apply IH.
Qed.
Lemma lastn_app_tail {A} n (l : list A) x :
  lastn n (lastn n l ++ [x]) = lastn n (l ++ [x]).
Proof.
  unfold lastn. rewrite !app_length, skipn_length. simpl length.
  destruct (Nat.le_gt_cases (length l) n) as [L|G].
  - replace (length l - n)%nat with 0%nat by lia. simpl skipn.
    replace (length l - 0 + 1 - n)%nat with (length l + 1 - n)%nat by lia. reflexivity.
  - replace (length l - (length l - n) + 1 - n)%nat with 1%nat by lia.
    replace (length l + 1 - n)%nat with ((length l - n) + 1)%nat by lia.
    rewrite <- (skipn_skipn' 1 (length l - n) (l ++ [x])).
    f_equal. rewrite skipn_app. replace (length l - n - length l)%nat with 0%nat by lia. reflexivity.
Qed.

Theorem buffer_is_suffix n (xs : list Q) : fold_left (push n) xs [] = lastn n xs.
Proof.
  assert (G : forall xs pre, fold_left (push n) xs (lastn n pre) = lastn n (pre ++ xs)).
  { clear. induction xs as [|x r IH]; intro pre; simpl.
    - rewrite app_nil_r. reflexivity.
    - unfold push at 2. rewrite lastn_app_tail. rewrite IH. rewrite <- app_assoc. reflexivity. }
  specialize (G xs []). simpl in G. unfold lastn in G at 1. simpl in G. exact G.
Qed.

Lemma lastn_length {A} n (l : list A) : (length (lastn n l) <= n)%nat.
Proof. unfold lastn. rewrite skipn_length. lia. Qed.

(** * Reduced sums and products equal the plain ones *)
Lemma qsumr_acc l : forall a, fold_left qadd l a == a + qsum l.
Proof.
  induction l as [|x r IH]; intro a; simpl.
  - rewrite qsum_nil. ring.
  - rewrite IH, qadd_ok, qsum_cons. ring.
Qed.
Lemma qsumr_ok l : qsumr l == qsum l.
Proof. unfold qsumr. rewrite qsumr_acc. ring. Qed.

Fixpoint prod_plain (l : list Q) : Q := match l with [] => 1 | x :: r => x * prod_plain r end.
Lemma qprodr_acc l : forall a, fold_left qmul l a == a * prod_plain l.
Proof.
  induction l as [|x r IH]; intro a; simpl; [ring|]. rewrite IH, qmul_ok. ring.
Qed.
Lemma qprodr_ok l : qprodr l == prod_plain l.
Proof. unfold qprodr. rewrite qprodr_acc. ring. Qed.

Lemma mean_ok l : mean l == qsum l / inject_Z (Z.of_nat (length l)).
Proof. unfold mean. rewrite qdiv_ok, qsumr_ok. reflexivity. Qed.

(** * Momentum telescopes to last / first - 1 *)
Fixpoint all_pos (w : list Q) : Prop := match w with [] => True | x :: r => 0 < x /\ all_pos r end.

Lemma last_default_irrel (l : list Q) : forall d d', l <> [] -> last l d = last l d'.
Proof.
  induction l as [|a r IH]; intros d d' NE; [congruence|]. destruct r as [|b r']; [reflexivity|].
  change (last (a :: b :: r') d) with (last (b :: r') d). change (last (a :: b :: r') d') with (last (b :: r') d').
  apply IH. discriminate.
Qed.
Lemma last_cons_shift (r : list Q) x y : last (y :: r) x = last r y.
Proof.
  destruct r as [|q r']; [reflexivity|]. change (last (y :: q :: r') x) with (last (q :: r') x).
  apply last_default_irrel. discriminate.
Qed.
Lemma telescoping x w :
  0 < x -> all_pos w ->
  prod_plain (map (fun r => qadd 1 r) (returns (x :: w))) == last w x / x.
Proof.
  revert x. induction w as [|y r IH]; intros x Hx Hw.
  - simpl. field. lra.
  - destruct Hw as [Hy Hr]. change (returns (x :: y :: r)) with (qsub (qdiv y x) 1 :: returns (y :: r)).
    simpl map. simpl prod_plain. rewrite (IH y Hy Hr).
    rewrite (last_cons_shift r x y). qn. field. split; lra.
Qed.

Theorem momentum_def x y w :
  0 < x -> all_pos (y :: w) -> momentum (x :: y :: w) == last (y :: w) x / x - 1.
Proof.
  intros Hx Hw. unfold momentum.
  change (returns (x :: y :: w)) with (qsub (qdiv y x) 1 :: returns (y :: w)).
  cbv iota beta. rewrite qsub_ok, qprodr_ok.
  change (qsub (qdiv y x) 1 :: returns (y :: w)) with (returns (x :: y :: w)).
  rewrite (telescoping x (y :: w) Hx Hw). reflexivity.
Qed.
Lemma momentum_warmup x : momentum [] = 0 /\ momentum [x] = 0.
Proof. split; reflexivity. Qed.

Theorem sma_def x w : sma (x :: w) = Some (mean (x :: w)) /\ mean (x :: w) == qsum (x :: w) / inject_Z (Z.of_nat (length (x :: w))).
Proof. split; [reflexivity|apply mean_ok]. Qed.
Lemma sma_empty : sma [] = None.
Proof. reflexivity. Qed.

(** annualised variance: 252 x population variance of the simple returns (0 when there is none) *)
Definition popvar_plain (l : list Q) : Q :=
  let n := inject_Z (Z.of_nat (length l)) in
  let m := qsum l / n in
  qsum (map (fun r => (r - m) * (r - m)) l) / n.

Lemma qsum_map_ext (f g : Q -> Q) l : (forall x, f x == g x) -> qsum (map f l) == qsum (map g l).
Proof.
  intro H. induction l as [|x r IH]; simpl; [reflexivity|]. rewrite !qsum_cons, IH, H. reflexivity.
Qed.
Lemma popvar_ok l : popvar l == popvar_plain l.
Proof.
  unfold popvar, popvar_plain. rewrite mean_ok, map_length.
  assert (E : qsum (map (fun r => qmul (qsub r (mean l)) (qsub r (mean l))) l) ==
              qsum (map (fun r => (r - qsum l / inject_Z (Z.of_nat (length l))) * (r - qsum l / inject_Z (Z.of_nat (length l)))) l)).
  { apply qsum_map_ext. intro x. qn. rewrite mean_ok. reflexivity. }
  rewrite E. reflexivity.
Qed.
Theorem vol_def w :
  vol_sq w == match returns w with [] => 0 | rs => 252 * popvar_plain rs end.
Proof.
  unfold vol_sq. destruct (returns w) as [|r rs]; [reflexivity|]. rewrite qmul_ok, popvar_ok. reflexivity.
Qed.
Lemma returns_length w : length (returns w) = (length w - 1)%nat.
Proof.
  induction w as [|x r IH]; [reflexivity|]. destruct r as [|y r']; [reflexivity|].
  change (returns (x :: y :: r')) with (qsub (qdiv y x) 1 :: returns (y :: r')). simpl length in *. rewrite IH. lia.
Qed.

(** * Every window is a function of its own asset's stream and its own lookback only *)
Definition stream_of (a : string) (hist : list (string * Q)) : list Q :=
  map snd (filter (fun p => String.eqb a (fst p)) hist).

Lemma stream_of_app a hist b x :
  stream_of a (hist ++ [(b, x)]) = if String.eqb a b then stream_of a hist ++ [x] else stream_of a hist.
Proof.
  unfold stream_of. rewrite filter_app, map_app. simpl. destruct (String.eqb a b); simpl; [reflexivity|apply app_nil_r].
Qed.

Definition windows_ok (lbs : list nat) (bs : buffers) (hist : list (string * Q)) : Prop :=
  (forall b m w, In ((b, m), w) bs -> w = lastn m (stream_of b hist)) /\
  (forall b, lbs <> [] -> stream_of b hist <> [] -> buf_has b bs = true).

Lemma buf_has_in b bs : buf_has b bs = true <-> exists m w, In ((b, m), w) bs.
Proof.
  unfold buf_has. rewrite existsb_exists. split.
  - intros ([[c m] w] & I & E). simpl in E. apply String.eqb_eq in E. subst. eauto.
  - intros (m & w & I). exists ((b, m), w). split; [exact I|]. simpl. apply String.eqb_refl.
Qed.

Lemma buf_append_ok lbs bs hist a x :
  windows_ok lbs bs hist -> windows_ok lbs (buf_append lbs bs a x) (hist ++ [(a, x)]).
Proof.
  intros [W1 W2]. unfold buf_append.
  set (bs1 := if buf_has a bs then bs else bs ++ map (fun n => ((a, n), [])) lbs).
  assert (W1' : forall b m w, In ((b, m), w) bs1 -> w = lastn m (stream_of b hist)).
  { unfold bs1. destruct (buf_has a bs) eqn:H; [exact W1|]. intros b m w I. apply in_app_iff in I.
    destruct I as [I|I]; [apply W1; exact I|]. apply in_map_iff in I. destruct I as (n & E & In_). inversion E; subst.
    assert (S0 : stream_of b hist = []).
    { destruct (stream_of b hist) eqn:S; [reflexivity|]. exfalso.
      assert (T : buf_has b bs = true) by (apply W2; [intro Z; subst; contradiction|rewrite S; discriminate]). congruence. }
    rewrite S0. reflexivity. }
  split.
  - intros b m w I. apply in_map_iff in I. destruct I as ([[c k] v] & E & I). simpl in E.
    rewrite stream_of_app. destruct (String.eqb a c) eqn:Q.
    + apply String.eqb_eq in Q. subst c. inversion E; subst. rewrite String.eqb_refl.
      rewrite (W1' _ _ _ I). unfold push. apply lastn_app_tail.
    + inversion E; subst. rewrite String.eqb_sym, Q. apply W1'. exact I.
  - intros b NE S. apply buf_has_in.
    assert (H1 : buf_has b bs1 = true).
    { rewrite stream_of_app in S. destruct (String.eqb b a) eqn:Q.
      - apply String.eqb_eq in Q. subst b. unfold bs1. destruct (buf_has a bs) eqn:H; [exact H|].
        apply buf_has_in. destruct lbs as [|n r]; [congruence|]. exists n, []. apply in_app_iff. right. left. reflexivity.
      - assert (T : buf_has b bs = true) by (apply W2; assumption).
        unfold bs1. destruct (buf_has a bs); [exact T|]. apply buf_has_in in T. destruct T as (m & w & I).
        apply buf_has_in. exists m, w. apply in_app_iff. left. exact I. }
    apply buf_has_in in H1. destruct H1 as (m & w & I).
    destruct (String.eqb a b) eqn:Q.
    + exists m, (push m w x). apply in_map_iff. exists ((b, m), w). split; [simpl; rewrite Q; reflexivity|exact I].
    + exists m, w. apply in_map_iff. exists ((b, m), w). split; [simpl; rewrite Q; reflexivity|exact I].
Qed.

Lemma buf_find_in a n bs w : buf_find a n bs = Some w -> In ((a, n), w) bs.
Proof.
  induction bs as [|[[b m] v] r IH]; simpl; [discriminate|].
  destruct (String.eqb a b && Nat.eqb n m) eqn:E.
  - apply andb_true_iff in E. destruct E as [E1 E2]. apply String.eqb_eq in E1. apply Nat.eqb_eq in E2.
    subst. intro H; inversion H; subst. left. reflexivity.
  - intro H. right. apply IH. exact H.
Qed.

Theorem windows_independent lbs assets apps a n w :
  let bs0 := flat_map (fun b => map (fun m => ((b, m), @nil Q)) lbs) assets in
  buf_find a n (fold_left (fun bs p => buf_append lbs bs (fst p) (snd p)) apps bs0) = Some w ->
  w = lastn n (stream_of a apps).
Proof.
  intros bs0 F.
  assert (G : forall apps bs hist, windows_ok lbs bs hist ->
              windows_ok lbs (fold_left (fun bs p => buf_append lbs bs (fst p) (snd p)) apps bs) (hist ++ apps)).
  { clear. induction apps as [|[b x] r IH]; intros bs hist W; simpl.
    - rewrite app_nil_r. exact W.
    - replace (hist ++ (b, x) :: r) with ((hist ++ [(b, x)]) ++ r) by (rewrite <- app_assoc; reflexivity).
      apply IH. apply buf_append_ok. exact W. }
  assert (W0 : windows_ok lbs bs0 []).
  { split.
    - intros b m v I. unfold bs0 in I. apply in_flat_map in I. destruct I as (c & _ & I).
      apply in_map_iff in I. destruct I as (k & E & _). inversion E; subst. reflexivity.
    - intros b _ S. exfalso. apply S. reflexivity. }
  destruct (G apps bs0 [] W0) as [W1 _]. simpl in W1. apply (W1 a n w). apply buf_find_in. exact F.
Qed.
