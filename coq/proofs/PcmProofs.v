(** C09 / C19: portfolio construction, universes, optimisers. *)
From Coq Require Import ZArith QArith Qround Qabs Qfield String Ascii Bool List Lia Lqa Permutation Sorted NArith.
From QS Require Import theories.Num theories.Position theories.Portfolio theories.Fees theories.Sizer theories.PCM
  proofs.QLemmas proofs.SizerProofs.
Import ListNotations.
Open Scope Z_scope.

(** * String order is transitive *)
Lemma ascii_compare_lt_trans a b c :
  Ascii.compare a b = Lt -> Ascii.compare b c = Lt -> Ascii.compare a c = Lt.
Proof.
  unfold Ascii.compare. rewrite !N.compare_lt_iff. lia.
Qed.
Lemma ascii_compare_refl a : Ascii.compare a a = Eq.
Proof. unfold Ascii.compare. apply N.compare_refl. Qed.
Lemma string_compare_refl s : String.compare s s = Eq.
Proof. induction s as [|c r IH]; simpl; [reflexivity|]. rewrite ascii_compare_refl. exact IH. Qed.
Lemma string_compare_lt_trans s1 : forall s2 s3,
  String.compare s1 s2 = Lt -> String.compare s2 s3 = Lt -> String.compare s1 s3 = Lt.
Proof.
  induction s1 as [|c1 r1 IH]; intros [|c2 r2] [|c3 r3]; simpl; try discriminate; auto.
  destruct (Ascii.compare c1 c2) eqn:E12; destruct (Ascii.compare c2 c3) eqn:E23; try discriminate.
  - apply Ascii.compare_eq_iff in E12. apply Ascii.compare_eq_iff in E23. subst.
    rewrite ascii_compare_refl. apply IH.
  - apply Ascii.compare_eq_iff in E12. subst. rewrite E23. auto.
  - apply Ascii.compare_eq_iff in E23. subst. rewrite E12. auto.
  - rewrite (ascii_compare_lt_trans _ _ _ E12 E23). auto.
Qed.
Lemma leb_trans s1 s2 s3 : String.leb s1 s2 = true -> String.leb s2 s3 = true -> String.leb s1 s3 = true.
Proof.
  unfold String.leb. destruct (String.compare s1 s2) eqn:A; try discriminate;
    destruct (String.compare s2 s3) eqn:B; try discriminate; intros _ _.
  - apply String.compare_eq_iff in A. apply String.compare_eq_iff in B. subst.
    rewrite string_compare_refl. reflexivity.
  - apply String.compare_eq_iff in A. subst. rewrite B. reflexivity.
  - apply String.compare_eq_iff in B. subst. rewrite A. reflexivity.
  - rewrite (string_compare_lt_trans _ _ _ A B). reflexivity.
Qed.

Definition key_le {A} (x y : string * A) : Prop := String.leb (fst x) (fst y) = true.

(** * Insertion sort: permutation and sortedness *)
Lemma insert_perm {A} (x : string * A) l : Permutation (insert_by_key x l) (x :: l).
Proof.
  induction l as [|y r IH]; simpl; [apply Permutation_refl|].
  destruct (String.leb (fst x) (fst y)); [apply Permutation_refl|].
  eapply perm_trans; [apply perm_skip; exact IH|apply perm_swap].
Qed.
Lemma sort_perm {A} (l : list (string * A)) : Permutation (sort_by_key l) l.
Proof.
  induction l as [|x r IH]; simpl; [constructor|].
  eapply perm_trans; [apply insert_perm|apply perm_skip; exact IH].
Qed.
Lemma insert_sorted {A} (x : string * A) l :
  StronglySorted key_le l -> StronglySorted key_le (insert_by_key x l).
Proof.
  induction 1 as [|y r S IH F]; simpl; [repeat constructor|].
  destruct (String.leb (fst x) (fst y)) eqn:E.
  - constructor; [constructor; assumption|]. constructor; [exact E|].
    rewrite Forall_forall in *. intros z I. unfold key_le in *. eapply leb_trans; [exact E|apply F; exact I].
  - constructor; [exact IH|]. rewrite Forall_forall in *. intros z I.
    apply (Permutation_in _ (insert_perm x r)) in I. destruct I as [I|I]; [subst|apply F; exact I].
    unfold key_le. destruct (String.leb_total (fst z) (fst y)) as [T|T]; [congruence|exact T].
Qed.
Lemma sort_sorted {A} (l : list (string * A)) : StronglySorted key_le (sort_by_key l).
Proof. induction l as [|x r IH]; simpl; [constructor|apply insert_sorted; exact IH]. Qed.

Lemma filter_strongly_sorted {A} (R : A -> A -> Prop) f l : StronglySorted R l -> StronglySorted R (filter f l).
Proof.
  induction 1 as [|x l S IH F]; simpl; [constructor|]. destruct (f x); [|assumption].
  constructor; [assumption|]. apply Forall_forall. intros y I. apply filter_In in I. destruct I as [I _].
  rewrite Forall_forall in F. auto.
Qed.

(** * Lookup in lists with unique keys is invariant under permutation *)
Lemma z_find_in a q l : NoDup (map fst l) -> In (a, q) l -> z_find a l = q.
Proof.
  induction l as [|[b x] r IH]; simpl; intros ND I; [contradiction|].
  inversion ND as [|? ? NI ND']; subst. destruct I as [I|I].
  - inversion I; subst. rewrite String.eqb_refl. reflexivity.
  - destruct (String.eqb a b) eqn:E.
    + apply String.eqb_eq in E. subst. exfalso. apply NI. apply in_map_iff. exists (b, q). auto.
    + apply IH; assumption.
Qed.
Lemma z_find_notin a l : ~ In a (map fst l) -> z_find a l = 0.
Proof.
  induction l as [|[b x] r IH]; simpl; intro NI; [reflexivity|].
  destruct (String.eqb a b) eqn:E.
  - apply String.eqb_eq in E. subst. exfalso. apply NI. auto.
  - apply IH. intro H. apply NI. auto.
Qed.
Lemma in_keys_exists {A} a (l : list (string * A)) : In a (map fst l) -> exists q, In (a, q) l.
Proof. intro I. apply in_map_iff in I. destruct I as ([b q] & E & I). simpl in E. subst. eauto. Qed.

(** * The rebalance orders *)
Definition diffs (target current : list (string * Z)) : list (string * Z) :=
  map (fun aq => (fst aq, snd aq - z_find (fst aq) current)) target.

Lemma orders_shape target current :
  rebalance_orders target current = filter (fun aq => negb (Z.eqb (snd aq) 0)) (sort_by_key (diffs target current)).
Proof. reflexivity. Qed.

Lemma orders_sorted_nonzero target current :
  StronglySorted key_le (rebalance_orders target current) /\
  Forall (fun aq => snd aq <> 0) (rebalance_orders target current).
Proof.
  split.
  - apply filter_strongly_sorted. apply sort_sorted.
  - apply Forall_forall. intros x I. apply filter_In in I. destruct I as [_ N].
    apply negb_true_iff in N. apply Z.eqb_neq in N. exact N.
Qed.

Lemma nodup_filter_keys {A} f (l : list (string * A)) : NoDup (map fst l) -> NoDup (map fst (filter f l)).
Proof.
  induction l as [|x r IH]; simpl; intro ND; [constructor|]. inversion ND as [|? ? NI ND']; subst.
  destruct (f x); simpl; [constructor|]; auto.
  intro I. apply NI. apply in_map_iff in I. destruct I as (y & E & I). apply filter_In in I.
  apply in_map_iff. exists y. tauto.
Qed.

Lemma orders_nodup target current :
  NoDup (map fst target) -> NoDup (map fst (rebalance_orders target current)).
Proof.
  intro ND. apply nodup_filter_keys.
  assert (P : Permutation (map fst (sort_by_key (diffs target current))) (map fst target)).
  { eapply perm_trans; [apply Permutation_map; apply sort_perm|]. unfold diffs. rewrite map_map. simpl. apply Permutation_refl. }
  eapply Permutation_NoDup; [apply Permutation_sym; exact P|exact ND].
Qed.

(** every order is target minus current; filling all of them lands exactly on the target *)
Theorem orders_are_diff target current a :
  NoDup (map fst target) ->
  (In a (map fst target) -> z_find a (rebalance_orders target current) = z_find a target - z_find a current) /\
  (~ In a (map fst target) -> z_find a (rebalance_orders target current) = 0).
Proof.
  intro ND.
  assert (NDd : NoDup (map fst (sort_by_key (diffs target current)))).
  { eapply Permutation_NoDup; [apply Permutation_sym; apply Permutation_map; apply sort_perm|].
    unfold diffs. rewrite map_map. simpl. exact ND. }
  split; intro I.
  - destruct (in_keys_exists _ _ I) as [q Iq].
    assert (Id : In (a, q - z_find a current) (sort_by_key (diffs target current))).
    { apply (Permutation_in _ (Permutation_sym (sort_perm _))). unfold diffs. apply in_map_iff. exists (a, q). auto. }
    rewrite (z_find_in _ _ _ ND Iq).
    destruct (Z.eq_dec (q - z_find a current) 0) as [Z0|NZ].
    + rewrite Z0. apply z_find_notin. intro X. apply in_keys_exists in X. destruct X as [q' X].
      apply filter_In in X. destruct X as [X N]. simpl in N.
      assert (E : q' = q - z_find a current).
      { rewrite <- (z_find_in _ _ _ NDd X). apply z_find_in; assumption. }
      subst q'. rewrite Z0 in N. discriminate.
    + apply z_find_in; [apply orders_nodup; exact ND|]. apply filter_In. split; [exact Id|].
      simpl. apply negb_true_iff. apply Z.eqb_neq. exact NZ.
  - apply z_find_notin. intro X. apply I. apply in_map_iff in X. destruct X as (y & E & X).
    apply filter_In in X. destruct X as [X _].
    apply (Permutation_in _ (sort_perm _)) in X. unfold diffs in X. apply in_map_iff in X.
    destruct X as (z & E2 & X). subst. simpl. apply in_map. exact X.
Qed.

Corollary fills_reach_target target current a :
  NoDup (map fst target) -> In a (map fst target) ->
  z_find a current + z_find a (rebalance_orders target current) = z_find a target.
Proof. intros ND I. rewrite (proj1 (orders_are_diff target current a ND) I). lia. Qed.

(** * The recorded allocation: exactly held + universe + alpha keys, zero where alpha is silent *)
Lemma w_find_in_keys a (w : weights) : (exists x, w_find a w = Some x) <-> In a (map fst w).
Proof.
  induction w as [|[b y] r IH]; simpl.
  - split; [intros [x H]; discriminate|contradiction].
  - destruct (String.eqb a b) eqn:E.
    + apply String.eqb_eq in E. subst. split; eauto.
    + apply String.eqb_neq in E. rewrite IH. split; [auto|]. intros [H|H]; [congruence|exact H].
Qed.

Lemma merge_keys zero opt a :
  In a (map fst (merge_weights zero opt)) <-> (In a (map fst zero) \/ In a (map fst opt)).
Proof.
  unfold merge_weights. rewrite map_app, in_app_iff, map_map. simpl. split.
  - intros [H|H]; [left; exact H|right]. apply in_map_iff in H. destruct H as (y & E & I).
    apply filter_In in I. subst. apply in_map. tauto.
  - intros [H|H]; [left; exact H|].
    destruct (w_find a zero) as [x|] eqn:F.
    + left. apply w_find_in_keys. eauto.
    + right. apply in_map_iff in H. destruct H as ([b y] & E & I). simpl in E. subst.
      apply in_map_iff. exists (a, y). split; [reflexivity|]. apply filter_In. split; [exact I|]. simpl. rewrite F. reflexivity.
Qed.

Lemma w_find_app a (l1 l2 : weights) :
  w_find a (l1 ++ l2) = match w_find a l1 with Some x => Some x | None => w_find a l2 end.
Proof. induction l1 as [|[b y] r IH]; simpl; auto. destruct (String.eqb a b); auto. Qed.

Lemma merge_value zero opt a :
  In a (map fst zero) ->
  w_find a (merge_weights zero opt) =
  Some (match w_find a opt with Some x => x | None => match w_find a zero with Some z => z | None => 0%Q end end).
Proof.
  intro I. unfold merge_weights. rewrite w_find_app.
  assert (H : w_find a (map (fun aw => (fst aw, match w_find (fst aw) opt with Some x => x | None => snd aw end)) zero) =
              Some (match w_find a opt with Some x => x | None => match w_find a zero with Some z => z | None => 0%Q end end)).
  { clear - I. induction zero as [|[b y] r IH]; simpl in *; [contradiction|].
    destruct (String.eqb a b) eqn:E.
    - apply String.eqb_eq in E. subst. reflexivity.
    - apply IH. destruct I as [I|I]; [apply String.eqb_neq in E; congruence|exact I]. }
  rewrite H. reflexivity.
Qed.

Lemma dedup_in a l : In a (dedup l) <-> In a l.
Proof.
  induction l as [|x r IH]; simpl; [tauto|].
  destruct (existsb (String.eqb x) r) eqn:E.
  - rewrite IH. split; [auto|]. intros [H|H]; [|exact H]. subst.
    apply existsb_exists in E. destruct E as (y & I & Q). apply String.eqb_eq in Q. subst. exact I.
  - simpl. rewrite IH. tauto.
Qed.
Lemma dedup_nodup l : NoDup (dedup l).
Proof.
  induction l as [|x r IH]; simpl; [constructor|].
  destruct (existsb (String.eqb x) r) eqn:E; [exact IH|]. constructor; [|exact IH].
  intro I. apply (proj1 (dedup_in _ _)) in I.
  assert (T : existsb (String.eqb x) r = true) by (apply existsb_exists; exists x; split; [exact I|apply String.eqb_refl]).
  congruence.
Qed.

Theorem full_assets_spec held univ a :
  (In a (full_assets held univ) <-> (In a held \/ In a univ)) /\ NoDup (full_assets held univ).
Proof.
  unfold full_assets.
  assert (P : Permutation (map fst (sort_by_key (map (fun a => (a, tt)) (dedup (held ++ univ))))) (dedup (held ++ univ))).
  { eapply perm_trans; [apply Permutation_map; apply sort_perm|]. rewrite map_map. simpl. rewrite map_id. apply Permutation_refl. }
  split.
  - split; intro I.
    + apply (Permutation_in _ P) in I. apply (proj1 (dedup_in _ _)) in I. apply in_app_iff in I. exact I.
    + apply (Permutation_in _ (Permutation_sym P)). apply (proj2 (dedup_in _ _)). apply in_app_iff. exact I.
  - eapply Permutation_NoDup; [apply Permutation_sym; exact P|apply dedup_nodup].
Qed.

Theorem weight_keys held univ alpha_w a :
  let fw := merge_weights (map (fun a => (a, 0%Q)) (full_assets held univ)) alpha_w in
  (In a (map fst fw) <-> (In a held \/ In a univ \/ In a (map fst alpha_w))) /\
  ((In a held \/ In a univ) -> ~ In a (map fst alpha_w) -> w_find a fw = Some 0%Q).
Proof.
  intro fw. unfold fw. split.
  - rewrite merge_keys, map_map. simpl. rewrite map_id. rewrite (proj1 (full_assets_spec held univ a)). tauto.
  - intros I N. rewrite merge_value.
    + destruct (w_find a alpha_w) as [x|] eqn:F; [exfalso; apply N; apply w_find_in_keys; eauto|].
      assert (Z : w_find a (map (fun a0 => (a0, 0%Q)) (full_assets held univ)) = Some 0%Q).
      { apply (proj2 (full_assets_spec held univ a)) in I || idtac.
        assert (I' : In a (full_assets held univ)) by (apply (proj1 (full_assets_spec held univ a)); exact I).
        clear - I'. induction (full_assets held univ) as [|b r IH]; simpl in *; [contradiction|].
        destruct (String.eqb a b) eqn:E; [reflexivity|]. apply IH. destruct I' as [H|H]; [apply String.eqb_neq in E; congruence|exact H]. }
      rewrite Z. reflexivity.
    + rewrite map_map. simpl. rewrite map_id. apply (proj1 (full_assets_spec held univ a)). exact I.
Qed.

(** a zero weight stays zero through both normalisations and sizes to zero *)
Lemma ls_zero_qty E fee p : (0 < p)%Q -> ls_qty E fee 0 p = 0.
Proof.
  intro Hp. unfold ls_qty.
  assert (F : (fee_total fee (E * 0) == 0)%Q).
  { destruct fee; simpl; [reflexivity|]. assert (A0 : (Qabs (E * 0) == 0)%Q) by (rewrite Qmult_0_r; reflexivity).
    rewrite A0. ring. }
  assert (A : (E * 0 - fee_total fee (E * 0) == 0)%Q) by (rewrite F; ring).
  assert (T : trunc_q (E * 0 - fee_total fee (E * 0)) = 0).
  { unfold trunc_q. assert (B : Qle_bool 0 (E * 0 - fee_total fee (E * 0)) = true) by (apply Qle_bool_iff; rewrite A; apply Qle_refl).
    rewrite B. rewrite A. reflexivity. }
  rewrite T. unfold qtrunc. simpl. reflexivity.
Qed.

(** * Universes and optimisers (C19) *)
Lemma dynamic_membership es t a :
  In a (universe_assets (DynamicU es) t) <-> exists e, In (a, Some e) es /\ e <= t.
Proof.
  simpl. rewrite in_map_iff. split.
  - intros ([b o] & E & I). simpl in E. subst. apply filter_In in I. destruct I as [I C]. simpl in C.
    destruct o as [e|]; [|discriminate]. apply Z.leb_le in C. eauto.
  - intros (e & I & L). exists (a, Some e). split; [reflexivity|]. apply filter_In. split; [exact I|].
    simpl. apply Z.leb_le. exact L.
Qed.
Lemma static_membership l t : universe_assets (StaticU l) t = l.
Proof. reflexivity. Qed.
Lemma fixed_weight_id w : opt_fixed w = w.
Proof. reflexivity. Qed.
Lemma equal_weight_def scale w :
  w <> [] ->
  map fst (opt_equal scale w) = map fst w /\
  Forall (fun aw => (snd aw == scale / inject_Z (Z.of_nat (length w)))%Q) (opt_equal scale w) /\
  (qsum (map snd (opt_equal scale w)) == scale)%Q.
Proof.
  intro NE. unfold opt_equal. set (n := inject_Z (Z.of_nat (length w))).
  assert (NZ : ~ (n == 0)%Q).
  { unfold n. destruct w; [congruence|]. simpl length. intro H.
    assert (X : (inject_Z 0 < inject_Z (Z.of_nat (S (length w))))%Q) by (rewrite <- Zlt_Qlt; lia).
    change (inject_Z 0) with 0%Q in X. lra. }
  split; [rewrite map_map; reflexivity|]. split.
  - apply Forall_forall. intros x I. apply in_map_iff in I. destruct I as (y & E & I). subst. simpl. field. exact NZ.
  - rewrite map_map. simpl.
    assert (G : forall l : weights, (qsum (map (fun _ => scale * (1 / n)) l) == inject_Z (Z.of_nat (length l)) * (scale * (1 / n)))%Q).
    { induction l as [|x r IH]; [unfold qsum; simpl; ring|].
      simpl map. rewrite qsum_cons, IH. simpl length. rewrite Nat2Z.inj_succ, <- Z.add_1_r, inject_Z_plus.
      change (inject_Z 1) with 1%Q. ring. }
    rewrite G. fold n. field. exact NZ.
Qed.

(** * Construction with any optimiser: the optimiser sees the alpha weights only *)
Lemma w_find_const_map a c (w : weights) :
  In a (map fst w) -> w_find a (map (fun aw => (fst aw, c)) w) = Some c.
Proof.
  induction w as [|[b y] r IH]; cbn [map fst w_find In]; [contradiction|]. intro I.
  destruct (String.eqb a b) eqn:E; [reflexivity|]. apply IH.
  destruct I as [I|I]; [apply String.eqb_neq in E; congruence|exact I].
Qed.
Lemma w_find_const_list a (c : Q) (l : list string) :
  In a l -> w_find a (map (fun x => (x, c)) l) = Some c.
Proof.
  induction l as [|b r IH]; cbn [map w_find In]; [contradiction|]. intro I.
  destruct (String.eqb a b) eqn:E; [reflexivity|]. apply IH.
  destruct I as [I|I]; [apply String.eqb_neq in E; congruence|exact I].
Qed.
Lemma w_find_none a (w : weights) : ~ In a (map fst w) -> w_find a w = None.
Proof.
  intro N. destruct (w_find a w) as [x|] eqn:F; [|reflexivity].
  exfalso. apply N. apply w_find_in_keys. eauto.
Qed.
Lemma w_find_filter_other a (zero opt : weights) :
  w_find a zero = None ->
  w_find a (filter (fun aw => match w_find (fst aw) zero with Some _ => false | None => true end) opt) = w_find a opt.
Proof.
  intro Z. induction opt as [|[b y] r IH]; cbn [filter fst]; [reflexivity|].
  destruct (String.eqb a b) eqn:E.
  - apply String.eqb_eq in E. subst b. rewrite Z. cbn [w_find]. rewrite String.eqb_refl. reflexivity.
  - destruct (w_find b zero); cbn [w_find]; rewrite ?E; exact IH.
Qed.
Lemma merge_value_any zero opt a x :
  w_find a opt = Some x -> w_find a (merge_weights zero opt) = Some x.
Proof.
  intro F. destruct (in_dec string_dec a (map fst zero)) as [I|N].
  - rewrite merge_value by exact I. rewrite F. reflexivity.
  - unfold merge_weights. rewrite w_find_app.
    rewrite w_find_none by (rewrite map_map; cbn [fst]; exact N).
    rewrite w_find_filter_other by (apply w_find_none; exact N). exact F.
Qed.

Lemma optimise_keys o w : map fst (optimise o w) = map fst w.
Proof. destruct o as [|s]; cbn [optimise]; [reflexivity|]. unfold opt_equal. rewrite map_map. reflexivity. Qed.

Theorem alloc_with_optimiser sizer o held univ alpha_w out a :
  pcm_call_opt sizer o held univ alpha_w = Ok out ->
  (In a (map fst (pc_alloc out)) <-> (In a (map fst held) \/ In a univ \/ In a (map fst alpha_w))) /\
  (In a (map fst alpha_w) ->
     match o with
     | OptFixed => w_find a (pc_alloc out) = w_find a alpha_w
     | OptEqual s => w_find a (pc_alloc out) = Some (s * (1 / inject_Z (Z.of_nat (length alpha_w))))%Q
     end) /\
  (~ In a (map fst alpha_w) -> (In a (map fst held) \/ In a univ) -> w_find a (pc_alloc out) = Some 0%Q).
Proof.
  intro H.
  assert (A : pc_alloc out = merge_weights (map (fun a => (a, 0%Q)) (full_assets (map fst held) univ)) (optimise o alpha_w)).
  { revert H. unfold pcm_call_opt.
    destruct o as [|s]; destruct alpha_w as [|aw0 awr]; try discriminate;
      (match goal with |- context [sizer ?W] => destruct (sizer W) as [t|e] end; [|discriminate]);
      intro X; inversion X; reflexivity. }
  rewrite A. split; [|split].
  - rewrite merge_keys, map_map. cbn [fst]. rewrite map_id, optimise_keys.
    rewrite (proj1 (full_assets_spec (map fst held) univ a)). tauto.
  - intro I. destruct o as [|s]; cbn [optimise].
    + unfold opt_fixed. destruct (proj2 (w_find_in_keys a alpha_w) I) as [x F]. rewrite F. apply merge_value_any. exact F.
    + apply merge_value_any. unfold opt_equal. apply w_find_const_map. exact I.
  - intros N I. rewrite merge_value.
    + rewrite (w_find_none a (optimise o alpha_w)) by (rewrite optimise_keys; exact N).
      rewrite w_find_const_list; [reflexivity|].
      apply (proj1 (full_assets_spec (map fst held) univ a)). exact I.
    + rewrite map_map. cbn [fst]. rewrite map_id. apply (proj1 (full_assets_spec (map fst held) univ a)). exact I.
Qed.

Lemma pcm_call_opt_fixed sizer held univ alpha_w :
  pcm_call_opt sizer OptFixed held univ alpha_w = pcm_call sizer held univ alpha_w.
Proof. unfold pcm_call_opt, pcm_call. destruct alpha_w; reflexivity. Qed.
