(** C07 composed with C06: sessions whose market is a set of daily-bar files. *)
From Coq Require Import ZArith QArith String Bool List Lia Permutation.
From QS Require Import theories.Num theories.Position theories.Exchange theories.Data theories.Clock theories.Backtest
  proofs.DataProofs proofs.BacktestProofs.
Import ListNotations.
Open Scope Z_scope.
Ltac Zify.zify_post_hook ::= Z.div_mod_to_equations.

(** the data handler over one CSV data source: an asset is quoted iff its file has a price *)
Definition market_of (adjust : bool) (files : list (string * list bar)) (t : Z) : snapshot :=
  flat_map (fun f => match get_price false adjust (snd f) t with Some p => [(fst f, p)] | None => [] end) files.

Definition same_until (D : Z) (r1 r2 : list bar) : Prop :=
  NoDup (map bar_day r1) /\ NoDup (map bar_day r2) /\
  Permutation (filter (fun b => bar_day b <=? D) r1) (filter (fun b => bar_day b <=? D) r2).

Lemma filter_filter_le (d D : Z) (l : list bar) :
  d <= D -> filter (fun b => bar_day b <=? d) (filter (fun b => bar_day b <=? D) l) = filter (fun b => bar_day b <=? d) l.
Proof.
  intro L. induction l as [|x r IH]; simpl; [reflexivity|].
  destruct (bar_day x <=? D) eqn:E; simpl.
  - rewrite IH. reflexivity.
  - rewrite IH. apply Z.leb_gt in E. assert (E2 : (bar_day x <=? d) = false) by (apply Z.leb_gt; lia). rewrite E2. reflexivity.
Qed.

Lemma same_until_mono D d r1 r2 : d <= D -> same_until D r1 r2 -> same_until d r1 r2.
Proof.
  intros L (N1 & N2 & P). split; [exact N1|]. split; [exact N2|].
  rewrite <- (filter_filter_le d D r1 L), <- (filter_filter_le d D r2 L). apply perm_filter. exact P.
Qed.

Lemma market_of_agrees adjust (files1 files2 : list (string * list bar)) T t :
  Forall2 (fun f1 f2 => fst f1 = fst f2 /\ same_until T (snd f1) (snd f2)) files1 files2 ->
  t <= T * 86400 + 86399 ->
  market_of adjust files1 t = market_of adjust files2 t.
Proof.
  intros F L. unfold market_of. induction F as [|f1 f2 l1 l2 [E S] F IH]; [reflexivity|].
  simpl. rewrite IH.
  assert (D : day t <= T) by (unfold day; lia).
  destruct (same_until_mono T (day t) _ _ D S) as (N1 & N2 & P).
  rewrite (point_in_time adjust (snd f1) (snd f2) t N1 N2 P), E. reflexivity.
Qed.

(** every equity point, fill, allocation and error stamped on or before the end of day T is
    identical when the files differ only in rows dated after T (rewritten, removed or added) *)
Theorem run_causal_csv cfg adjust files1 files2 T :
  Forall2 (fun f1 f2 => fst f1 = fst f2 /\ same_until T (snd f1) (snd f2)) files1 files2 ->
  match run cfg (market_of adjust files1), run cfg (market_of adjust files2) with
  | Ok tr1, Ok tr2 => upto (T * 86400 + 86399) tr1 = upto (T * 86400 + 86399) tr2
  | Err e1, Err e2 => e1 = e2
  | _, _ => False
  end.
Proof.
  intro F. apply run_causal. intros t L. apply (market_of_agrees adjust files1 files2 T t F L).
Qed.
