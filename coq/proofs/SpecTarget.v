(** C09 at the level of the rules simulator: once the orders of a rebalance have been filled - in any
    order, in particular sells first - the holdings are the target.  Sessions inherit this through
    the refinement theorems of C08 (their holdings and pending orders are the simulator's). *)
From Coq Require Import ZArith QArith Qround Qabs String Bool List Lia Lqa Permutation Sorted.
From QS Require Import theories.Num theories.Position theories.Portfolio theories.Fees theories.Sizer theories.PCM
  theories.Backtest theories.Spec proofs.QLemmas proofs.PcmProofs proofs.SpecLists.
Import ListNotations.
Open Scope Z_scope.

(** lookups in duplicate-free holdings *)
Lemma hold_of_notin a h : ~ In a (map fst h) -> hold_of a h = 0.
Proof.
  induction h as [|[c x] r IH]; cbn [hold_of map fst]; intro NI; [reflexivity|].
  destruct (String.eqb a c) eqn:E; [apply String.eqb_eq in E; subst; exfalso; apply NI; left; reflexivity|].
  apply IH. intro I. apply NI. right; exact I.
Qed.

Lemma hold_set_keys_incl b q h x : In x (map fst (hold_set b q h)) -> x = b \/ In x (map fst h).
Proof.
  induction h as [|[c y] r IH]; cbn [hold_set].
  - destruct (q =? 0); cbn [map fst]; [intros []|intros [H|[]]; left; symmetry; exact H].
  - destruct (String.eqb b c) eqn:E.
    + apply String.eqb_eq in E. subst c. destruct (q =? 0); cbn [map fst]; [intro I; right; right; exact I|].
      intros [H|H]; [left; symmetry; exact H|right; right; exact H].
    + cbn [map fst]. intros [H|H]; [right; left; exact H|]. destruct (IH H) as [K|K]; [left; exact K|right; right; exact K].
Qed.

Lemma hold_set_nodup b q h : NoDup (map fst h) -> NoDup (map fst (hold_set b q h)).
Proof.
  induction h as [|[c y] r IH]; cbn [hold_set]; intro ND.
  - destruct (q =? 0); cbn [map fst]; [constructor|constructor; [intros []|constructor]].
  - cbn [map fst] in ND. inversion ND as [|? ? NI ND']; subst. destruct (String.eqb b c) eqn:E.
    + apply String.eqb_eq in E. subst c. destruct (q =? 0); cbn [map fst]; [exact ND'|constructor; assumption].
    + cbn [map fst]. constructor; [|apply IH; exact ND'].
      intro I. destruct (hold_set_keys_incl _ _ _ _ I) as [K|K]; [subst; rewrite String.eqb_refl in E; discriminate|contradiction].
Qed.

Lemma hold_of_hold_set a b q h :
  NoDup (map fst h) -> hold_of a (hold_set b q h) = if String.eqb a b then q else hold_of a h.
Proof.
  induction h as [|[c x] r IH]; cbn [hold_set hold_of map fst]; intro ND.
  - destruct (q =? 0) eqn:Z; cbn [hold_of]; destruct (String.eqb a b) eqn:E; try reflexivity.
    apply Z.eqb_eq in Z. subst. reflexivity.
  - inversion ND as [|? ? NI ND']; subst. destruct (String.eqb b c) eqn:BC.
    + apply String.eqb_eq in BC. subst c. destruct (q =? 0) eqn:Z; cbn [hold_of].
      * destruct (String.eqb a b) eqn:E; [|reflexivity]. apply String.eqb_eq in E. subst a.
        apply Z.eqb_eq in Z. subst q. apply hold_of_notin. exact NI.
      * destruct (String.eqb a b); reflexivity.
    + cbn [hold_of]. destruct (String.eqb a c) eqn:AC.
      * apply String.eqb_eq in AC. subst c. destruct (String.eqb a b) eqn:AB; [|reflexivity].
        apply String.eqb_eq in AB. subst b. rewrite String.eqb_refl in BC. discriminate.
      * apply IH. exact ND'.
Qed.

(** net quantity ordered for an asset *)
Fixpoint z_sum (a : string) (os : list (string * Z)) : Z :=
  match os with [] => 0 | (b, q) :: r => (if String.eqb a b then q else 0) + z_sum a r end.

Lemma z_sum_perm a os os' : Permutation os os' -> z_sum a os = z_sum a os'.
Proof.
  induction 1 as [|[b q] l l' P IH|[b q] [c x] l|l l' l'' P1 IH1 P2 IH2]; cbn [z_sum]; try lia.
Qed.
Lemma z_sum_nodup a os : NoDup (map fst os) -> z_sum a os = z_find a os.
Proof.
  induction os as [|[b q] r IH]; cbn [z_sum z_find map fst]; intro ND; [reflexivity|].
  inversion ND as [|? ? NI ND']; subst. destruct (String.eqb a b) eqn:E.
  - apply String.eqb_eq in E. subst b. rewrite IH by exact ND'. rewrite z_find_notin by exact NI. lia.
  - rewrite IH by exact ND'. lia.
Qed.

Lemma fill_all_holdings fee t s a : forall os st st' fs,
  NoDup (map fst (st_hold st)) ->
  Spec.fill_all fee t s st os = Some (st', fs) ->
  NoDup (map fst (st_hold st')) /\ hold_of a (st_hold st') = hold_of a (st_hold st) + z_sum a os.
Proof.
  induction os as [|[b q] r IH]; intros st st' fs ND; cbn [Spec.fill_all z_sum].
  - intro X; inversion X; subst. split; [exact ND|lia].
  - unfold fill_one at 1. cbn [fst snd]. destruct (price_of b s) as [p|]; [|discriminate].
    match goal with |- context [Spec.fill_all fee t s ?S r] => set (st1 := S) end.
    destruct (Spec.fill_all fee t s st1 r) as [[st2 fs2]|] eqn:FA; [|discriminate].
    intro X; inversion X; subst st' fs; clear X.
    assert (ND1 : NoDup (map fst (st_hold st1))) by (unfold st1; cbn [st_hold]; apply hold_set_nodup; exact ND).
    destruct (IH st1 st2 fs2 ND1 FA) as [ND2 H2]. split; [exact ND2|].
    rewrite H2. unfold st1. cbn [st_hold]. rewrite hold_of_hold_set by exact ND.
    destruct (String.eqb a b) eqn:E; [apply String.eqb_eq in E; subst b|]; lia.
Qed.

(** filling the orders of a rebalance - in any order - lands every asset on its target *)
Theorem filled_orders_reach_target fee t s st target os st' fs a :
  NoDup (map fst (st_hold st)) -> NoDup (map fst target) ->
  (forall x, In x (map fst (st_hold st)) -> In x (map fst target)) ->
  Permutation os (rebalance_orders target (st_hold st)) ->
  Spec.fill_all fee t s st os = Some (st', fs) ->
  hold_of a (st_hold st') = z_find a target.
Proof.
  intros NDH NDT SUB P FA.
  destruct (fill_all_holdings fee t s a os st st' fs NDH FA) as [_ H]. rewrite H.
  rewrite (z_sum_perm a _ _ P), z_sum_nodup by (apply orders_nodup; exact NDT).
  destruct (in_dec string_dec a (map fst target)) as [I|NI].
  - rewrite (proj1 (orders_are_diff target (st_hold st) a NDT) I). rewrite hold_of_z_find. lia.
  - rewrite (proj2 (orders_are_diff target (st_hold st) a NDT) NI).
    rewrite (z_find_notin a target NI). rewrite hold_of_notin; [lia|]. intro J. apply NI. apply SUB. exact J.
Qed.

(** the sells-first reordering of the pending orders is such a permutation *)
Lemma sells_first_perm_pairs (os : list (string * Z)) :
  Permutation (filter (fun o => snd o <? 0) os ++ filter (fun o => negb (snd o <? 0)) os) os.
Proof.
  induction os as [|x r IH]; cbn [filter app]; [constructor|].
  destruct (snd x <? 0); cbn [negb app].
  - constructor. exact IH.
  - eapply perm_trans; [apply Permutation_sym; apply Permutation_middle|]. constructor. exact IH.
Qed.

Corollary next_open_reaches_target fee t s st target st' fs a :
  NoDup (map fst (st_hold st)) -> NoDup (map fst target) ->
  (forall x, In x (map fst (st_hold st)) -> In x (map fst target)) ->
  st_pending st = rebalance_orders target (st_hold st) ->
  Spec.fill_all fee t s (mkS (st_cash st) (st_hold st) [])
    (filter (fun o => snd o <? 0) (st_pending st) ++ filter (fun o => negb (snd o <? 0)) (st_pending st)) = Some (st', fs) ->
  hold_of a (st_hold st') = z_find a target.
Proof.
  intros NDH NDT SUB PE FA.
  refine (filled_orders_reach_target fee t s (mkS (st_cash st) (st_hold st) []) target _ st' fs a NDH NDT SUB _ FA).
  cbn [st_hold]. rewrite PE. apply sells_first_perm_pairs.
Qed.
