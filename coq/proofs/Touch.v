(** Which assets a broker operation can touch: an update creates positions and fills only in assets
    that already had a position or a pending order (whatever its outcome - success, a refusal, a
    missing quote half-way through), and a submission adds at most its own asset to the queues.
    Used for C19 (an asset cannot trade before the universe admits it) and C04. *)
From Coq Require Import ZArith QArith String Bool List Lia Permutation.
From QS Require Import theories.Num theories.Position theories.Portfolio theories.Fees theories.Exchange theories.Broker
  proofs.Holdings proofs.Orders.
Import ListNotations.
Open Scope Z_scope.

Definition pos_assets (l : list (string * acct)) : list string :=
  flat_map (fun pa => map fst (pf_pos (a_pf (snd pa)))) l.
Definition q_assets (l : list (string * acct)) : list string :=
  flat_map (fun pa => map o_asset (a_q (snd pa))) l.
Definition fill_assets (es : list effect) : list string :=
  flat_map (fun e => match e with Fill _ tx => [t_asset tx] | _ => [] end) es.

Lemma fill_assets_app a b : fill_assets (a ++ b) = fill_assets a ++ fill_assets b.
Proof. unfold fill_assets. apply flat_map_app. Qed.

Lemma queues_q_assets l l' : queues l = queues l' -> q_assets l = q_assets l'.
Proof.
  revert l'. induction l as [|[k a] l IH]; intros [|[k' a'] l']; simpl; try discriminate; auto.
  intro H; inversion H; subst. rewrite (IH _ H3). congruence.
Qed.

Lemma pfs_pos_assets l l' : pfs l = pfs l' -> pos_assets l = pos_assets l'.
Proof.
  revert l'. induction l as [|[k a] l IH]; intros [|[k' a'] l']; simpl; try discriminate; auto.
  intro H; inversion H; subst. rewrite (IH _ H3). congruence.
Qed.

Lemma pfqty_pos_assets l l' :
  map (fun pa => (fst pa, pf_qty (a_pf (snd pa)))) l = map (fun pa => (fst pa, pf_qty (a_pf (snd pa)))) l' ->
  pos_assets l = pos_assets l'.
Proof.
  revert l'. induction l as [|[k a] l IH]; intros [|[k' a'] l']; simpl; try discriminate; auto.
  intro H. injection H as K C Hh P R. rewrite (IH _ R). f_equal.
  apply (f_equal (map fst)) in P. rewrite !map_map in P. simpl in P. exact P.
Qed.

Lemma acct_find_pos_in pid l a x :
  acct_find pid l = Some a -> In x (map fst (pf_pos (a_pf a))) -> In x (pos_assets l).
Proof.
  induction l as [|[k b] l IH]; simpl; [discriminate|].
  destruct (String.eqb pid k).
  - intro H; inversion H; subst. intro I. apply in_app_iff. left; exact I.
  - intros H I. apply in_app_iff. right. apply IH; assumption.
Qed.
Lemma acct_find_q_in pid l a x :
  acct_find pid l = Some a -> In x (map o_asset (a_q a)) -> In x (q_assets l).
Proof.
  induction l as [|[k b] l IH]; simpl; [discriminate|].
  destruct (String.eqb pid k).
  - intro H; inversion H; subst. intro I. apply in_app_iff. left; exact I.
  - intros H I. apply in_app_iff. right. apply IH; assumption.
Qed.

Lemma pos_assets_set pid a l x :
  In x (pos_assets (acct_set pid a l)) -> In x (map fst (pf_pos (a_pf a))) \/ In x (pos_assets l).
Proof.
  induction l as [|[k b] l IH]; simpl.
  - rewrite app_nil_r. auto.
  - destruct (String.eqb pid k); simpl; rewrite !in_app_iff.
    + intros [H|H]; auto.
    + intros [H|H]; [auto|]. destruct (IH H); auto.
Qed.
Lemma q_assets_set pid a l x :
  In x (q_assets (acct_set pid a l)) -> In x (map o_asset (a_q a)) \/ In x (q_assets l).
Proof.
  induction l as [|[k b] l IH]; simpl.
  - rewrite app_nil_r. auto.
  - destruct (String.eqb pid k); simpl; rewrite !in_app_iff.
    + intros [H|H]; auto.
    + intros [H|H]; [auto|]. destruct (IH H); auto.
Qed.

(** * Transactions: at most the traded asset is new *)
Lemma ph_transact_keys ps tx ps' r x :
  ph_transact ps tx = (ps', r) -> In x (map fst ps') -> x = t_asset tx \/ In x (map fst ps).
Proof.
  assert (SET : forall p, In x (map fst (pos_set (t_asset tx) p ps)) -> x = t_asset tx \/ In x (map fst ps)).
  { intros p. rewrite keys_set. destruct (pos_find (t_asset tx) ps); [auto|].
    rewrite in_app_iff. simpl. intros [H|[H|[]]]; auto. }
  unfold ph_transact. destruct (pos_find (t_asset tx) ps) as [p|] eqn:F.
  - destruct (pos_transact p tx) as [p' [u|e]].
    + destruct (qeqb (pos_net p') 0); intro H; inversion H; subst; intro I.
      * apply keys_del_incl in I. eapply SET; eauto.
      * eapply SET; eauto.
    + intro H; inversion H; subst. apply SET.
  - destruct (qeqb (pos_net (pos_open tx)) 0); intro H; inversion H; subst; intro I.
    + apply keys_del_incl in I. eapply SET; eauto.
    + eapply SET; eauto.
Qed.

Lemma pf_transact_keys pf tx pf' r x :
  pf_transact pf tx = (pf', r) -> In x (map fst (pf_pos pf')) -> x = t_asset tx \/ In x (map fst (pf_pos pf)).
Proof.
  unfold pf_transact. destruct (t_dt tx <? pf_dt pf); [intro H; inversion H; subst; auto|].
  destruct (ph_transact (pf_pos pf) tx) as [ps [u|e]] eqn:P; intro H; inversion H; subst; cbn [pf_pos];
    eapply ph_transact_keys; eauto.
Qed.

Section Touch.
  Variable bidask : Z -> string -> option (Q * Q).
  Variable midp : Z -> string -> option Q.
  Variable pre : bool.

  Lemma execute_touch b p o b1 r e1 :
    execute bidask b p o = (b1, r, e1) ->
    (forall x, In x (pos_assets (b_accts b1)) -> x = o_asset o \/ In x (pos_assets (b_accts b))) /\
    q_assets (b_accts b1) = q_assets (b_accts b) /\
    (forall x, In x (fill_assets e1) -> x = o_asset o).
  Proof.
    intro X. split; [|split].
    - revert X. unfold execute. destruct (bidask (b_dt b) (o_asset o)) as [[bid ask]|]; [|intro H; inversion H; subst; auto].
      destruct (acct_find p (b_accts b)) as [a|] eqn:F; [|intro H; inversion H; subst; auto].
      match goal with |- context [pf_transact ?pf ?tx] => destruct (pf_transact pf tx) as [pf' [u|e]] eqn:T end;
        intro H; inversion H; subst; cbn [b_accts set_accts]; intros x I;
        (apply pos_assets_set in I; destruct I as [I|I]; [|auto]);
        cbn [a_pf] in I;
        (destruct (pf_transact_keys _ _ _ _ _ T I) as [K|K]; [left; exact K|right; eapply acct_find_pos_in; eauto]).
    - apply queues_q_assets. eapply execute_queues; eauto.
    - revert X. unfold execute. destruct (bidask (b_dt b) (o_asset o)) as [[bid ask]|]; [|intro H; inversion H; subst; intros x []].
      destruct (acct_find p (b_accts b)) as [a|]; [|intro H; inversion H; subst; intros x []].
      match goal with |- context [pf_transact ?pf ?tx] => destruct (pf_transact pf tx) as [pf' [u|e]] end;
        intro H; inversion H; subst; simpl; intros x I; (destruct I as [I|[]] || destruct I); auto.
  Qed.

  Lemma execute_all_touch l : forall b b1 r e1,
    execute_all bidask b l = (b1, r, e1) ->
    (forall x, In x (pos_assets (b_accts b1)) -> In x (map (fun po => o_asset (snd po)) l) \/ In x (pos_assets (b_accts b))) /\
    q_assets (b_accts b1) = q_assets (b_accts b) /\
    (forall x, In x (fill_assets e1) -> In x (map (fun po => o_asset (snd po)) l)).
  Proof.
    induction l as [|[p o] l IH]; intros b b1 r e1; cbn [execute_all map].
    - intro H; inversion H; subst. split; [auto|]. split; [reflexivity|intros x []].
    - destruct (execute bidask b p o) as [[bx [u|e]] ex] eqn:X.
      + destruct (execute_all bidask bx l) as [[b2 rr] e2] eqn:XA. intro H; inversion H; subst.
        destruct (execute_touch _ _ _ _ _ _ X) as (P1 & Q1 & F1).
        destruct (IH _ _ _ _ XA) as (P2 & Q2 & F2). split; [|split].
        * intros x I. destruct (P2 x I) as [K|K]; [left; right; exact K|].
          destruct (P1 x K) as [K'|K']; [left; left; symmetry; exact K'|right; exact K'].
        * congruence.
        * intros x I. rewrite fill_assets_app in I. apply in_app_iff in I. destruct I as [I|I].
          -- left. symmetry. apply F1. exact I.
          -- right. apply F2. exact I.
      + intro H; inversion H; subst. destruct (execute_touch _ _ _ _ _ _ X) as (P1 & Q1 & F1). split; [|split].
        * intros x I. destruct (P1 x I) as [K|K]; [left; left; symmetry; exact K|right; exact K].
        * exact Q1.
        * intros x I. left. symmetry. apply F1. exact I.
  Qed.

  Lemma drained_assets l : map (fun po => o_asset (snd po)) (drained l) = q_assets l.
  Proof.
    unfold drained, q_assets. induction l as [|[k a] l IH]; simpl; auto.
    rewrite map_app, IH, map_map. reflexivity.
  Qed.
  Lemma q_assets_empty l : q_assets (empty_queues l) = [].
  Proof. unfold q_assets, empty_queues. induction l as [|[k a] l IH]; simpl; auto. Qed.
  Lemma pos_assets_empty l : pos_assets (empty_queues l) = pos_assets l.
  Proof. unfold pos_assets, empty_queues. induction l as [|[k a] l IH]; simpl; auto. rewrite IH. reflexivity. Qed.

  (** whatever an update does - refuse, stop at a missing quote, fill - it creates no position, no
      pending order and no fill in an asset that had neither a position nor a pending order *)
  Theorem update_touch b t b1 r ef :
    update bidask midp pre b t = (b1, r, ef) ->
    (forall x, In x (pos_assets (b_accts b1)) -> In x (pos_assets (b_accts b)) \/ In x (q_assets (b_accts b))) /\
    (forall x, In x (q_assets (b_accts b1)) -> In x (q_assets (b_accts b))) /\
    (forall x, In x (fill_assets ef) -> In x (q_assets (b_accts b))).
  Proof.
    unfold update.
    destruct (pre && negb (forallb (fun pa => acct_clock_ok t (is_open t) (snd pa)) (b_accts b)));
      [intro H; inversion H; subst; split; [auto|split; [auto|intros x []]]|].
    destruct (mark_all midp (b_accts (set_now b t)) t) as [l1 [u|e]] eqn:M;
      destruct (mark_all_frame _ _ _ _ _ M) as [A B];
      apply queues_q_assets in A; apply pfqty_pos_assets in B; cbn [b_accts set_now] in A, B.
    - destruct (is_open t).
      + intro H. apply execute_all_touch in H. destruct H as (P & Qq & F).
        cbn [b_accts set_accts] in P, Qq. rewrite q_assets_empty in Qq. rewrite pos_assets_empty in P.
        assert (SF : forall x, In x (map (fun po => o_asset (snd po)) (sells_first (drained l1))) -> In x (q_assets (b_accts b))).
        { intros x I. rewrite <- A, <- drained_assets. apply in_map_iff in I. destruct I as (po & E & I). subst.
          apply (in_map (fun po0 : string * order => o_asset (snd po0))). eapply Permutation_in; [apply sells_first_perm|exact I]. }
        split; [|split].
        * intros x I. destruct (P x I) as [K|K]; [right; apply SF; exact K|left; rewrite <- B; exact K].
        * intros x I. rewrite Qq in I. destruct I.
        * intros x I. apply SF. apply F. exact I.
      + intro H; inversion H; subst. cbn [b_accts set_accts]. rewrite A, B. split; [auto|split; [auto|intros x []]].
    - intro H; inversion H; subst. cbn [b_accts set_accts]. rewrite A, B. split; [auto|split; [auto|intros x []]].
  Qed.

  (** a submission adds at most its own asset to the pending orders and touches no position *)
  Theorem submit_touch b pid a q b1 r ef :
    step bidask midp pre b (Submit pid a q) = (b1, r, ef) ->
    ef = [] /\ pos_assets (b_accts b1) = pos_assets (b_accts b) /\
    (forall x, In x (q_assets (b_accts b1)) -> x = a \/ In x (q_assets (b_accts b))).
  Proof.
    intro S. destruct (submit_frame _ _ _ _ _ _ _ _ _ _ S) as (E & _ & P & _).
    split; [exact E|]. split; [apply pfs_pos_assets; exact P|].
    revert S. cbn [step]. destruct (acct_find pid (b_accts b)) as [ac|] eqn:F; intro H; inversion H; subst; [|auto].
    cbn [b_accts]. intros x I. apply q_assets_set in I. destruct I as [I|I]; [|auto]. cbn [a_q] in I.
    rewrite map_app, in_app_iff in I. destruct I as [I|[I|[]]]; [right; eapply acct_find_q_in; eauto|left; symmetry; exact I].
  Qed.

  Theorem step_update_touch b t b1 r ef :
    step bidask midp pre b (Update t) = (b1, r, ef) ->
    (forall x, In x (pos_assets (b_accts b1)) -> In x (pos_assets (b_accts b)) \/ In x (q_assets (b_accts b))) /\
    (forall x, In x (q_assets (b_accts b1)) -> In x (q_assets (b_accts b))) /\
    (forall x, In x (fill_assets ef) -> In x (q_assets (b_accts b))).
  Proof.
    cbn [step]. destruct (update bidask midp pre b t) as [[b' [u|e]] ef'] eqn:U; intro H; inversion H; subst;
      eapply update_touch; eauto.
  Qed.
End Touch.
