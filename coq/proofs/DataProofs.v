(** C06: point-in-time market data. *)
From Coq Require Import ZArith QArith String Bool List Lia Permutation Sorted.
From QS Require Import theories.Num theories.Exchange theories.Data proofs.QLemmas.
Import ListNotations.
Open Scope Z_scope.
Ltac Zify.zify_post_hook ::= Z.div_mod_to_equations.

(** * Sorting bars by date *)
Definition day_le (a b : bar) : Prop := bar_day a <= bar_day b.
Definition day_lt (a b : bar) : Prop := bar_day a < bar_day b.

Lemma insert_bar_perm b l : Permutation (insert_bar b l) (b :: l).
Proof.
  induction l as [|x r IH]; simpl; [apply Permutation_refl|].
  destruct (bar_day b <=? bar_day x); [apply Permutation_refl|].
  eapply perm_trans; [apply perm_skip; exact IH|apply perm_swap].
Qed.
Lemma sort_bars_perm l : Permutation (sort_bars l) l.
Proof.
  induction l as [|x r IH]; simpl; [constructor|].
  eapply perm_trans; [apply insert_bar_perm|apply perm_skip; exact IH].
Qed.
Lemma insert_bar_sorted b l : StronglySorted day_le l -> StronglySorted day_le (insert_bar b l).
Proof.
  induction 1 as [|x r S IH F]; simpl; [repeat constructor|].
  destruct (bar_day b <=? bar_day x) eqn:E.
  - apply Z.leb_le in E. constructor; [constructor; assumption|]. constructor; [exact E|].
    rewrite Forall_forall in *. intros z I. specialize (F z I). unfold day_le in *. lia.
  - apply Z.leb_gt in E. constructor; [exact IH|]. rewrite Forall_forall in *. intros z I.
    apply (Permutation_in _ (insert_bar_perm b r)) in I. destruct I as [I|I]; [subst; unfold day_le; lia|auto].
Qed.
Lemma sort_bars_sorted l : StronglySorted day_le (sort_bars l).
Proof. induction l as [|x r IH]; simpl; [constructor|apply insert_bar_sorted; exact IH]. Qed.

Lemma sorted_le_nodup_lt l : StronglySorted day_le l -> NoDup (map bar_day l) -> StronglySorted day_lt l.
Proof.
  induction 1 as [|x r S IH F]; simpl; intro ND; [constructor|]. inversion ND as [|? ? NI ND']; subst.
  constructor; [auto|]. rewrite Forall_forall in *. intros z I. specialize (F z I).
  unfold day_le, day_lt in *. assert (bar_day z <> bar_day x) by (intro E; apply NI; rewrite <- E; apply in_map; exact I). lia.
Qed.

Lemma sort_bars_strict l : NoDup (map bar_day l) -> StronglySorted day_lt (sort_bars l).
Proof.
  intro ND. apply sorted_le_nodup_lt; [apply sort_bars_sorted|].
  eapply Permutation_NoDup; [apply Permutation_map; apply Permutation_sym; apply sort_bars_perm|exact ND].
Qed.

(** two strictly sorted lists with the same elements are the same list *)
Lemma strict_sorted_unique l1 : forall l2,
  StronglySorted day_lt l1 -> StronglySorted day_lt l2 -> Permutation l1 l2 -> l1 = l2.
Proof.
  induction l1 as [|x r IH]; intros l2 S1 S2 P.
  - apply Permutation_nil in P. subst. reflexivity.
  - destruct l2 as [|y s]; [apply Permutation_sym, Permutation_nil in P; discriminate|].
    inversion S1 as [|? ? S1' F1]; subst. inversion S2 as [|? ? S2' F2]; subst.
    rewrite Forall_forall in F1, F2.
    assert (E : x = y).
    { assert (Ix : In x (y :: s)) by (apply (Permutation_in _ P); left; reflexivity).
      assert (Iy : In y (x :: r)) by (apply (Permutation_in _ (Permutation_sym P)); left; reflexivity).
      destruct Ix as [Ix|Ix]; [auto|]. destruct Iy as [Iy|Iy]; [auto|].
      specialize (F1 _ Iy). specialize (F2 _ Ix). unfold day_lt in *. lia. }
    subst y. f_equal. apply IH; auto. eapply Permutation_cons_inv; eauto.
Qed.

Lemma perm_filter {A} (f : A -> bool) l l' : Permutation l l' -> Permutation (filter f l) (filter f l').
Proof.
  induction 1; simpl; auto.
  - destruct (f x); auto.
  - destruct (f x), (f y); auto. apply perm_swap.
  - eapply perm_trans; eauto.
Qed.
Lemma filter_sorted_strong {A} (R : A -> A -> Prop) f l : StronglySorted R l -> StronglySorted R (filter f l).
Proof.
  induction 1 as [|x l S IH F]; simpl; [constructor|]. destruct (f x); [|assumption].
  constructor; [assumption|]. apply Forall_forall. intros y I. apply filter_In in I. destruct I as [I _].
  rewrite Forall_forall in F. auto.
Qed.

(** row order in the file is irrelevant *)
Theorem row_order_irrelevant rows rows' :
  Permutation rows rows' -> NoDup (map bar_day rows) -> sort_bars rows = sort_bars rows'.
Proof.
  intros P ND. apply strict_sorted_unique.
  - apply sort_bars_strict; exact ND.
  - apply sort_bars_strict. eapply Permutation_NoDup; [apply Permutation_map; exact P|exact ND].
  - eapply perm_trans; [apply sort_bars_perm|]. eapply perm_trans; [exact P|apply Permutation_sym, sort_bars_perm].
Qed.

(** the rows dated on or before a day, after sorting, depend only on those rows *)
Lemma early_rows_only D rows1 rows2 :
  NoDup (map bar_day rows1) -> NoDup (map bar_day rows2) ->
  Permutation (filter (fun b => bar_day b <=? D) rows1) (filter (fun b => bar_day b <=? D) rows2) ->
  filter (fun b => bar_day b <=? D) (sort_bars rows1) = filter (fun b => bar_day b <=? D) (sort_bars rows2).
Proof.
  intros N1 N2 P. apply strict_sorted_unique.
  - apply filter_sorted_strong. apply sort_bars_strict; exact N1.
  - apply filter_sorted_strong. apply sort_bars_strict; exact N2.
  - eapply perm_trans; [apply perm_filter; apply sort_bars_perm|].
    eapply perm_trans; [exact P|]. apply perm_filter. apply Permutation_sym, sort_bars_perm.
Qed.

(** * Forward fill followed by an at-or-before lookup *)
Definition last_some (prev : option Q) (l : list (option Q)) : option Q :=
  fold_left (fun acc v => match v with Some _ => v | None => acc end) l prev.
Definition time_lt (a b : Z * option Q) : Prop := fst a < fst b.

Definition lookup_spec (obs : list (Z * option Q)) (t : Z) : option Q :=
  match filter (fun x => fst x <=? t) obs with
  | [] => None
  | pre => last_some None (map snd pre)
  end.

Lemma pad_ffill t obs : forall prev acc,
  StronglySorted time_lt obs ->
  pad_lookup (ffill prev obs) t acc =
  match filter (fun x => fst x <=? t) obs with
  | [] => acc
  | pre => Some (last_some prev (map snd pre))
  end.
Proof.
  induction obs as [|[u v] r IH]; intros prev acc S; simpl; [reflexivity|].
  inversion S as [|? ? S' F]; subst.
  destruct (u <=? t) eqn:E.
  - rewrite (IH _ _ S'). simpl.
    destruct (filter (fun x => fst x <=? t) r) as [|p ps]; [reflexivity|]. reflexivity.
  - apply Z.leb_gt in E.
    assert (N : filter (fun x => fst x <=? t) r = []).
    { rewrite Forall_forall in F. clear - F E. induction r as [|y r IH]; simpl; [reflexivity|].
      assert (L : t < fst y) by (specialize (F y (or_introl eq_refl)); unfold time_lt in F; simpl in F; lia).
      destruct (fst y <=? t) eqn:E2; [apply Z.leb_le in E2; lia|]. apply IH. intros z I. apply F. right. exact I. }
    rewrite N. reflexivity.
Qed.

Lemma pad_is_spec obs t :
  StronglySorted time_lt obs ->
  match pad_lookup (ffill None obs) t None with Some v => v | None => None end = lookup_spec obs t.
Proof.
  intro S. rewrite (pad_ffill t obs None None S). unfold lookup_spec.
  destruct (filter (fun x => fst x <=? t) obs); reflexivity.
Qed.

(** observation times of strictly date-sorted rows are strictly increasing *)
Lemma obs_sorted adjust l : StronglySorted day_lt l -> StronglySorted time_lt (flat_map (bar_obs adjust) l).
Proof.
  induction 1 as [|b r S IH F]; simpl; [constructor|].
  rewrite Forall_forall in F.
  assert (G : forall x, In x (flat_map (bar_obs adjust) r) -> bar_day b * 86400 + 75600 < fst x).
  { intros x I. apply in_flat_map in I. destruct I as (c & Ic & Ix). specialize (F c Ic). unfold day_lt in F.
    simpl in Ix. destruct Ix as [Ix|[Ix|[]]]; subst; simpl; lia. }
  constructor.
  - constructor; [exact IH|]. apply Forall_forall. intros x I. unfold time_lt. simpl. apply G. exact I.
  - constructor; [unfold time_lt; simpl; lia|]. apply Forall_forall. intros x I. unfold time_lt. simpl.
    specialize (G x I). lia.
Qed.

(** * The lookup reads rows dated on or before day t only *)
Lemma filter_flat_map {A B} (p : B -> bool) (f : A -> list B) l :
  filter p (flat_map f l) = flat_map (fun x => filter p (f x)) l.
Proof.
  induction l as [|x r IH]; simpl; [reflexivity|].
  rewrite <- IH. clear IH. induction (f x) as [|y ys IHy]; simpl; [reflexivity|].
  destruct (p y); simpl; rewrite IHy; reflexivity.
Qed.

Lemma late_bar_filtered adjust t b :
  day t < bar_day b -> filter (fun x => fst x <=? t) (bar_obs adjust b) = [].
Proof.
  intro E. unfold day in E. unfold bar_obs. cbn [filter fst].
  assert (E1 : (bar_day b * 86400 + 52200 <=? t) = false) by (apply Z.leb_gt; lia).
  assert (E2 : (bar_day b * 86400 + 75600 <=? t) = false) by (apply Z.leb_gt; lia).
  rewrite E1, E2. reflexivity.
Qed.

Lemma obs_before_only adjust t l :
  filter (fun x => fst x <=? t) (flat_map (bar_obs adjust) l) =
  filter (fun x => fst x <=? t) (flat_map (bar_obs adjust) (filter (fun b => bar_day b <=? day t) l)).
Proof.
  rewrite !filter_flat_map. induction l as [|b r IH]; [reflexivity|].
  cbn [filter flat_map]. destruct (bar_day b <=? day t) eqn:E.
  - cbn [flat_map]. rewrite IH. reflexivity.
  - apply Z.leb_gt in E. rewrite (late_bar_filtered adjust t b E). exact IH.
Qed.

Theorem get_price_is_spec adjust rows t :
  NoDup (map bar_day rows) ->
  get_price false adjust rows t = lookup_spec (flat_map (bar_obs adjust) (sort_bars rows)) t.
Proof.
  intro ND. unfold get_price, series.
  rewrite <- pad_is_spec by (apply obs_sorted; apply sort_bars_strict; exact ND).
  destruct (pad_lookup _ t None); reflexivity.
Qed.

Theorem point_in_time adjust rows1 rows2 t :
  NoDup (map bar_day rows1) -> NoDup (map bar_day rows2) ->
  Permutation (filter (fun b => bar_day b <=? day t) rows1) (filter (fun b => bar_day b <=? day t) rows2) ->
  get_price false adjust rows1 t = get_price false adjust rows2 t.
Proof.
  intros N1 N2 P. rewrite !get_price_is_spec by assumption. unfold lookup_spec.
  rewrite (obs_before_only adjust t (sort_bars rows1)), (obs_before_only adjust t (sort_bars rows2)).
  rewrite (early_rows_only (day t) rows1 rows2 N1 N2 P). reflexivity.
Qed.

(** nothing before the first bar's open *)
Lemma none_before_first adjust rows t :
  NoDup (map bar_day rows) -> (forall b, In b rows -> t < bar_day b * 86400 + 52200) ->
  get_price false adjust rows t = None.
Proof.
  intros ND H. rewrite get_price_is_spec by exact ND. unfold lookup_spec.
  assert (E : filter (fun x => fst x <=? t) (flat_map (bar_obs adjust) (sort_bars rows)) = []).
  { rewrite filter_flat_map.
    assert (H' : forall b, In b (sort_bars rows) -> t < bar_day b * 86400 + 52200).
    { intros b I. apply H. apply (Permutation_in _ (sort_bars_perm rows)). exact I. }
    induction (sort_bars rows) as [|b r IH]; [reflexivity|].
    assert (L := H' b (or_introl eq_refl)). cbn [flat_map].
    assert (Z0 : filter (fun x => fst x <=? t) (bar_obs adjust b) = []).
    { unfold bar_obs. cbn [filter fst].
      assert (E1 : (bar_day b * 86400 + 52200 <=? t) = false) by (apply Z.leb_gt; lia).
      assert (E2 : (bar_day b * 86400 + 75600 <=? t) = false) by (apply Z.leb_gt; lia).
      rewrite E1, E2. reflexivity. }
    rewrite Z0. apply IH. intros c I. apply H'. right. exact I. }
  rewrite E. reflexivity.
Qed.

(** once a price is available it stays available (forward fill) *)
Lemma last_some_keeps l : forall x, exists y, last_some (Some x) l = Some y.
Proof.
  induction l as [|v r IH]; intro x; simpl; [eauto|]. destruct v as [z|]; apply IH.
Qed.
Lemma last_some_app p l1 l2 : last_some p (l1 ++ l2) = last_some (last_some p l1) l2.
Proof. unfold last_some. apply fold_left_app. Qed.

Lemma filter_le_split (obs : list (Z * option Q)) t t' :
  t <= t' -> StronglySorted time_lt obs ->
  filter (fun x => fst x <=? t') obs =
  filter (fun x => fst x <=? t) obs ++ filter (fun x => (fst x <=? t') && negb (fst x <=? t)) obs.
Proof.
  intros L S. induction S as [|x r S IH F]; simpl; [reflexivity|].
  destruct (fst x <=? t) eqn:E1.
  - apply Z.leb_le in E1. assert (E2 : (fst x <=? t') = true) by (apply Z.leb_le; lia). rewrite E2. simpl.
    rewrite IH. reflexivity.
  - apply Z.leb_gt in E1.
    assert (N : filter (fun y => fst y <=? t) r = []).
    { rewrite Forall_forall in F. clear - F E1. induction r as [|y r IHr]; simpl; [reflexivity|].
      assert (Ly : fst x < fst y) by (apply (F y); left; reflexivity).
      destruct (fst y <=? t) eqn:E2; [apply Z.leb_le in E2; lia|]. apply IHr. intros z I. apply F. right. exact I. }
    rewrite N in *. simpl. destruct (fst x <=? t'); simpl; rewrite IH; reflexivity.
Qed.

Theorem availability_monotone adjust rows t t' x :
  NoDup (map bar_day rows) -> t <= t' ->
  get_price false adjust rows t = Some x -> exists y, get_price false adjust rows t' = Some y.
Proof.
  intros ND L. rewrite !get_price_is_spec by exact ND. unfold lookup_spec.
  set (obs := flat_map (bar_obs adjust) (sort_bars rows)).
  assert (S : StronglySorted time_lt obs) by (apply obs_sorted; apply sort_bars_strict; exact ND).
  rewrite (filter_le_split obs t t' L S).
  destruct (filter (fun x0 => fst x0 <=? t) obs) as [|p ps] eqn:E; [discriminate|].
  intro H. set (more := filter (fun x0 => (fst x0 <=? t') && negb (fst x0 <=? t)) obs).
  change ((p :: ps) ++ more) with (p :: (ps ++ more)). cbv iota.
  change (p :: ps ++ more) with ((p :: ps) ++ more). rewrite map_app, last_some_app, H.
  apply last_some_keeps.
Qed.

(** * The handler's bid, ask and mid agree *)
Lemma handler_agrees sources t :
  match handler_bid sources t with
  | Some b => handler_bid_ask sources t = Some (b, b) /\ exists m, handler_mid sources t = Some m /\ (m == b)%Q
  | None => handler_bid_ask sources t = None /\ handler_mid sources t = None
  end.
Proof.
  unfold handler_mid, handler_bid_ask. destruct (handler_bid sources t) as [b|]; [|split; reflexivity].
  split; [reflexivity|]. eexists. split; [reflexivity|]. field.
Qed.
