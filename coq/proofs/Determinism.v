(** C18: why nothing a different string-hash seed can change (the enumeration order of sets and
    dicts) or a warmed-up memo can influence the results. *)
From Coq Require Import ZArith QArith Qround Qabs String Bool List Lia Lqa Permutation Sorted Morphisms.
From QS Require Import theories.Num theories.Position theories.Portfolio theories.Fees theories.Sizer theories.PCM
  theories.Signals theories.Backtest proofs.QLemmas proofs.PcmProofs.
Import ListNotations.
Open Scope Z_scope.

(** * A sorted list with distinct keys is unique among its permutations *)
Lemma sorted_unique_keys (l1 : list (string * unit)) : forall l2,
  StronglySorted key_le l1 -> StronglySorted key_le l2 ->
  NoDup (map fst l1) -> Permutation l1 l2 -> l1 = l2.
Proof.
  induction l1 as [|x r IH]; intros l2 S1 S2 ND P.
  - apply Permutation_nil in P. subst. reflexivity.
  - destruct l2 as [|y s]; [apply Permutation_sym, Permutation_nil in P; discriminate|].
    inversion S1 as [|? ? S1' F1]; subst. inversion S2 as [|? ? S2' F2]; subst.
    rewrite Forall_forall in F1, F2.
    assert (E : x = y).
    { assert (Ix : In x (y :: s)) by (apply (Permutation_in _ P); left; reflexivity).
      assert (Iy : In y (x :: r)) by (apply (Permutation_in _ (Permutation_sym P)); left; reflexivity).
      destruct Ix as [Ix|Ix]; [auto|]. destruct Iy as [Iy|Iy]; [auto|].
      specialize (F1 _ Iy). specialize (F2 _ Ix). unfold key_le in *.
      destruct x as [kx []], y as [ky []]. simpl in *. f_equal. apply String.leb_antisym; assumption. }
    subst y. f_equal. inversion ND; subst. apply IH; auto. eapply Permutation_cons_inv; eauto.
Qed.

Lemma dedup_perm l l' : Permutation l l' -> Permutation (dedup l) (dedup l').
Proof.
  intro P. apply NoDup_Permutation; try apply dedup_nodup.
  intro x. rewrite !dedup_in. split; intro I; [apply (Permutation_in _ P)|apply (Permutation_in _ (Permutation_sym P))]; exact I.
Qed.

(** the asset list a rebalance looks at does not depend on the order in which the holdings report
    or the universe enumerate their members *)
Theorem full_assets_order_irrelevant held held' univ univ' :
  Permutation held held' -> Permutation univ univ' -> full_assets held univ = full_assets held' univ'.
Proof.
  intros P1 P2. unfold full_assets. f_equal.
  assert (P : Permutation (dedup (held ++ univ)) (dedup (held' ++ univ'))) by (apply dedup_perm; apply Permutation_app; assumption).
  apply sorted_unique_keys; try apply sort_sorted.
  - eapply Permutation_NoDup; [apply Permutation_sym; apply Permutation_map; apply sort_perm|].
    rewrite map_map. simpl. rewrite map_id. apply dedup_nodup.
  - eapply perm_trans; [apply sort_perm|]. eapply perm_trans; [apply Permutation_map; exact P|].
    apply Permutation_sym, sort_perm.
Qed.

(** sums do not depend on enumeration order *)
Lemma qsum_perm l l' : Permutation l l' -> (qsum l == qsum l')%Q.
Proof.
  induction 1 as [|x l l' P IH|x y l|l l' l'' P1 IH1 P2 IH2].
  - reflexivity.
  - rewrite !qsum_cons, IH. reflexivity.
  - rewrite !qsum_cons. ring.
  - rewrite IH1. exact IH2.
Qed.

(** per-asset sizing depends on the value of its inputs only *)
Lemma fee_total_proper fee x y : (x == y)%Q -> (fee_total fee x == fee_total fee y)%Q.
Proof.
  intro H. destruct fee; simpl; [reflexivity|].
  assert (A : (Qabs x == Qabs y)%Q) by (rewrite H; reflexivity). rewrite A. reflexivity.
Qed.
Lemma lo_qty_proper E E' fee w w' p p' :
  (E == E')%Q -> (w == w')%Q -> (p == p')%Q -> lo_qty E fee w p = lo_qty E' fee w' p'.
Proof.
  intros HE Hw Hp. unfold lo_qty. apply Qfloor_comp.
  assert (A : (E * w == E' * w')%Q) by (rewrite HE, Hw; reflexivity).
  rewrite (fee_total_proper fee _ _ A), A, Hp. reflexivity.
Qed.

(** * The asset list a signal exposes to alpha models is a function of the configuration *)
Lemma update_assets_def assets univ_now :
  update_assets assets univ_now = assets ++ filter (fun a => negb (existsb (String.eqb a) assets)) univ_now.
Proof. reflexivity. Qed.

(** the pinned [update_assets] appended the new entrants in an order chosen by the string-hash
    seed: [order] is that arbitrary permutation *)
Definition update_assets_pinned (order : list string -> list string) (assets univ_now : list string) : list string :=
  assets ++ order (filter (fun a => negb (existsb (String.eqb a) assets)) univ_now).

(** * A memo in front of a pure lookup is transparent *)
Section Memo.
  Variables (K V : Type) (keq : K -> K -> bool) (f : K -> V).
  Hypothesis keq_eq : forall a b, keq a b = true -> a = b.

  Fixpoint memo_find (k : K) (c : list (K * V)) : option V :=
    match c with [] => None | (k', v) :: r => if keq k k' then Some v else memo_find k r end.
  Definition memo_get (c : list (K * V)) (k : K) : V * list (K * V) :=
    match memo_find k c with Some v => (v, c) | None => (f k, (k, f k) :: c) end.
  Definition memo_ok (c : list (K * V)) : Prop := forall k v, memo_find k c = Some v -> v = f k.

  Lemma memo_transparent c k : memo_ok c -> fst (memo_get c k) = f k /\ memo_ok (snd (memo_get c k)).
  Proof.
    intro H. unfold memo_get. destruct (memo_find k c) as [v|] eqn:F; simpl.
    - split; [apply H; exact F|exact H].
    - split; [reflexivity|]. intros k' v'. simpl. destruct (keq k' k) eqn:E.
      + apply keq_eq in E. subst. intro X; inversion X; reflexivity.
      + apply H.
  Qed.

  (** after ANY history of earlier queries the memo still answers like the function *)
  Lemma memo_history_ok (hist : list K) :
    memo_ok (fold_left (fun c k => snd (memo_get c k)) hist []).
  Proof.
    assert (G : forall hist c, memo_ok c -> memo_ok (fold_left (fun c k => snd (memo_get c k)) hist c)).
    { clear hist. induction hist as [|k r IH]; intros c H; simpl; [exact H|]. apply IH. apply memo_transparent. exact H. }
    apply G. intros k v F. discriminate.
  Qed.
End Memo.
