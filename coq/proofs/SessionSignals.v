(** C16 (session cadence) and C19 (session level): what the signals are fed during a backtest,
    and which assets can receive a weight. *)
From Coq Require Import ZArith QArith String Bool List Lia.
From QS Require Import theories.Num theories.Position theories.Portfolio theories.Fees theories.Exchange
  theories.Broker theories.Clock theories.Sizer theories.PCM theories.Signals theories.Backtest
  proofs.QLemmas proofs.SignalProofs proofs.PcmProofs proofs.BacktestProofs.
Import ListNotations.
Open Scope Z_scope.

(** the observations one market close feeds to the signals: one per tracked asset, that instant's price *)
Fixpoint obs_of (snap : snapshot) (assets : list string) : list (string * Q) :=
  match assets with
  | [] => []
  | a :: r => match snap_find a snap with Some p => (a, p) :: obs_of snap r | None => obs_of snap r end
  end.

Lemma append_all_windows lbs snap : forall assets bm bs bm' bs' hist,
  windows_ok (map S lbs) bm hist -> windows_ok lbs bs hist ->
  append_all lbs snap assets bm bs = Ok (bm', bs') ->
  windows_ok (map S lbs) bm' (hist ++ obs_of snap assets) /\ windows_ok lbs bs' (hist ++ obs_of snap assets) /\
  length (obs_of snap assets) = length assets.
Proof.
  induction assets as [|a r IH]; intros bm bs bm' bs' hist W1 W2; simpl.
  - intro H; inversion H; subst. rewrite app_nil_r. auto.
  - destruct (snap_find a snap) as [p|]; [|discriminate]. destruct (qleb p 0); [discriminate|].
    intro H. destruct (IH _ _ _ _ (hist ++ [(a, p)]) (buf_append_ok _ _ _ a p W1) (buf_append_ok _ _ _ a p W2) H) as (A & B & C).
    rewrite <- app_assoc in A, B. simpl in A, B. simpl. auto.
Qed.

(** one close: the tracked list grows by the new universe members (in universe order); every
    tracked asset receives exactly one observation, that close's price; the counter advances *)
Theorem signals_update_spec cfg g t snap g' lbs hist :
  c_lookbacks cfg = Some lbs ->
  windows_ok (map S lbs) (g_mom g) hist -> windows_ok lbs (g_sma g) hist ->
  signals_update cfg g t snap = Ok g' ->
  g_assets g' = update_assets (g_assets g) (universe_assets (c_univ cfg) t) /\
  g_warm g' = S (g_warm g) /\
  windows_ok (map S lbs) (g_mom g') (hist ++ obs_of snap (g_assets g')) /\
  windows_ok lbs (g_sma g') (hist ++ obs_of snap (g_assets g')) /\
  length (obs_of snap (g_assets g')) = length (g_assets g').
Proof.
  intros L W1 W2. unfold signals_update. rewrite L.
  destruct (append_all lbs snap (update_assets (g_assets g) (universe_assets (c_univ cfg) t)) (g_mom g) (g_sma g))
    as [[bm bs]|e] eqn:A; [|discriminate].
  intro H; inversion H; subst; simpl. destruct (append_all_windows _ _ _ _ _ _ _ _ W1 W2 A) as (X & Y & Z). auto.
Qed.

(** membership of the tracked list: an asset is tracked from the first close at which it is a
    universe member (or from the start, if it was one then), and forever after *)
Lemma update_assets_in assets univ a :
  In a (update_assets assets univ) <-> In a assets \/ In a univ.
Proof.
  unfold update_assets. rewrite in_app_iff, filter_In. split.
  - intros [H|[H _]]; auto.
  - intros [H|H]; [auto|]. destruct (existsb (String.eqb a) assets) eqn:E.
    + left. apply existsb_exists in E. destruct E as (x & I & Q). apply String.eqb_eq in Q. subst. exact I.
    + right. split; [exact H|]. reflexivity.
Qed.
Lemma update_assets_keeps assets univ : exists new, update_assets assets univ = assets ++ new.
Proof. unfold update_assets. eauto. Qed.

(** signals are touched at market closes only, and nothing else touches them *)
Lemma event_step_signals cfg sched st t k snap st' outs :
  event_step cfg sched st t k snap = (st', outs, None) ->
  match k with
  | MarketClose => signals_update cfg (ss_sig st) t snap = Ok (ss_sig st')
  | _ => ss_sig st' = ss_sig st
  end.
Proof.
  unfold event_step.
  destruct (step (snap_bidask snap) (snap_mid snap) true (ss_broker st) (Update t)) as [[b1 [u|e]] ef]; [|intro H; inversion H].
  destruct (match k with MarketClose => signals_update cfg (ss_sig st) t snap | _ => Ok (ss_sig st) end) as [g|e] eqn:SU;
    [|intro H; inversion H].
  assert (G : forall st'', ss_sig st'' = g ->
              match k with MarketClose => signals_update cfg (ss_sig st) t snap = Ok (ss_sig st'') | _ => ss_sig st'' = ss_sig st end).
  { intros st'' E. rewrite E. destruct k; try (inversion SU; reflexivity). }
  destruct (burn_ok cfg t && existsb (Z.eqb t) sched).
  - destruct (sizer_of cfg b1 snap _) as [target|e]; [|intro H; inversion H].
    destruct (submit_each snap b1 t (rebalance_orders target (held_of b1))) as [[b2 ef2] [e|]]; [intro H; inversion H|].
    intro H; inversion H; subst. apply G. reflexivity.
  - intro H; inversion H; subst. apply G. reflexivity.
Qed.

(** * C19: with the universe-driven alpha model the weighted assets are exactly the members, and the
      allocation row carries a non-member only if it is already held *)
Lemma w_find_map_const (l : list string) s a :
  w_find a (map (fun x => (x, s)) l) = if existsb (String.eqb a) l then Some s else None.
Proof.
  induction l as [|x r IH]; simpl; [reflexivity|]. destruct (String.eqb a x); [reflexivity|exact IH].
Qed.

Theorem single_signal_allocation cfg g t s held a :
  c_alpha cfg = ASingle s ->
  let fw := merge_weights (map (fun x => (x, 0%Q)) (full_assets held (universe_assets (c_univ cfg) t))) (alpha_eval cfg g t) in
  (In a (universe_assets (c_univ cfg) t) -> w_find a fw = Some s) /\
  (~ In a (universe_assets (c_univ cfg) t) -> In a (map fst fw) -> In a held /\ w_find a fw = Some 0%Q).
Proof.
  intros A fw. unfold fw, alpha_eval. rewrite A.
  set (univ := universe_assets (c_univ cfg) t).
  assert (K : map fst (map (fun x : string => (x, s)) univ) = univ) by (rewrite map_map; simpl; apply map_id).
  split.
  - intro I. rewrite merge_value.
    + rewrite w_find_map_const.
      assert (E : existsb (String.eqb a) univ = true) by (apply existsb_exists; exists a; split; [exact I|apply String.eqb_refl]).
      rewrite E. reflexivity.
    + rewrite map_map. simpl. rewrite map_id. apply (proj1 (full_assets_spec held univ a)). right. exact I.
  - intros N I. destruct (weight_keys held univ (map (fun x => (x, s)) univ) a) as [KS Z].
    apply KS in I. rewrite K in I. destruct I as [I|[I|I]]; try contradiction.
    split; [exact I|]. apply Z; [left; exact I|]. rewrite K. exact N.
Qed.
