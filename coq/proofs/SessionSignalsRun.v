(** C16 at the level of whole sessions: in every run that does not raise, after any number of clock
    events, every signal window is the most recent N prices of ITS OWN asset's closes - the closes of
    the business days since the asset was first tracked - and the tracked list, the warm-up counter
    and the observation history are functions of the configuration, the universe and the market
    only (not of fills, cash, the schedule or the alpha model). *)
From Coq Require Import ZArith QArith String Bool List Lia.
From QS Require Import theories.Num theories.Position theories.Portfolio theories.Fees theories.Exchange
  theories.Broker theories.Clock theories.Sizer theories.PCM theories.Signals theories.Backtest
  proofs.QLemmas proofs.SignalProofs proofs.PcmProofs proofs.BacktestProofs proofs.SessionSignals proofs.SpecRun.
Import ListNotations.
Open Scope Z_scope.

(** the market closes among a list of clock events *)
Definition closes_of (evs : list (Z * ekind)) : list Z :=
  flat_map (fun e => match snd e with MarketClose => [fst e] | _ => [] end) evs.

(** what the inputs alone say the signals have been fed: at each close, first the new universe
    members join the tracked list (in universe order), then each tracked asset gets that close's price *)
Fixpoint spec_tracked (cfg : config) (l : list string) (closes : list Z) : list string :=
  match closes with
  | [] => l
  | t :: r => spec_tracked cfg (update_assets l (universe_assets (c_univ cfg) t)) r
  end.
Fixpoint spec_obs (cfg : config) (market : Z -> snapshot) (l : list string) (closes : list Z) : list (string * Q) :=
  match closes with
  | [] => []
  | t :: r =>
      let l' := update_assets l (universe_assets (c_univ cfg) t) in
      obs_of (market t) l' ++ spec_obs cfg market l' r
  end.

Lemma closes_of_cons_close t r : closes_of ((t, MarketClose) :: r) = t :: closes_of r.
Proof. reflexivity. Qed.

Theorem run_signals cfg sched market lbs :
  c_lookbacks cfg = Some lbs ->
  forall evs st hist,
  windows_ok (map S lbs) (g_mom (ss_sig st)) hist -> windows_ok lbs (g_sma (ss_sig st)) hist ->
  tr_noerr (run_from cfg sched market st evs) ->
  let g' := ss_sig (end_from cfg sched market st evs) in
  let hist' := hist ++ spec_obs cfg market (g_assets (ss_sig st)) (closes_of evs) in
  windows_ok (map S lbs) (g_mom g') hist' /\ windows_ok lbs (g_sma g') hist' /\
  g_assets g' = spec_tracked cfg (g_assets (ss_sig st)) (closes_of evs) /\
  g_warm g' = (g_warm (ss_sig st) + length (closes_of evs))%nat.
Proof.
  intro L. induction evs as [|[t k] r IH]; intros st hist W1 W2 NE;
    [|change (closes_of ((t, k) :: r)) with ((match k with MarketClose => [t] | _ => [] end) ++ closes_of r)];
    cbn [run_from end_from] in *.
  - change (closes_of []) with (@nil Z). cbn [spec_obs]. rewrite app_nil_r. cbn [spec_tracked length]. rewrite Nat.add_0_r. auto.
  - destruct (event_step cfg sched st t k (market t)) as [[st' outs] [e|]] eqn:ES.
    + exfalso. apply noerr_app in NE. destruct NE as [_ NE]. exact (noerr_err _ _ NE).
    + apply noerr_app in NE. destruct NE as [_ NE].
      pose proof (event_step_signals _ _ _ _ _ _ _ _ ES) as SG.
      destruct k; cbn [snd fst app].
      * rewrite <- SG. apply (IH st' hist); [rewrite SG; exact W1|rewrite SG; exact W2|exact NE].
      * rewrite <- SG. apply (IH st' hist); [rewrite SG; exact W1|rewrite SG; exact W2|exact NE].
      * destruct (signals_update_spec cfg (ss_sig st) t (market t) (ss_sig st') lbs hist L W1 W2 SG) as (A & Wm & M & S' & _).
        cbn [spec_obs spec_tracked length]. rewrite <- A.
        destruct (IH st' (hist ++ obs_of (market t) (g_assets (ss_sig st'))) M S' NE) as (X1 & X2 & X3 & X4).
        rewrite <- app_assoc in X1, X2. split; [exact X1|]. split; [exact X2|]. split; [exact X3|]. rewrite X4, Wm. lia.
      * rewrite <- SG. apply (IH st' hist); [rewrite SG; exact W1|rewrite SG; exact W2|exact NE].
Qed.

(** from the start of a session: empty windows, nothing observed yet *)
Lemma sig_init_windows cfg lbs :
  c_lookbacks cfg = Some lbs ->
  windows_ok (map S lbs) (g_mom (sig_init cfg)) [] /\ windows_ok lbs (g_sma (sig_init cfg)) [] /\
  g_assets (sig_init cfg) = universe_assets (c_univ cfg) (c_start cfg) /\ g_warm (sig_init cfg) = 0%nat.
Proof.
  intro L. unfold sig_init. rewrite L. cbn [g_mom g_sma g_assets g_warm].
  assert (W : forall ls, windows_ok ls (flat_map (fun a => map (fun n => ((a, n), @nil Q)) ls) (universe_assets (c_univ cfg) (c_start cfg))) []).
  { intro ls. split.
    - intros b m v I. apply in_flat_map in I. destruct I as (c & _ & I).
      apply in_map_iff in I. destruct I as (k & E & _). inversion E; subst. reflexivity.
    - intros b _ S0. exfalso. apply S0. reflexivity. }
  repeat split; try apply W; reflexivity.
Qed.

Theorem session_signals cfg market st evs sched lbs :
  c_lookbacks cfg = Some lbs -> session_init cfg = Ok (st, evs, sched) ->
  forall n, tr_noerr (run_from cfg sched market st (firstn n evs)) ->
  let g' := ss_sig (end_from cfg sched market st (firstn n evs)) in
  let closes := closes_of (firstn n evs) in
  let hist := spec_obs cfg market (universe_assets (c_univ cfg) (c_start cfg)) closes in
  (forall a m w, buf_find a (S m) (g_mom g') = Some w -> w = lastn (S m) (stream_of a hist)) /\
  (forall a m w, buf_find a m (g_sma g') = Some w -> w = lastn m (stream_of a hist)) /\
  g_assets g' = spec_tracked cfg (universe_assets (c_univ cfg) (c_start cfg)) closes /\
  g_warm g' = length closes.
Proof.
  intros L SI n NE.
  assert (S0 : ss_sig st = sig_init cfg).
  { revert SI. unfold session_init.
    destruct (broker_init _ _ _ _) as [b0|]; [|discriminate].
    destruct (step _ _ true b0 (Create pid)) as [[b1 [o1|]] e1]; [|discriminate].
    destruct (step _ _ true b1 (SubPf pid (c_cash cfg))) as [[b2 [o2|]] e2]; [|discriminate].
    destruct (sim_events (c_start cfg) (c_end cfg) false false) as [evs'|]; [|discriminate].
    destruct (schedule_of cfg) as [sc|]; [|discriminate].
    destruct (if c_long_only cfg then lo_check_buffer (c_param cfg) else ls_check_leverage (c_param cfg)); [|discriminate].
    intro H; inversion H; subst. reflexivity. }
  destruct (sig_init_windows cfg lbs L) as (W1 & W2 & A0 & G0).
  rewrite <- S0 in W1, W2, A0, G0.
  destruct (run_signals cfg sched market lbs L (firstn n evs) st [] W1 W2 NE) as (X1 & X2 & X3 & X4).
  cbn [app] in X1, X2. rewrite A0 in X1, X2, X3. rewrite G0 in X4. cbn [Nat.add] in X4.
  split; [|split; [|split]].
  - intros a m w F. apply (proj1 X1 a (S m) w). apply buf_find_in. exact F.
  - intros a m w F. apply (proj1 X2 a m w). apply buf_find_in. exact F.
  - exact X3.
  - exact X4.
Qed.

(** what one close contributes to ONE asset's stream: nothing if it is not tracked; its own price, once, if it is
    (tracked lists have no duplicates) - never anything that depends on another asset *)
Lemma stream_of_obs_notin a snap l : ~ In a l -> stream_of a (obs_of snap l) = [].
Proof.
  induction l as [|b r IH]; cbn [obs_of]; intro NI; [reflexivity|].
  assert (NB : String.eqb a b = false) by (apply String.eqb_neq; intro E; apply NI; left; symmetry; exact E).
  assert (NR : ~ In a r) by (intro I; apply NI; right; exact I).
  destruct (snap_find b snap) as [p|]; [|apply IH; exact NR].
  unfold stream_of. cbn [filter fst]. rewrite NB. apply IH. exact NR.
Qed.
Lemma stream_of_obs_in a snap l :
  NoDup l -> In a l ->
  stream_of a (obs_of snap l) = match snap_find a snap with Some p => [p] | None => [] end.
Proof.
  induction l as [|b r IH]; cbn [obs_of]; intros ND I; [contradiction|].
  inversion ND as [|? ? NI ND']; subst.
  destruct (string_dec a b) as [E|NE].
  - subst b. destruct (snap_find a snap) as [p|].
    + unfold stream_of. cbn [filter fst map snd]. rewrite String.eqb_refl. cbn [map snd].
      f_equal. apply (stream_of_obs_notin a snap r NI).
    + apply stream_of_obs_notin. exact NI.
  - assert (NB : String.eqb a b = false) by (apply String.eqb_neq; exact NE).
    assert (IR : In a r) by (destruct I as [I|I]; [congruence|exact I]).
    destruct (snap_find b snap) as [p|]; [|apply IH; assumption].
    unfold stream_of. cbn [filter fst]. rewrite NB. apply IH; assumption.
Qed.
