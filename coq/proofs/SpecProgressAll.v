(** Progress for every alpha model: a session over a market that quotes every asset it can ever
    look at, at a positive price, at every clock instant, never raises (long-only: the alpha's weights
    must be non-negative, which the universe-driven model needs as a premise and the top-N and
    SMA-trend models satisfy by construction).  With [SpecRows.session_follows_rules] this makes the
    any-alpha agreement with the rules unconditional on such markets. *)
From Coq Require Import ZArith QArith Qround Qabs String Bool List Lia Lqa Permutation Sorted.
From QS Require Import theories.Num theories.Position theories.Portfolio theories.Fees theories.Exchange
  theories.Broker theories.Calendar theories.Clock theories.Schedule theories.Sizer theories.PCM theories.Signals theories.Backtest theories.Spec
  proofs.QLemmas proofs.Ledger proofs.Holdings proofs.PcmProofs proofs.ClockProofs proofs.BacktestProofs
  proofs.SpecLists proofs.SpecSizing proofs.SpecBroker proofs.SpecRun proofs.SpecProgress proofs.SpecRows.
Import ListNotations.
Open Scope Z_scope.

Section GenRun.
  Variable cfg : config.
  Variable sched : list Z.
  Variable A : list string.
  Definition sig_ok (g : sigstate) : Prop := forall x, In x (g_assets g) -> In x A.

  Hypothesis UA : forall t a, In a (universe_assets (c_univ cfg) t) -> In a A.
  Hypothesis AK : forall g t a, sig_ok g -> In a (map fst (alpha_eval cfg g t)) -> In a A.
  Hypothesis AN : forall g t, NoDup (map fst (alpha_eval cfg g t)).
  Hypothesis APOS : c_long_only cfg = true -> forall g t, Forall (fun aw => (0 <= snd aw)%Q) (alpha_eval cfg g t).

  Lemma append_all_ok lbs snap : quoted A snap -> forall assets bm bs,
    (forall a, In a assets -> In a A) -> exists r, append_all lbs snap assets bm bs = Ok r.
  Proof.
    intros QU. induction assets as [|a r IH]; intros bm bs SUB; cbn [append_all]; [eexists; reflexivity|].
    destruct (QU a (SUB a (or_introl eq_refl))) as (p & SF & PP). rewrite SF.
    assert (Q : qleb p 0 = false) by (apply qleb_gt; exact PP). rewrite Q.
    apply IH. intros x I. apply SUB. right; exact I.
  Qed.

  Lemma signals_update_ok g t snap :
    quoted A snap -> sig_ok g -> exists g', signals_update cfg g t snap = Ok g' /\ sig_ok g'.
  Proof.
    intros QU SO. unfold signals_update. destruct (c_lookbacks cfg) as [lbs|]; [|exists g; split; [reflexivity|exact SO]].
    assert (SUB : forall a, In a (update_assets (g_assets g) (universe_assets (c_univ cfg) t)) -> In a A).
    { intros a I. unfold update_assets in I. apply in_app_iff in I. destruct I as [I|I]; [apply SO; exact I|].
      apply filter_In in I. apply (UA t). tauto. }
    destruct (append_all_ok lbs snap QU _ (g_mom g) (g_sma g) SUB) as ([bm bs] & AP). rewrite AP.
    eexists. split; [reflexivity|]. exact SUB.
  Qed.

  Lemma event_step_ok_gen s T t k snap :
    Good A T (ss_broker s) -> sig_ok (ss_sig s) -> T <= t -> quoted A snap ->
    exists s' outs, event_step cfg sched s t k snap = (s', outs, None) /\ Good A t (ss_broker s') /\ sig_ok (ss_sig s').
  Proof.
    intros G SO LE QU. unfold event_step. cbn [step].
    destruct (update_ok snap A T (ss_broker s) t G LE QU) as (b1 & ef & X & D1 & pf0 & q0 & pf1 & HA0 & HA1 & ST1 & WI1).
    rewrite X.
    assert (G1 : Good A t b1) by (eexists; eexists; split; [exact HA1|]; split; assumption).
    assert (SIG : exists g, (match k with MarketClose => signals_update cfg (ss_sig s) t snap | _ => Ok (ss_sig s) end) = Ok g /\ sig_ok g).
    { destruct k; try (exists (ss_sig s); split; [reflexivity|exact SO]). apply signals_update_ok; assumption. }
    destruct SIG as (g & SIG & SG). rewrite SIG. cbv beta zeta iota.
    destruct (burn_ok cfg t && existsb (Z.eqb t) sched).
    - assert (HH : forall a, In a (map fst (held_of b1)) -> In a A).
      { intros a I. unfold held_of in I. rewrite HA1 in I. cbn [acct_find] in I. change (String.eqb pid pid) with true in I.
        cbv iota in I. cbn [a_pf] in I. rewrite map_map in I. cbn [fst] in I. apply WI1. exact I. }
      destruct (sizer_ok cfg (alpha_eval cfg g t) (universe_assets (c_univ cfg) t) (AN g t)
                         (fun LO => APOS LO g t) snap b1 A HH) as (target & SZ & TK).
      { apply UA. }
      { intros a I. apply (AK g t a SG I). }
      { exact QU. }
      rewrite SZ.
      destruct (submit_each_ok snap A t QU (rebalance_orders target (held_of b1)) b1 G1) as (b2 & ef2 & X2 & G2).
      { intros o I. apply TK. apply (orders_keys target (held_of b1)). apply in_map. exact I. }
      rewrite X2. eexists. eexists. split; [reflexivity|]. split; [exact G2|exact SG].
    - eexists. eexists. split; [reflexivity|]. split; [exact G1|exact SG].
  Qed.

  Lemma run_from_noerr_gen market : forall evs s T,
    Good A T (ss_broker s) -> sig_ok (ss_sig s) ->
    StronglySorted Z.lt (map fst evs) -> Forall (fun e => T <= fst e) evs ->
    (forall e, In e evs -> quoted A (market (fst e))) ->
    tr_noerr (run_from cfg sched market s evs).
  Proof.
    induction evs as [|[t k] r IH]; intros s T G SO SS GE QU; cbn [run_from]; [constructor|].
    inversion GE as [|? ? Ht Hr]; subst. cbn [fst] in Ht.
    cbn [map fst] in SS. inversion SS as [|? ? SS' F]; subst.
    destruct (event_step_ok_gen s T t k (market t) G SO Ht (QU (t, k) (or_introl eq_refl))) as (s' & outs & X & G' & SO').
    rewrite X. apply noerr_app. split.
    - destruct (event_step_shape _ _ _ _ _ _ _ _ X) as (_ & _ & NE). unfold tr_noerr. rewrite Forall_map. cbn [snd]. exact NE.
    - apply (IH s' t G' SO' SS').
      + apply Forall_forall. intros e I. rewrite Forall_forall in F. assert (L : t < fst e) by (apply F; apply in_map; exact I). lia.
      + intros e I. apply QU. right; exact I.
  Qed.
End GenRun.

(** * The four alpha models meet the premises *)
Definition universe_all (u : universe) : list string :=
  match u with StaticU l => l | DynamicU es => map fst es end.
Definition all_assets (cfg : config) : list string :=
  (universe_all (c_univ cfg) ++ match c_alpha cfg with AFixed w => map fst w | _ => [] end)%list.
Definition alpha_ok (cfg : config) : Prop :=
  wf_alpha cfg /\
  (c_long_only cfg = true ->
   match c_alpha cfg with
   | AFixed w => Forall (fun aw => (0 <= snd aw)%Q) w
   | ASingle s => (0 <= s)%Q
   | _ => True
   end).

Lemma universe_assets_all u t a : In a (universe_assets u t) -> In a (universe_all u).
Proof.
  destruct u as [l|es]; cbn [universe_assets universe_all]; [auto|]. intro I.
  apply in_map_iff in I. destruct I as (x & E & I). apply filter_In in I. apply in_map_iff. exists x. tauto.
Qed.

Lemma w_set_in a x (w : weights) b : In b (map fst (w_set a x w)) -> b = a \/ In b (map fst w).
Proof.
  rewrite w_set_keys. destruct (existsb (String.eqb a) (map fst w)); [auto|]. intro I.
  apply in_app_iff in I. destruct I as [I|[I|[]]]; auto.
Qed.
Lemma fold_w_set_in (f : string -> Q) l : forall (w : weights) b,
  In b (map fst (fold_left (fun w0 a => w_set a (f a) w0) l w)) -> In b (map fst w) \/ In b l.
Proof.
  induction l as [|a r IH]; intros w b; cbn [fold_left]; [auto|]. intro I.
  destruct (IH _ _ I) as [J|J]; [|right; right; exact J].
  destruct (w_set_in _ _ _ _ J) as [E|E]; [subst; right; left; reflexivity|left; exact E].
Qed.
Lemma w_set_forall (P : Q -> Prop) a x (w : weights) :
  P x -> Forall (fun aw => P (snd aw)) w -> Forall (fun aw => P (snd aw)) (w_set a x w).
Proof.
  intros Px. induction w as [|[b y] r IH]; cbn [w_set]; intro F; [constructor; [exact Px|constructor]|].
  inversion F as [|? ? Py Fr]; subst. destruct (String.eqb a b); constructor; auto.
Qed.
Lemma fold_w_set_forall (P : Q -> Prop) (f : string -> Q) l : (forall a, P (f a)) -> forall w : weights,
  Forall (fun aw => P (snd aw)) w -> Forall (fun aw => P (snd aw)) (fold_left (fun w0 a => w_set a (f a) w0) l w).
Proof.
  intros Pf. induction l as [|a r IH]; intros w F; cbn [fold_left]; [exact F|]. apply IH. apply w_set_forall; auto.
Qed.

Lemma insert_desc_in x l y : In y (insert_desc x l) -> y = x \/ In y l.
Proof.
  induction l as [|z r IH]; cbn [insert_desc]; [intros [H|[]]; auto|].
  destruct (qleb (snd z) (snd x)); [intros [H|H]; auto|]. intros [H|H]; [right; left; exact H|].
  destruct (IH H) as [E|E]; [left; exact E|right; right; exact E].
Qed.
Lemma sort_desc_in l y : In y (sort_desc l) -> In y l.
Proof.
  induction l as [|x r IH]; cbn [sort_desc fold_right]; [auto|]. intro I.
  destruct (insert_desc_in _ _ _ I) as [E|E]; [left; symmetry; exact E|right; apply IH; exact E].
Qed.
Lemma firstn_in {X} n (l : list X) x : In x (firstn n l) -> In x l.
Proof. intro I. rewrite <- (firstn_skipn n l). apply in_app_iff. left; exact I. Qed.

Section Instances.
  Variable cfg : config.
  Hypothesis OK : alpha_ok cfg.
  Let A := all_assets cfg.

  Lemma inst_UA t a : In a (universe_assets (c_univ cfg) t) -> In a A.
  Proof. intro I. unfold A, all_assets. apply in_app_iff. left. eapply universe_assets_all; exact I. Qed.

  Lemma inst_AK g t a : sig_ok A g -> In a (map fst (alpha_eval cfg g t)) -> In a A.
  Proof.
    intros SO. unfold alpha_eval, A, all_assets. destruct (c_alpha cfg) as [w|s|lb n|lb] eqn:EA; intro I.
    - apply in_app_iff. right; exact I.
    - rewrite map_map in I. cbn [fst] in I. rewrite map_id in I. apply in_app_iff. left. eapply universe_assets_all; exact I.
    - assert (Z0 : forall b, In b (map fst (fold_left (fun w0 a0 => w_set a0 0%Q w0) (universe_assets (c_univ cfg) t) [])) ->
                     In b (universe_assets (c_univ cfg) t)).
      { intros b J. destruct (fold_w_set_in (fun _ => 0%Q) _ _ _ J) as [[]|K]; exact K. }
      destruct (Nat.leb lb (g_warm g)).
      + destruct (fold_w_set_in (fun _ => (1 / inject_Z (Z.of_nat n))%Q) _ _ _ I) as [J|J].
        * apply in_app_iff. left. eapply universe_assets_all. apply Z0. exact J.
        * apply firstn_in in J. apply in_map_iff in J. destruct J as ([b m] & E & J). cbn [fst] in E. subst b.
          apply sort_desc_in in J. apply in_map_iff in J. destruct J as (c & E & J). inversion E; subst.
          assert (K := SO _ J). unfold A, all_assets in K. rewrite EA in K. exact K.
      + apply in_app_iff. left. eapply universe_assets_all. apply Z0. exact I.
    - match type of I with In a (map fst (fold_left ?F ?l [])) => idtac end.
      apply in_app_iff. left. eapply universe_assets_all.
      destruct (fold_w_set_in (fun a0 =>
        match (match buf_find a0 1 (g_sma g) with Some b => Signals.sma b | None => None end),
              (match buf_find a0 lb (g_sma g) with Some b => Signals.sma b | None => None end) with
        | Some x, Some y => if qltb y x then 1%Q else 0%Q
        | _, _ => 0%Q
        end) _ _ _ I) as [[]|K]; exact K.
  Qed.

  Lemma inst_APOS : c_long_only cfg = true -> forall g t, Forall (fun aw => (0 <= snd aw)%Q) (alpha_eval cfg g t).
  Proof.
    intros LO g t. destruct OK as [_ POS]. specialize (POS LO). unfold alpha_eval.
    destruct (c_alpha cfg) as [w|s|lb n|lb].
    - exact POS.
    - apply Forall_forall. intros x I. apply in_map_iff in I. destruct I as (b & E & _). subst x. exact POS.
    - assert (Z0 : Forall (fun aw : string * Q => (0 <= snd aw)%Q)
                     (fold_left (fun w0 a0 => w_set a0 0%Q w0) (universe_assets (c_univ cfg) t) [])).
      { apply (fold_w_set_forall (fun q => (0 <= q)%Q) (fun _ => 0%Q)); [intros; lra|constructor]. }
      destruct (Nat.leb lb (g_warm g)); [|exact Z0].
      apply (fold_w_set_forall (fun q => (0 <= q)%Q) (fun _ => (1 / inject_Z (Z.of_nat n))%Q)); [|exact Z0].
      intros _. unfold Qdiv. rewrite Qmult_1_l. apply Qinv_le_0_compat.
      change 0%Q with (inject_Z 0). rewrite <- Zle_Qle. lia.
    - apply (fold_w_set_forall (fun q => (0 <= q)%Q) (fun a0 =>
        match (match buf_find a0 1 (g_sma g) with Some b => Signals.sma b | None => None end),
              (match buf_find a0 lb (g_sma g) with Some b => Signals.sma b | None => None end) with
        | Some x, Some y => if qltb y x then 1%Q else 0%Q
        | _, _ => 0%Q
        end)); [|constructor].
      intros a0. destruct (match buf_find a0 1 (g_sma g) with Some b => Signals.sma b | None => None end);
        destruct (match buf_find a0 lb (g_sma g) with Some b => Signals.sma b | None => None end); try lra.
      destruct (qltb q0 q); lra.
  Qed.

  Theorem any_session_never_raises market tr :
    tod (c_start cfg) <= 52200 ->
    (forall t k, In (t, k) (flat_map (day_events false false) (bdays (c_start cfg) (c_end cfg))) -> quoted A (market t)) ->
    run cfg market = Ok tr -> tr_noerr tr.
  Proof.
    intros TOD QU. unfold run. destruct (session_init cfg) as [[[s0 evs] sched]|e] eqn:SI; [|discriminate].
    intro X; inversion X; subst tr; clear X.
    destruct (init_good cfg s0 evs sched A SI) as [G EVS]. subst evs.
    assert (S0 : sig_ok A (ss_sig s0)).
    { revert SI. unfold session_init.
      destruct (broker_init _ _ _ _) as [b0|]; [|discriminate].
      destruct (step _ _ true b0 (Create pid)) as [[b1 [o1|]] e1]; [|discriminate].
      destruct (step _ _ true b1 (SubPf pid (c_cash cfg))) as [[b2 [o2|]] e2]; [|discriminate].
      destruct (sim_events (c_start cfg) (c_end cfg) false false); [|discriminate].
      destruct (schedule_of cfg); [|discriminate].
      destruct (if c_long_only cfg then lo_check_buffer (c_param cfg) else ls_check_leverage (c_param cfg)); [|discriminate].
      intro H; inversion H; subst. cbn [ss_sig]. unfold sig_ok, sig_init.
      destruct (c_lookbacks cfg); cbn [g_assets]; intros x I; eapply inst_UA; exact I. }
    destruct OK as [WF _].
    apply (run_from_noerr_gen cfg sched A inst_UA inst_AK (fun g t => alpha_eval_nodup cfg g t WF) inst_APOS market _ s0 (c_start cfg) G S0).
    - apply flat_events_sorted. apply bdays_sorted.
    - apply Forall_forall. intros [t k] I. cbn [fst]. apply in_events in I. destruct I as (d & ID & H).
      apply in_bdays in ID. destruct ID as ([D0 _] & _ & _).
      assert (ST : c_start cfg = day (c_start cfg) * 86400 + tod (c_start cfg)).
      { unfold day, tod. rewrite Z.mul_comm. apply Z.div_mod. lia. }
      destruct H as [(P & _)|[(E & _)|[(E & _)|(P & _)]]]; try discriminate; subst t; lia.
    - intros [t k] I. apply (QU t k). exact I.
  Qed.
End Instances.

(** * Any alpha model, quoted market: no error, and the rules from the recorded allocations *)
Theorem any_session_follows_rules_quoted cfg market tr :
  alpha_ok cfg -> tod (c_start cfg) <= 52200 ->
  (forall t k, In (t, k) (flat_map (day_events false false) (bdays (c_start cfg) (c_end cfg))) ->
               quoted (all_assets cfg) (market t)) ->
  run cfg market = Ok tr ->
  tr_noerr tr /\
  exists sched s_end st days,
    schedule_of cfg = Ok sched /\ end_state cfg market = Some s_end /\
    spec_run_rows (spec_base cfg sched) market (tr_allocs tr) = Some (st, [], days) /\
    tr_fills tr = spec_fills days /\
    Forall2 same_equity (tr_equity tr) (spec_equity days) /\
    (cash_of pid (ss_broker s_end) == st_cash st)%Q /\
    held_of (ss_broker s_end) = st_hold st /\
    pending_of (ss_broker s_end) = st_pending st.
Proof.
  intros OK TOD QU RUN.
  assert (NE : tr_noerr tr) by (eapply any_session_never_raises; eauto).
  split; [exact NE|]. apply session_follows_rules; [apply OK|exact RUN|exact NE].
Qed.
