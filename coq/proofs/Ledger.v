(** C01: the cash ledger of the simulated broker. *)
From Coq Require Import ZArith QArith Qround Qabs String Bool List Lia Lqa Morphisms Setoid.
From QS Require Import theories.Num theories.Position theories.Portfolio theories.Fees
  theories.Exchange theories.Broker proofs.QLemmas.
Import ListNotations.
Open Scope Q_scope.

(** * Ledger views of an effect log *)
Definition fill_cost (tx : txn) : Q := t_price tx * t_qty tx + t_comm tx.

Fixpoint xfer_sum (pid : string) (es : list effect) : Q :=
  match es with
  | [] => 0
  | XferIn p a _ :: r => (if String.eqb pid p then a else 0) + xfer_sum pid r
  | XferOut p a _ :: r => (if String.eqb pid p then - a else 0) + xfer_sum pid r
  | _ :: r => xfer_sum pid r
  end.
Fixpoint fill_sum (pid : string) (es : list effect) : Q :=
  match es with
  | [] => 0
  | Fill p tx :: r => (if String.eqb pid p then fill_cost tx else 0) + fill_sum pid r
  | _ :: r => fill_sum pid r
  end.
Fixpoint ext_sum (es : list effect) : Q :=
  match es with
  | [] => 0
  | ExtIn a :: r => a + ext_sum r
  | ExtOut a :: r => - a + ext_sum r
  | _ :: r => ext_sum r
  end.
Fixpoint xfer_all (es : list effect) : Q :=
  match es with
  | [] => 0
  | XferIn _ a _ :: r => a + xfer_all r
  | XferOut _ a _ :: r => - a + xfer_all r
  | _ :: r => xfer_all r
  end.
Fixpoint fill_all (es : list effect) : Q :=
  match es with
  | [] => 0
  | Fill _ tx :: r => fill_cost tx + fill_all r
  | _ :: r => fill_all r
  end.

Lemma xfer_sum_app pid e1 e2 : xfer_sum pid (e1 ++ e2) == xfer_sum pid e1 + xfer_sum pid e2.
Proof. induction e1 as [|[| | | |] e1 IH]; simpl; try rewrite IH; ring. Qed.
Lemma fill_sum_app pid e1 e2 : fill_sum pid (e1 ++ e2) == fill_sum pid e1 + fill_sum pid e2.
Proof. induction e1 as [|[| | | |] e1 IH]; simpl; try rewrite IH; ring. Qed.
Lemma ext_sum_app e1 e2 : ext_sum (e1 ++ e2) == ext_sum e1 + ext_sum e2.
Proof. induction e1 as [|[| | | |] e1 IH]; simpl; try rewrite IH; ring. Qed.
Lemma xfer_all_app e1 e2 : xfer_all (e1 ++ e2) == xfer_all e1 + xfer_all e2.
Proof. induction e1 as [|[| | | |] e1 IH]; simpl; try rewrite IH; ring. Qed.
Lemma fill_all_app e1 e2 : fill_all (e1 ++ e2) == fill_all e1 + fill_all e2.
Proof. induction e1 as [|[| | | |] e1 IH]; simpl; try rewrite IH; ring. Qed.

(** * Cash of a portfolio (0 if it does not exist) *)
Definition acct_cash (pid : string) (l : list (string * acct)) : Q :=
  match acct_find pid l with Some a => pf_cash (a_pf a) | None => 0 end.
Definition cash_of (pid : string) (b : broker) : Q := acct_cash pid (b_accts b).

Lemma acct_find_set_same pid a l : acct_find pid (acct_set pid a l) = Some a.
Proof.
  induction l as [|[k x] l IH]; simpl.
  - rewrite String.eqb_refl. reflexivity.
  - destruct (String.eqb pid k) eqn:E; simpl; rewrite E; auto.
Qed.
Lemma acct_find_set_other pid q a l : String.eqb pid q = false ->
  acct_find pid (acct_set q a l) = acct_find pid l.
Proof.
  intro N. induction l as [|[k x] l IH]; simpl.
  - rewrite N. reflexivity.
  - destruct (String.eqb q k) eqn:E; simpl.
    + apply String.eqb_eq in E. subst k. rewrite N. reflexivity.
    + destruct (String.eqb pid k); auto.
Qed.
Lemma acct_find_app_new pid q a l : acct_find q l = None ->
  acct_find pid (l ++ [(q, a)]) = if String.eqb pid q then Some a else acct_find pid l.
Proof.
  intro N. induction l as [|[k x] l IH]; simpl in *.
  - destruct (String.eqb pid q); reflexivity.
  - destruct (String.eqb q k) eqn:E; [discriminate|].
    destruct (String.eqb pid k) eqn:E2.
    + apply String.eqb_eq in E2. subst k.
      destruct (String.eqb pid q) eqn:E3; auto.
      apply String.eqb_eq in E3. subst q. rewrite String.eqb_refl in E. discriminate.
    + apply IH. assumption.
Qed.

Lemma acct_cash_set pid q a l :
  acct_cash pid (acct_set q a l) = if String.eqb pid q then pf_cash (a_pf a) else acct_cash pid l.
Proof.
  unfold acct_cash. destruct (String.eqb pid q) eqn:E.
  - apply String.eqb_eq in E. subst q. rewrite acct_find_set_same. reflexivity.
  - rewrite acct_find_set_other by assumption. reflexivity.
Qed.

(** * Portfolio-level facts *)
Lemma pf_subscribe_cash pf dt a pf' r : pf_subscribe pf dt a = (pf', r) ->
  match r with
  | Ok _ => pf_cash pf' == pf_cash pf + a
  | Err _ => pf_cash pf' = pf_cash pf
  end.
Proof.
  unfold pf_subscribe. destruct (dt <? pf_dt pf)%Z; [intro H; inversion H; reflexivity|].
  destruct (qltb a 0); intro H; inversion H; subst; simpl; [reflexivity|]. apply qadd_ok.
Qed.
Lemma pf_withdraw_cash pf dt a pf' r : pf_withdraw pf dt a = (pf', r) ->
  match r with
  | Ok _ => pf_cash pf' == pf_cash pf - a
  | Err _ => pf_cash pf' = pf_cash pf
  end.
Proof.
  unfold pf_withdraw. destruct (dt <? pf_dt pf)%Z; [intro H; inversion H; reflexivity|].
  destruct (qltb a 0); [intro H; inversion H; reflexivity|].
  destruct (qltb (pf_cash pf) a); intro H; inversion H; subst; simpl; [reflexivity|]. apply qsub_ok.
Qed.
Lemma pf_transact_cash pf tx pf' r : pf_transact pf tx = (pf', r) ->
  match r with
  | Ok _ => pf_cash pf' == pf_cash pf - fill_cost tx
  | Err _ => pf_cash pf' = pf_cash pf
  end.
Proof.
  unfold pf_transact. destruct (t_dt tx <? pf_dt pf)%Z; [intro H; inversion H; reflexivity|].
  destruct (ph_transact (pf_pos pf) tx) as [ps [u|e]]; intro H; inversion H; subst; simpl; [|reflexivity].
  unfold fill_cost. qn. reflexivity.
Qed.
Lemma pf_mark_cash pf a p t pf' r : pf_mark pf a p t = (pf', r) -> pf_cash pf' = pf_cash pf.
Proof.
  unfold pf_mark. destruct (pos_find a (pf_pos pf)); [|intro H; inversion H; reflexivity].
  destruct (qltb p 0); [intro H; inversion H; reflexivity|].
  destruct (t <? pf_dt pf)%Z; [intro H; inversion H; reflexivity|].
  destruct (pos_update_price p0 p t). intro H; inversion H; reflexivity.
Qed.

Section Ledger.
  Variable bidask : Z -> string -> option (Q * Q).
  Variable midp : Z -> string -> option Q.
  Variable pre : bool.

  Lemma mark_assets_cash pf assets t pf' r :
    mark_assets midp pf assets t = (pf', r) -> pf_cash pf' = pf_cash pf.
  Proof.
    revert pf. induction assets as [|a l IH]; intros pf; simpl.
    - intro H; inversion H; reflexivity.
    - destruct (midp t a); [|intro H; inversion H; reflexivity].
      destruct (pf_mark pf a q t) as [pf1 [u|e]] eqn:M.
      + intro H. rewrite (IH _ H). eapply pf_mark_cash; eauto.
      + intro H; inversion H; subst. eapply pf_mark_cash; eauto.
  Qed.

  Lemma mark_all_cash l t l1 r pid :
    mark_all midp l t = (l1, r) -> acct_cash pid l1 = acct_cash pid l.
  Proof.
    revert l1 r. induction l as [|[k a] l IH]; intros l1 r; simpl.
    - intro H; inversion H; reflexivity.
    - destruct (mark_assets midp (a_pf a) (map fst (pf_pos (a_pf a))) t) as [pf1 [u|e]] eqn:M.
      + destruct (mark_all midp l t) as [r1 rr] eqn:MA. intro H; inversion H; subst.
        unfold acct_cash in *. simpl. destruct (String.eqb pid k).
        * simpl. eapply mark_assets_cash; eauto.
        * eapply IH; eauto.
      + intro H; inversion H; subst. unfold acct_cash. simpl. destruct (String.eqb pid k); auto.
        simpl. eapply mark_assets_cash; eauto.
  Qed.

  Lemma empty_queues_cash l pid : acct_cash pid (empty_queues l) = acct_cash pid l.
  Proof.
    unfold acct_cash. induction l as [|[k a] l IH]; simpl; auto.
    destruct (String.eqb pid k); auto.
  Qed.

  (** one execution *)
  Lemma execute_ledger b p o b1 r e1 pid :
    execute bidask b p o = (b1, r, e1) ->
    b_cash b1 = b_cash b /\
    cash_of pid b1 == cash_of pid b - fill_sum pid e1 /\
    xfer_sum pid e1 == 0 /\ ext_sum e1 == 0 /\ xfer_all e1 == 0.
  Proof.
    unfold execute.
    destruct (bidask (b_dt b) (o_asset o)) as [[bid ask]|]; [|intro H; inversion H; subst; simpl; repeat split; try reflexivity; ring].
    destruct (acct_find p (b_accts b)) as [a|] eqn:F; [|intro H; inversion H; subst; simpl; repeat split; try reflexivity; ring].
    match goal with |- context [pf_transact ?pf ?tx] => destruct (pf_transact pf tx) as [pf' [u|e]] eqn:T end;
      intro H; inversion H; subst; clear H; apply pf_transact_cash in T; simpl;
      (split; [reflexivity|]); (split; [|repeat split; reflexivity]);
      unfold cash_of; simpl; rewrite acct_cash_set; destruct (String.eqb pid p) eqn:E; simpl.
    - apply String.eqb_eq in E. subst p. unfold acct_cash. rewrite F. rewrite T. ring.
    - ring.
    - apply String.eqb_eq in E. subst p. unfold acct_cash. rewrite F. rewrite T. ring.
    - ring.
  Qed.

  Lemma execute_all_ledger l : forall b b1 r e1 pid,
    execute_all bidask b l = (b1, r, e1) ->
    b_cash b1 = b_cash b /\
    cash_of pid b1 == cash_of pid b - fill_sum pid e1 /\
    xfer_sum pid e1 == 0 /\ ext_sum e1 == 0 /\ xfer_all e1 == 0.
  Proof.
    induction l as [|[p o] l IH]; intros b b1 r e1 pid; simpl.
    - intro H; inversion H; subst; simpl. repeat split; try reflexivity; ring.
    - destruct (execute bidask b p o) as [[bx [u|e]] ex] eqn:X.
      + destruct (execute_all bidask bx l) as [[b2 rr] e2] eqn:XA. intro H; inversion H; subst.
        destruct (execute_ledger _ _ _ _ _ _ pid X) as (A1 & A2 & A3 & A4 & A5).
        destruct (IH _ _ _ _ pid XA) as (B1 & B2 & B3 & B4 & B5).
        split; [congruence|].
        rewrite fill_sum_app, xfer_sum_app, ext_sum_app, xfer_all_app.
        rewrite B2, A2, A3, A4, A5, B3, B4, B5. repeat split; ring.
      + intro H; inversion H; subst. eapply execute_ledger; eauto.
  Qed.

  Lemma update_ledger b t b1 r e1 pid :
    update bidask midp pre b t = (b1, r, e1) ->
    b_cash b1 = b_cash b /\
    cash_of pid b1 == cash_of pid b - fill_sum pid e1 /\
    xfer_sum pid e1 == 0 /\ ext_sum e1 == 0 /\ xfer_all e1 == 0.
  Proof.
    unfold update.
    destruct (pre && negb (forallb (fun pa => acct_clock_ok t (is_open t) (snd pa)) (b_accts b))).
    { intro H; inversion H; subst; simpl. repeat split; try reflexivity; ring. }
    destruct (mark_all midp (b_accts (set_now b t)) t) as [l1 [u|e]] eqn:M.
    - destruct (is_open t).
      + intro H. destruct (execute_all_ledger _ _ _ _ _ pid H) as (A1 & A2 & A3).
        split; [exact A1|]. split; [|exact A3].
        rewrite A2. unfold cash_of. simpl. rewrite empty_queues_cash.
        rewrite (mark_all_cash _ _ _ _ pid M). simpl. reflexivity.
      + intro H; inversion H; subst; simpl. split; [reflexivity|].
        unfold cash_of. simpl. rewrite (mark_all_cash _ _ _ _ pid M). simpl.
        repeat split; ring.
    - intro H; inversion H; subst; simpl. split; [reflexivity|].
      unfold cash_of. simpl. rewrite (mark_all_cash _ _ _ _ pid M). simpl.
      repeat split; ring.
  Qed.

  (** * The one-step ledger *)
  Lemma step_ledger b o b1 r e1 pid :
    step bidask midp pre b o = (b1, r, e1) ->
    b_cash b1 == b_cash b + ext_sum e1 - xfer_all e1 /\
    cash_of pid b1 == cash_of pid b + xfer_sum pid e1 - fill_sum pid e1.
  Proof.
    destruct o; simpl.
    - (* SubAcct *) destruct (qltb a 0); intro H; inversion H; subst; simpl; unfold cash_of; simpl; qn; split; ring.
    - (* WdAcct *) destruct (qltb a 0); [intro H; inversion H; subst; simpl; split; ring|].
      destruct (qltb (b_cash b) a); intro H; inversion H; subst; simpl; unfold cash_of; simpl; qn; split; ring.
    - (* Create *) destruct (acct_find pid0 (b_accts b)) eqn:F; intro H; inversion H; subst; simpl; (split; [ring|]).
      + ring.
      + unfold cash_of, acct_cash. simpl. rewrite acct_find_app_new by assumption.
        destruct (String.eqb pid pid0) eqn:E.
        * apply String.eqb_eq in E. subst. rewrite F. simpl. ring.
        * ring.
    - (* SubPf *) destruct (qltb a 0); [intro H; inversion H; subst; simpl; split; ring|].
      destruct (acct_find pid0 (b_accts b)) as [ac|] eqn:F; [|intro H; inversion H; subst; simpl; split; ring].
      destruct (qltb (b_cash b) a); [intro H; inversion H; subst; simpl; split; ring|].
      destruct (pf_subscribe (a_pf ac) (b_dt b) a) as [pf' [u|e]] eqn:S; intro H; inversion H; subst; clear H;
        apply pf_subscribe_cash in S; simpl; unfold cash_of; simpl; rewrite acct_cash_set; qn.
      + split; [ring|]. destruct (String.eqb pid pid0) eqn:E; simpl; [|ring].
        apply String.eqb_eq in E. subst. unfold acct_cash. rewrite F, S. ring.
      + split; [ring|]. destruct (String.eqb pid pid0) eqn:E; simpl; [|ring].
        apply String.eqb_eq in E. subst. unfold acct_cash. rewrite F, S. ring.
    - (* WdPf *) destruct (qltb a 0); [intro H; inversion H; subst; simpl; split; ring|].
      destruct (acct_find pid0 (b_accts b)) as [ac|] eqn:F; [|intro H; inversion H; subst; simpl; split; ring].
      destruct (qltb (pf_cash (a_pf ac)) a); [intro H; inversion H; subst; simpl; split; ring|].
      destruct (pf_withdraw (a_pf ac) (b_dt b) a) as [pf' [u|e]] eqn:S; intro H; inversion H; subst; clear H;
        apply pf_withdraw_cash in S; simpl; unfold cash_of; simpl; rewrite acct_cash_set; qn.
      + split; [ring|]. destruct (String.eqb pid pid0) eqn:E; simpl; [|ring].
        apply String.eqb_eq in E. subst. unfold acct_cash. rewrite F, S. ring.
      + split; [ring|]. destruct (String.eqb pid pid0) eqn:E; simpl; [|ring].
        apply String.eqb_eq in E. subst. unfold acct_cash. rewrite F, S. ring.
    - (* Submit *) destruct (acct_find pid0 (b_accts b)) as [ac|] eqn:F; intro H; inversion H; subst; simpl;
        [|split; ring].
      split; [ring|]. unfold cash_of; simpl. rewrite acct_cash_set. destruct (String.eqb pid pid0) eqn:E; simpl; [|ring].
      apply String.eqb_eq in E. subst. unfold acct_cash. rewrite F. ring.
    - (* Update *) destruct (update bidask midp pre b t) as [[b' [u|e]] ef] eqn:U; intro H; inversion H; subst;
        destruct (update_ledger _ _ _ _ _ pid U) as (A1 & A2 & A3 & A4 & A5);
        rewrite A1, A2, A3, A4, A5; split; ring.
    - destruct cur as [c|]; [match goal with |- (if ?x then _ else _) = _ -> _ => destruct x end|];
        intro H; inversion H; subst; simpl; split; ring.

    - intro H; inversion H; subst; simpl; split; ring.
    - intro H; inversion H; subst; simpl; split; ring.
    - destruct (acct_find pid0 (b_accts b)); intro H; inversion H; subst; simpl; split; ring.
    - destruct (acct_find pid0 (b_accts b)); intro H; inversion H; subst; simpl; split; ring.
    - destruct (acct_find pid0 (b_accts b)); intro H; inversion H; subst; simpl; split; ring.
  Qed.

  (** * Every reachable state: induction over the operation list *)
  Lemma run_ledger ops : forall b b1 rs es pid,
    run bidask midp pre b ops = (b1, rs, es) ->
    b_cash b1 == b_cash b + ext_sum es - xfer_all es /\
    cash_of pid b1 == cash_of pid b + xfer_sum pid es - fill_sum pid es.
  Proof.
    induction ops as [|o ops IH]; intros b b1 rs es pid; simpl.
    - intro H; inversion H; subst; simpl. split; ring.
    - destruct (step bidask midp pre b o) as [[bx r1] e1] eqn:S.
      destruct (run bidask midp pre bx ops) as [[b2 rs2] e2] eqn:R.
      intro H; inversion H; subst.
      destruct (step_ledger _ _ _ _ _ pid S) as [A1 A2].
      destruct (IH _ _ _ _ pid R) as [B1 B2].
      rewrite ext_sum_app, xfer_all_app, xfer_sum_app, fill_sum_app, B1, B2, A1, A2. split; ring.
  Qed.
End Ledger.
