(** C15: refused operations change nothing (clocks excluded, as in the property's list). *)
From Coq Require Import ZArith QArith Qround Qabs String Bool List Lia Lqa.
From QS Require Import theories.Val theories.Num theories.Position theories.Portfolio theories.Fees
  theories.Exchange theories.Broker theories.EntryBroker proofs.QLemmas proofs.Ledger.
Import ListNotations.
Open Scope Q_scope.

(** * Observables: everything the property lists; clocks are not in the list *)
Definition pos_obs (p : position) := (p_price p, p_bq p, p_sq p, p_avgb p, p_avgs p, p_bc p, p_sc p).
Definition positions_obs (ps : positions) := map (fun ap => (fst ap, pos_obs (snd ap))) ps.
Definition pf_obs (pf : portfolio) := (pf_cash pf, positions_obs (pf_pos pf), pf_hist pf).
Definition acct_obs (pa : string * acct) := (fst pa, pf_obs (a_pf (snd pa)), a_q (snd pa)).
Definition broker_obs (b : broker) := (b_cash b, map acct_obs (b_accts b)).

(** the refusal reasons the property enumerates *)
Definition listed (e : err) : bool :=
  match e with
  | NegativeAmount | Overdraw | UnknownPortfolio | UnknownPortfolioVE | DuplicatePortfolio
  | BadCurrency | EarlyTimestamp | NegativeMark => true
  | _ => false
  end.

(** * Portfolio level *)
Lemma pos_set_same a p ps : pos_find a ps = Some p -> pos_set a p ps = ps.
Proof.
  induction ps as [|[b q] r IH]; simpl; [discriminate|].
  destruct (String.eqb a b) eqn:E.
  - intro H; inversion H; subst. reflexivity.
  - intro H. rewrite IH by assumption. reflexivity.
Qed.
Lemma pos_set_obs a p p' ps : pos_find a ps = Some p -> pos_obs p' = pos_obs p ->
  positions_obs (pos_set a p' ps) = positions_obs ps.
Proof.
  unfold positions_obs. induction ps as [|[b q] r IH]; simpl; [discriminate|].
  destruct (String.eqb a b) eqn:E.
  - intros H O; inversion H; subst. simpl. rewrite O. reflexivity.
  - intros H O. simpl. rewrite IH by assumption. reflexivity.
Qed.

Lemma pos_update_price_err p price dt p' e :
  pos_update_price p price dt = (p', Err e) -> pos_obs p' = pos_obs p.
Proof.
  unfold pos_update_price. destruct (dt <? p_dt p)%Z; [intro H; inversion H; reflexivity|].
  destruct (qleb price 0); intro H; inversion H; reflexivity.
Qed.

Theorem pstep_rejected_noop pf o pf' e :
  pstep pf o = (pf', Err e) ->
  match o with PTxn _ => e = EarlyTimestamp /\ (t_dt (match o with PTxn tx => tx | _ => mkTxn "" 0 0 0 0 0 end) <? pf_dt pf)%Z = true
             | _ => True end ->
  pf_obs pf' = pf_obs pf.
Proof.
  destruct o; simpl.
  - unfold pf_subscribe. destruct (dt <? pf_dt pf)%Z; [intros H _; inversion H; reflexivity|].
    destruct (qltb a 0); intros H _; inversion H; reflexivity.
  - unfold pf_withdraw. destruct (dt <? pf_dt pf)%Z; [intros H _; inversion H; reflexivity|].
    destruct (qltb a 0); [intros H _; inversion H; reflexivity|].
    destruct (qltb (pf_cash pf) a); intros H _; inversion H; reflexivity.
  - unfold pf_transact. intros H [_ C]. rewrite C in H. inversion H; reflexivity.
  - unfold pf_mark. destruct (pos_find a (pf_pos pf)) as [p|] eqn:F; [|intros H _; inversion H].
    destruct (qltb price 0); [intros H _; inversion H; reflexivity|].
    destruct (dt <? pf_dt pf)%Z; [intros H _; inversion H; reflexivity|].
    destruct (pos_update_price p price dt) as [p' r] eqn:U. intros H _; inversion H; subst.
    unfold pf_obs. simpl. rewrite (pos_set_obs a p p' _ F (pos_update_price_err _ _ _ _ _ U)). reflexivity.
Qed.

(** refusal table, Portfolio level: exactly when each request is refused *)
Lemma pf_subscribe_refused pf dt a :
  (exists pf' e, pf_subscribe pf dt a = (pf', Err e)) <-> ((dt < pf_dt pf)%Z \/ a < 0).
Proof.
  unfold pf_subscribe. destruct (dt <? pf_dt pf)%Z eqn:T.
  - apply Z.ltb_lt in T. split; [auto|]. intros _. eauto.
  - apply Z.ltb_ge in T. destruct (qltb a 0) eqn:A.
    + apply qltb_lt in A. split; [auto|]. intros _. eauto.
    + apply qltb_ge in A. split.
      * intros (pf' & e & H). inversion H.
      * intros [H|H]; [lia|]. exfalso. apply (Qlt_not_le _ _ H A).
Qed.
Lemma pf_withdraw_refused pf dt a :
  (exists pf' e, pf_withdraw pf dt a = (pf', Err e)) <-> ((dt < pf_dt pf)%Z \/ a < 0 \/ pf_cash pf < a).
Proof.
  unfold pf_withdraw. destruct (dt <? pf_dt pf)%Z eqn:T.
  - apply Z.ltb_lt in T. split; [auto|]. intros _. eauto.
  - apply Z.ltb_ge in T. destruct (qltb a 0) eqn:A.
    + apply qltb_lt in A. split; [auto|]. intros _. eauto.
    + apply qltb_ge in A. destruct (qltb (pf_cash pf) a) eqn:C.
      * apply qltb_lt in C. split; [auto|]. intros _. eauto.
      * apply qltb_ge in C. split.
        -- intros (pf' & e & H). inversion H.
        -- intros [H|[H|H]]; [lia| |]; exfalso; eapply Qlt_not_le; eauto.
Qed.
Lemma pf_mark_refused pf a price dt p :
  pos_find a (pf_pos pf) = Some p ->
  (exists pf' e, pf_mark pf a price dt = (pf', Err e)) <->
  (price < 0 \/ (dt < pf_dt pf)%Z \/ (dt < p_dt p)%Z \/ price <= 0).
Proof.
  intro F. unfold pf_mark. rewrite F. destruct (qltb price 0) eqn:N.
  - apply qltb_lt in N. split; [auto|]. intros _. eauto.
  - apply qltb_ge in N. destruct (dt <? pf_dt pf)%Z eqn:T.
    + apply Z.ltb_lt in T. split; [auto|]. intros _. eauto.
    + apply Z.ltb_ge in T. unfold pos_update_price. destruct (dt <? p_dt p)%Z eqn:T2.
      * apply Z.ltb_lt in T2. split; [auto|]. intros _. eauto.
      * apply Z.ltb_ge in T2. destruct (qleb price 0) eqn:L.
        -- apply qleb_le in L. split; [auto|]. intros _. eauto.
        -- apply qleb_gt in L. split.
           ++ intros (pf' & e & H). inversion H.
           ++ intros [H|[H|[H|H]]]; try lia; exfalso; [eapply Qlt_not_le; eauto | apply (Qlt_not_le _ _ L H)].
Qed.

(** * Broker level *)
Section BrokerNoop.
  Variable bidask : Z -> string -> option (Q * Q).
  Variable midp : Z -> string -> option Q.

  Lemma acct_set_obs pid a a' l :
    acct_find pid l = Some a -> pf_obs (a_pf a') = pf_obs (a_pf a) -> a_q a' = a_q a ->
    map acct_obs (acct_set pid a' l) = map acct_obs l.
  Proof.
    induction l as [|[k x] l IH]; simpl; [discriminate|].
    destruct (String.eqb pid k) eqn:E.
    - intros H O Q; inversion H; subst. simpl. unfold acct_obs. simpl. rewrite O, Q. reflexivity.
    - intros H O Q. simpl. rewrite IH by assumption. reflexivity.
  Qed.

  (** the repaired [update] refuses an early timestamp before touching anything *)
  Lemma update_refused_early b t :
    forallb (fun pa => acct_clock_ok t (is_open t) (snd pa)) (b_accts b) = false ->
    update bidask midp true b t = (b, Err EarlyTimestamp, []).
  Proof. intro H. unfold update. rewrite H. reflexivity. Qed.

  (** every operation other than a clock update: a refusal leaves all observables (and in
      fact the whole state up to portfolio clocks) unchanged and records no cash movement *)
  Theorem step_rejected_noop b o b' e ef :
    (forall t, o <> Update t) ->
    step bidask midp true b o = (b', Err e, ef) ->
    broker_obs b' = broker_obs b /\ ef = [].
  Proof.
    intro NU. destruct o; simpl.
    - destruct (qltb a 0); intro H; inversion H; subst; split; reflexivity.
    - destruct (qltb a 0); [intro H; inversion H; subst; split; reflexivity|].
      destruct (qltb (b_cash b) a); intro H; inversion H; subst; split; reflexivity.
    - destruct (acct_find pid (b_accts b)); intro H; inversion H; subst; split; reflexivity.
    - destruct (qltb a 0); [intro H; inversion H; subst; split; reflexivity|].
      destruct (acct_find pid (b_accts b)) as [ac|] eqn:F; [|intro H; inversion H; subst; split; reflexivity].
      destruct (qltb (b_cash b) a); [intro H; inversion H; subst; split; reflexivity|].
      destruct (pf_subscribe (a_pf ac) (b_dt b) a) as [pf' [u|e']] eqn:S; intro H; inversion H; subst; clear H.
      split; [|reflexivity]. unfold broker_obs. simpl. apply f_equal.
      apply (acct_set_obs _ ac); auto.
      change (pf_subscribe (a_pf ac) (b_dt b) a) with (pstep (a_pf ac) (PSub (b_dt b) a)) in S.
      apply (pstep_rejected_noop _ _ _ _ S). exact I.
    - destruct (qltb a 0); [intro H; inversion H; subst; split; reflexivity|].
      destruct (acct_find pid (b_accts b)) as [ac|] eqn:F; [|intro H; inversion H; subst; split; reflexivity].
      destruct (qltb (pf_cash (a_pf ac)) a); [intro H; inversion H; subst; split; reflexivity|].
      destruct (pf_withdraw (a_pf ac) (b_dt b) a) as [pf' [u|e']] eqn:S; intro H; inversion H; subst; clear H.
      split; [|reflexivity]. unfold broker_obs. simpl. apply f_equal.
      apply (acct_set_obs _ ac); auto.
      change (pf_withdraw (a_pf ac) (b_dt b) a) with (pstep (a_pf ac) (PWd (b_dt b) a)) in S.
      apply (pstep_rejected_noop _ _ _ _ S). exact I.
    - destruct (acct_find pid (b_accts b)); intro H; inversion H; subst; split; reflexivity.
    - exfalso. apply (NU t). reflexivity.
    - destruct cur as [c|]; [match goal with |- (if ?x then _ else _) = _ -> _ => destruct x end|];
        intro H; inversion H; subst; split; reflexivity.
    - intro H; inversion H.
    - intro H; inversion H.
    - destruct (acct_find pid (b_accts b)); intro H; inversion H; subst; split; reflexivity.
    - destruct (acct_find pid (b_accts b)); intro H; inversion H; subst; split; reflexivity.
    - destruct (acct_find pid (b_accts b)); intro H; inversion H; subst; split; reflexivity.
  Qed.

  (** refusal table, broker level (both directions: never a silent acceptance) *)
  Lemma subacct_refused b a : (exists b' e ef, step bidask midp true b (SubAcct a) = (b', Err e, ef)) <-> a < 0.
  Proof.
    simpl. destruct (qltb a 0) eqn:A.
    - apply qltb_lt in A. split; [auto|]. intros _. eauto.
    - apply qltb_ge in A. split; [intros (b' & e & ef & H); inversion H|].
      intro H. exfalso. apply (Qlt_not_le _ _ H A).
  Qed.
  Lemma wdacct_refused b a :
    (exists b' e ef, step bidask midp true b (WdAcct a) = (b', Err e, ef)) <-> (a < 0 \/ b_cash b < a).
  Proof.
    simpl. destruct (qltb a 0) eqn:A.
    - apply qltb_lt in A. split; [auto|]. intros _. eauto.
    - apply qltb_ge in A. destruct (qltb (b_cash b) a) eqn:C.
      + apply qltb_lt in C. split; [auto|]. intros _. eauto.
      + apply qltb_ge in C. split; [intros (b' & e & ef & H); inversion H|].
        intros [H|H]; exfalso; eapply Qlt_not_le; eauto.
  Qed.
  Lemma create_refused b pid :
    (exists b' e ef, step bidask midp true b (Create pid) = (b', Err e, ef)) <-> acct_find pid (b_accts b) <> None.
  Proof.
    simpl. destruct (acct_find pid (b_accts b)).
    - split; [discriminate|]. intros _. eauto.
    - split; [intros (b' & e & ef & H); inversion H|]. intro H; contradiction.
  Qed.
  Lemma submit_refused b pid a q :
    (exists b' e ef, step bidask midp true b (Submit pid a q) = (b', Err e, ef)) <-> acct_find pid (b_accts b) = None.
  Proof.
    simpl. destruct (acct_find pid (b_accts b)).
    - split; [intros (b' & e & ef & H); inversion H|discriminate].
    - split; [reflexivity|]. intros _. eauto.
  Qed.
  Lemma subpf_refused b pid a :
    (exists b' e ef, step bidask midp true b (SubPf pid a) = (b', Err e, ef)) <->
    (a < 0 \/ acct_find pid (b_accts b) = None \/ b_cash b < a \/
     exists ac, acct_find pid (b_accts b) = Some ac /\ (b_dt b < pf_dt (a_pf ac))%Z).
  Proof.
    simpl. destruct (qltb a 0) eqn:A.
    { apply qltb_lt in A. split; [auto|]. intros _. eauto. }
    apply qltb_ge in A. destruct (acct_find pid (b_accts b)) as [ac|] eqn:F.
    2:{ split; [auto|]. intros _. eauto. }
    destruct (qltb (b_cash b) a) eqn:C.
    { apply qltb_lt in C. split; [auto|]. intros _. eauto. }
    apply qltb_ge in C.
    destruct (pf_subscribe (a_pf ac) (b_dt b) a) as [pf' [u|e']] eqn:S.
    - split; [intros (b' & e & ef & H); inversion H|].
      intros [H|[H|[H|(ac' & E & H)]]]; try discriminate; try (exfalso; eapply Qlt_not_le; eauto; fail).
      inversion E; subst ac'.
      assert (X : exists pf'' e, pf_subscribe (a_pf ac) (b_dt b) a = (pf'', Err e)) by (apply pf_subscribe_refused; auto).
      destruct X as (pf'' & e & X). rewrite S in X. inversion X.
    - split; [|intros _; eauto]. intros _.
      assert (X : (b_dt b < pf_dt (a_pf ac))%Z \/ a < 0) by (apply pf_subscribe_refused; eauto).
      destruct X as [X|X]; [right; right; right; eauto|exfalso; eapply Qlt_not_le; eauto].
  Qed.
  Lemma wdpf_refused b pid a :
    (exists b' e ef, step bidask midp true b (WdPf pid a) = (b', Err e, ef)) <->
    (a < 0 \/ acct_find pid (b_accts b) = None \/
     exists ac, acct_find pid (b_accts b) = Some ac /\ (pf_cash (a_pf ac) < a \/ (b_dt b < pf_dt (a_pf ac))%Z)).
  Proof.
    simpl. destruct (qltb a 0) eqn:A.
    { apply qltb_lt in A. split; [auto|]. intros _. eauto. }
    apply qltb_ge in A. destruct (acct_find pid (b_accts b)) as [ac|] eqn:F.
    2:{ split; [auto|]. intros _. eauto. }
    destruct (qltb (pf_cash (a_pf ac)) a) eqn:C.
    { apply qltb_lt in C. split; [intros _; right; right; eauto|]. intros _. eauto. }
    apply qltb_ge in C.
    destruct (pf_withdraw (a_pf ac) (b_dt b) a) as [pf' [u|e']] eqn:S.
    - split; [intros (b' & e & ef & H); inversion H|].
      intros [H|[H|(ac' & E & [H|H])]]; try discriminate; try (exfalso; eapply Qlt_not_le; eauto; fail).
      + inversion E; subst ac'. exfalso; eapply Qlt_not_le; eauto.
      + inversion E; subst ac'.
        assert (X : exists pf'' e, pf_withdraw (a_pf ac) (b_dt b) a = (pf'', Err e)) by (apply pf_withdraw_refused; auto).
        destruct X as (pf'' & e & X). rewrite S in X. inversion X.
    - split; [|intros _; eauto]. intros _.
      assert (X : (b_dt b < pf_dt (a_pf ac))%Z \/ a < 0 \/ pf_cash (a_pf ac) < a) by (apply pf_withdraw_refused; eauto).
      destruct X as [X|[X|X]]; [right; right; eauto| exfalso; eapply Qlt_not_le; eauto | right; right; eauto].
  Qed.
  (** an update earlier than the clock of a portfolio that holds a position, or that has an
      order the open exchange would fill, is refused *)
  Lemma update_refused_when_early b t pid ac :
    In (pid, ac) (b_accts b) ->
    (t < pf_dt (a_pf ac))%Z ->
    (pf_pos (a_pf ac) <> [] \/ (is_open t = true /\ a_q ac <> [])) ->
    step bidask midp true b (Update t) = (b, Err EarlyTimestamp, []).
  Proof.
    intros IN LT C. simpl. rewrite update_refused_early; [reflexivity|].
    apply not_true_is_false. intro A. rewrite forallb_forall in A. specialize (A _ IN). simpl in A.
    unfold acct_clock_ok in A. apply andb_true_iff in A. destruct A as [A _].
    apply Z.ltb_lt in LT. rewrite Z.ltb_antisym in LT. apply negb_true_iff in LT.
    destruct (pf_pos (a_pf ac)) as [|x xs] eqn:P.
    - destruct C as [C|[O Q]]; [contradiction|]. rewrite O in A. destruct (a_q ac); [contradiction|].
      simpl in A. congruence.
    - congruence.
  Qed.
End BrokerNoop.
