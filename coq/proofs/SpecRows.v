(** C08, generalised to every alpha model: whatever produced the target allocations, a session's
    fills, equity and final state are what the documented rules compute from the recorded
    allocation rows ([Spec.spec_run_rows]).  Static or dynamic universe, any alpha model of the
    session model (fixed, universe-driven, top-N momentum, SMA trend), with or without signals. *)
From Coq Require Import ZArith QArith Qround Qabs String Bool List Lia Lqa Permutation Sorted.
From QS Require Import theories.Num theories.Position theories.Portfolio theories.Fees theories.Exchange
  theories.Broker theories.Calendar theories.Clock theories.Schedule theories.Sizer theories.PCM theories.Signals theories.Backtest theories.Spec
  proofs.QLemmas proofs.Ledger proofs.Holdings proofs.Orders proofs.PcmProofs proofs.ClockProofs proofs.BacktestProofs proofs.Refinement
  proofs.SpecLists proofs.SpecSizing proofs.SpecBroker proofs.SpecRun.
Import ListNotations.
Open Scope Z_scope.

Definition out_allocs (outs : list output) : rows :=
  flat_map (fun o => match o with OAlloc fw => [fw] | _ => [] end) outs.
Definition tr_allocs (tr : list (Z * output)) : rows :=
  flat_map (fun o => match snd o with OAlloc fw => [fw] | _ => [] end) tr.

Lemma out_allocs_app a b : out_allocs (a ++ b) = out_allocs a ++ out_allocs b.
Proof. apply flat_map_app. Qed.
Lemma tr_allocs_app a b : tr_allocs (a ++ b) = tr_allocs a ++ tr_allocs b.
Proof. apply flat_map_app. Qed.
Lemma out_allocs_effects ef : out_allocs (fills_of_effects ef) = [].
Proof.
  induction ef as [|e r IH]; [reflexivity|]. unfold fills_of_effects in *. cbn [flat_map].
  rewrite out_allocs_app, IH. destruct e; reflexivity.
Qed.
Lemma tr_allocs_stamp t outs : tr_allocs (map (fun o => (t, o)) outs) = out_allocs outs.
Proof.
  induction outs as [|o r IH]; [reflexivity|]. cbn [map]. change ((t, o) :: map (fun o0 => (t, o0)) r) with ([(t, o)] ++ map (fun o0 => (t, o0)) r).
  rewrite tr_allocs_app, IH. destruct o; reflexivity.
Qed.

Section Rows.
  Variable cfg : config.
  Variable sched : list Z.

  Definition spec_base : spec_cfg :=
    mkSpec (c_start cfg) (c_end cfg) [] [] (c_cash cfg) sched (c_long_only cfg) (c_param cfg) (c_fee cfg) (c_burn cfg).
  Let sp := spec_base.
  Let fee := c_fee cfg.

  (** portfolio construction on the emitted row = the rules' rebalance on that row *)
  Lemma construction_agrees_row snap b pf q st t g target :
    Core snap fee b pf q st ->
    let fw := merge_weights (map (fun a => (a, 0%Q)) (full_assets (map fst (held_of b)) (universe_assets (c_univ cfg) t)))
                            (alpha_eval cfg g t) in
    NoDup (map fst fw) ->
    sizer_of cfg b snap fw = Ok target ->
    rebalance (with_alloc sp fw) st snap = Some (rebalance_orders target (held_of b)).
  Proof.
    intros HC fw ND SZ. assert (HC' := HC). apply core_split in HC'. destruct HC' as [HC0 _].
    destruct (held_of_core cfg _ _ _ _ HC0) as [HH HE]. destruct (equity_core cfg _ _ _ _ _ HC) as (v & V & E).
    unfold sizer_of in SZ. rewrite HE in SZ.
    assert (OK : with_alloc_keys_ok (st_hold st) fw).
    { split; [exact ND|]. intros a I. rewrite <- HH in I.
      apply (proj1 (weight_keys (map fst (held_of b)) (universe_assets (c_univ cfg) t) (alpha_eval cfg g t) a)). left. exact I. }
    rewrite HH.
    apply (rebalance_agree_row sp fw (st_hold st) snap st (pf_total_equity pf) v target OK eq_refl V E). exact SZ.
  Qed.

  Lemma event_open_rows s st t snap s' outs rs :
    DayInv cfg s st -> is_open t = true ->
    event_step cfg sched s t MarketOpen snap = (s', outs, None) ->
    Forall (fun fw => NoDup (map fst fw)) (out_allocs outs) ->
    exists st1 f1 st2 f2 pf2,
      Spec.fill_all fee t snap (mkS (st_cash st) (st_hold st) [])
        (filter (fun o => snd o <? 0) (st_pending st) ++ filter (fun o => negb (snd o <? 0)) (st_pending st)) = Some (st1, f1) /\
      (if burn_passed sp t && existsb (Z.eqb t) sched
       then match rebalance_row sp st1 snap (out_allocs outs ++ rs) with
            | None => None
            | Some (os, rs1) =>
                match Spec.fill_all fee t snap st1 os with Some (st2, f2) => Some (st2, f2, rs1) | None => None end
            end
       else Some (st1, [], out_allocs outs ++ rs)) = Some (st2, f2, rs) /\
      Core snap fee (ss_broker s') pf2 [] st2 /\ st_pending st2 = [] /\
      out_fills t outs = map sfill_view (f1 ++ f2) /\ out_equity outs = [].
  Proof.
    intros (pf & q & C0 & QP & NZ) OP. unfold event_step.
    destruct (step (snap_bidask snap) (snap_mid snap) true (ss_broker s) (Update t)) as [[b1 [u0|e]] ef] eqn:S0;
      [|intro X; inversion X].
    apply step_update_ok in S0.
    destruct (update_open_core snap fee _ _ _ _ _ _ _ C0 OP NZ S0) as (pf1 & st1 & f1 & FA & EV & C1 & D1 & P1).
    rewrite QP in FA. cbv beta zeta iota.
    change (burn_passed sp t) with (burn_ok cfg t).
    assert (T1 : Forall (fun f => sfill_time f = t) f1) by (eapply fill_all_times; exact FA).
    destruct (burn_ok cfg t && existsb (Z.eqb t) sched) eqn:RB.
    - set (fw := merge_weights (map (fun a => (a, 0%Q)) (full_assets (map fst (held_of b1)) (universe_assets (c_univ cfg) t)))
                               (alpha_eval cfg (ss_sig s) t)).
      destruct (sizer_of cfg b1 snap fw) as [target|e] eqn:SZ; [|intro X; inversion X].
      destruct (submit_each snap b1 t (rebalance_orders target (held_of b1))) as [[b2 ef2] e2] eqn:SE.
      destruct e2 as [e2|]; intro X; inversion X; subst s' outs; clear X.
      intro NDA.
      assert (OA : out_allocs (fills_of_effects ef ++ OAlloc fw :: fills_of_effects ef2 ++ []) = [fw]).
      { rewrite out_allocs_app, out_allocs_effects. cbn [out_allocs flat_map app].
        fold (out_allocs (fills_of_effects ef2 ++ [])). rewrite out_allocs_app, out_allocs_effects. reflexivity. }
      rewrite OA in *. assert (ND : NoDup (map fst fw)) by (inversion NDA; assumption).
      assert (RA := construction_agrees_row snap b1 pf1 [] st1 t (ss_sig s) target C1 ND SZ).
      assert (NZO : Forall (fun o : string * Z => snd o <> 0) (rebalance_orders target (held_of b1))).
      { apply (proj2 (orders_sorted_nonzero target (held_of b1))). }
      destruct (submit_each_open snap fee t OP _ _ _ _ _ _ C1 P1 NZO SE) as (pf2 & st2 & f2 & FA2 & EV2 & C2 & P2).
      assert (T2 : Forall (fun f => sfill_time f = t) f2) by (eapply fill_all_times; exact FA2).
      exists st1, f1, st2, f2, pf2. split; [exact FA|]. split.
      { change ([fw] ++ rs) with (fw :: rs). unfold rebalance_row. fold fw in RA. rewrite RA, FA2. reflexivity. }
      split; [exact C2|]. split; [exact P2|].
      cbn [ss_broker]. rewrite app_nil_r. split.
      + rewrite out_fills_app. cbn [out_fills flat_map app]. fold (out_fills t (fills_of_effects ef2)).
        rewrite !out_fills_effects, EV, EV2, !restamp_sfills, map_app by assumption. reflexivity.
      + rewrite out_equity_app. cbn [out_equity flat_map app]. fold (out_equity (fills_of_effects ef2)).
        rewrite !out_equity_effects. reflexivity.
    - intro X; inversion X; subst s' outs; clear X. intros _.
      exists st1, f1, st1, [], pf1. split; [exact FA|]. split.
      { rewrite !app_nil_r, out_allocs_effects. reflexivity. }
      split; [exact C1|]. split; [exact P1|].
      rewrite !app_nil_r. split.
      + rewrite out_fills_effects, EV, restamp_sfills by assumption. reflexivity.
      + apply out_equity_effects.
  Qed.

  Lemma event_close_rows s st t snap s' outs pf rs :
    Core0 fee (ss_broker s) pf [] st -> is_open t = false ->
    event_step cfg sched s t MarketClose snap = (s', outs, None) ->
    Forall (fun fw => NoDup (map fst fw)) (out_allocs outs) ->
    exists os v E,
      (if burn_passed sp t && existsb (Z.eqb t) sched then rebalance_row sp st snap (out_allocs outs ++ rs) else Some ([], out_allocs outs ++ rs))
        = Some (os, rs) /\
      value_of (st_hold st) snap = Some v /\
      DayInv cfg s' (mkS (st_cash st) (st_hold st) os) /\
      out_fills t outs = [] /\
      out_equity outs = (if burn_ok cfg t then [E] else []) /\ (E == st_cash st + v)%Q.
  Proof.
    intros C0 CL. unfold event_step.
    destruct (step (snap_bidask snap) (snap_mid snap) true (ss_broker s) (Update t)) as [[b1 [u0|e]] ef] eqn:S0;
      [|intro X; inversion X].
    apply step_update_ok in S0.
    destruct (update_closed_core snap fee _ _ _ _ _ _ _ C0 CL S0) as (pf1 & C1 & EF & D1). subst ef.
    destruct (signals_update cfg (ss_sig s) t snap) as [g|e]; [|intro X; inversion X].
    cbv beta zeta iota. change (burn_passed sp t) with (burn_ok cfg t).
    destruct (burn_ok cfg t && existsb (Z.eqb t) sched) eqn:RB.
    - set (fw := merge_weights (map (fun a => (a, 0%Q)) (full_assets (map fst (held_of b1)) (universe_assets (c_univ cfg) t)))
                               (alpha_eval cfg g t)).
      destruct (sizer_of cfg b1 snap fw) as [target|e] eqn:SZ; [|intro X; inversion X].
      destruct (submit_each snap b1 t (rebalance_orders target (held_of b1))) as [[b2 ef2] e2] eqn:SE.
      destruct e2 as [e2|]; intro X; inversion X; subst s' outs; clear X.
      intro NDA. cbn [fills_of_effects flat_map app] in *.
      assert (OA : out_allocs (OAlloc fw :: fills_of_effects ef2 ++ (if burn_ok cfg t then [OEquity (equity_of b2)] else [])) = [fw]).
      { cbn [out_allocs flat_map app]. fold (out_allocs (fills_of_effects ef2 ++ (if burn_ok cfg t then [OEquity (equity_of b2)] else []))).
        rewrite out_allocs_app, out_allocs_effects. destruct (burn_ok cfg t); reflexivity. }
      rewrite OA in *. assert (ND : NoDup (map fst fw)) by (inversion NDA; assumption).
      assert (RA := construction_agrees_row snap b1 pf1 [] st t g target C1 ND SZ). fold fw in RA.
      destruct (submit_each_closed snap fee t CL _ _ _ _ _ _ _ C1 SE) as (pf2 & q2 & C2 & Q2 & EV2 & NZ2).
      destruct (equity_core cfg _ _ _ _ _ C2) as (v & V & E).
      assert (C2' := C2). apply core_split in C2'. destruct C2' as [C20 _].
      destruct (held_of_core cfg _ _ _ _ C20) as [_ HE].
      exists (rebalance_orders target (held_of b1)), v, (equity_of b2).
      split; [change ([fw] ++ rs) with (fw :: rs); unfold rebalance_row; rewrite RA; reflexivity|]. split; [exact V|]. split.
      { exists pf2, q2. split; [exact C20|]. split; [exact Q2|]. apply NZ2; [constructor|].
        apply (proj2 (orders_sorted_nonzero target (held_of b1))). }
      split.
      + cbn [out_fills flat_map app]. fold (out_fills t (fills_of_effects ef2 ++ (if burn_ok cfg t then [OEquity (equity_of b2)] else []))).
        rewrite out_fills_app, out_fills_effects, EV2. destruct (burn_ok cfg t); reflexivity.
      + split; [|rewrite HE; exact E].
        cbn [out_equity flat_map app]. fold (out_equity (fills_of_effects ef2 ++ (if burn_ok cfg t then [OEquity (equity_of b2)] else []))).
        rewrite out_equity_app, out_equity_effects. destruct (burn_ok cfg t); reflexivity.
    - intro X; inversion X; subst s' outs; clear X. intros _.
      destruct (equity_core cfg _ _ _ _ _ C1) as (v & V & E).
      assert (C1' := C1). apply core_split in C1'. destruct C1' as [C10 _].
      destruct (held_of_core cfg _ _ _ _ C10) as [_ HE].
      exists [], v, (equity_of b1). cbn [fills_of_effects flat_map app]. split.
      { destruct (burn_ok cfg t); reflexivity. }
      split; [exact V|]. split.
      { exists pf1, []. split; [exact C10|]. split; [reflexivity|constructor]. }
      split; [destruct (burn_ok cfg t); reflexivity|].
      split; [destruct (burn_ok cfg t); reflexivity|]. rewrite HE. exact E.
  Qed.

  Lemma day_rows market s st d s1 o1 s2 o2 rs :
    DayInv cfg s st -> weekday d <= 4 ->
    event_step cfg sched s (d * 86400 + 52200) MarketOpen (market (d * 86400 + 52200)) = (s1, o1, None) ->
    event_step cfg sched s1 (d * 86400 + 75600) MarketClose (market (d * 86400 + 75600)) = (s2, o2, None) ->
    Forall (fun fw => NoDup (map fst fw)) (out_allocs o1 ++ out_allocs o2) ->
    exists st' dout,
      one_day_rows sp market st (out_allocs o1 ++ out_allocs o2 ++ rs) d = Some (st', rs, dout) /\ DayInv cfg s2 st' /\
      out_fills (d * 86400 + 52200) o1 ++ out_fills (d * 86400 + 75600) o2 = map sfill_view (d_fills dout) /\
      out_equity o1 = [] /\
      match d_equity dout with
      | Some e => exists E, out_equity o2 = [E] /\ fst e = d * 86400 + 75600 /\ (E == snd e)%Q
      | None => out_equity o2 = []
      end.
  Proof.
    intros DI WD E1 E2 ND. apply Forall_app in ND. destruct ND as [ND1 ND2].
    destruct (event_open_rows s st _ _ s1 o1 (out_allocs o2 ++ rs) DI (open_at_1430 d WD) E1 ND1)
      as (st1 & f1 & st2 & f2 & pf2 & FA & RB & C2 & P2 & OF1 & OE1).
    apply core_split in C2. destruct C2 as [C20 _].
    destruct (event_close_rows s1 st2 _ _ s2 o2 pf2 rs C20 (closed_at_2100 d) E2 ND2)
      as (os & v & E & RC & V & DI2 & OF2 & OE2 & EQ).
    unfold one_day_rows. change (sp_fee sp) with fee. change (sp_schedule sp) with sched.
    cbv zeta. rewrite FA.
    lazymatch goal with
    | |- exists st' dout, match ?X with _ => _ end = _ /\ _ =>
        replace X with (Some (st2, f2, out_allocs o2 ++ rs)) by (symmetry; exact RB)
    end.
    lazymatch goal with
    | |- exists st' dout, match ?X with _ => _ end = _ /\ _ =>
        replace X with (Some (os, rs)) by (symmetry; exact RC)
    end.
    cbn [st_hold st_cash]. rewrite V.
    eexists. eexists. split; [reflexivity|]. split; [exact DI2|]. cbn [d_fills d_equity].
    split; [rewrite OF1, OF2, app_nil_r; reflexivity|]. split; [exact OE1|].
    change (burn_passed sp (d * 86400 + 75600)) with (burn_ok cfg (d * 86400 + 75600)).
    destruct (burn_ok cfg (d * 86400 + 75600)).
    - exists E. split; [exact OE2|]. split; [reflexivity|exact EQ].
    - exact OE2.
  Qed.

  Lemma days_rows market : forall days s st,
    DayInv cfg s st -> Forall (fun d => weekday d <= 4) days ->
    tr_noerr (run_from cfg sched market s (flat_map (day_events false false) days)) ->
    Forall (fun fw => NoDup (map fst fw)) (tr_allocs (run_from cfg sched market s (flat_map (day_events false false) days))) ->
    exists st' douts,
      run_days_rows sp market st (tr_allocs (run_from cfg sched market s (flat_map (day_events false false) days))) days
        = Some (st', [], douts) /\
      DayInv cfg (end_from cfg sched market s (flat_map (day_events false false) days)) st' /\
      tr_fills (run_from cfg sched market s (flat_map (day_events false false) days)) = spec_fills douts /\
      Forall2 same_equity (tr_equity (run_from cfg sched market s (flat_map (day_events false false) days))) (spec_equity douts).
  Proof.
    induction days as [|d r IH]; intros s st DI WD.
    - intros _ _. exists st, []. split; [reflexivity|]. split; [exact DI|]. split; [reflexivity|constructor].
    - inversion WD as [|? ? WDd WDr]; subst.
      cbn [flat_map day_events app run_from end_from run_days_rows].
      destruct (event_step cfg sched s (d * 86400 + 52200) MarketOpen (market (d * 86400 + 52200))) as [[s1 o1] [e1|]] eqn:E1.
      { intro NE. apply noerr_app in NE. destruct NE as [_ NE]. exfalso. exact (noerr_err _ _ NE). }
      destruct (event_step cfg sched s1 (d * 86400 + 75600) MarketClose (market (d * 86400 + 75600))) as [[s2 o2] [e2|]] eqn:E2.
      { intro NE. apply noerr_app in NE. destruct NE as [_ NE]. apply noerr_app in NE. destruct NE as [_ NE].
        exfalso. exact (noerr_err _ _ NE). }
      intro NE. apply noerr_app in NE. destruct NE as [_ NE]. apply noerr_app in NE. destruct NE as [_ NE].
      rewrite !tr_allocs_app, !tr_allocs_stamp. intro ND.
      apply Forall_app in ND. destruct ND as [ND1 ND]. apply Forall_app in ND. destruct ND as [ND2 NDr].
      destruct (day_rows market s st d s1 o1 s2 o2
                  (tr_allocs (run_from cfg sched market s2 (flat_map (day_events false false) r))) DI WDd E1 E2)
        as (st1 & dout & OD & DI2 & FV & EV1 & EV2).
      { apply Forall_app. split; assumption. }
      destruct (IH s2 st1 DI2 WDr NE NDr) as (st' & douts & RD & DE & TF & TE).
      exists st', (dout :: douts). rewrite OD, RD. split; [reflexivity|]. split; [exact DE|]. split.
      + rewrite !tr_fills_app, !tr_fills_stamp, TF. unfold spec_fills at 2. cbn [flat_map].
        rewrite <- FV, app_assoc. reflexivity.
      + rewrite !tr_equity_app, !tr_equity_stamp, EV1. cbn [map app]. unfold spec_equity. cbn [flat_map].
        apply Forall2_app; [|exact TE].
        destruct (d_equity dout) as [e|].
        * destruct EV2 as (E & OE & T & Q). rewrite OE. cbn [map]. constructor; [|constructor].
          split; [symmetry; exact T|exact Q].
        * rewrite EV2. constructor.
  Qed.
End Rows.

(** * Every session, whatever its alpha model *)
Theorem session_follows_rules_from_allocations cfg market tr :
  run cfg market = Ok tr -> tr_noerr tr ->
  Forall (fun fw => NoDup (map fst fw)) (tr_allocs tr) ->
  exists sched s_end st days,
    schedule_of cfg = Ok sched /\ end_state cfg market = Some s_end /\
    spec_run_rows (spec_base cfg sched) market (tr_allocs tr) = Some (st, [], days) /\
    tr_fills tr = spec_fills days /\
    Forall2 same_equity (tr_equity tr) (spec_equity days) /\
    (cash_of pid (ss_broker s_end) == st_cash st)%Q /\
    held_of (ss_broker s_end) = st_hold st /\
    pending_of (ss_broker s_end) = st_pending st.
Proof.
  unfold run, end_state.
  destruct (session_init cfg) as [[[s0 evs] sched]|e] eqn:SI; [|discriminate].
  intro X; inversion X; subst tr; clear X. intros NE ND.
  destruct (init_inv cfg s0 evs sched SI) as (DI & EVS & SC). subst evs.
  assert (WD : Forall (fun d => weekday d <= 4) (bdays (c_start cfg) (c_end cfg))).
  { apply Forall_forall. intros d I. apply in_bdays in I. tauto. }
  destruct (days_rows cfg sched market _ s0 _ DI WD NE ND) as (st & days & RD & DE & TF & TE).
  exists sched, (end_from cfg sched market s0 (flat_map (day_events false false) (bdays (c_start cfg) (c_end cfg)))), st, days.
  split; [exact SC|]. split; [reflexivity|]. split; [exact RD|]. split; [exact TF|]. split; [exact TE|].
  destruct DE as (pf & q & (HA & HF & HC & HV & HI & HN) & QP & NZ).
  unfold cash_of, acct_cash, held_of, pending_of. rewrite HA. cbn [acct_find].
  change (String.eqb pid pid) with true. cbv iota. cbn [a_pf a_q].
  split; [exact HC|]. split; [exact HV|exact QP].
Qed.


(** * The allocation rows of a well-formed configuration have distinct keys *)
Definition universe_nodup (u : universe) : Prop :=
  match u with StaticU l => NoDup l | DynamicU es => NoDup (map fst es) end.
Definition wf_alpha (cfg : config) : Prop :=
  match c_alpha cfg with
  | AFixed w => NoDup (map fst w)
  | ASingle _ => universe_nodup (c_univ cfg)
  | _ => True
  end.

Lemma w_set_keys a x (w : weights) :
  map fst (w_set a x w) = if existsb (String.eqb a) (map fst w) then map fst w else (map fst w ++ [a])%list.
Proof.
  induction w as [|[b y] r IH]; cbn [w_set map fst existsb]; [reflexivity|].
  destruct (String.eqb a b) eqn:E; cbn [orb map fst]; [reflexivity|]. rewrite IH.
  destruct (existsb (String.eqb a) (map fst r)); reflexivity.
Qed.
Lemma w_set_nodup a x (w : weights) : NoDup (map fst w) -> NoDup (map fst (w_set a x w)).
Proof.
  intro ND. rewrite w_set_keys. destruct (existsb (String.eqb a) (map fst w)) eqn:E; [exact ND|].
  apply Holdings.nodup_snoc; [exact ND|]. intro I.
  assert (T : existsb (String.eqb a) (map fst w) = true) by (apply existsb_exists; exists a; split; [exact I|apply String.eqb_refl]).
  congruence.
Qed.
Lemma fold_w_set_nodup (f : string -> Q) (l : list string) : forall w : weights,
  NoDup (map fst w) -> NoDup (map fst (fold_left (fun w0 a => w_set a (f a) w0) l w)).
Proof.
  induction l as [|a r IH]; intros w ND; cbn [fold_left]; [exact ND|]. apply IH. apply w_set_nodup. exact ND.
Qed.

Lemma universe_assets_nodup u t : universe_nodup u -> NoDup (universe_assets u t).
Proof.
  destruct u as [l|es]; cbn [universe_nodup universe_assets]; [auto|]. intro ND.
  induction es as [|[a o] r IH]; cbn [filter map fst snd]; [constructor|].
  cbn [map fst] in ND. inversion ND as [|? ? NI ND']; subst.
  destruct (match o with Some e => e <=? t | None => false end); cbn [map fst]; [|apply IH; exact ND'].
  constructor; [|apply IH; exact ND']. intro I. apply NI. apply in_map_iff in I. destruct I as (x & E & I).
  apply filter_In in I. apply in_map_iff. exists x. tauto.
Qed.

Lemma alpha_eval_nodup cfg g t : wf_alpha cfg -> NoDup (map fst (alpha_eval cfg g t)).
Proof.
  unfold wf_alpha, alpha_eval. destruct (c_alpha cfg) as [w|s|lb n|lb]; intro WF.
  - exact WF.
  - rewrite map_map. cbn [fst]. rewrite map_id. apply universe_assets_nodup. exact WF.
  - destruct (Nat.leb lb (g_warm g)).
    + apply (fold_w_set_nodup (fun _ => (1 / inject_Z (Z.of_nat n))%Q)).
      apply (fold_w_set_nodup (fun _ => 0%Q)). constructor.
    + apply (fold_w_set_nodup (fun _ => 0%Q)). constructor.
  - match goal with |- NoDup (map fst (fold_left ?F _ _)) => idtac end.
    apply (fold_w_set_nodup (fun a =>
      match (match buf_find a 1 (g_sma g) with Some b => Signals.sma b | None => None end),
            (match buf_find a lb (g_sma g) with Some b => Signals.sma b | None => None end) with
      | Some x, Some y => if qltb y x then 1%Q else 0%Q
      | _, _ => 0%Q
      end)). constructor.
Qed.

Lemma event_step_rows_nodup cfg sched s t k snap s' outs e :
  wf_alpha cfg -> event_step cfg sched s t k snap = (s', outs, e) ->
  Forall (fun fw => NoDup (map fst fw)) (out_allocs outs).
Proof.
  intro WF. unfold event_step.
  destruct (step (snap_bidask snap) (snap_mid snap) true (ss_broker s) (Update t)) as [[b1 [u0|e0]] ef].
  2:{ intro X; inversion X; subst. rewrite out_allocs_effects. constructor. }
  destruct (match k with MarketClose => signals_update cfg (ss_sig s) t snap | _ => Ok (ss_sig s) end) as [g|e0].
  2:{ intro X; inversion X; subst. rewrite out_allocs_effects. constructor. }
  cbv beta zeta iota.
  assert (ROW : forall held, NoDup (map fst (merge_weights (map (fun a => (a, 0%Q)) (full_assets held (universe_assets (c_univ cfg) t)))
                                                          (alpha_eval cfg g t)))).
  { intro held. apply (proj1 (merged_weights_repr held _ _ (alpha_eval_nodup cfg g t WF))). }
  destruct (burn_ok cfg t && existsb (Z.eqb t) sched).
  - destruct (sizer_of cfg b1 snap _) as [target|e0].
    + destruct (submit_each snap b1 t (rebalance_orders target (held_of b1))) as [[b2 ef2] [e2|]];
        intro X; inversion X; subst; rewrite !out_allocs_app, !out_allocs_effects; cbn [out_allocs flat_map app];
        match goal with |- Forall _ (?r :: ?rest) => assert (R : rest = []) end;
        try (fold (out_allocs (fills_of_effects ef2)); rewrite ?out_allocs_app, ?out_allocs_effects; destruct k; try destruct (burn_ok cfg t); reflexivity);
        try (rewrite R; constructor; [apply ROW|constructor]).
    + intro X; inversion X; subst. rewrite out_allocs_app, out_allocs_effects. cbn [out_allocs flat_map app].
      constructor; [apply ROW|constructor].
  - intro X; inversion X; subst. rewrite !out_allocs_app, !out_allocs_effects.
    destruct k; try destruct (burn_ok cfg t); constructor.
Qed.

Lemma run_from_rows_nodup cfg sched market : wf_alpha cfg -> forall evs s,
  Forall (fun fw => NoDup (map fst fw)) (tr_allocs (run_from cfg sched market s evs)).
Proof.
  intro WF. induction evs as [|[t k] r IH]; intro s; cbn [run_from]; [constructor|].
  destruct (event_step cfg sched s t k (market t)) as [[s' outs] [e|]] eqn:X;
    rewrite tr_allocs_app, tr_allocs_stamp; apply Forall_app; split;
    try (eapply event_step_rows_nodup; eauto).
  - constructor.
  - apply IH.
Qed.

Theorem session_follows_rules cfg market tr :
  wf_alpha cfg ->
  run cfg market = Ok tr -> tr_noerr tr ->
  exists sched s_end st days,
    schedule_of cfg = Ok sched /\ end_state cfg market = Some s_end /\
    spec_run_rows (spec_base cfg sched) market (tr_allocs tr) = Some (st, [], days) /\
    tr_fills tr = spec_fills days /\
    Forall2 same_equity (tr_equity tr) (spec_equity days) /\
    (cash_of pid (ss_broker s_end) == st_cash st)%Q /\
    held_of (ss_broker s_end) = st_hold st /\
    pending_of (ss_broker s_end) = st_pending st.
Proof.
  intros WF RUN NE. apply session_follows_rules_from_allocations; try assumption.
  unfold run in RUN. destruct (session_init cfg) as [[[s0 evs] sched]|e]; [|discriminate].
  inversion RUN; subst. apply run_from_rows_nodup. exact WF.
Qed.
