(** C08 refinement, part 2: one rebalance - the session's portfolio construction (full asset list,
    merged weight vector, sizer, order generation) computes exactly the orders of [Spec.rebalance]. *)
From Coq Require Import ZArith QArith Qround Qabs String Bool List Lia Lqa Permutation Sorted.
From QS Require Import theories.Num theories.Position theories.Portfolio theories.Fees theories.Sizer theories.PCM
  theories.Backtest theories.Spec proofs.QLemmas proofs.SizerProofs proofs.PcmProofs proofs.Determinism proofs.SpecLists.
Import ListNotations.
Open Scope Z_scope.

Lemma existsb_map {A B} (f : B -> bool) (g : A -> B) l : existsb f (map g l) = existsb (fun x => f (g x)) l.
Proof. induction l as [|x r IH]; simpl; [reflexivity|]. rewrite IH. reflexivity. Qed.
Lemma existsb_false_incl {A} (f : A -> bool) l l' :
  (forall x, In x l' -> In x l) -> existsb f l = false -> existsb f l' = false.
Proof.
  intros I H. destruct (existsb f l') eqn:E; [|reflexivity].
  apply existsb_exists in E. destruct E as (x & J & F).
  assert (T : existsb f l = true) by (apply existsb_exists; exists x; split; [apply I; exact J|exact F]). congruence.
Qed.

Lemma isclose0_proper x y : (x == y)%Q -> isclose0 x = isclose0 y.
Proof. intro H. unfold isclose0. rewrite H. reflexivity. Qed.

Lemma trunc_q_proper x y : (x == y)%Q -> trunc_q x = trunc_q y.
Proof. intro H. unfold trunc_q. rewrite H. destruct (Qle_bool 0 y); [apply Qfloor_comp|apply Qceiling_comp]; exact H. Qed.

Lemma ls_qty_proper E E' fee w w' p :
  (E == E')%Q -> (w == w')%Q -> ls_qty E fee w p = ls_qty E' fee w' p.
Proof.
  intros HE Hw. unfold ls_qty.
  assert (A : (E * w == E' * w')%Q) by (rewrite HE, Hw; reflexivity).
  assert (B : trunc_q (E * w - fee_total fee (E * w)) = trunc_q (E' * w' - fee_total fee (E' * w'))).
  { apply trunc_q_proper. rewrite (fee_total_proper fee _ _ A), A. reflexivity. }
  rewrite B. reflexivity.
Qed.

(** * sortedness of keyed lists *)
Lemma sorted_keys {A} (l : list (string * A)) : StronglySorted sle (map fst l) -> StronglySorted key_le l.
Proof.
  induction l as [|x r IH]; simpl; intro S; [constructor|]. inversion S as [|? ? S' F]; subst.
  constructor; [apply IH; exact S'|]. rewrite Forall_forall in *. intros y I. apply F. apply in_map. exact I.
Qed.
Lemma sort_by_key_sorted_id {A} (l : list (string * A)) : StronglySorted key_le l -> sort_by_key l = l.
Proof.
  induction 1 as [|x r S IH F]; simpl; [reflexivity|]. rewrite IH.
  destruct r as [|y r']; simpl; [reflexivity|].
  inversion F as [|? ? L _]; subst. unfold key_le in L. rewrite L. reflexivity.
Qed.

Lemma size_all_keys f price w l : size_all f price w = Ok l -> map fst l = map fst w.
Proof.
  revert l. induction w as [|[a x] r IH]; simpl; intros l H; [inversion H; reflexivity|].
  destruct (price a); [|discriminate]. destruct (size_all f price r) as [l'|e]; [|discriminate].
  inversion H; subst. simpl. rewrite (IH _ eq_refl). reflexivity.
Qed.

(** the sizer's traversal against the rules' traversal *)
Definition spec_fold (s : prices) (h : string -> Q -> Z) (S : list string) : option (list (string * Z)) :=
  fold_right (fun a acc =>
    match acc, price_of a s with
    | Some l, Some p => Some ((a, h a p) :: l)
    | _, _ => None
    end) (Some []) S.

Lemma size_all_fold s (g : Q -> Q -> Z) (N : string -> Q) (h : string -> Q -> Z) S : forall l,
  (forall a p, In a S -> g (N a) p = h a p) ->
  size_all g (fun a => snap_find a s) (map (fun a => (a, N a)) S) = Ok l ->
  spec_fold s h S = Some l.
Proof.
  induction S as [|a r IH]; simpl; intros l H X; [inversion X; reflexivity|].
  rewrite snap_find_w_find in X. rewrite price_of_w_find.
  destruct (w_find a s) as [p|]; [|discriminate].
  destruct (size_all g (fun a0 => snap_find a0 s) (map (fun a0 => (a0, N a0)) r)) as [l'|e] eqn:Y; [|discriminate].
  inversion X; subst. rewrite (IH l'); [|intros; apply H; right; assumption|reflexivity].
  rewrite H; [reflexivity|left; reflexivity].
Qed.

Lemma spec_fold_keys s h S : forall l, spec_fold s h S = Some l -> map fst l = S.
Proof.
  induction S as [|a r IH]; simpl; intros l H; [inversion H; reflexivity|].
  destruct (spec_fold s h r) as [l'|] eqn:F; [|discriminate].
  destruct (price_of a s); [|discriminate]. inversion H; subst. simpl. rewrite (IH _ eq_refl). reflexivity.
Qed.

(** * orders = target minus holdings, for an already sorted target *)
Lemma orders_agree target hold :
  StronglySorted sle (map fst target) ->
  rebalance_orders target hold =
  filter (fun o => negb (snd o =? 0)) (map (fun aq => (fst aq, snd aq - hold_of (fst aq) hold)) target).
Proof.
  intro S. unfold rebalance_orders. rewrite sort_by_key_sorted_id.
  - assert (M : map (fun aq : string * Z => (fst aq, snd aq - z_find (fst aq) hold)) target =
                map (fun aq : string * Z => (fst aq, snd aq - hold_of (fst aq) hold)) target).
    { apply map_ext. intros [a q]. reflexivity. }
    rewrite M. reflexivity.
  - apply sorted_keys. rewrite map_map. simpl. exact S.
Qed.

Lemma size_long_only_unfold sp E S s :
  size_long_only sp E S s =
  if existsb (fun w => qltb w 0) (map (weight_of sp) S) then None
  else spec_fold s (fun a p => lo_qty (E * (1 - sp_param sp)) (sp_fee sp)
                                 (if isclose0 (qsum (map (weight_of sp) S)) then weight_of sp a
                                  else weight_of sp a / qsum (map (weight_of sp) S))%Q p) S.
Proof. reflexivity. Qed.
Lemma size_long_short_unfold sp E S s :
  size_long_short sp E S s =
  spec_fold s (fun a p => ls_qty E (sp_fee sp)
                 (if isclose0 (qsum (map Qabs (map (weight_of sp) S))) then weight_of sp a
                  else weight_of sp a * (sp_param sp / qsum (map Qabs (map (weight_of sp) S))))%Q p) S.
Proof. reflexivity. Qed.

Lemma list_case {A} (l : list A) : l = [] \/ exists x r, l = x :: r.
Proof. destruct l; eauto. Qed.

Section Rebalance.
  (** generic in the weight vector [fw] the session sizes: all that matters is that its values are the
      rules' weights of its keys and that its sorted keys are the assets the rules look at *)
  Variable sp : spec_cfg.
  Variable hold : list (string * Z).
  Variable snap : prices.
  Variable fw : weights.

  Let w := sp_weights sp.
  Let K := map fst fw.
  Let W := wt w.

  Hypothesis fw_repr : fw = map (fun a => (a, W a)) K.
  Hypothesis assets_are_sorted_keys : forall st, st_hold st = hold -> assets_of sp st = ssort K.

  Lemma sums_agree (f : Q -> Q) : (qsum (map f (map W K)) == qsum (map f (map W (ssort K))))%Q.
  Proof. apply qsum_perm. apply Permutation_map. apply Permutation_map. apply Permutation_sym. apply ssort_perm. Qed.

  (** long only *)
  Lemma lo_agree E E' target :
    (E == E')%Q -> K <> [] ->
    lo_size E (sp_param sp) (sp_fee sp) (fun a => snap_find a snap) fw = Ok target ->
    size_long_only sp E' (ssort K) snap = Some target.
  Proof.
    intros HE NE. unfold lo_size. rewrite fw_repr. destruct (list_case K) as [EK|(k0 & K0 & EK)]; [congruence|]. clear NE.
    assert (NEmap : map (fun a => (a, W a)) K <> []) by (rewrite EK; discriminate).
    destruct (map (fun a => (a, W a)) K) as [|x0 X0] eqn:EM; [congruence|]. rewrite <- EM. clear NEmap.
    unfold lo_normalise. rewrite existsb_map. simpl snd.
    destruct (existsb (fun x => qltb (W x) 0) K) eqn:NEG; [discriminate|].
    rewrite !map_map. simpl snd.
    set (s := qsum (map W K)).
    set (N := fun a => if isclose0 s then W a else (W a / s)%Q).
    match goal with
    | |- match ?X with Ok _ => _ | Err _ => _ end = _ -> _ =>
        replace X with (@Ok weights (map (fun a => (a, N a)) K)) by (unfold N; destruct (isclose0 s); reflexivity)
    end.
 rewrite (sort_by_key_map (fun a => (a, N a))); [|reflexivity].
    intro SZ. rewrite size_long_only_unfold.
    assert (WO : map (weight_of sp) (ssort K) = map W (ssort K)).
    { apply map_ext. intro a. apply weight_of_wt. }
    rewrite WO. rewrite existsb_map.
    rewrite (existsb_false_incl _ K (ssort K)); [|intros x I; apply ssort_in; exact I|exact NEG].
    set (total := qsum (map W (ssort K))).
    assert (ST : (s == total)%Q).
    { unfold s, total. rewrite <- (map_id (map W K)), <- (map_id (map W (ssort K))). apply (sums_agree (fun x => x)). }
    apply (size_all_fold snap (lo_qty (E * (1 - sp_param sp)) (sp_fee sp)) N); [|exact SZ].
    intros a p _. rewrite weight_of_wt. fold w. fold W.
    apply lo_qty_proper; [rewrite HE; reflexivity| |reflexivity].
    unfold N. rewrite (isclose0_proper _ _ ST). destruct (isclose0 total); [reflexivity|]. rewrite ST. reflexivity.
  Qed.

  (** long/short *)
  Lemma ls_agree E E' target :
    (E == E')%Q -> K <> [] ->
    ls_size E (sp_param sp) (sp_fee sp) (fun a => snap_find a snap) fw = Ok target ->
    size_long_short sp E' (ssort K) snap = Some target.
  Proof.
    intros HE NE. unfold ls_size. rewrite fw_repr. destruct (list_case K) as [EK|(k0 & K0 & EK)]; [congruence|]. clear NE.
    assert (NEmap : map (fun a => (a, W a)) K <> []) by (rewrite EK; discriminate).
    destruct (map (fun a => (a, W a)) K) as [|x0 X0] eqn:EM; [congruence|]. rewrite <- EM. clear NEmap.
    unfold ls_normalise. rewrite !map_map. simpl snd.
    set (g := qsum (map (fun x => Qabs (W x)) K)).
    set (N := fun a => if isclose0 g then W a else (W a * (sp_param sp / g))%Q).
    match goal with
    | |- size_all _ _ (sort_by_key ?X) = _ -> _ =>
        replace X with (map (fun a => (a, N a)) K) by (unfold N; destruct (isclose0 g); reflexivity)
    end.
    rewrite (sort_by_key_map (fun a => (a, N a))); [|reflexivity].
    intro SZ. rewrite size_long_short_unfold.
    assert (WO : map (weight_of sp) (ssort K) = map W (ssort K)).
    { apply map_ext. intro a. apply weight_of_wt. }
    rewrite WO.
    set (gross := qsum (map Qabs (map W (ssort K)))).
    assert (ST : (g == gross)%Q).
    { unfold g, gross. rewrite <- (map_map W Qabs K). apply (sums_agree Qabs). }
    apply (size_all_fold snap (ls_qty E (sp_fee sp)) N); [|exact SZ].
    intros a p _. rewrite weight_of_wt. fold w. fold W.
    apply ls_qty_proper; [exact HE|].
    unfold N. rewrite (isclose0_proper _ _ ST). destruct (isclose0 gross); [reflexivity|]. rewrite ST. reflexivity.
  Qed.

  (** * One rebalance *)
  Theorem rebalance_agree st E v target :
    st_hold st = hold ->
    value_of hold snap = Some v -> (E == st_cash st + v)%Q ->
    (if sp_long_only sp
     then lo_size E (sp_param sp) (sp_fee sp) (fun a => snap_find a snap) fw
     else ls_size E (sp_param sp) (sp_fee sp) (fun a => snap_find a snap) fw) = Ok target ->
    rebalance sp st snap = Some (rebalance_orders target hold).
  Proof.
    intros H V HE SZ. unfold rebalance. rewrite H, V. rewrite <- H at 1. rewrite (assets_are_sorted_keys st H).
    destruct (list_case K) as [EK|(k0 & K0 & EK)].
    - rewrite EK. simpl. assert (F : fw = []) by (rewrite fw_repr, EK; reflexivity). rewrite F in SZ.
      destruct (sp_long_only sp); simpl in SZ; inversion SZ; reflexivity.
    - assert (NE : K <> []) by (rewrite EK; discriminate).
      assert (NS : ssort K <> []).
      { intro X. assert (P := ssort_perm K). rewrite X in P. apply Permutation_nil in P. congruence. }
      destruct (ssort K) as [|s0 S0] eqn:ES; [congruence|]. rewrite <- ES.
      assert (X : (if sp_long_only sp then size_long_only sp (st_cash st + v) (ssort K) snap
                   else size_long_short sp (st_cash st + v) (ssort K) snap) = Some target).
      { destruct (sp_long_only sp); [apply (lo_agree E)|apply (ls_agree E)]; assumption. }
      assert (TK : map fst target = ssort K).
      { destruct (sp_long_only sp).
        - rewrite size_long_only_unfold in X. destruct (existsb _ _) in X; [discriminate|]. eapply spec_fold_keys; exact X.
        - rewrite size_long_short_unfold in X. eapply spec_fold_keys; exact X. }
      rewrite X. rewrite orders_agree; [rewrite H; reflexivity|]. rewrite TK. apply ssort_sorted.
  Qed.
End Rebalance.

(** instance 1: the fixed-weight session ([Spec] with a universe and a weight dictionary) *)
Lemma rebalance_agree_fixed sp (ND : NoDup (map fst (sp_weights sp))) hold snap st E v target :
  st_hold st = hold ->
  value_of hold snap = Some v -> (E == st_cash st + v)%Q ->
  (if sp_long_only sp
   then lo_size E (sp_param sp) (sp_fee sp) (fun a => snap_find a snap)
          (merge_weights (map (fun a => (a, 0%Q)) (full_assets (map fst hold) (sp_universe sp))) (sp_weights sp))
   else ls_size E (sp_param sp) (sp_fee sp) (fun a => snap_find a snap)
          (merge_weights (map (fun a => (a, 0%Q)) (full_assets (map fst hold) (sp_universe sp))) (sp_weights sp))) = Ok target ->
  rebalance sp st snap = Some (rebalance_orders target hold).
Proof.
  apply rebalance_agree.
  - apply (proj1 (proj2 (merged_weights_repr (map fst hold) (sp_universe sp) (sp_weights sp) ND))).
  - intros st0 H. unfold assets_of. rewrite H. rewrite (sort_by_key_map (fun a => (a, tt))); [|reflexivity].
    rewrite map_map. simpl. rewrite map_id. symmetry. apply assets_agree. exact ND.
Qed.

(** instance 2: the rules driven by a recorded target-allocation row [fw] (any alpha model): the
    row is the weight dictionary, there is no separate universe, holdings are among its keys *)
Definition with_alloc_keys_ok (hold : list (string * Z)) (fw : weights) : Prop :=
  NoDup (map fst fw) /\ (forall a, In a (map fst hold) -> In a (map fst fw)).

Lemma rebalance_agree_row sp fw hold snap st E v target :
  with_alloc_keys_ok hold fw ->
  st_hold st = hold ->
  value_of hold snap = Some v -> (E == st_cash st + v)%Q ->
  (if sp_long_only sp
   then lo_size E (sp_param sp) (sp_fee sp) (fun a => snap_find a snap) fw
   else ls_size E (sp_param sp) (sp_fee sp) (fun a => snap_find a snap) fw) = Ok target ->
  rebalance (with_alloc sp fw) st snap = Some (rebalance_orders target hold).
Proof.
  intros [ND SUB]. apply (rebalance_agree (with_alloc sp fw) hold snap fw).
  - cbn [with_alloc sp_weights]. apply keyed_repr. intros a x I. unfold wt. rewrite (w_find_in _ _ _ ND I). reflexivity.
  - intros st0 H. unfold assets_of. rewrite H. cbn [with_alloc sp_universe sp_weights app].
    rewrite (sort_by_key_map (fun a => (a, tt))); [|reflexivity]. rewrite map_map. simpl. rewrite map_id.
    apply sorted_same_members; try apply ssort_sorted.
    + apply ssort_nodup. rewrite uniq_dedup. apply dedup_nodup.
    + apply ssort_nodup. exact ND.
    + intro x. rewrite !ssort_in, uniq_dedup, dedup_in, in_app_iff. split; [intros [I|I]; auto|auto].
Qed.
