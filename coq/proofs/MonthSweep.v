(** Calendar facts needed for "last business day of the month": month_index never decreases and
    moves by at most one from a day to the next.  Proved for ALL days: a complete sweep of one
    400-year cycle by [vm_compute] (146097 days; the domain is finite modulo the period) lifted to
    every integer day by the periodicity lemma. *)
From Coq Require Import ZArith Bool List Lia.
From QS Require Import theories.Exchange theories.Calendar proofs.ClockProofs.
Import ListNotations.
Open Scope Z_scope.
Ltac Zify.zify_post_hook ::= Z.div_mod_to_equations.

Definition step_ok (d : Z) : bool :=
  (month_index d <=? month_index (d + 1)) && (month_index (d + 1) <=? month_index d + 1).

(** iterate over [0, n) without building the list *)
Fixpoint sweep (n : nat) (d : Z) : bool :=
  match n with O => true | S k => step_ok d && sweep k (d + 1) end.

Lemma sweep_spec n : forall d, sweep n d = true -> forall x, d <= x < d + Z.of_nat n -> step_ok x = true.
Proof.
  induction n as [|n IH]; intros d H x R; [lia|].
  simpl in H. apply andb_true_iff in H. destruct H as [H1 H2].
  destruct (Z.eq_dec x d); [subst; assumption|]. apply (IH (d + 1)); [assumption|lia].
Qed.

Definition cycle : nat := Z.to_nat 146097.

Lemma cycle_sweep : sweep cycle 0 = true.
Proof. vm_compute. reflexivity. Qed.

Lemma civil_periodic d : civil (d + 146097) = (let '(y, m, dd) := civil d in (y + 400, m, dd)).
Proof.
  unfold civil.
  replace ((d + 146097 + 719468) / 146097) with ((d + 719468) / 146097 + 1) by lia.
  replace (d + 146097 + 719468 - ((d + 719468) / 146097 + 1) * 146097)
    with (d + 719468 - (d + 719468) / 146097 * 146097) by lia.
  set (doe := d + 719468 - (d + 719468) / 146097 * 146097).
  set (yoe := (doe - doe / 1460 + doe / 36524 - doe / 146096) / 365).
  set (doy := doe - (365 * yoe + yoe / 4 - yoe / 100)).
  set (mp := (5 * doy + 2) / 153).
  replace (yoe + ((d + 719468) / 146097 + 1) * 400) with (yoe + (d + 719468) / 146097 * 400 + 400) by lia.
  destruct (mp <? 10); destruct (_ <=? 2); f_equal; f_equal; lia.
Qed.

Lemma month_index_periodic d : month_index (d + 146097) = month_index d + 4800.
Proof.
  unfold month_index, year_of, month_of. rewrite civil_periodic.
  destruct (civil d) as [[y m] dd]. simpl. lia.
Qed.

Lemma month_index_periodic_n d (q : Z) : month_index (d + 146097 * q) = month_index d + 4800 * q.
Proof.
  assert (P : forall n : nat, forall d, month_index (d + 146097 * Z.of_nat n) = month_index d + 4800 * Z.of_nat n).
  { induction n as [|n IH]; intro x.
    - simpl. rewrite Z.add_0_r. lia.
    - replace (x + 146097 * Z.of_nat (S n)) with ((x + 146097 * Z.of_nat n) + 146097) by lia.
      rewrite month_index_periodic, IH. lia. }
  destruct (Z_le_gt_dec 0 q) as [G|L].
  - rewrite <- (Z2Nat.id q) by lia. apply P.
  - pose proof (P (Z.to_nat (- q)) (d + 146097 * q)) as H.
    rewrite Z2Nat.id in H by lia.
    replace (d + 146097 * q + 146097 * - q) with d in H by lia. lia.
Qed.

Theorem month_step d : month_index d <= month_index (d + 1) <= month_index d + 1.
Proof.
  pose (q := d / 146097). pose (r := d mod 146097).
  assert (D : d = r + 146097 * q) by (unfold q, r; lia).
  assert (R : 0 <= r < 146097) by (unfold r; lia).
  pose proof (sweep_spec cycle 0 cycle_sweep r) as S.
  assert (S' : step_ok r = true) by (apply S; unfold cycle; lia).
  unfold step_ok in S'. apply andb_true_iff in S'. destruct S' as [S1 S2].
  apply Z.leb_le in S1. apply Z.leb_le in S2.
  rewrite D. replace (r + 146097 * q + 1) with ((r + 1) + 146097 * q) by lia.
  rewrite !month_index_periodic_n. lia.
Qed.

Lemma month_index_monotone a b : a <= b -> month_index a <= month_index b.
Proof.
  intro L. replace b with (a + Z.of_nat (Z.to_nat (b - a))) by lia.
  induction (Z.to_nat (b - a)) as [|n IH]; [rewrite Z.add_0_r; lia|].
  replace (a + Z.of_nat (S n)) with (a + Z.of_nat n + 1) by lia.
  pose proof (month_step (a + Z.of_nat n)). lia.
Qed.
