(** C13: rebalance schedules. *)
From Coq Require Import ZArith Bool List String Lia Sorted.
From QS Require Import theories.Exchange theories.Calendar theories.Position theories.Clock theories.Schedule
  proofs.ClockProofs proofs.MonthSweep.
Import ListNotations.
Open Scope Z_scope.
Ltac Zify.zify_post_hook ::= Z.div_mod_to_equations.

Lemma in_range_days d start stop keep :
  In d (range_days start stop keep) <->
  (day start <= d <= day stop /\ keep d = true /\ d * 86400 + tod start <= stop).
Proof. unfold range_days. rewrite filter_In, in_days_between, andb_true_iff, Z.leb_le. tauto. Qed.

Lemma range_days_sorted start stop keep : StronglySorted Z.lt (range_days start stop keep).
Proof. unfold range_days. apply filter_sorted. apply zrange_sorted. Qed.

Lemma map_stamp_sorted mt ds :
  StronglySorted Z.lt ds -> StronglySorted Z.lt (map (fun d => d * 86400 + mt) ds).
Proof.
  induction 1 as [|d ds S IH F]; simpl; constructor; [assumption|].
  apply Forall_forall. intros y I. apply in_map_iff in I. destruct I as (d' & E & I).
  rewrite Forall_forall in F. specialize (F _ I). lia.
Qed.

(** * Weekly *)
Lemma weekly_exact start stop wd pm k t :
  parse_weekday wd = Some k ->
  start <= stop -> tod start <= tod stop ->
  (exists l, weekly start stop wd pm = Ok l /\
     (In t l <-> exists d, t = d * 86400 + market_time pm /\ day start <= d <= day stop /\ weekday d = k) /\
     StronglySorted Z.lt l).
Proof.
  intros P L T. unfold weekly. rewrite P. eexists. split; [reflexivity|]. split.
  - rewrite in_map_iff. split.
    + intros (d & E & I). apply in_range_days in I. destruct I as (R & K & _). apply Z.eqb_eq in K.
      exists d. repeat split; try lia.
    + intros (d & E & R & K). exists d. split; [lia|]. apply in_range_days.
      split; [lia|]. split; [apply Z.eqb_eq; exact K|]. unfold day, tod in *. lia.
  - apply map_stamp_sorted. apply range_days_sorted.
Qed.

Lemma unknown_weekday_rejected start stop wd pm :
  parse_weekday wd = None -> weekly start stop wd pm = Err BadWeekday.
Proof. intro P. unfold weekly. rewrite P. reflexivity. Qed.

Lemma parse_weekday_spec wd k :
  parse_weekday wd = Some k ->
  (k = 0 /\ upper wd = "MON"%string) \/ (k = 1 /\ upper wd = "TUE"%string) \/ (k = 2 /\ upper wd = "WED"%string) \/
  (k = 3 /\ upper wd = "THU"%string) \/ (k = 4 /\ upper wd = "FRI"%string).
Proof.
  unfold parse_weekday.
  destruct (String.eqb (upper wd) "MON") eqn:E0; [apply String.eqb_eq in E0; intro H; inversion H; tauto|].
  destruct (String.eqb (upper wd) "TUE") eqn:E1; [apply String.eqb_eq in E1; intro H; inversion H; tauto|].
  destruct (String.eqb (upper wd) "WED") eqn:E2; [apply String.eqb_eq in E2; intro H; inversion H; tauto|].
  destruct (String.eqb (upper wd) "THU") eqn:E3; [apply String.eqb_eq in E3; intro H; inversion H; tauto|].
  destruct (String.eqb (upper wd) "FRI") eqn:E4; [apply String.eqb_eq in E4; intro H; inversion H; tauto|].
  discriminate.
Qed.

(** * Daily *)
Lemma daily_exact start stop pm t :
  (In t (daily start stop pm) <->
     exists d, t = d * 86400 + market_time pm /\ day start <= d <= day stop /\ weekday d <= 4) /\
  StronglySorted Z.lt (daily start stop pm).
Proof.
  unfold daily. split.
  - rewrite in_map_iff. split.
    + intros (d & E & I). apply filter_In in I. destruct I as [I W]. apply in_days_between in I.
      unfold is_weekday in W. apply Z.leb_le in W. exists d. repeat split; lia.
    + intros (d & E & R & W). exists d. split; [lia|]. apply filter_In. split; [apply in_days_between; lia|].
      unfold is_weekday. apply Z.leb_le. exact W.
  - apply map_stamp_sorted. apply filter_sorted. apply zrange_sorted.
Qed.

(** * End of month: the LAST Monday-Friday date of its month *)
Lemma next_weekday_spec d :
  d < next_weekday d /\ weekday (next_weekday d) <= 4 /\
  forall x, d < x < next_weekday d -> 5 <= weekday x.
Proof.
  unfold next_weekday, weekday.
  destruct ((d + 3) mod 7 <=? 3) eqn:A; [apply Z.leb_le in A|apply Z.leb_gt in A].
  { repeat split; try lia. }
  destruct ((d + 3) mod 7 =? 4) eqn:B; [apply Z.eqb_eq in B|apply Z.eqb_neq in B].
  { repeat split; try lia. }
  destruct ((d + 3) mod 7 =? 5) eqn:C; [apply Z.eqb_eq in C|apply Z.eqb_neq in C].
  { repeat split; try lia. }
  repeat split; try lia.
Qed.

Lemma is_bme_iff d :
  is_bme d = true <->
  (weekday d <= 4 /\ forall x, d < x -> weekday x <= 4 -> month_index x <> month_index d).
Proof.
  unfold is_bme, is_weekday. rewrite andb_true_iff, Z.leb_le, negb_true_iff, Z.eqb_neq.
  destruct (next_weekday_spec d) as (N1 & N2 & N3).
  split.
  - intros [W M]. split; [exact W|]. intros x L Wx.
    assert (G : next_weekday d <= x).
    { destruct (Z_le_gt_dec (next_weekday d) x); [assumption|]. specialize (N3 x). lia. }
    pose proof (month_index_monotone _ _ G). pose proof (month_index_monotone d (next_weekday d)). lia.
  - intros [W H]. split; [exact W|]. apply H; assumption.
Qed.

Lemma eom_exact start stop pm t :
  start <= stop -> tod start <= tod stop ->
  (In t (end_of_month start stop pm) <->
     exists d, t = d * 86400 + market_time pm /\ day start <= d <= day stop /\ weekday d <= 4 /\
               forall x, d < x -> weekday x <= 4 -> month_index x <> month_index d) /\
  StronglySorted Z.lt (end_of_month start stop pm).
Proof.
  intros L T. unfold end_of_month. split.
  - rewrite in_map_iff. split.
    + intros (d & E & I). apply in_range_days in I. destruct I as (R & K & _). apply is_bme_iff in K.
      exists d. repeat split; try lia; tauto.
    + intros (d & E & R & W & H). exists d. split; [lia|]. apply in_range_days.
      split; [lia|]. split; [apply is_bme_iff; auto|]. unfold day, tod in *. lia.
  - apply map_stamp_sorted. apply range_days_sorted.
Qed.

(** * Buy and hold *)
Lemma bah_exact start :
  (weekday (day start) <= 4 -> buy_and_hold start = [start]) /\
  (5 <= weekday (day start) ->
     exists d, buy_and_hold start = [d * 86400 + tod start] /\ day start < d /\ weekday d <= 4 /\
               forall x, day start < x < d -> 5 <= weekday x).
Proof.
  unfold buy_and_hold, is_weekday. split.
  - intro W. apply Z.leb_le in W. rewrite W. reflexivity.
  - intro W. assert (E : (weekday (day start) <=? 4) = false) by (apply Z.leb_gt; lia). rewrite E.
    exists (next_weekday (day start)). split; [reflexivity|]. apply next_weekday_spec.
Qed.

(** * Every scheduled instant is an event the clock emits for the same range *)
Lemma meets_clock_weekly start stop wd pm l t :
  start <= stop -> weekly start stop wd pm = Ok l -> In t l ->
  exists evs, sim_events start stop false false = Ok evs /\
              In (t, if pm then MarketOpen else MarketClose) evs.
Proof.
  intros L W I. rewrite (events_exact _ _ _ _ L). eexists. split; [reflexivity|].
  unfold weekly in W. destruct (parse_weekday wd) as [k|] eqn:P; [|discriminate]. inversion W; subst; clear W.
  apply in_map_iff in I. destruct I as (d & E & I). apply in_range_days in I. destruct I as (R & K & S).
  apply Z.eqb_eq in K. destruct (parse_weekday_spec _ _ P) as [[? _]|[[? _]|[[? _]|[[? _]|[? _]]]]]; subst k;
    apply in_events; exists d; (split; [apply in_bdays; lia|]); unfold market_time in E; destruct pm; subst; tauto.
Qed.

Lemma meets_clock_eom start stop pm t :
  start <= stop -> In t (end_of_month start stop pm) ->
  exists evs, sim_events start stop false false = Ok evs /\
              In (t, if pm then MarketOpen else MarketClose) evs.
Proof.
  intros L I. rewrite (events_exact _ _ _ _ L). eexists. split; [reflexivity|].
  unfold end_of_month in I. apply in_map_iff in I. destruct I as (d & E & I).
  apply in_range_days in I. destruct I as (R & K & S). apply is_bme_iff in K. destruct K as [K _].
  apply in_events. exists d. split; [apply in_bdays; lia|]. unfold market_time in E. destruct pm; subst; tauto.
Qed.

Lemma meets_clock_daily start stop pm t :
  start <= stop -> tod start <= tod stop -> In t (daily start stop pm) ->
  exists evs, sim_events start stop false false = Ok evs /\
              In (t, if pm then MarketOpen else MarketClose) evs.
Proof.
  intros L T I. rewrite (events_exact _ _ _ _ L). eexists. split; [reflexivity|].
  apply daily_exact in I. destruct I as (d & E & R & W).
  apply in_events. exists d. split; [apply days_exact; auto|]. unfold market_time in E. destruct pm; subst; tauto.
Qed.
