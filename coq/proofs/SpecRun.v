(** C08 refinement, part 4: events, days and the whole run.  A fixed-weight session whose trace
    carries no error computes exactly what the rules simulator [Spec.spec_run] computes. *)
From Coq Require Import ZArith QArith Qround Qabs String Bool List Lia Lqa Permutation Sorted.
From QS Require Import theories.Num theories.Position theories.Portfolio theories.Fees theories.Exchange
  theories.Broker theories.Calendar theories.Clock theories.Schedule theories.Sizer theories.PCM theories.Backtest theories.Spec
  proofs.QLemmas proofs.Ledger proofs.Orders proofs.PcmProofs proofs.ClockProofs proofs.BacktestProofs proofs.Refinement
  proofs.SpecLists proofs.SpecSizing proofs.SpecBroker.
Import ListNotations.
Open Scope Z_scope.

(** * Views of what an event emits *)
Definition out_fills (t : Z) (outs : list output) : list fillrec :=
  flat_map (fun o => match o with OFill tx => [(t, t_asset tx, t_qty tx, t_price tx, t_comm tx)] | _ => [] end) outs.
Definition out_equity (outs : list output) : list Q :=
  flat_map (fun o => match o with OEquity q => [q] | _ => [] end) outs.
Definition restamp (t : Z) (r : fillrec) : fillrec :=
  match r with (_, a, q, p, c) => (t, a, q, p, c) end.

Lemma out_fills_app t a b : out_fills t (a ++ b) = out_fills t a ++ out_fills t b.
Proof. apply flat_map_app. Qed.
Lemma out_equity_app a b : out_equity (a ++ b) = out_equity a ++ out_equity b.
Proof. apply flat_map_app. Qed.
Lemma out_fills_effects t ef : out_fills t (fills_of_effects ef) = map (restamp t) (eff_view ef).
Proof.
  induction ef as [|e r IH]; [reflexivity|]. unfold fills_of_effects, eff_view in *. cbn [flat_map].
  rewrite out_fills_app, map_app, IH. destruct e; reflexivity.
Qed.
Lemma out_equity_effects ef : out_equity (fills_of_effects ef) = [].
Proof.
  induction ef as [|e r IH]; [reflexivity|]. unfold fills_of_effects in *. cbn [flat_map].
  rewrite out_equity_app, IH. destruct e; reflexivity.
Qed.

Definition sfill_time (f : sfill) : Z := match f with SFill t _ _ _ _ => t end.
Lemma fill_all_times fee t s os : forall st st' fs,
  Spec.fill_all fee t s st os = Some (st', fs) -> Forall (fun f => sfill_time f = t) fs.
Proof.
  induction os as [|o r IH]; intros st st' fs; cbn [Spec.fill_all].
  - intro X; inversion X; constructor.
  - unfold fill_one at 1. destruct (price_of (fst o) s); [|discriminate].
    match goal with |- context [Spec.fill_all fee t s ?S r] => destruct (Spec.fill_all fee t s S r) as [[st2 fs2]|] eqn:FA end; [|discriminate].
    intro X; inversion X; subst. constructor; [reflexivity|]. eapply IH; exact FA.
Qed.
Lemma restamp_sfills t fs :
  Forall (fun f => sfill_time f = t) fs -> map (restamp t) (map sfill_view fs) = map sfill_view fs.
Proof.
  induction 1 as [|f r H F IH]; [reflexivity|]. cbn [map]. rewrite IH. destruct f. cbn in H. subst. reflexivity.
Qed.

(** * Views of a whole trace and of the simulator's days; the session's final state *)
Definition tr_fills (tr : list (Z * output)) : list fillrec :=
  flat_map (fun o => match snd o with OFill tx => [(fst o, t_asset tx, t_qty tx, t_price tx, t_comm tx)] | _ => [] end) tr.
Definition tr_equity (tr : list (Z * output)) : list (Z * Q) :=
  flat_map (fun o => match snd o with OEquity q => [(fst o, q)] | _ => [] end) tr.
Definition spec_fills (days : list day_out) : list fillrec := flat_map (fun d => map sfill_view (d_fills d)) days.
Definition spec_equity (days : list day_out) : list (Z * Q) :=
  flat_map (fun d => match d_equity d with Some e => [e] | None => [] end) days.
Definition same_equity (e e' : Z * Q) : Prop := fst e = fst e' /\ (snd e == snd e')%Q.

Lemma tr_fills_app a b : tr_fills (a ++ b) = tr_fills a ++ tr_fills b.
Proof. apply flat_map_app. Qed.
Lemma tr_equity_app a b : tr_equity (a ++ b) = tr_equity a ++ tr_equity b.
Proof. apply flat_map_app. Qed.
Lemma tr_fills_stamp t outs : tr_fills (map (fun o => (t, o)) outs) = out_fills t outs.
Proof.
  induction outs as [|o r IH]; [reflexivity|]. cbn [map]. change ((t, o) :: map (fun o0 => (t, o0)) r) with ([(t, o)] ++ map (fun o0 => (t, o0)) r).
  rewrite tr_fills_app, IH. destruct o; reflexivity.
Qed.
Lemma tr_equity_stamp t outs : tr_equity (map (fun o => (t, o)) outs) = map (fun q => (t, q)) (out_equity outs).
Proof.
  induction outs as [|o r IH]; [reflexivity|]. cbn [map]. change ((t, o) :: map (fun o0 => (t, o0)) r) with ([(t, o)] ++ map (fun o0 => (t, o0)) r).
  rewrite tr_equity_app, IH. destruct o; reflexivity.
Qed.

Fixpoint end_from (cfg : config) (sched : list Z) (market : Z -> snapshot) (st : sess) (evs : list (Z * ekind)) : sess :=
  match evs with
  | [] => st
  | (t, k) :: r =>
      match event_step cfg sched st t k (market t) with
      | (st', _, Some _) => st'
      | (st', _, None) => end_from cfg sched market st' r
      end
  end.
Definition end_state (cfg : config) (market : Z -> snapshot) : option sess :=
  match session_init cfg with
  | Ok (st, evs, sched) => Some (end_from cfg sched market st evs)
  | Err _ => None
  end.
Definition pending_of (b : broker) : list (string * Z) :=
  match acct_find pid (b_accts b) with Some a => map oview (a_q a) | None => [] end.

Lemma noerr_app (a b : list (Z * output)) : tr_noerr (a ++ b) <-> tr_noerr a /\ tr_noerr b.
Proof. unfold tr_noerr. apply Forall_app. Qed.
Lemma noerr_err t e : ~ tr_noerr [(t, OErr e)].
Proof. intro H. inversion H as [|? ? X _]; subst. exact X. Qed.

Section Session.
  Variable cfg : config.
  Variable w : weights.
  Variable u : list string.
  Variable sched : list Z.
  Hypothesis ALPHA : c_alpha cfg = AFixed w.
  Hypothesis UNIV : c_univ cfg = StaticU u.
  Hypothesis LB : c_lookbacks cfg = None.
  Hypothesis NDW : NoDup (map fst w).

  Definition spec_of : spec_cfg :=
    mkSpec (c_start cfg) (c_end cfg) u w (c_cash cfg) sched (c_long_only cfg) (c_param cfg) (c_fee cfg) (c_burn cfg).
  Let sp := spec_of.
  Let fee := c_fee cfg.

  Lemma held_of_core b pf q st : Core0 fee b pf q st -> held_of b = st_hold st /\ equity_of b = pf_total_equity pf.
  Proof.
    intros (HA & _ & _ & HV & _). unfold held_of, equity_of. rewrite HA. cbn [acct_find].
    change (String.eqb pid pid) with true. cbn iota. cbn [a_pf]. split; [exact HV|reflexivity].
  Qed.

  Lemma equity_core snap b pf q st :
    Core snap fee b pf q st ->
    exists v, value_of (st_hold st) snap = Some v /\ (pf_total_equity pf == st_cash st + v)%Q.
  Proof.
    intros (HA & HF & HC & HV & HI & HN & HP).
    destruct (equity_is_cash_plus_marked_holdings pf snap) as (v & V & E).
    { intros a p I. unfold priced in HP. unfold integral in HI. rewrite Forall_forall in HP, HI.
      split; [apply (HP (a, p) I)|apply (HI (a, p) I)]. }
    exists v. split; [rewrite <- HV; exact V|]. rewrite E, HC. reflexivity.
  Qed.

  (** portfolio construction at one instant = the rules' rebalance *)
  Lemma construction_agrees snap b pf q st target :
    Core snap fee b pf q st ->
    sizer_of cfg b snap (merge_weights (map (fun a => (a, 0%Q)) (full_assets (map fst (held_of b)) u)) w) = Ok target ->
    rebalance sp st snap = Some (rebalance_orders target (held_of b)).
  Proof.
    intros HC SZ. assert (HC' := HC). apply core_split in HC'. destruct HC' as [HC0 _].
    destruct (held_of_core _ _ _ _ HC0) as [HH HE]. destruct (equity_core _ _ _ _ _ HC) as (v & V & E).
    rewrite HH in *. unfold sizer_of in SZ. rewrite HE in SZ.
    apply (rebalance_agree_fixed sp NDW (st_hold st) snap st (pf_total_equity pf) v target eq_refl V E). exact SZ.
  Qed.

  (** * One event *)
  Definition DayInv (s : sess) (st : sstate) : Prop :=
    exists pf q, Core0 fee (ss_broker s) pf q st /\ map oview q = st_pending st /\ Forall (fun o => o_qty o <> 0) q.

  Lemma burn_same t : burn_passed sp t = burn_ok cfg t.
  Proof. reflexivity. Qed.

  Lemma event_open_sim s st t snap s' outs :
    DayInv s st -> is_open t = true ->
    event_step cfg sched s t MarketOpen snap = (s', outs, None) ->
    exists st1 f1 st2 f2 pf2,
      Spec.fill_all fee t snap (mkS (st_cash st) (st_hold st) [])
        (filter (fun o => snd o <? 0) (st_pending st) ++ filter (fun o => negb (snd o <? 0)) (st_pending st)) = Some (st1, f1) /\
      (if burn_passed sp t && existsb (Z.eqb t) sched
       then match rebalance sp st1 snap with None => None | Some os => Spec.fill_all fee t snap st1 os end
       else Some (st1, [])) = Some (st2, f2) /\
      Core snap fee (ss_broker s') pf2 [] st2 /\ st_pending st2 = [] /\
      out_fills t outs = map sfill_view (f1 ++ f2) /\ out_equity outs = [].
  Proof.
    intros (pf & q & C0 & QP & NZ) OP. unfold event_step.
    destruct (step (snap_bidask snap) (snap_mid snap) true (ss_broker s) (Update t)) as [[b1 [u0|e]] ef] eqn:S0;
      [|intro X; inversion X].
    apply step_update_ok in S0.
    destruct (update_open_core snap fee _ _ _ _ _ _ _ C0 OP NZ S0) as (pf1 & st1 & f1 & FA & EV & C1 & D1 & P1).
    rewrite QP in FA. cbv beta zeta iota. rewrite burn_same.
    assert (T1 : Forall (fun f => sfill_time f = t) f1) by (eapply fill_all_times; exact FA).
    destruct (burn_ok cfg t && existsb (Z.eqb t) sched) eqn:RB.
    - unfold alpha_eval. rewrite ALPHA, UNIV. cbn [universe_assets].
      destruct (sizer_of cfg b1 snap _) as [target|e] eqn:SZ; [|intro X; inversion X].
      destruct (submit_each snap b1 t (rebalance_orders target (held_of b1))) as [[b2 ef2] e2] eqn:SE.
      destruct e2 as [e2|]; intro X; inversion X; subst s' outs; clear X.
      assert (RA := construction_agrees snap b1 pf1 [] st1 target C1 SZ).
      assert (NZO : Forall (fun o : string * Z => snd o <> 0) (rebalance_orders target (held_of b1))).
      { apply (proj2 (orders_sorted_nonzero target (held_of b1))). }
      destruct (submit_each_open snap fee t OP _ _ _ _ _ _ C1 P1 NZO SE) as (pf2 & st2 & f2 & FA2 & EV2 & C2 & P2).
      assert (T2 : Forall (fun f => sfill_time f = t) f2) by (eapply fill_all_times; exact FA2).
      exists st1, f1, st2, f2, pf2. split; [exact FA|]. split; [rewrite RA; exact FA2|]. split; [exact C2|]. split; [exact P2|].
      cbn [ss_broker]. rewrite app_nil_r. split.
      + rewrite out_fills_app. cbn [out_fills flat_map app]. fold (out_fills t (fills_of_effects ef2)).
        rewrite !out_fills_effects, EV, EV2, !restamp_sfills, map_app by assumption. reflexivity.
      + rewrite out_equity_app. cbn [out_equity flat_map app]. fold (out_equity (fills_of_effects ef2)).
        rewrite !out_equity_effects. reflexivity.
    - intro X; inversion X; subst s' outs; clear X.
      exists st1, f1, st1, [], pf1. split; [exact FA|]. split; [reflexivity|]. split; [exact C1|]. split; [exact P1|].
      rewrite !app_nil_r. split.
      + rewrite out_fills_effects, EV, restamp_sfills by assumption. reflexivity.
      + apply out_equity_effects.
  Qed.

  Lemma core_repend snap b pf q st os :
    Core snap fee b pf q st -> Core snap fee b pf q (mkS (st_cash st) (st_hold st) os).
  Proof. intros H. exact H. Qed.

  Lemma event_close_sim s st t snap s' outs pf :
    Core0 fee (ss_broker s) pf [] st -> is_open t = false ->
    event_step cfg sched s t MarketClose snap = (s', outs, None) ->
    exists os v E,
      (if burn_passed sp t && existsb (Z.eqb t) sched then rebalance sp st snap else Some []) = Some os /\
      value_of (st_hold st) snap = Some v /\
      DayInv s' (mkS (st_cash st) (st_hold st) os) /\
      out_fills t outs = [] /\
      out_equity outs = (if burn_ok cfg t then [E] else []) /\ (E == st_cash st + v)%Q.
  Proof.
    intros C0 CL. unfold event_step.
    destruct (step (snap_bidask snap) (snap_mid snap) true (ss_broker s) (Update t)) as [[b1 [u0|e]] ef] eqn:S0;
      [|intro X; inversion X].
    apply step_update_ok in S0.
    destruct (update_closed_core snap fee _ _ _ _ _ _ _ C0 CL S0) as (pf1 & C1 & EF & D1). subst ef.
    unfold signals_update. rewrite LB. cbv beta zeta iota. rewrite burn_same.
    destruct (burn_ok cfg t && existsb (Z.eqb t) sched) eqn:RB.
    - unfold alpha_eval. rewrite ALPHA, UNIV. cbn [universe_assets].
      destruct (sizer_of cfg b1 snap _) as [target|e] eqn:SZ; [|intro X; inversion X].
      destruct (submit_each snap b1 t (rebalance_orders target (held_of b1))) as [[b2 ef2] e2] eqn:SE.
      destruct e2 as [e2|]; intro X; inversion X; subst s' outs; clear X.
      assert (RA := construction_agrees snap b1 pf1 [] st target C1 SZ).
      destruct (submit_each_closed snap fee t CL _ _ _ _ _ _ _ C1 SE) as (pf2 & q2 & C2 & Q2 & EV2 & NZ2).
      destruct (equity_core _ _ _ _ _ C2) as (v & V & E).
      assert (C2' := C2). apply core_split in C2'. destruct C2' as [C20 _].
      destruct (held_of_core _ _ _ _ C20) as [_ HE].
      exists (rebalance_orders target (held_of b1)), v, (equity_of b2).
      split; [exact RA|]. split; [exact V|]. split.
      { exists pf2, q2. split; [exact C20|]. split; [exact Q2|]. apply NZ2; [constructor|].
        apply (proj2 (orders_sorted_nonzero target (held_of b1))). }
      cbn [fills_of_effects flat_map app]. split.
      + cbn [out_fills flat_map app]. fold (out_fills t (fills_of_effects ef2 ++ (if burn_ok cfg t then [OEquity (equity_of b2)] else []))).
        rewrite out_fills_app, out_fills_effects, EV2. destruct (burn_ok cfg t); reflexivity.
      + split; [|rewrite HE; exact E].
        cbn [out_equity flat_map app]. fold (out_equity (fills_of_effects ef2 ++ (if burn_ok cfg t then [OEquity (equity_of b2)] else []))).
        rewrite out_equity_app, out_equity_effects. destruct (burn_ok cfg t); reflexivity.
    - intro X; inversion X; subst s' outs; clear X.
      destruct (equity_core _ _ _ _ _ C1) as (v & V & E).
      assert (C1' := C1). apply core_split in C1'. destruct C1' as [C10 _].
      destruct (held_of_core _ _ _ _ C10) as [_ HE].
      exists [], v, (equity_of b1). split; [reflexivity|]. split; [exact V|]. split.
      { exists pf1, []. split; [exact C10|]. split; [reflexivity|constructor]. }
      cbn [fills_of_effects flat_map app]. split; [destruct (burn_ok cfg t); reflexivity|].
      split; [destruct (burn_ok cfg t); reflexivity|]. rewrite HE. exact E.
  Qed.

  (** * One business day: the open event then the close event = [Spec.one_day] *)
  Lemma day_sim market s st d s1 o1 s2 o2 :
    DayInv s st -> weekday d <= 4 ->
    event_step cfg sched s (d * 86400 + 52200) MarketOpen (market (d * 86400 + 52200)) = (s1, o1, None) ->
    event_step cfg sched s1 (d * 86400 + 75600) MarketClose (market (d * 86400 + 75600)) = (s2, o2, None) ->
    exists st' dout,
      one_day sp market st d = Some (st', dout) /\ DayInv s2 st' /\
      out_fills (d * 86400 + 52200) o1 ++ out_fills (d * 86400 + 75600) o2 = map sfill_view (d_fills dout) /\
      out_equity o1 = [] /\
      match d_equity dout with
      | Some e => exists E, out_equity o2 = [E] /\ fst e = d * 86400 + 75600 /\ (E == snd e)%Q
      | None => out_equity o2 = []
      end.
  Proof.
    intros DI WD E1 E2.
    destruct (event_open_sim s st _ _ s1 o1 DI (open_at_1430 d WD) E1)
      as (st1 & f1 & st2 & f2 & pf2 & FA & RB & C2 & P2 & OF1 & OE1).
    apply core_split in C2. destruct C2 as [C20 _].
    destruct (event_close_sim s1 st2 _ _ s2 o2 pf2 C20 (closed_at_2100 d) E2)
      as (os & v & E & RC & V & DI2 & OF2 & OE2 & EQ).
    unfold one_day. change (sp_fee sp) with fee. change (sp_schedule sp) with sched.
    cbv zeta. rewrite FA, RB, RC. cbn [st_hold st_cash]. rewrite V.
    eexists. eexists. split; [reflexivity|]. split; [exact DI2|]. cbn [d_fills d_equity].
    split; [rewrite OF1, OF2, app_nil_r; reflexivity|]. split; [exact OE1|].
    rewrite burn_same. destruct (burn_ok cfg (d * 86400 + 75600)).
    - exists E. split; [exact OE2|]. split; [reflexivity|exact EQ].
    - exact OE2.
  Qed.

  (** * All the days *)
  Lemma days_sim market : forall days s st,
    DayInv s st -> Forall (fun d => weekday d <= 4) days ->
    tr_noerr (run_from cfg sched market s (flat_map (day_events false false) days)) ->
    exists st' douts,
      run_days sp market st days = Some (st', douts) /\
      DayInv (end_from cfg sched market s (flat_map (day_events false false) days)) st' /\
      tr_fills (run_from cfg sched market s (flat_map (day_events false false) days)) = spec_fills douts /\
      Forall2 same_equity (tr_equity (run_from cfg sched market s (flat_map (day_events false false) days))) (spec_equity douts).
  Proof.
    induction days as [|d r IH]; intros s st DI WD.
    - intros _. exists st, []. split; [reflexivity|]. split; [exact DI|]. split; [reflexivity|constructor].
    - inversion WD as [|? ? WDd WDr]; subst.
      cbn [flat_map day_events app run_from end_from run_days].
      destruct (event_step cfg sched s (d * 86400 + 52200) MarketOpen (market (d * 86400 + 52200))) as [[s1 o1] [e1|]] eqn:E1.
      { intro NE. apply noerr_app in NE. destruct NE as [_ NE]. exfalso. exact (noerr_err _ _ NE). }
      destruct (event_step cfg sched s1 (d * 86400 + 75600) MarketClose (market (d * 86400 + 75600))) as [[s2 o2] [e2|]] eqn:E2.
      { intro NE. apply noerr_app in NE. destruct NE as [_ NE]. apply noerr_app in NE. destruct NE as [_ NE].
        exfalso. exact (noerr_err _ _ NE). }
      intro NE. apply noerr_app in NE. destruct NE as [_ NE]. apply noerr_app in NE. destruct NE as [_ NE].
      destruct (day_sim market s st d s1 o1 s2 o2 DI WDd E1 E2) as (st1 & dout & OD & DI2 & FV & EV1 & EV2).
      destruct (IH s2 st1 DI2 WDr NE) as (st' & douts & RD & DE & TF & TE).
      exists st', (dout :: douts). rewrite OD, RD. split; [reflexivity|]. split; [exact DE|]. split.
      + rewrite !tr_fills_app, !tr_fills_stamp, TF. unfold spec_fills at 2. cbn [flat_map].
        rewrite <- FV, app_assoc. reflexivity.
      + rewrite !tr_equity_app, !tr_equity_stamp, EV1. cbn [map app]. unfold spec_equity. cbn [flat_map].
        apply Forall2_app; [|exact TE].
        destruct (d_equity dout) as [e|].
        * destruct EV2 as (E & OE & T & Q). rewrite OE. cbn [map]. constructor; [|constructor].
          split; [symmetry; exact T|exact Q].
        * rewrite EV2. constructor.
  Qed.
End Session.

(** * Start of a session *)
Lemma init_inv cfg s evs sched :
  session_init cfg = Ok (s, evs, sched) ->
  DayInv cfg s (mkS (c_cash cfg) [] []) /\
  evs = flat_map (day_events false false) (bdays (c_start cfg) (c_end cfg)) /\
  schedule_of cfg = Ok sched.
Proof.
  unfold session_init, broker_init.
  change (negb (existsb (String.eqb "USD") currencies)) with false. cbv iota.
  destruct (qltb (c_cash cfg) 0) eqn:NEG; [discriminate|].
  cbn -[qltb qadd qsub Z.ltb String.eqb pid sim_events schedule_of lo_check_buffer ls_check_leverage sig_init].
  change (String.eqb pid pid) with true. cbv iota.
  rewrite NEG.
  cbn -[qltb qadd qsub Z.ltb String.eqb pid sim_events schedule_of lo_check_buffer ls_check_leverage sig_init].
  destruct (qltb (c_cash cfg) (c_cash cfg)) eqn:OD; [discriminate|].
  unfold pf_subscribe, pf_init.
  cbn -[qltb qadd qsub Z.ltb String.eqb pid sim_events schedule_of lo_check_buffer ls_check_leverage sig_init].
  rewrite Z.ltb_irrefl, NEG.
  cbn -[qltb qadd qsub Z.ltb String.eqb pid sim_events schedule_of lo_check_buffer ls_check_leverage sig_init].
  change (String.eqb pid pid) with true. cbv iota.
  unfold sim_events. destruct (c_end cfg <? c_start cfg); [discriminate|].
  destruct (schedule_of cfg) as [sc|e]; [|discriminate].
  destruct (if c_long_only cfg then lo_check_buffer (c_param cfg) else ls_check_leverage (c_param cfg)); [|discriminate].
  intro X; inversion X; subst; clear X. split; [|split; reflexivity].
  eexists. exists []. split; [|split; [reflexivity|constructor]].
  unfold Core0. cbn [ss_broker b_accts b_fee set_cash set_accts pf_cash pf_pos st_cash st_hold].
  split; [reflexivity|]. split; [reflexivity|]. cbn [pf_cash pf_pos]. split; [rewrite qadd_ok; ring|].
  split; [reflexivity|]. split; constructor.
Qed.

(** * The whole run *)
Theorem backtest_refines_spec cfg w u market tr :
  c_alpha cfg = AFixed w -> c_univ cfg = StaticU u -> c_lookbacks cfg = None -> NoDup (map fst w) ->
  run cfg market = Ok tr -> tr_noerr tr ->
  exists sched s_end st days,
    schedule_of cfg = Ok sched /\ end_state cfg market = Some s_end /\
    spec_run (spec_of cfg w u sched) market = Some (st, days) /\
    tr_fills tr = spec_fills days /\
    Forall2 same_equity (tr_equity tr) (spec_equity days) /\
    (cash_of pid (ss_broker s_end) == st_cash st)%Q /\
    held_of (ss_broker s_end) = st_hold st /\
    pending_of (ss_broker s_end) = st_pending st.
Proof.
  intros ALPHA UNIV LB NDW. unfold run, end_state.
  destruct (session_init cfg) as [[[s0 evs] sched]|e] eqn:SI; [|discriminate].
  intro X; inversion X; subst tr; clear X. intro NE.
  destruct (init_inv cfg s0 evs sched SI) as (DI & EVS & SC). subst evs.
  assert (WD : Forall (fun d => weekday d <= 4) (bdays (c_start cfg) (c_end cfg))).
  { apply Forall_forall. intros d I. apply in_bdays in I. tauto. }
  destruct (days_sim cfg w u sched ALPHA UNIV LB NDW market _ s0 _ DI WD NE) as (st & days & RD & DE & TF & TE).
  exists sched, (end_from cfg sched market s0 (flat_map (day_events false false) (bdays (c_start cfg) (c_end cfg)))), st, days.
  split; [exact SC|]. split; [reflexivity|]. split; [exact RD|]. split; [exact TF|]. split; [exact TE|].
  destruct DE as (pf & q & (HA & HF & HC & HV & HI & HN) & QP & NZ).
  unfold cash_of, acct_cash, held_of, pending_of. rewrite HA. cbn [acct_find].
  change (String.eqb pid pid) with true. cbv iota. cbn [a_pf a_q].
  split; [exact HC|]. split; [exact HV|exact QP].
Qed.
