(** C05 / C04: what an update fills, at which price, with which commission, in which order. *)
From Coq Require Import ZArith QArith Qround Qabs String Bool List Lia Lqa Permutation.
From QS Require Import theories.Num theories.Position theories.Portfolio theories.Fees
  theories.Exchange theories.Broker proofs.QLemmas proofs.Ledger.
Import ListNotations.
Open Scope Q_scope.

(** * Fee models *)
Lemma fee_zero x : fee_total ZeroFee x == 0.
Proof. reflexivity. Qed.
Lemma fee_percent c t x : fee_total (PercentFee c t) x == (c + t) * Qabs x.
Proof. simpl. ring. Qed.
Lemma fee_nonneg fm x :
  match fm with ZeroFee => True | PercentFee c t => 0 <= c /\ 0 <= t end -> 0 <= fee_total fm x.
Proof.
  destruct fm as [|c t]; simpl; intro H; [apply Qle_refl|].
  destruct H as [Hc Ht]. pose proof (Qabs_nonneg x) as A.
  apply Qle_trans with (0 * Qabs x + 0 * Qabs x); [ring_simplify; apply Qle_refl|].
  apply Qplus_le_compat; apply Qmult_le_compat_r; assumption.
Qed.
Lemma fee_symmetric fm x : fee_total fm (- x) == fee_total fm x.
Proof.
  destruct fm; simpl; [reflexivity|].
  assert (E : Qabs (- x) == Qabs x) by apply Qabs_opp. rewrite E. reflexivity.
Qed.

(** Python's round-half-even is odd-symmetric, so a buy and a sell of the same size have
    considerations of equal magnitude. *)
Lemma Qfloor_spec x f : Qfloor x = f <-> (inject_Z f <= x /\ x < inject_Z (f + 1)).
Proof.
  split.
  - intro; subst. split; [apply Qfloor_le|apply Qlt_floor].
  - intros [L U]. pose proof (Qfloor_le x) as L'. pose proof (Qlt_floor x) as U'.
    assert (A : (Qfloor x < f + 1)%Z).
    { rewrite Zlt_Qlt. eapply Qle_lt_trans; eauto. }
    assert (B : (f < Qfloor x + 1)%Z).
    { rewrite Zlt_Qlt. eapply Qle_lt_trans; eauto. }
    lia.
Qed.

Lemma round_he_opp x : round_he (- x) = (- round_he x)%Z.
Proof.
  unfold round_he.
  set (f := Qfloor x). pose proof (Qfloor_le x) as L. pose proof (Qlt_floor x) as U. fold f in L, U.
  rewrite inject_Z_plus in U. change (inject_Z 1) with 1 in U.
  destruct (Qeq_dec x (inject_Z f)) as [E|NE].
  - (* integer *)
    assert (F : Qfloor (- x) = (- f)%Z).
    { apply Qfloor_spec. rewrite inject_Z_plus, inject_Z_opp. change (inject_Z 1) with 1. rewrite E. split; lra. }
    rewrite F.
    assert (C1 : (x - inject_Z f ?= 1 # 2) = Lt) by (apply (proj1 (Qlt_alt _ _)); rewrite E; lra).
    assert (C2 : (- x - inject_Z (- f) ?= 1 # 2) = Lt) by (apply (proj1 (Qlt_alt _ _)); rewrite inject_Z_opp, E; lra).
    rewrite C1, C2. reflexivity.
  - assert (LT : inject_Z f < x) by (apply Qle_lteq in L; destruct L as [L|L]; [exact L| exfalso; apply NE; symmetry; exact L]).
    assert (F : Qfloor (- x) = (- f - 1)%Z).
    { apply Qfloor_spec. replace (- f - 1 + 1)%Z with (- f)%Z by lia.
      unfold Z.sub. rewrite inject_Z_plus, !inject_Z_opp. change (inject_Z 1) with 1. split; lra. }
    rewrite F.
    assert (IZ : inject_Z (- f - 1) == - inject_Z f - 1).
    { unfold Z.sub. rewrite inject_Z_plus, !inject_Z_opp. change (inject_Z 1) with 1. reflexivity. }
    destruct (x - inject_Z f ?= 1 # 2) eqn:C.
    + apply (proj2 (Qeq_alt _ _)) in C.
      assert (C2 : (- x - inject_Z (- f - 1) ?= 1 # 2) = Eq) by (apply (proj1 (Qeq_alt _ _)); rewrite IZ; lra).
      rewrite C2. replace (- f - 1)%Z with (- (f + 1))%Z by lia. rewrite Z.even_opp.
      rewrite Z.even_add. simpl. destruct (Z.even f); simpl; lia.
    + apply (proj2 (Qlt_alt _ _)) in C.
      assert (C2 : (- x - inject_Z (- f - 1) ?= 1 # 2) = Gt) by (apply (proj1 (Qgt_alt _ _)); rewrite IZ; lra).
      rewrite C2. lia.
    + apply (proj2 (Qgt_alt _ _)) in C.
      assert (C2 : (- x - inject_Z (- f - 1) ?= 1 # 2) = Lt) by (apply (proj1 (Qlt_alt _ _)); rewrite IZ; lra).
      rewrite C2. lia.
Qed.

Lemma commission_buy_sell_equal fm price q :
  fee_total fm (inject_Z (round_he (price * inject_Z (- q)))) ==
  fee_total fm (inject_Z (round_he (price * inject_Z q))).
Proof.
  assert (E : price * inject_Z (- q) == - (price * inject_Z q)) by (rewrite inject_Z_opp; ring).
  rewrite E, round_he_opp, inject_Z_opp. apply fee_symmetric.
Qed.

(** * The transaction an order becomes *)
Definition order_txn (bidask : Z -> string -> option (Q * Q)) (fee : fee_model) (t : Z) (o : order) : option txn :=
  match bidask t (o_asset o) with
  | None => None
  | Some (bid, ask) =>
      let q := inject_Z (o_qty o) in
      let price := if (0 <=? o_qty o)%Z then ask else bid in
      Some (mkTxn (o_asset o) q t price
                  (Qred (fee_total fee (inject_Z (round_he (price * q))))) (o_id o))
  end.

Section Fills.
  Variable bidask : Z -> string -> option (Q * Q).
  Variable midp : Z -> string -> option Q.
  Variable pre : bool.

  Lemma execute_keeps b p o b1 r e1 :
    execute bidask b p o = (b1, r, e1) -> b_dt b1 = b_dt b /\ b_fee b1 = b_fee b /\ b_next b1 = b_next b.
  Proof.
    unfold execute. destruct (bidask (b_dt b) (o_asset o)) as [[bid ask]|]; [|intro H; inversion H; auto].
    destruct (acct_find p (b_accts b)); [|intro H; inversion H; auto].
    match goal with |- context [pf_transact ?pf ?tx] => destruct (pf_transact pf tx) as [pf' [u|e]] end;
      intro H; inversion H; auto.
  Qed.

  (** one successful execution emits exactly the fill of that order, priced from the quote *)
  Lemma execute_ok_fill b p o b1 u e1 :
    execute bidask b p o = (b1, Ok u, e1) ->
    exists tx, order_txn bidask (b_fee b) (b_dt b) o = Some tx /\ e1 = [Fill p tx].
  Proof.
    unfold execute, order_txn. destruct (bidask (b_dt b) (o_asset o)) as [[bid ask]|]; [|intro H; inversion H].
    destruct (acct_find p (b_accts b)); [|intro H; inversion H].
    match goal with |- context [pf_transact ?pf ?tx] => destruct (pf_transact pf tx) as [pf' [u'|e]] end;
      intro H; inversion H; subst. eexists. split; reflexivity.
  Qed.
  Lemma execute_err_nofill b p o b1 e e1 :
    execute bidask b p o = (b1, Err e, e1) -> e1 = [].
  Proof.
    unfold execute. destruct (bidask (b_dt b) (o_asset o)) as [[bid ask]|]; [|intro H; inversion H; auto].
    destruct (acct_find p (b_accts b)); [|intro H; inversion H; auto].
    match goal with |- context [pf_transact ?pf ?tx] => destruct (pf_transact pf tx) as [pf' [u'|e']] end;
      intro H; inversion H; auto.
  Qed.

  (** the fills of a list of orders that all execute: one per order, in list order *)
  Fixpoint fills_of (fee : fee_model) (t : Z) (l : list (string * order)) : option (list effect) :=
    match l with
    | [] => Some []
    | (p, o) :: r =>
        match order_txn bidask fee t o, fills_of fee t r with
        | Some tx, Some fs => Some (Fill p tx :: fs)
        | _, _ => None
        end
    end.

  Lemma execute_all_ok l : forall b b1 u e1,
    execute_all bidask b l = (b1, Ok u, e1) ->
    fills_of (b_fee b) (b_dt b) l = Some e1.
  Proof.
    induction l as [|[p o] l IH]; intros b b1 u e1; simpl.
    - intro H; inversion H; reflexivity.
    - destruct (execute bidask b p o) as [[bx [u'|e]] ex] eqn:X; [|intro H; inversion H].
      destruct (execute_all bidask bx l) as [[b2 rr] e2] eqn:XA. intro H; inversion H; subst.
      destruct (execute_ok_fill _ _ _ _ _ _ X) as (tx & OT & EX). subst ex.
      destruct (execute_keeps _ _ _ _ _ _ X) as (D & F & _).
      specialize (IH _ _ _ _ XA). rewrite D, F in IH. rewrite OT, IH. reflexivity.
  Qed.

  (** every fill an update emits: stamped with the update time, priced at the ask (buy) or
      bid (sell) of the data handler's quote at that time, commission = fee model on the
      consideration rounded half-even to a whole unit *)
  Definition fill_ok (fee : fee_model) (t : Z) (e : effect) : Prop :=
    match e with
    | Fill _ tx =>
        t_dt tx = t /\
        exists bid ask, bidask t (t_asset tx) = Some (bid, ask) /\
          (0 < t_qty tx -> t_price tx = ask) /\ (t_qty tx < 0 -> t_price tx = bid) /\
          t_comm tx == fee_total fee (inject_Z (round_he (t_price tx * t_qty tx)))
    | _ => False
    end.

  Lemma order_txn_ok fee t o tx p : order_txn bidask fee t o = Some tx -> fill_ok fee t (Fill p tx).
  Proof.
    unfold order_txn. destruct (bidask t (o_asset o)) as [[bid ask]|] eqn:HQ; [|discriminate].
    intro H; inversion H; subst; clear H. simpl. split; [reflexivity|].
    exists bid, ask. split; [exact HQ|]. split; [|split].
    - intro P. destruct (0 <=? o_qty o)%Z eqn:E; [reflexivity|].
      apply Z.leb_gt in E. exfalso.
      assert (P' : (0 < o_qty o)%Z) by (rewrite Zlt_Qlt; exact P). lia.
    - intro N. destruct (0 <=? o_qty o)%Z eqn:E; [|reflexivity].
      apply Z.leb_le in E. exfalso.
      assert (N' : (o_qty o < 0)%Z) by (rewrite Zlt_Qlt; exact N). lia.
    - apply Qred_correct.
  Qed.

  Lemma execute_all_fills_ok l : forall b b1 r e1,
    execute_all bidask b l = (b1, r, e1) -> Forall (fill_ok (b_fee b) (b_dt b)) e1.
  Proof.
    induction l as [|[p o] l IH]; intros b b1 r e1; simpl.
    - intro H; inversion H; constructor.
    - destruct (execute bidask b p o) as [[bx [u'|e]] ex] eqn:X.
      + destruct (execute_all bidask bx l) as [[b2 rr] e2] eqn:XA. intro H; inversion H; subst.
        destruct (execute_ok_fill _ _ _ _ _ _ X) as (tx & OT & EX). subst ex.
        destruct (execute_keeps _ _ _ _ _ _ X) as (D & F & _).
        specialize (IH _ _ _ _ XA). rewrite D, F in IH. simpl. constructor; [|exact IH].
        eapply order_txn_ok; eauto.
      + intro H; inversion H; subst. rewrite (execute_err_nofill _ _ _ _ _ _ X). constructor.
  Qed.

  Theorem update_fills_ok b t b1 r e1 :
    update bidask midp pre b t = (b1, r, e1) -> Forall (fill_ok (b_fee b) t) e1.
  Proof.
    unfold update.
    destruct (pre && negb (forallb (fun pa => acct_clock_ok t (is_open t) (snd pa)) (b_accts b)));
      [intro H; inversion H; constructor|].
    destruct (mark_all midp (b_accts (set_now b t)) t) as [l1 [u|e]]; [|intro H; inversion H; constructor].
    destruct (is_open t); [|intro H; inversion H; constructor].
    intro H. apply execute_all_fills_ok in H. exact H.
  Qed.

  (** only a clock update can emit a fill *)
  Lemma step_fills_only_on_update b o b1 r e1 p tx :
    step bidask midp pre b o = (b1, r, e1) -> In (Fill p tx) e1 -> exists t, o = Update t.
  Proof.
    destruct o; simpl; try (eexists; reflexivity);
      repeat match goal with
             | |- context [if ?c then _ else _] => destruct c
             | |- context [match acct_find ?p ?l with _ => _ end] => destruct (acct_find p l)
             | |- context [match ?x with (_, _) => _ end] => destruct x as [? [?|?]]
             | |- context [match ?x with Some _ => _ | None => _ end] => destruct x
             end;
      intros H I; inversion H; subst; simpl in I; repeat (destruct I as [I|I]; try discriminate); try contradiction.
  Qed.
End Fills.
