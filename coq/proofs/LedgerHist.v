(** C01, second half: frames, account totals, and "the history is the ledger". *)
From Coq Require Import ZArith QArith Qround Qabs String Bool List Lia Lqa Morphisms Setoid.
From QS Require Import theories.Num theories.Position theories.Portfolio theories.Fees
  theories.Exchange theories.Broker proofs.QLemmas proofs.Ledger.
Import ListNotations.
Open Scope Q_scope.

Definition acct_hist (pid : string) (l : list (string * acct)) : list event :=
  match acct_find pid l with Some a => pf_hist (a_pf a) | None => [] end.
Definition hist_of (pid : string) (b : broker) : list event := acct_hist pid (b_accts b).

Definition txn_event (tx : txn) (bal : Q) : event :=
  if Z.eqb (sign1 (t_qty tx)) 1
  then mkEv (t_dt tx) ETxn true (t_asset tx) (t_qty tx) (round2 (fill_cost tx)) 0 (round2 bal)
  else mkEv (t_dt tx) ETxn false (t_asset tx) (t_qty tx) 0 (qneg (round2 (fill_cost tx))) (round2 bal).

(** The history the ledger dictates: one event per cash movement of [pid], amounts and
    running *true* balance rounded half-even to cents. *)
Fixpoint ledger_hist (pid : string) (es : list effect) (bal : Q) : list event :=
  match es with
  | [] => []
  | XferIn p a t :: r =>
      if String.eqb pid p then ev_sub t a (bal + a) :: ledger_hist pid r (bal + a)
      else ledger_hist pid r bal
  | XferOut p a t :: r =>
      if String.eqb pid p then ev_wd t a (bal - a) :: ledger_hist pid r (bal - a)
      else ledger_hist pid r bal
  | Fill p tx :: r =>
      if String.eqb pid p then txn_event tx (bal - fill_cost tx) :: ledger_hist pid r (bal - fill_cost tx)
      else ledger_hist pid r bal
  | _ :: r => ledger_hist pid r bal
  end.

Lemma ev_sub_proper t a x y : x == y -> ev_sub t a x = ev_sub t a y.
Proof. intro H. unfold ev_sub. rewrite (round2_proper _ _ H). reflexivity. Qed.
Lemma ev_wd_proper t a x y : x == y -> ev_wd t a x = ev_wd t a y.
Proof. intro H. unfold ev_wd. rewrite (round2_proper _ _ H). reflexivity. Qed.
Lemma txn_event_proper tx x y : x == y -> txn_event tx x = txn_event tx y.
Proof. intro H. unfold txn_event. rewrite (round2_proper _ _ H). reflexivity. Qed.

Lemma ledger_hist_proper pid es : forall x y, x == y -> ledger_hist pid es x = ledger_hist pid es y.
Proof.
  induction es as [|e es IH]; intros x y H; simpl; auto.
  destruct e; auto; destruct (String.eqb pid pid0); auto.
  - rewrite (ev_sub_proper t a (x + a) (y + a)) by (rewrite H; reflexivity).
    rewrite (IH (x + a) (y + a)) by (rewrite H; reflexivity). reflexivity.
  - rewrite (ev_wd_proper t a (x - a) (y - a)) by (rewrite H; reflexivity).
    rewrite (IH (x - a) (y - a)) by (rewrite H; reflexivity). reflexivity.
  - rewrite (txn_event_proper tx (x - fill_cost tx) (y - fill_cost tx)) by (rewrite H; reflexivity).
    rewrite (IH (x - fill_cost tx) (y - fill_cost tx)) by (rewrite H; reflexivity). reflexivity.
Qed.

Lemma ledger_hist_app pid e1 : forall e2 bal,
  ledger_hist pid (e1 ++ e2) bal =
  ledger_hist pid e1 bal ++ ledger_hist pid e2 (bal + xfer_sum pid e1 - fill_sum pid e1).
Proof.
  induction e1 as [|e e1 IH]; intros e2 bal; simpl.
  - apply ledger_hist_proper. ring.
  - destruct e; simpl; try (rewrite IH; apply f_equal; apply ledger_hist_proper; ring);
      (destruct (String.eqb pid pid0); simpl; rewrite IH;
       [apply f_equal; apply f_equal; apply ledger_hist_proper; ring
       |apply f_equal; apply ledger_hist_proper; ring]).
Qed.

Lemma acct_hist_set pid q a l :
  acct_hist pid (acct_set q a l) = if String.eqb pid q then pf_hist (a_pf a) else acct_hist pid l.
Proof.
  unfold acct_hist. destruct (String.eqb pid q) eqn:E.
  - apply String.eqb_eq in E. subst q. rewrite acct_find_set_same. reflexivity.
  - rewrite acct_find_set_other by assumption. reflexivity.
Qed.

Lemma pf_mark_hist pf a p t pf' r : pf_mark pf a p t = (pf', r) -> pf_hist pf' = pf_hist pf.
Proof.
  unfold pf_mark. destruct (pos_find a (pf_pos pf)); [|intro H; inversion H; reflexivity].
  destruct (qltb p 0); [intro H; inversion H; reflexivity|].
  destruct (t <? pf_dt pf)%Z; [intro H; inversion H; reflexivity|].
  destruct (pos_update_price p0 p t). intro H; inversion H; reflexivity.
Qed.

Lemma pf_transact_hist pf tx pf' r : pf_transact pf tx = (pf', r) ->
  match r with
  | Ok _ => pf_hist pf' = pf_hist pf ++ [txn_event tx (pf_cash pf - fill_cost tx)]
  | Err _ => pf_hist pf' = pf_hist pf
  end.
Proof.
  unfold pf_transact. destruct (t_dt tx <? pf_dt pf)%Z; [intro H; inversion H; reflexivity|].
  destruct (ph_transact (pf_pos pf) tx) as [ps [u|e]]; intro H; inversion H; subst; simpl; [|reflexivity].
  apply f_equal. unfold txn_event.
  assert (T : round2 (qadd (qmul (t_price tx) (t_qty tx)) (t_comm tx)) = round2 (fill_cost tx)).
  { apply round2_proper. unfold fill_cost. qn. reflexivity. }
  assert (B : round2 (qsub (pf_cash pf) (qadd (qmul (t_price tx) (t_qty tx)) (t_comm tx))) =
              round2 (pf_cash pf - fill_cost tx)).
  { apply round2_proper. unfold fill_cost. qn. reflexivity. }
  rewrite T, B. reflexivity.
Qed.

Section Hist.
  Variable bidask : Z -> string -> option (Q * Q).
  Variable midp : Z -> string -> option Q.
  Variable pre : bool.

  Lemma mark_assets_hist pf assets t pf' r :
    mark_assets midp pf assets t = (pf', r) -> pf_hist pf' = pf_hist pf.
  Proof.
    revert pf. induction assets as [|a l IH]; intros pf; simpl.
    - intro H; inversion H; reflexivity.
    - destruct (midp t a); [|intro H; inversion H; reflexivity].
      destruct (pf_mark pf a q t) as [pf1 [u|e]] eqn:M.
      + intro H. rewrite (IH _ H). eapply pf_mark_hist; eauto.
      + intro H; inversion H; subst. eapply pf_mark_hist; eauto.
  Qed.

  Lemma mark_all_hist l t l1 r pid :
    mark_all midp l t = (l1, r) -> acct_hist pid l1 = acct_hist pid l.
  Proof.
    revert l1 r. induction l as [|[k a] l IH]; intros l1 r; simpl.
    - intro H; inversion H; reflexivity.
    - destruct (mark_assets midp (a_pf a) (map fst (pf_pos (a_pf a))) t) as [pf1 [u|e]] eqn:M.
      + destruct (mark_all midp l t) as [r1 rr] eqn:MA. intro H; inversion H; subst.
        unfold acct_hist in *. simpl. destruct (String.eqb pid k).
        * simpl. eapply mark_assets_hist; eauto.
        * eapply IH; eauto.
      + intro H; inversion H; subst. unfold acct_hist. simpl. destruct (String.eqb pid k); auto.
        simpl. eapply mark_assets_hist; eauto.
  Qed.

  Lemma empty_queues_hist l pid : acct_hist pid (empty_queues l) = acct_hist pid l.
  Proof.
    unfold acct_hist. induction l as [|[k a] l IH]; simpl; auto.
    destruct (String.eqb pid k); auto.
  Qed.

  Lemma execute_hist b p o b1 r e1 pid :
    execute bidask b p o = (b1, r, e1) ->
    hist_of pid b1 = hist_of pid b ++ ledger_hist pid e1 (cash_of pid b).
  Proof.
    unfold execute.
    destruct (bidask (b_dt b) (o_asset o)) as [[bid ask]|]; [|intro H; inversion H; subst; simpl; rewrite app_nil_r; reflexivity].
    destruct (acct_find p (b_accts b)) as [a|] eqn:F; [|intro H; inversion H; subst; simpl; rewrite app_nil_r; reflexivity].
    match goal with |- context [pf_transact ?pf ?tx] => destruct (pf_transact pf tx) as [pf' [u|e]] eqn:T end;
      intro H; inversion H; subst; clear H; apply pf_transact_hist in T; simpl;
      unfold hist_of; simpl; rewrite acct_hist_set; destruct (String.eqb pid p) eqn:E; simpl;
      try (rewrite app_nil_r; reflexivity).
    - apply String.eqb_eq in E. subst p. unfold acct_hist, cash_of, acct_cash. rewrite F. rewrite T. reflexivity.
    - apply String.eqb_eq in E. subst p. unfold acct_hist. rewrite F. rewrite T, app_nil_r. reflexivity.
  Qed.

  Lemma execute_all_hist l : forall b b1 r e1 pid,
    execute_all bidask b l = (b1, r, e1) ->
    hist_of pid b1 = hist_of pid b ++ ledger_hist pid e1 (cash_of pid b).
  Proof.
    induction l as [|[p o] l IH]; intros b b1 r e1 pid; simpl.
    - intro H; inversion H; subst; simpl. rewrite app_nil_r. reflexivity.
    - destruct (execute bidask b p o) as [[bx [u|e]] ex] eqn:X.
      + destruct (execute_all bidask bx l) as [[b2 rr] e2] eqn:XA. intro H; inversion H; subst.
        rewrite (IH _ _ _ _ pid XA), (execute_hist _ _ _ _ _ _ pid X), ledger_hist_app, <- app_assoc.
        apply f_equal. apply f_equal. apply ledger_hist_proper.
        destruct (execute_ledger bidask _ _ _ _ _ _ pid X) as (A1 & A2 & A3 & A4 & A5).
        rewrite A2, A3. ring.
      + intro H; inversion H; subst. eapply execute_hist; eauto.
  Qed.

  Lemma update_hist b t b1 r e1 pid :
    update bidask midp pre b t = (b1, r, e1) ->
    hist_of pid b1 = hist_of pid b ++ ledger_hist pid e1 (cash_of pid b).
  Proof.
    unfold update.
    destruct (pre && negb (forallb (fun pa => acct_clock_ok t (is_open t) (snd pa)) (b_accts b))).
    { intro H; inversion H; subst; simpl. rewrite app_nil_r. reflexivity. }
    destruct (mark_all midp (b_accts (set_now b t)) t) as [l1 [u|e]] eqn:M.
    - destruct (is_open t).
      + intro H. rewrite (execute_all_hist _ _ _ _ _ pid H).
        unfold hist_of, cash_of. simpl. rewrite empty_queues_hist, empty_queues_cash.
        rewrite (mark_all_hist _ _ _ _ pid M), (mark_all_cash midp _ _ _ _ pid M). reflexivity.
      + intro H; inversion H; subst; simpl. unfold hist_of. simpl.
        rewrite (mark_all_hist _ _ _ _ pid M), app_nil_r. reflexivity.
    - intro H; inversion H; subst; simpl. unfold hist_of. simpl.
      rewrite (mark_all_hist _ _ _ _ pid M), app_nil_r. reflexivity.
  Qed.

  Lemma pf_subscribe_hist pf dt a pf' r : pf_subscribe pf dt a = (pf', r) ->
    match r with
    | Ok _ => pf_hist pf' = pf_hist pf ++ [ev_sub dt a (pf_cash pf + a)]
    | Err _ => pf_hist pf' = pf_hist pf
    end.
  Proof.
    unfold pf_subscribe. destruct (dt <? pf_dt pf)%Z; [intro H; inversion H; reflexivity|].
    destruct (qltb a 0); intro H; inversion H; subst; simpl; [reflexivity|].
    apply f_equal. rewrite (ev_sub_proper dt a _ (pf_cash pf + a)) by apply qadd_ok. reflexivity.
  Qed.
  Lemma pf_withdraw_hist pf dt a pf' r : pf_withdraw pf dt a = (pf', r) ->
    match r with
    | Ok _ => pf_hist pf' = pf_hist pf ++ [ev_wd dt a (pf_cash pf - a)]
    | Err _ => pf_hist pf' = pf_hist pf
    end.
  Proof.
    unfold pf_withdraw. destruct (dt <? pf_dt pf)%Z; [intro H; inversion H; reflexivity|].
    destruct (qltb a 0); [intro H; inversion H; reflexivity|].
    destruct (qltb (pf_cash pf) a); intro H; inversion H; subst; simpl; [reflexivity|].
    apply f_equal. rewrite (ev_wd_proper dt a _ (pf_cash pf - a)) by apply qsub_ok. reflexivity.
  Qed.

  Lemma step_hist b o b1 r e1 pid :
    step bidask midp pre b o = (b1, r, e1) ->
    hist_of pid b1 = hist_of pid b ++ ledger_hist pid e1 (cash_of pid b).
  Proof.
    destruct o; simpl.
    - destruct (qltb a 0); intro H; inversion H; subst; simpl; rewrite app_nil_r; reflexivity.
    - destruct (qltb a 0); [intro H; inversion H; subst; simpl; rewrite app_nil_r; reflexivity|].
      destruct (qltb (b_cash b) a); intro H; inversion H; subst; simpl; rewrite app_nil_r; reflexivity.
    - destruct (acct_find pid0 (b_accts b)) eqn:F; intro H; inversion H; subst; simpl; rewrite app_nil_r; [reflexivity|].
      unfold hist_of, acct_hist. simpl. rewrite acct_find_app_new by assumption.
      destruct (String.eqb pid pid0) eqn:E; [|reflexivity].
      apply String.eqb_eq in E. subst. rewrite F. reflexivity.
    - destruct (qltb a 0); [intro H; inversion H; subst; simpl; rewrite app_nil_r; reflexivity|].
      destruct (acct_find pid0 (b_accts b)) as [ac|] eqn:F; [|intro H; inversion H; subst; simpl; rewrite app_nil_r; reflexivity].
      destruct (qltb (b_cash b) a); [intro H; inversion H; subst; simpl; rewrite app_nil_r; reflexivity|].
      destruct (pf_subscribe (a_pf ac) (b_dt b) a) as [pf' [u|e]] eqn:S; intro H; inversion H; subst; clear H;
        apply pf_subscribe_hist in S; simpl; unfold hist_of; simpl; rewrite acct_hist_set;
        destruct (String.eqb pid pid0) eqn:E; simpl; try (rewrite app_nil_r; reflexivity).
      + apply String.eqb_eq in E. subst. unfold acct_hist, cash_of, acct_cash. rewrite F, S. reflexivity.
      + apply String.eqb_eq in E. subst. unfold acct_hist. rewrite F, S, app_nil_r. reflexivity.
    - destruct (qltb a 0); [intro H; inversion H; subst; simpl; rewrite app_nil_r; reflexivity|].
      destruct (acct_find pid0 (b_accts b)) as [ac|] eqn:F; [|intro H; inversion H; subst; simpl; rewrite app_nil_r; reflexivity].
      destruct (qltb (pf_cash (a_pf ac)) a); [intro H; inversion H; subst; simpl; rewrite app_nil_r; reflexivity|].
      destruct (pf_withdraw (a_pf ac) (b_dt b) a) as [pf' [u|e]] eqn:S; intro H; inversion H; subst; clear H;
        apply pf_withdraw_hist in S; simpl; unfold hist_of; simpl; rewrite acct_hist_set;
        destruct (String.eqb pid pid0) eqn:E; simpl; try (rewrite app_nil_r; reflexivity).
      + apply String.eqb_eq in E. subst. unfold acct_hist, cash_of, acct_cash. rewrite F, S. reflexivity.
      + apply String.eqb_eq in E. subst. unfold acct_hist. rewrite F, S, app_nil_r. reflexivity.
    - destruct (acct_find pid0 (b_accts b)) as [ac|] eqn:F; intro H; inversion H; subst; simpl; rewrite app_nil_r; [|reflexivity].
      unfold hist_of; simpl. rewrite acct_hist_set. destruct (String.eqb pid pid0) eqn:E; simpl; [|reflexivity].
      apply String.eqb_eq in E. subst. unfold acct_hist. rewrite F. reflexivity.
    - destruct (update bidask midp pre b t) as [[b' [u|e]] ef] eqn:U; intro H; inversion H; subst;
        apply (update_hist _ _ _ _ _ pid U).
    - destruct cur as [c|]; [match goal with |- (if ?x then _ else _) = _ -> _ => destruct x end|];
        intro H; inversion H; subst; simpl; rewrite app_nil_r; reflexivity.
    - intro H; inversion H; subst; simpl; rewrite app_nil_r; reflexivity.
    - intro H; inversion H; subst; simpl; rewrite app_nil_r; reflexivity.
    - destruct (acct_find pid0 (b_accts b)); intro H; inversion H; subst; simpl; rewrite app_nil_r; reflexivity.
    - destruct (acct_find pid0 (b_accts b)); intro H; inversion H; subst; simpl; rewrite app_nil_r; reflexivity.
    - destruct (acct_find pid0 (b_accts b)); intro H; inversion H; subst; simpl; rewrite app_nil_r; reflexivity.
  Qed.

  Lemma run_hist ops : forall b b1 rs es pid,
    run bidask midp pre b ops = (b1, rs, es) ->
    hist_of pid b1 = hist_of pid b ++ ledger_hist pid es (cash_of pid b).
  Proof.
    induction ops as [|o ops IH]; intros b b1 rs es pid; simpl.
    - intro H; inversion H; subst; simpl. rewrite app_nil_r. reflexivity.
    - destruct (step bidask midp pre b o) as [[bx r1] e1] eqn:S.
      destruct (run bidask midp pre bx ops) as [[b2 rs2] e2] eqn:R.
      intro H; inversion H; subst.
      rewrite (IH _ _ _ _ pid R), (step_hist _ _ _ _ _ pid S), ledger_hist_app, <- app_assoc.
      apply f_equal. apply f_equal. apply ledger_hist_proper.
      destruct (step_ledger bidask midp pre _ _ _ _ _ pid S) as [A1 A2]. rewrite A2. ring.
  Qed.

  (** * Frame: a step that records no cash movement leaves every balance untouched
        (Leibniz equality, not just [==]). *)
  Lemma execute_all_frame l : forall b b1 r,
    execute_all bidask b l = (b1, r, []) ->
    b_cash b1 = b_cash b /\ forall pid, cash_of pid b1 = cash_of pid b.
  Proof.
    induction l as [|[p o] l IH]; intros b b1 r; simpl.
    - intro H; inversion H; subst. split; reflexivity.
    - destruct (execute bidask b p o) as [[bx [u|e]] ex] eqn:X.
      + destruct (execute_all bidask bx l) as [[b2 rr] e2] eqn:XA.
        intro H; inversion H; subst. apply app_eq_nil in H3. destruct H3; subst.
        unfold execute in X.
        destruct (bidask (b_dt b) (o_asset o)) as [[bid ask]|]; [|inversion X].
        destruct (acct_find p (b_accts b)); [|inversion X].
        match type of X with context [pf_transact ?pf ?tx] => destruct (pf_transact pf tx) as [pf' [u'|e']] end; inversion X.
      + intro H; inversion H; subst. unfold execute in X.
        destruct (bidask (b_dt b) (o_asset o)) as [[bid ask]|]; [|inversion X; subst; split; reflexivity].
        destruct (acct_find p (b_accts b)) as [a|] eqn:F; [|inversion X; subst; split; reflexivity].
        match type of X with context [pf_transact ?pf ?tx] => destruct (pf_transact pf tx) as [pf' [u'|e']] eqn:T end;
          inversion X; subst. split; [reflexivity|]. intro pid.
        unfold cash_of. simpl. rewrite acct_cash_set. destruct (String.eqb pid p) eqn:E; [|reflexivity].
        apply String.eqb_eq in E. subst. unfold acct_cash. rewrite F.
        apply pf_transact_cash in T. exact T.
  Qed.

  Lemma step_frame b o b1 r :
    step bidask midp pre b o = (b1, r, []) ->
    b_cash b1 = b_cash b /\ forall pid, cash_of pid b1 = cash_of pid b.
  Proof.
    destruct o; simpl.
    - destruct (qltb a 0); intro H; inversion H; subst; split; reflexivity.
    - destruct (qltb a 0); [intro H; inversion H; subst; split; reflexivity|].
      destruct (qltb (b_cash b) a); intro H; inversion H; subst; split; reflexivity.
    - destruct (acct_find pid (b_accts b)) eqn:F; intro H; inversion H; subst; (split; [reflexivity|]); [reflexivity|].
      intro p. unfold cash_of, acct_cash. simpl. rewrite acct_find_app_new by assumption.
      destruct (String.eqb p pid) eqn:E; [|reflexivity].
      apply String.eqb_eq in E. subst. rewrite F. reflexivity.
    - destruct (qltb a 0); [intro H; inversion H; subst; split; reflexivity|].
      destruct (acct_find pid (b_accts b)) as [ac|] eqn:F; [|intro H; inversion H; subst; split; reflexivity].
      destruct (qltb (b_cash b) a); [intro H; inversion H; subst; split; reflexivity|].
      destruct (pf_subscribe (a_pf ac) (b_dt b) a) as [pf' [u|e]] eqn:S; intro H; inversion H; subst; clear H.
      split; [reflexivity|]. intro p. unfold cash_of; simpl. rewrite acct_cash_set.
      destruct (String.eqb p pid) eqn:E; [|reflexivity].
      apply String.eqb_eq in E. subst. unfold acct_cash. rewrite F. apply pf_subscribe_cash in S. exact S.
    - destruct (qltb a 0); [intro H; inversion H; subst; split; reflexivity|].
      destruct (acct_find pid (b_accts b)) as [ac|] eqn:F; [|intro H; inversion H; subst; split; reflexivity].
      destruct (qltb (pf_cash (a_pf ac)) a); [intro H; inversion H; subst; split; reflexivity|].
      destruct (pf_withdraw (a_pf ac) (b_dt b) a) as [pf' [u|e]] eqn:S; intro H; inversion H; subst; clear H.
      split; [reflexivity|]. intro p. unfold cash_of; simpl. rewrite acct_cash_set.
      destruct (String.eqb p pid) eqn:E; [|reflexivity].
      apply String.eqb_eq in E. subst. unfold acct_cash. rewrite F. apply pf_withdraw_cash in S. exact S.
    - destruct (acct_find pid (b_accts b)) as [ac|] eqn:F; intro H; inversion H; subst; (split; [reflexivity|]); [|reflexivity].
      intro p. unfold cash_of; simpl. rewrite acct_cash_set. destruct (String.eqb p pid) eqn:E; [|reflexivity].
      apply String.eqb_eq in E. subst. unfold acct_cash. rewrite F. reflexivity.
    - destruct (update bidask midp pre b t) as [[b' ru] ef] eqn:U.
      assert (FR : ef = [] -> b_cash b' = b_cash b /\ forall p, cash_of p b' = cash_of p b).
      { intro; subst ef. unfold update in U.
        destruct (pre && negb (forallb (fun pa => acct_clock_ok t (is_open t) (snd pa)) (b_accts b))).
        { inversion U; subst; split; reflexivity. }
        destruct (mark_all midp (b_accts (set_now b t)) t) as [l1 [u1|e1]] eqn:M.
        - destruct (is_open t).
          + apply execute_all_frame in U. destruct U as [U1 U2]. split; [exact U1|]. intro p. rewrite U2.
            unfold cash_of; simpl. rewrite empty_queues_cash. apply (mark_all_cash midp _ _ _ _ p M).
          + inversion U; subst. split; [reflexivity|]. intro p. unfold cash_of; simpl.
            apply (mark_all_cash midp _ _ _ _ p M).
        - inversion U; subst. split; [reflexivity|]. intro p. unfold cash_of; simpl.
          apply (mark_all_cash midp _ _ _ _ p M). }
      destruct ru; intro H; inversion H; subst; apply FR; reflexivity.
    - destruct cur as [c|]; [match goal with |- (if ?x then _ else _) = _ -> _ => destruct x end|];
        intro H; inversion H; subst; split; reflexivity.
    - intro H; inversion H; subst; split; reflexivity.
    - intro H; inversion H; subst; split; reflexivity.
    - destruct (acct_find pid (b_accts b)); intro H; inversion H; subst; split; reflexivity.
    - destruct (acct_find pid (b_accts b)); intro H; inversion H; subst; split; reflexivity.
    - destruct (acct_find pid (b_accts b)); intro H; inversion H; subst; split; reflexivity.
  Qed.

  (** * Account-level totals are always obtainable and are the sums of the per-portfolio figures *)
  Lemma account_totals b :
    step bidask midp pre b GetAcctTMV =
      (b, Ok (ODict (map (fun pa => (fst pa, pf_total_mv (a_pf (snd pa)))) (b_accts b) ++
                     [("master"%string, qsum (map (fun pa => pf_total_mv (a_pf (snd pa))) (b_accts b)))])), []) /\
    step bidask midp pre b GetAcctEquity =
      (b, Ok (ODict (map (fun pa => (fst pa, pf_total_equity (a_pf (snd pa)))) (b_accts b) ++
                     [("master"%string, qsum (map (fun pa => pf_total_equity (a_pf (snd pa))) (b_accts b)))])), []).
  Proof. simpl. rewrite !map_map. simpl. split; reflexivity. Qed.

  Lemma per_portfolio_getters b pid ac :
    acct_find pid (b_accts b) = Some ac ->
    step bidask midp pre b (GetPfTMV pid) = (b, Ok (ONum (pf_total_mv (a_pf ac))), []) /\
    step bidask midp pre b (GetPfEquity pid) = (b, Ok (ONum (pf_total_equity (a_pf ac))), []) /\
    step bidask midp pre b (GetPfCash pid) = (b, Ok (ONum (pf_cash (a_pf ac))), []) /\
    pf_total_equity (a_pf ac) == pf_total_mv (a_pf ac) + pf_cash (a_pf ac).
  Proof. intro F. simpl. rewrite F. repeat split; reflexivity. Qed.
End Hist.

(** * Statements from a freshly constructed broker *)
Section FromInit.
  Variable bidask : Z -> string -> option (Q * Q).
  Variable midp : Z -> string -> option Q.
  Variable pre : bool.

  Lemma init_empty start base funds fee b0 :
    broker_init start base funds fee = Ok b0 -> b_accts b0 = [] /\ b_cash b0 = funds.
  Proof.
    unfold broker_init. destruct (negb (existsb (String.eqb base) currencies)); [discriminate|].
    destruct (qltb funds 0); [discriminate|]. intro H; inversion H; subst. split; reflexivity.
  Qed.

  Lemma ledger_from_init start base funds fee b0 ops b1 rs es pid :
    broker_init start base funds fee = Ok b0 ->
    run bidask midp pre b0 ops = (b1, rs, es) ->
    cash_of pid b1 == xfer_sum pid es - fill_sum pid es /\
    b_cash b1 == funds + ext_sum es - xfer_all es.
  Proof.
    intros I R. destruct (init_empty _ _ _ _ _ I) as [E C].
    destruct (run_ledger bidask midp pre _ _ _ _ _ pid R) as [A B].
    split.
    - rewrite B. unfold cash_of, acct_cash. rewrite E. simpl. ring.
    - rewrite A, C. reflexivity.
  Qed.

  Lemma history_from_init start base funds fee b0 ops b1 rs es pid :
    broker_init start base funds fee = Ok b0 ->
    run bidask midp pre b0 ops = (b1, rs, es) ->
    hist_of pid b1 = ledger_hist pid es 0.
  Proof.
    intros I R. destruct (init_empty _ _ _ _ _ I) as [E C].
    rewrite (run_hist bidask midp pre _ _ _ _ _ pid R).
    unfold hist_of, acct_hist, cash_of, acct_cash. rewrite E. reflexivity.
  Qed.

  (** a transfer is zero-sum between exactly the two accounts involved *)
  Lemma transfer_zero_sum b pid a b1 r t :
    step bidask midp pre b (SubPf pid a) = (b1, r, [XferIn pid a t]) ->
    b_cash b1 == b_cash b - a /\ cash_of pid b1 == cash_of pid b + a /\
    forall q, String.eqb q pid = false -> cash_of q b1 == cash_of q b.
  Proof.
    intro S. split; [|split].
    - destruct (step_ledger _ _ _ _ _ _ _ _ pid S) as [A _]. rewrite A. simpl. ring.
    - destruct (step_ledger _ _ _ _ _ _ _ _ pid S) as [_ A]. rewrite A. simpl. rewrite String.eqb_refl. ring.
    - intros q N. destruct (step_ledger _ _ _ _ _ _ _ _ q S) as [_ A]. rewrite A. simpl. rewrite N. ring.
  Qed.
  Lemma transfer_back_zero_sum b pid a b1 r t :
    step bidask midp pre b (WdPf pid a) = (b1, r, [XferOut pid a t]) ->
    b_cash b1 == b_cash b + a /\ cash_of pid b1 == cash_of pid b - a /\
    forall q, String.eqb q pid = false -> cash_of q b1 == cash_of q b.
  Proof.
    intro S. split; [|split].
    - destruct (step_ledger _ _ _ _ _ _ _ _ pid S) as [A _]. rewrite A. simpl. ring.
    - destruct (step_ledger _ _ _ _ _ _ _ _ pid S) as [_ A]. rewrite A. simpl. rewrite String.eqb_refl. ring.
    - intros q N. destruct (step_ledger _ _ _ _ _ _ _ _ q S) as [_ A]. rewrite A. simpl. rewrite N. ring.
  Qed.
End FromInit.
