(** C08 refinement, part 5 (progress): a fixed-weight session over a market that quotes every asset
    of the universe and of the weight vector at a positive price at every clock instant never raises
    (long-only: with non-negative weights).  Together with [SpecRun.backtest_refines_spec] this makes
    the agreement with the rules simulator unconditional on such inputs. *)
From Coq Require Import ZArith QArith Qround Qabs String Bool List Lia Lqa Permutation Sorted.
From QS Require Import theories.Num theories.Position theories.Portfolio theories.Fees theories.Exchange
  theories.Broker theories.Calendar theories.Clock theories.Schedule theories.Sizer theories.PCM theories.Backtest theories.Spec
  proofs.QLemmas proofs.Ledger proofs.Holdings proofs.PcmProofs proofs.ClockProofs proofs.BacktestProofs
  proofs.SpecLists proofs.SpecSizing proofs.SpecBroker proofs.SpecRun.
Import ListNotations.
Open Scope Z_scope.

(** * Clocks of a portfolio, the assets it may touch, quotes *)
Definition stamped (T : Z) (pf : portfolio) : Prop :=
  pf_dt pf <= T /\ Forall (fun ap => p_dt (snd ap) <= T) (pf_pos pf).
Definition within (A : list string) (pf : portfolio) (q : list order) : Prop :=
  (forall a, In a (map fst (pf_pos pf)) -> In a A) /\ (forall o, In o q -> In (o_asset o) A).
Definition quoted (A : list string) (snap : snapshot) : Prop :=
  forall a, In a A -> exists p, snap_find a snap = Some p /\ (0 < p)%Q.
Definition Good (A : list string) (T : Z) (b : broker) : Prop :=
  exists pf q, b_accts b = [(pid, mkAcct pf q)] /\ stamped T pf /\ within A pf q.

Lemma stamped_mono T T' pf : T <= T' -> stamped T pf -> stamped T' pf.
Proof.
  intros L [H F]. split; [lia|]. rewrite Forall_forall in *. intros x I. specialize (F x I). lia.
Qed.

(** * Marking never fails on a quoted, correctly stamped portfolio *)
Lemma pf_mark_ok pf a p0 m t :
  pos_find a (pf_pos pf) = Some p0 -> (0 < m)%Q -> stamped t pf ->
  exists pf1, pf_mark pf a m t = (pf1, Ok tt) /\ stamped t pf1 /\ map fst (pf_pos pf1) = map fst (pf_pos pf).
Proof.
  intros F M [SD SP]. unfold pf_mark. rewrite F.
  assert (Q1 : qltb m 0 = false) by (apply qltb_ge; lra). rewrite Q1.
  assert (L1 : (t <? pf_dt pf) = false) by (apply Z.ltb_ge; lia). rewrite L1.
  assert (P0 : p_dt p0 <= t).
  { rewrite Forall_forall in SP. apply (SP (a, p0)). apply pos_find_in. exact F. }
  unfold pos_update_price.
  assert (L2 : (t <? p_dt p0) = false) by (apply Z.ltb_ge; lia). rewrite L2.
  assert (Q2 : qleb m 0 = false) by (apply qleb_gt; exact M). rewrite Q2.
  eexists. split; [reflexivity|]. cbn [pf_dt pf_pos]. split.
  - split; [exact SD|]. apply forall_pos_set; [exact SP|]. simpl. lia.
  - rewrite keys_set, F. reflexivity.
Qed.

Lemma mark_assets_ok snap t : forall assets pf,
  (forall a, In a assets -> In a (map fst (pf_pos pf))) ->
  (forall a, In a assets -> exists p, snap_find a snap = Some p /\ (0 < p)%Q) ->
  stamped t pf ->
  exists pf1, mark_assets (snap_mid snap) pf assets t = (pf1, Ok tt) /\ stamped t pf1 /\
              map fst (pf_pos pf1) = map fst (pf_pos pf).
Proof.
  induction assets as [|a r IH]; intros pf SUB QU ST; cbn [mark_assets].
  - exists pf. repeat split; try reflexivity; apply ST.
  - destruct (QU a (or_introl eq_refl)) as (m & SF & MP). unfold snap_mid at 1. rewrite SF.
    destruct (pos_find a (pf_pos pf)) as [p0|] eqn:F.
    2:{ apply pos_find_none_notin in F. exfalso. apply F. apply SUB. left; reflexivity. }
    destruct (pf_mark_ok pf a p0 m t F MP ST) as (pfx & M & STx & Kx). rewrite M.
    destruct (IH pfx) as (pf1 & M1 & ST1 & K1).
    + intros x I. rewrite Kx. apply SUB. right; exact I.
    + intros x I. apply QU. right; exact I.
    + exact STx.
    + exists pf1. split; [exact M1|]. split; [exact ST1|]. congruence.
Qed.

(** * Executing an order on a quoted asset never fails *)
Lemma pos_transact_ok p0 tx :
  p_dt p0 <= t_dt tx -> (0 < t_price tx)%Q ->
  exists p', pos_transact p0 tx = (p', Ok tt) /\ p_dt p' <= t_dt tx.
Proof.
  intros D P. unfold pos_transact. destruct (qty_ignored (t_qty tx)); [exists p0; split; [reflexivity|exact D]|].
  assert (Q2 : qleb (t_price tx) 0 = false) by (apply qleb_gt; exact P).
  destruct (qltb 0 (t_qty tx)); unfold pos_update_price; cbn [p_dt pos_buy pos_sell];
    (assert (L : (t_dt tx <? p_dt p0) = false) by (apply Z.ltb_ge; lia)); rewrite L, Q2;
    eexists; (split; [reflexivity|]); cbn; lia.
Qed.

Lemma execute_ok snap A b pf q0 o :
  b_accts b = [(pid, mkAcct pf q0)] -> stamped (b_dt b) pf -> within A pf q0 ->
  In (o_asset o) A -> quoted A snap ->
  exists b1 ef pf1, execute (snap_bidask snap) b pid o = (b1, Ok tt, ef) /\
    b_accts b1 = [(pid, mkAcct pf1 q0)] /\ b_dt b1 = b_dt b /\ stamped (b_dt b) pf1 /\ within A pf1 q0.
Proof.
  intros HA [SD SP] [WP WQ] IA QU. destruct (QU _ IA) as (p & SF & PP).
  unfold execute, snap_bidask. rewrite SF.
  assert (PR : (if 0 <=? o_qty o then p else p) = p) by (destruct (0 <=? o_qty o); reflexivity). rewrite PR.
  rewrite HA. cbn [acct_find]. change (String.eqb pid pid) with true. cbv iota. cbn [a_pf a_q].
  set (tx := mkTxn (o_asset o) (inject_Z (o_qty o)) (b_dt b) p _ (o_id o)).
  unfold pf_transact. assert (L : (t_dt tx <? pf_dt pf) = false) by (apply Z.ltb_ge; cbn; lia). rewrite L.
  assert (PH : exists ps, ph_transact (pf_pos pf) tx = (ps, Ok tt) /\
                 Forall (fun ap => p_dt (snd ap) <= b_dt b) ps /\ (forall a, In a (map fst ps) -> In a A)).
  { unfold ph_transact. cbn [t_asset tx]. destruct (pos_find (o_asset o) (pf_pos pf)) as [p0|] eqn:F.
    - assert (P0 : p_dt p0 <= t_dt tx).
      { rewrite Forall_forall in SP. apply (SP (o_asset o, p0)). apply pos_find_in. exact F. }
      destruct (pos_transact_ok p0 tx P0 PP) as (p' & PT & PD). rewrite PT.
      assert (KS : forall a, In a (map fst (pos_set (o_asset o) p' (pf_pos pf))) -> In a A).
      { intros a I. rewrite keys_set, F in I. apply WP. exact I. }
      destruct (qeqb (pos_net p') 0); eexists; (split; [reflexivity|]); split.
      + apply forall_pos_del. apply forall_pos_set; [exact SP|exact PD].
      + intros a I. apply KS. eapply keys_del_incl. exact I.
      + apply forall_pos_set; [exact SP|exact PD].
      + exact KS.
    - assert (KS : forall a, In a (map fst (pos_set (o_asset o) (pos_open tx) (pf_pos pf))) -> In a A).
      { intros a I. rewrite keys_set, F in I. apply in_app_iff in I. destruct I as [I|[I|[]]]; [apply WP; exact I|subst; exact IA]. }
      assert (OD : p_dt (pos_open tx) <= b_dt b) by (unfold pos_open; destruct (qltb 0 (t_qty tx)); cbn; lia).
      destruct (qeqb (pos_net (pos_open tx)) 0); eexists; (split; [reflexivity|]); split.
      + apply forall_pos_del. apply forall_pos_set; [exact SP|exact OD].
      + intros a I. apply KS. eapply keys_del_incl. exact I.
      + apply forall_pos_set; [exact SP|exact OD].
      + exact KS. }
  destruct PH as (ps & PH & FS & KS). rewrite PH.
  eexists. eexists. eexists. split; [reflexivity|]. cbn [b_accts set_accts acct_set b_dt].
  change (String.eqb pid pid) with true. cbv iota. split; [reflexivity|]. split; [reflexivity|].
  split; [split; [cbn; lia|exact FS]|]. split; [exact KS|exact WQ].
Qed.

Lemma execute_all_ok snap A : forall os b pf q0,
  b_accts b = [(pid, mkAcct pf q0)] -> stamped (b_dt b) pf -> within A pf q0 ->
  (forall o, In o os -> In (o_asset o) A) -> quoted A snap ->
  exists b1 ef pf1, execute_all (snap_bidask snap) b (map (fun o => (pid, o)) os) = (b1, Ok tt, ef) /\
    b_accts b1 = [(pid, mkAcct pf1 q0)] /\ b_dt b1 = b_dt b /\ stamped (b_dt b) pf1 /\ within A pf1 q0.
Proof.
  induction os as [|o r IH]; intros b pf q0 HA ST WI IA QU; cbn [map execute_all].
  - exists b, [], pf. repeat split; try reflexivity; try apply ST; try apply WI. exact HA.
  - destruct (execute_ok snap A b pf q0 o HA ST WI (IA o (or_introl eq_refl)) QU) as (bx & ex & pfx & X & HAx & Dx & STx & WIx).
    rewrite X. rewrite <- Dx in STx.
    destruct (IH bx pfx q0 HAx STx WIx (fun o' I => IA o' (or_intror I)) QU) as (b1 & e1 & pf1 & X1 & HA1 & D1 & ST1 & WI1).
    rewrite X1. exists b1, (ex ++ e1), pf1. split; [reflexivity|]. split; [exact HA1|]. split; [congruence|].
    rewrite <- Dx. split; assumption.
Qed.

(** * A clock update never fails *)
Lemma clock_ok_of_stamped t opn pf q : stamped t pf -> acct_clock_ok t opn (mkAcct pf q) = true.
Proof.
  intros [SD SP]. unfold acct_clock_ok. cbn [a_pf a_q]. apply andb_true_iff. split.
  - assert (L : (pf_dt pf <=? t) = true) by (apply Z.leb_le; exact SD).
    destruct (pf_pos pf); [destruct (opn && negb match q with [] => true | _ => false end)|]; auto.
  - apply forallb_forall. intros x I. rewrite Forall_forall in SP. apply Z.leb_le. apply SP. exact I.
Qed.

Lemma update_ok snap A T b t :
  Good A T b -> T <= t -> quoted A snap ->
  exists b1 ef, update (snap_bidask snap) (snap_mid snap) true b t = (b1, Ok tt, ef) /\ b_dt b1 = t /\
    exists pf q pf1, b_accts b = [(pid, mkAcct pf q)] /\
                     b_accts b1 = [(pid, mkAcct pf1 (if is_open t then [] else q))] /\ stamped t pf1 /\
                     within A pf1 (if is_open t then [] else q).
Proof.
  intros (pf & q & HA & ST & [WP WQ]) LE QU. apply (stamped_mono _ _ _ LE) in ST.
  unfold update. rewrite HA. cbn [forallb snd]. rewrite (clock_ok_of_stamped t (is_open t) pf q ST). cbn [andb negb].
  cbn [set_now b_accts mark_all a_pf a_q]. rewrite HA. cbn [mark_all a_pf a_q].
  destruct (mark_assets_ok snap t (map fst (pf_pos pf)) pf (fun a I => I) (fun a I => QU a (WP a I)) ST) as (pf1 & M & ST1 & K1).
  rewrite M.
  destruct (is_open t) eqn:OP.
  - cbn [drained empty_queues flat_map map fst snd a_q a_pf]. rewrite app_nil_r.
    unfold sells_first.
    assert (S1 : filter is_sell (map (fun o => (pid, o)) q) = map (fun o => (pid, o)) (filter (fun o => o_qty o <? 0) q))
      by (rewrite filter_map_comm; reflexivity).
    assert (S2 : filter (fun po => negb (is_sell po)) (map (fun o => (pid, o)) q) =
                 map (fun o => (pid, o)) (filter (fun o => negb (o_qty o <? 0)) q)) by (rewrite filter_map_comm; reflexivity).
    rewrite S1, S2, <- map_app.
    set (bq := set_accts (set_now b t) [(pid, {| a_pf := pf1; a_q := [] |})]).
    assert (WI1 : within A pf1 []) by (split; [intros a I; apply WP; rewrite <- K1; exact I|intros o []]).
    destruct (execute_all_ok snap A (filter (fun o => o_qty o <? 0) q ++ filter (fun o => negb (o_qty o <? 0)) q) bq pf1 []
                eq_refl ST1 WI1) as (b1 & ef & pf2 & X & HA2 & D2 & ST2 & WI2).
    { intros o I. apply WQ. apply in_app_iff in I. destruct I as [I|I]; apply filter_In in I; tauto. }
    { exact QU. }
    exists b1, ef. split; [exact X|]. split; [exact D2|]. exists pf, q, pf2.
    split; [reflexivity|]. split; [exact HA2|]. split; [exact ST2|exact WI2].
  - eexists. eexists. split; [reflexivity|]. split; [reflexivity|]. exists pf, q, pf1.
    split; [reflexivity|]. split; [reflexivity|]. split; [exact ST1|].
    split; [intros a I; apply WP; rewrite <- K1; exact I|exact WQ].
Qed.

(** * The sizers never fail on quoted assets and acceptable weights *)
Lemma size_all_ok f price (l : weights) :
  (forall a, In a (map fst l) -> exists p, price a = Some p) ->
  exists t, size_all f price l = Ok t /\ map fst t = map fst l.
Proof.
  induction l as [|[a x] r IH]; intro H; cbn [size_all].
  - exists []. split; reflexivity.
  - destruct (H a (or_introl eq_refl)) as [p P]. rewrite P.
    destruct IH as (t & T & K); [intros b I; apply H; right; exact I|].
    rewrite T. eexists. split; [reflexivity|]. cbn [map fst]. rewrite K. reflexivity.
Qed.

Lemma w_find_some_in a x (w : weights) : w_find a w = Some x -> In (a, x) w.
Proof.
  induction w as [|[b y] r IH]; cbn [w_find]; [discriminate|].
  destruct (String.eqb a b) eqn:E; intro H.
  - apply String.eqb_eq in E. inversion H; subst. left; reflexivity.
  - right. apply IH. exact H.
Qed.

Lemma sort_keys_perm {A} (l : list (string * A)) : Permutation (map fst (sort_by_key l)) (map fst l).
Proof. apply Permutation_map. apply sort_perm. Qed.

Lemma orders_keys target cur a : In a (map fst (rebalance_orders target cur)) -> In a (map fst target).
Proof.
  intro I. apply in_map_iff in I. destruct I as ([b q] & E & I). simpl in E. subst b.
  unfold rebalance_orders in I. apply filter_In in I. destruct I as [I _].
  apply (Permutation_in _ (sort_perm _)) in I. apply in_map_iff in I. destruct I as ([c z] & E & I).
  inversion E; subst. apply in_map_iff. exists (a, z). split; [reflexivity|exact I].
Qed.

Section Sizer.
  Variable cfg : config.
  Variable w : weights.
  Variable u : list string.
  Hypothesis NDW : NoDup (map fst w).
  Hypothesis NONNEG : c_long_only cfg = true -> Forall (fun aw => (0 <= snd aw)%Q) w.

  Lemma wt_nonneg a : c_long_only cfg = true -> (0 <= wt w a)%Q.
  Proof.
    intro LO. unfold wt. destruct (w_find a w) as [x|] eqn:F; [|lra].
    apply w_find_some_in in F. pose proof (NONNEG LO) as NN. rewrite Forall_forall in NN. apply (NN (a, x) F).
  Qed.

  Lemma sizer_ok snap b A :
    (forall a, In a (map fst (held_of b)) -> In a A) -> (forall a, In a u -> In a A) -> (forall a, In a (map fst w) -> In a A) ->
    quoted A snap ->
    exists target,
      sizer_of cfg b snap (merge_weights (map (fun a => (a, 0%Q)) (full_assets (map fst (held_of b)) u)) w) = Ok target /\
      (forall a, In a (map fst target) -> In a A).
  Proof.
    intros HH HU HW QU.
    destruct (merged_weights_repr (map fst (held_of b)) u w NDW) as (NDK & REPR & KEYS).
    set (fw := merge_weights (map (fun a => (a, 0%Q)) (full_assets (map fst (held_of b)) u)) w) in *.
    assert (KA : forall a, In a (map fst fw) -> In a A).
    { intros a I. apply KEYS in I. destruct I as [I|[I|I]]; auto. }
    assert (PRICES : forall l : weights, (forall a, In a (map fst l) -> In a (map fst fw)) ->
                     forall a, In a (map fst l) -> exists p, (fun a0 => snap_find a0 snap) a = Some p).
    { intros l SUB a I. destruct (QU a (KA a (SUB a I))) as (p & P & _). exists p. exact P. }
    assert (WN := wt_nonneg). unfold sizer_of. destruct (c_long_only cfg) eqn:LO.
    - unfold lo_size. destruct fw as [|x0 r0] eqn:EF; [exists []; split; [reflexivity|intros a []]|]. rewrite <- EF in *.
      unfold lo_normalise.
      assert (NEG : existsb (fun aw => qltb (snd aw) 0) fw = false).
      { rewrite REPR. rewrite existsb_map. cbn [snd].
        destruct (existsb (fun x => qltb (wt w x) 0) (map fst fw)) eqn:E; [|reflexivity].
        apply existsb_exists in E. destruct E as (a & _ & Q). apply qltb_lt in Q.
        assert (N := WN a eq_refl). lra. }
      rewrite NEG.
      assert (G : forall nw : weights, map fst nw = map fst fw ->
                  exists target, size_all (lo_qty (equity_of b * (1 - c_param cfg)) (c_fee cfg)) (fun a => snap_find a snap) (sort_by_key nw) = Ok target /\
                                 (forall a, In a (map fst target) -> In a A)).
      { intros nw K. destruct (size_all_ok (lo_qty (equity_of b * (1 - c_param cfg)) (c_fee cfg)) (fun a => snap_find a snap) (sort_by_key nw))
          as (t & T & TK).
        - apply PRICES. intros a I. apply (Permutation_in _ (sort_keys_perm nw)) in I. rewrite K in I. exact I.
        - exists t. split; [exact T|]. intros a I. rewrite TK in I. apply (Permutation_in _ (sort_keys_perm nw)) in I.
          rewrite K in I. apply KA. exact I. }
      destruct (isclose0 (qsum (map snd fw))); apply G; [reflexivity|]. rewrite map_map. reflexivity.
    - unfold ls_size. destruct fw as [|x0 r0] eqn:EF; [exists []; split; [reflexivity|intros a []]|]. rewrite <- EF in *.
      assert (K : map fst (ls_normalise (c_param cfg) fw) = map fst fw).
      { unfold ls_normalise. destruct (isclose0 _); [reflexivity|]. rewrite map_map. reflexivity. }
      destruct (size_all_ok (ls_qty (equity_of b) (c_fee cfg)) (fun a => snap_find a snap) (sort_by_key (ls_normalise (c_param cfg) fw)))
        as (t & T & TK).
      + apply PRICES. intros a I. apply (Permutation_in _ (sort_keys_perm _)) in I. rewrite K in I. exact I.
      + exists t. split; [exact T|]. intros a I. rewrite TK in I. apply (Permutation_in _ (sort_keys_perm _)) in I.
        rewrite K in I. apply KA. exact I.
  Qed.
End Sizer.

(** * Submitting orders for quoted assets never fails *)
Lemma submit_each_ok snap A t : quoted A snap -> forall os b,
  Good A t b -> (forall o, In o os -> In (fst o) A) ->
  exists b' ef, submit_each snap b t os = (b', ef, None) /\ Good A t b'.
Proof.
  intros QU. induction os as [|[a q] r IH]; intros b G IA; cbn [submit_each].
  - exists b, []. split; [reflexivity|exact G].
  - destruct G as (pf & q0 & HA & ST & [WP WQ]).
    cbn [step]. rewrite HA. cbn [acct_find]. change (String.eqb pid pid) with true. cbv iota.
    cbn [a_pf a_q acct_set]. change (String.eqb pid pid) with true. cbv iota.
    set (b1 := mkBr (b_dt b) (b_base b) (b_cash b) (b_fee b) [(pid, mkAcct pf (q0 ++ [mkOrd (b_next b) a q]))] (b_next b + 1)).
    assert (G1 : Good A t b1).
    { exists pf, (q0 ++ [mkOrd (b_next b) a q]). split; [reflexivity|]. split; [exact ST|]. split; [exact WP|].
      intros o I. apply in_app_iff in I. destruct I as [I|[I|[]]]; [apply WQ; exact I|]. subst o. cbn [o_asset].
      apply (IA (a, q)). left; reflexivity. }
    destruct (update_ok snap A t b1 t G1 (Z.le_refl t) QU) as (b2 & ef & X & D2 & pf1 & q1 & pf2 & HA1 & HA2 & ST2 & WI2).
    rewrite X.
    assert (G2 : Good A t b2) by (eexists; eexists; split; [exact HA2|]; split; assumption).
    destruct (IH b2 G2 (fun o I => IA o (or_intror I))) as (b3 & ef3 & X3 & G3).
    rewrite X3. exists b3, (ef ++ ef3). split; [reflexivity|exact G3].
Qed.

(** * An event never fails; the whole run carries no error *)
Section Run.
  Variable cfg : config.
  Variable w : weights.
  Variable u : list string.
  Variable sched : list Z.
  Hypothesis ALPHA : c_alpha cfg = AFixed w.
  Hypothesis UNIV : c_univ cfg = StaticU u.
  Hypothesis LB : c_lookbacks cfg = None.
  Hypothesis NDW : NoDup (map fst w).
  Hypothesis NONNEG : c_long_only cfg = true -> Forall (fun aw => (0 <= snd aw)%Q) w.

  Let A := (u ++ map fst w)%list.

  Lemma event_step_ok s T t k snap :
    Good A T (ss_broker s) -> T <= t -> quoted A snap ->
    exists s' outs, event_step cfg sched s t k snap = (s', outs, None) /\ Good A t (ss_broker s').
  Proof.
    intros G LE QU. unfold event_step. cbn [step].
    destruct (update_ok snap A T (ss_broker s) t G LE QU) as (b1 & ef & X & D1 & pf0 & q0 & pf1 & HA0 & HA1 & ST1 & WI1).
    rewrite X.
    assert (G1 : Good A t b1) by (eexists; eexists; split; [exact HA1|]; split; assumption).
    assert (SIG : (match k with MarketClose => signals_update cfg (ss_sig s) t snap | _ => Ok (ss_sig s) end) = Ok (ss_sig s)).
    { destruct k; try reflexivity. unfold signals_update. rewrite LB. reflexivity. }
    rewrite SIG. cbv beta zeta iota.
    destruct (burn_ok cfg t && existsb (Z.eqb t) sched).
    - unfold alpha_eval. rewrite ALPHA, UNIV. cbn [universe_assets].
      assert (HH : forall a, In a (map fst (held_of b1)) -> In a A).
      { intros a I. unfold held_of in I. rewrite HA1 in I. cbn [acct_find] in I. change (String.eqb pid pid) with true in I.
        cbv iota in I. cbn [a_pf] in I. rewrite map_map in I. cbn [fst] in I. apply WI1. exact I. }
      destruct (sizer_ok cfg w u NDW NONNEG snap b1 A HH) as (target & SZ & TK).
      { intros a I. unfold A. apply in_app_iff. left; exact I. }
      { intros a I. unfold A. apply in_app_iff. right; exact I. }
      { exact QU. }
      rewrite SZ.
      destruct (submit_each_ok snap A t QU (rebalance_orders target (held_of b1)) b1 G1) as (b2 & ef2 & X2 & G2).
      { intros o I. apply TK. apply (orders_keys target (held_of b1)). apply in_map. exact I. }
      rewrite X2. eexists. eexists. split; [reflexivity|exact G2].
    - eexists. eexists. split; [reflexivity|exact G1].
  Qed.
End Run.

Lemma init_good cfg s evs sched A :
  session_init cfg = Ok (s, evs, sched) ->
  Good A (c_start cfg) (ss_broker s) /\
  evs = flat_map (day_events false false) (bdays (c_start cfg) (c_end cfg)).
Proof.
  unfold session_init, broker_init.
  change (negb (existsb (String.eqb "USD") currencies)) with false. cbv iota.
  destruct (qltb (c_cash cfg) 0) eqn:NEG; [discriminate|].
  cbn -[qltb qadd qsub Z.ltb String.eqb pid sim_events schedule_of lo_check_buffer ls_check_leverage sig_init].
  change (String.eqb pid pid) with true. cbv iota.
  rewrite NEG.
  cbn -[qltb qadd qsub Z.ltb String.eqb pid sim_events schedule_of lo_check_buffer ls_check_leverage sig_init].
  destruct (qltb (c_cash cfg) (c_cash cfg)) eqn:OD; [discriminate|].
  unfold pf_subscribe, pf_init.
  cbn -[qltb qadd qsub Z.ltb String.eqb pid sim_events schedule_of lo_check_buffer ls_check_leverage sig_init].
  rewrite Z.ltb_irrefl, NEG.
  cbn -[qltb qadd qsub Z.ltb String.eqb pid sim_events schedule_of lo_check_buffer ls_check_leverage sig_init].
  change (String.eqb pid pid) with true. cbv iota.
  unfold sim_events. destruct (c_end cfg <? c_start cfg); [discriminate|].
  destruct (schedule_of cfg) as [sc|e]; [|discriminate].
  destruct (if c_long_only cfg then lo_check_buffer (c_param cfg) else ls_check_leverage (c_param cfg)); [|discriminate].
  intro X; inversion X; subst; clear X. split; [|reflexivity].
  eexists. exists []. cbn [ss_broker b_accts set_cash set_accts]. split; [reflexivity|].
  split; [split; [cbn; lia|constructor]|]. split; [intros x0 []|intros o0 []].
Qed.

Section Whole.
  Variable cfg : config.
  Variable w : weights.
  Variable u : list string.
  Hypothesis ALPHA : c_alpha cfg = AFixed w.
  Hypothesis UNIV : c_univ cfg = StaticU u.
  Hypothesis LB : c_lookbacks cfg = None.
  Hypothesis NDW : NoDup (map fst w).
  Hypothesis NONNEG : c_long_only cfg = true -> Forall (fun aw => (0 <= snd aw)%Q) w.

  Lemma run_from_noerr sched market : forall evs s T,
    Good (u ++ map fst w) T (ss_broker s) ->
    StronglySorted Z.lt (map fst evs) -> Forall (fun e => T <= fst e) evs ->
    (forall e, In e evs -> quoted (u ++ map fst w) (market (fst e))) ->
    tr_noerr (run_from cfg sched market s evs).
  Proof.
    induction evs as [|[t k] r IH]; intros s T G SS GE QU; cbn [run_from]; [constructor|].
    inversion GE as [|? ? Ht Hr]; subst. cbn [fst] in Ht.
    cbn [map fst] in SS. inversion SS as [|? ? SS' F]; subst.
    destruct (event_step_ok cfg w u sched ALPHA UNIV LB NDW NONNEG s T t k (market t) G Ht (QU (t, k) (or_introl eq_refl)))
      as (s' & outs & X & G').
    rewrite X. apply noerr_app. split.
    - destruct (event_step_shape _ _ _ _ _ _ _ _ X) as (_ & _ & NE). unfold tr_noerr. rewrite Forall_map. cbn [snd]. exact NE.
    - apply (IH s' t G' SS').
      + apply Forall_forall. intros e I. rewrite Forall_forall in F. assert (L : t < fst e) by (apply F; apply in_map; exact I). lia.
      + intros e I. apply QU. right; exact I.
  Qed.

  Theorem session_never_raises market tr :
    tod (c_start cfg) <= 52200 ->
    (forall t k, In (t, k) (flat_map (day_events false false) (bdays (c_start cfg) (c_end cfg))) ->
                 quoted (u ++ map fst w) (market t)) ->
    run cfg market = Ok tr -> tr_noerr tr.
  Proof.
    intros TOD QU. unfold run. destruct (session_init cfg) as [[[s0 evs] sched]|e] eqn:SI; [|discriminate].
    intro X; inversion X; subst tr; clear X.
    destruct (init_good cfg s0 evs sched (u ++ map fst w) SI) as [G EVS]. subst evs.
    apply (run_from_noerr sched market _ s0 (c_start cfg) G).
    - apply flat_events_sorted. apply bdays_sorted.
    - apply Forall_forall. intros [t k] I. cbn [fst]. apply in_events in I. destruct I as (d & ID & H).
      apply in_bdays in ID. destruct ID as ([D0 _] & _ & _).
      assert (S0 : c_start cfg = day (c_start cfg) * 86400 + tod (c_start cfg)).
      { unfold day, tod. rewrite Z.mul_comm. apply Z.div_mod. lia. }
      destruct H as [(P & _)|[(E & _)|[(E & _)|(P & _)]]]; try discriminate; subst t; lia.
    - intros [t k] I. apply (QU t k). exact I.
  Qed.
End Whole.

(** * Refinement without the no-error premise *)
Theorem backtest_refines_spec_quoted cfg w u market tr :
  c_alpha cfg = AFixed w -> c_univ cfg = StaticU u -> c_lookbacks cfg = None -> NoDup (map fst w) ->
  (c_long_only cfg = true -> Forall (fun aw => (0 <= snd aw)%Q) w) ->
  tod (c_start cfg) <= 52200 ->
  (forall t k, In (t, k) (flat_map (day_events false false) (bdays (c_start cfg) (c_end cfg))) ->
               quoted (u ++ map fst w) (market t)) ->
  run cfg market = Ok tr ->
  tr_noerr tr /\
  exists sched s_end st days,
    schedule_of cfg = Ok sched /\ end_state cfg market = Some s_end /\
    spec_run (spec_of cfg w u sched) market = Some (st, days) /\
    tr_fills tr = spec_fills days /\
    Forall2 same_equity (tr_equity tr) (spec_equity days) /\
    (cash_of pid (ss_broker s_end) == st_cash st)%Q /\
    held_of (ss_broker s_end) = st_hold st /\
    pending_of (ss_broker s_end) = st_pending st.
Proof.
  intros ALPHA UNIV LB NDW NONNEG TOD QU RUN.
  assert (NE : tr_noerr tr) by (eapply session_never_raises; eauto).
  split; [exact NE|]. eapply backtest_refines_spec; eauto.
Qed.
